//go:build verif

// Package vfc10gen is the reflective generator of Kafka request bodies shared by the C10
// (request decoding) and C11 (advertised versions are served) checks. It fills the kmsg
// request struct of any API key with values drawn from rapid generators: strings
// (empty / unicode / from a pool of known names), nullable fields, arrays of 0-3
// elements (nil vs empty), nested structs, record batches. Every choice is a rapid draw.
package vfc10gen

import (
	"encoding/binary"
	"fmt"
	"hash/crc32"
	"reflect"
	"strings"

	"github.com/twmb/franz-go/pkg/kmsg"
	"pgregory.net/rapid"
)

// Env steers value generation.
type Env struct {
	// Bounded keeps every number inside a range that a broker can serve cheaply
	// (partition indexes 0..3, waits of a few ms, small counts). Unbounded draws edge
	// values of the full integer range (only for pure decoding checks).
	Bounded bool
	Topics  []string   // names to prefer for fields called Topic/Topics/ResourceName
	IDs     [][16]byte // topic ids to prefer
	Groups  []string
	Members []string
	// HostileGroupMetadata: JoinGroup protocol metadata (consumer subscription bytes) is also
	// drawn from hostile classes (huge / negative-looking topic counts, counts larger than the
	// bytes present, truncated name lengths, empty or 1-5 byte blobs). Only for legs that run
	// under a memory cap with crash_is_violation.
	HostileGroupMetadata bool
	// HostileCounts: count-like request numbers a handler might size an allocation from
	// (ListOffsets v0 MaxNumOffsets: {negative, 0, 1, 2^25, 2^30, MaxInt32}; CreateTopics
	// NumPartitions / CreatePartitions Count: 2^28 .. 2^31-1) are drawn from hostile values as well. Only for legs that run under a memory cap with crash_is_violation.
	HostileCounts bool
	// HostilePartitionIndex: one partition index in eight is 2^28 .. 2^31-1.
	HostilePartitionIndex bool
	// MaxArray is the largest array length drawn (default 3).
	MaxArray int
}

// Shape summarises what was generated (for statistics / non-triviality).
type Shape struct {
	NonEmptyArrays int
	NilArrays      int
	EmptyArrays    int
	NullStrings    int
	Unicode        int
	Tags           int
	Records        string
	Depth          int
	// Odd counts topic / group / member / config names that are not ordinary names (empty,
	// unicode, control characters, random); IDs counts non-zero topic ids.
	Odd int
	IDs int
	parts          []string
}

func (s *Shape) String() string { return strings.Join(s.parts, ",") }

func (s *Shape) add(p string) {
	if len(s.parts) < 48 {
		s.parts = append(s.parts, p)
	}
}

var (
	tagsType  = reflect.TypeOf(kmsg.Tags{})
	bytesType = reflect.TypeOf([]byte(nil))
	uuidType  = reflect.TypeOf([16]byte{})
)

// FlexibleFrom is the first flexible (KIP-482) version of the request of each API key the
// broker serves, transcribed from the Apache Kafka protocol message definitions
// ("flexibleVersions" of the *Request.json files), independent of kmsg.
var FlexibleFrom = map[int16]int16{
	0: 9, 1: 12, 2: 6, 3: 9, 8: 8, 9: 6, 10: 3, 11: 6, 12: 4, 13: 4, 14: 4, 15: 5, 16: 3,
	18: 3, 19: 5, 20: 4, 23: 4, 32: 4, 33: 2, 37: 2, 42: 2,
}

// IsFlexible reports flexibility per the table above (ok=false: key not in the table).
func IsFlexible(key, version int16) (flexible, ok bool) {
	f, ok := FlexibleFrom[key]
	return ok && version >= f, ok
}

// Pick chooses an index in [0,n) without rapid's bias towards small values (the draw is a
// rapid draw, so it is replayable; it is hashed so that every index is equally likely).
func Pick(t *rapid.T, label string, n int) int {
	u := rapid.Uint64().Draw(t, label)
	u += 0x9e3779b97f4a7c15
	u = (u ^ (u >> 30)) * 0xbf58476d1ce4e5b9
	u = (u ^ (u >> 27)) * 0x94d049bb133111eb
	u ^= u >> 31
	return int(u % uint64(n))
}

// NewRequest returns an empty request struct for key at version (nil when kmsg does not know the key).
func NewRequest(key, version int16) kmsg.Request {
	r := kmsg.RequestForKey(key)
	if r == nil {
		return nil
	}
	r.SetVersion(version)
	return r
}

// Fill populates req (already at its version) and reports the shape.
func Fill(t *rapid.T, req kmsg.Request, env *Env) *Shape {
	sh := &Shape{}
	v := reflect.ValueOf(req).Elem()
	fillStruct(t, v, req.Key(), req.IsFlexible(), env, sh, "", 0, true)
	return sh
}

func maxArr(env *Env) int {
	if env.MaxArray > 0 {
		return env.MaxArray
	}
	return 3
}

func fillStruct(t *rapid.T, v reflect.Value, key int16, flexible bool, env *Env, sh *Shape, path string, depth int, top bool) {
	if depth > sh.Depth {
		sh.Depth = depth
	}
	if depth > 6 {
		return
	}
	tp := v.Type()
	for i := 0; i < v.NumField(); i++ {
		f := tp.Field(i)
		if !f.IsExported() {
			continue
		}
		if top && f.Name == "Version" {
			continue
		}
		fv := v.Field(i)
		fillValue(t, fv, f.Name, key, flexible, env, sh, path+"."+f.Name, depth)
	}
}

func callDefault(v reflect.Value) {
	if v.CanAddr() {
		if m := v.Addr().MethodByName("Default"); m.IsValid() && m.Type().NumIn() == 0 {
			m.Call(nil)
		}
	}
}

func fillValue(t *rapid.T, fv reflect.Value, name string, key int16, flexible bool, env *Env, sh *Shape, path string, depth int) {
	ft := fv.Type()
	switch {
	case ft == tagsType:
		if flexible && rapid.IntRange(0, 5).Draw(t, path+"?tags") == 0 {
			tags := fv.Addr().Interface().(*kmsg.Tags)
			n := rapid.IntRange(1, 2).Draw(t, path+"#tags")
			for k := 0; k < n; k++ {
				l := rapid.IntRange(0, 5).Draw(t, path+"#taglen")
				tags.Set(uint32(1000+k), rapid.SliceOfN(rapid.Byte(), l, l).Draw(t, path+"#tagval"))
			}
			sh.Tags++
			sh.add("tags")
		}
		return
	case ft == uuidType:
		id := genUUID(t, env, path)
		if id != ([16]byte{}) {
			sh.IDs++
			sh.add("id")
		}
		fv.Set(reflect.ValueOf(id))
		return
	case ft == bytesType:
		fv.SetBytes(genBytes(t, name, env, sh, path))
		return
	}
	switch ft.Kind() {
	case reflect.String:
		fv.SetString(genString(t, name, env, sh, path))
	case reflect.Bool:
		fv.SetBool(rapid.Bool().Draw(t, path))
	case reflect.Int8, reflect.Int16, reflect.Int32, reflect.Int64:
		fv.SetInt(genInt(t, name, ft.Bits(), env, path))
	case reflect.Uint8, reflect.Uint16, reflect.Uint32, reflect.Uint64:
		fv.SetUint(uint64(genInt(t, name, ft.Bits()-1, env, path)) & (1<<uint(ft.Bits()-1) - 1))
	case reflect.Float64:
		fv.SetFloat(rapid.SampledFrom([]float64{0, 1, -1, 0.5, 1e9}).Draw(t, path))
	case reflect.Ptr:
		if rapid.IntRange(0, 3).Draw(t, path+"?nil") == 0 {
			fv.Set(reflect.Zero(ft))
			sh.NullStrings++
			sh.add("null")
			return
		}
		nv := reflect.New(ft.Elem())
		fillValue(t, nv.Elem(), name, key, flexible, env, sh, path, depth)
		fv.Set(nv)
	case reflect.Struct:
		callDefault(fv)
		fillStruct(t, fv, key, flexible, env, sh, path, depth+1, false)
	case reflect.Slice:
		n := rapid.SampledFrom([]int{1, 2, 0, maxArr(env), -1}).Draw(t, path+"#")
		if depth >= 3 && n > 1 {
			n = 1
		}
		switch {
		case n < 0:
			fv.Set(reflect.Zero(ft))
			sh.NilArrays++
			sh.add("nil[]")
			return
		case n == 0:
			fv.Set(reflect.MakeSlice(ft, 0, 0))
			sh.EmptyArrays++
			sh.add("[]")
			return
		}
		sl := reflect.MakeSlice(ft, n, n)
		for k := 0; k < n; k++ {
			ev := sl.Index(k)
			if ev.Kind() == reflect.Struct && ev.Type() != uuidType {
				callDefault(ev)
				fillStruct(t, ev, key, flexible, env, sh, fmt.Sprintf("%s[%d]", path, k), depth+1, false)
			} else {
				fillValue(t, ev, name, key, flexible, env, sh, fmt.Sprintf("%s[%d]", path, k), depth)
			}
		}
		fv.Set(sl)
		sh.NonEmptyArrays++
		sh.add(fmt.Sprintf("%s[%d]", name, n))
	case reflect.Array:
		// non-uuid fixed arrays do not occur in requests; leave zero
	default:
		// interfaces/maps do not occur
	}
}

func genUUID(t *rapid.T, env *Env, path string) [16]byte {
	var id [16]byte
	switch k := rapid.IntRange(0, 3).Draw(t, path+"?id"); {
	case k <= 1:
		return id
	case k == 2 && len(env.IDs) > 0:
		return rapid.SampledFrom(env.IDs).Draw(t, path)
	default:
		copy(id[:], rapid.SliceOfN(rapid.Byte(), 16, 16).Draw(t, path))
		return id
	}
}

var longStrings = []string{strings.Repeat("t", 32767), strings.Repeat("n", 32740), strings.Repeat("\x01", 8200), strings.Repeat("k", 250), strings.Repeat("q", 16384)}

var hostileStrings = []string{"", " ", "a", "no-such-topic", "ünïcødé-☃", "日本語", "a/b", "..", "topic with space", "UPPER", "x\x00y", strings.Repeat("l", 255), "__consumer_offsets"}

func genString(t *rapid.T, name string, env *Env, sh *Shape, path string) string {
	var pool []string
	ln := strings.ToLower(name)
	switch {
	case strings.Contains(ln, "topic") || ln == "resourcename":
		pool = env.Topics
	case strings.Contains(ln, "group"):
		pool = env.Groups
	case strings.Contains(ln, "member") || strings.Contains(ln, "instance"):
		pool = env.Members
	case ln == "protocoltype":
		pool = []string{"consumer"}
	case ln == "name":
		pool = []string{"range", "roundrobin", "retention.ms", "segment.bytes"}
	}
	k := rapid.IntRange(0, 9).Draw(t, path+"?s")
	var s string
	if len(pool) > 0 && rapid.IntRange(0, 19).Draw(t, path+"?long") == 0 {
		// names at the limits of the wire format: STRING carries up to 32767 bytes; servers
		// echo names into replies and into error texts
		k = -1
	}
	switch {
	case k < 0:
		s = rapid.SampledFrom(longStrings).Draw(t, path)
		sh.Odd++
		sh.add("long-name")
	case k <= 5 && len(pool) > 0:
		s = rapid.SampledFrom(pool).Draw(t, path)
	case k <= 7:
		s = rapid.SampledFrom(hostileStrings).Draw(t, path)
		if len(pool) > 0 {
			sh.Odd++
		}
	default:
		s = rapid.StringN(0, 12, 40).Draw(t, path)
		if len(pool) > 0 {
			sh.Odd++
		}
	}
	for _, r := range s {
		if r > 127 {
			sh.Unicode++
			sh.add("unicode")
			break
		}
	}
	if len(s) > 32767 {
		s = s[:32767]
	}
	return s
}

func genInt(t *rapid.T, name string, bits int, env *Env, path string) int64 {
	ln := strings.ToLower(name)
	lim := func(v int64) int64 { // clamp into the field's width
		max := int64(1)<<uint(bits-1) - 1
		if v > max {
			return max
		}
		if v < -max-1 {
			return -max - 1
		}
		return v
	}
	if !env.Bounded {
		edges := []int64{0, 1, -1, 2, 127, -128, 255, 32767, -32768, 65535, 1<<31 - 1, -1 << 31, 1 << 31, 1<<63 - 1, -1 << 63}
		if rapid.IntRange(0, 2).Draw(t, path+"?edge") == 0 {
			return lim(rapid.SampledFrom(edges).Draw(t, path))
		}
		return lim(rapid.Int64().Draw(t, path))
	}
	switch {
	case ln == "acks":
		return rapid.SampledFrom([]int64{-1, 0, 1}).Draw(t, path)
	case (ln == "partition" || ln == "partitions" || ln == "partitionindex") && env.HostilePartitionIndex && rapid.IntRange(0, 7).Draw(t, path+"?hostile-index") == 0:
		// either harmless or far beyond any memory cap (never a few GiB worth of partitions)
		return rapid.SampledFrom([]int64{1<<31 - 2, 1<<31 - 1, 1 << 30, 1 << 28}).Draw(t, path)
	case ln == "partition" || ln == "partitions" || ln == "partitionindex":
		return int64(rapid.IntRange(0, 3).Draw(t, path))
	case (ln == "numpartitions" || ln == "count") && env.HostileCounts && rapid.IntRange(0, 3).Draw(t, path+"?hostile-count") == 0:
		return rapid.SampledFrom([]int64{1<<31 - 1, 1<<31 - 2, 1 << 30, 1 << 28}).Draw(t, path)
	case ln == "numpartitions" || ln == "count":
		return int64(rapid.IntRange(-1, 6).Draw(t, path))
	case ln == "replicationfactor":
		return int64(rapid.IntRange(-1, 3).Draw(t, path))
	case ln == "maxwaitmillis":
		return int64(rapid.IntRange(0, 3).Draw(t, path))
	case strings.HasSuffix(ln, "millis") || strings.HasSuffix(ln, "ms"):
		return int64(rapid.SampledFrom([]int{-1, 0, 1, 5, 100, 30000}).Draw(t, path))
	case ln == "timestamp":
		return rapid.SampledFrom([]int64{-2, -1, 0, 1, 1700000000000}).Draw(t, path)
	case ln == "maxnumoffsets" && env.HostileCounts && rapid.Bool().Draw(t, path+"?hostile-count"):
		return rapid.SampledFrom([]int64{1<<31 - 1, 1 << 30, 1 << 25, -1, -1 << 31, 0, 1}).Draw(t, path)
	case ln == "maxnumoffsets":
		return int64(rapid.IntRange(-1, 5).Draw(t, path))
	case strings.Contains(ln, "bytes"):
		return lim(rapid.SampledFrom([]int64{0, 1, 1024, 1 << 20, 50 << 20}).Draw(t, path))
	case strings.Contains(ln, "offset"):
		return rapid.SampledFrom([]int64{-1, 0, 1, 2, 5, 1000}).Draw(t, path)
	case ln == "resourcetype":
		return rapid.SampledFrom([]int64{0, 2, 4, 8}).Draw(t, path)
	case strings.Contains(ln, "generation") || strings.Contains(ln, "epoch"):
		return int64(rapid.IntRange(-1, 3).Draw(t, path))
	}
	return lim(int64(rapid.IntRange(-2, 10).Draw(t, path)))
}

func genBytes(t *rapid.T, name string, env *Env, sh *Shape, path string) []byte {
	if name == "Records" {
		switch rapid.IntRange(0, 4).Draw(t, path+"?rec") {
		case 0:
			sh.Records = "nil"
			return nil
		case 1:
			sh.Records = "garbage"
			n := rapid.IntRange(0, 80).Draw(t, path+"#")
			return rapid.SliceOfN(rapid.Byte(), n, n).Draw(t, path)
		default:
			sh.Records = "batch"
			n := rapid.IntRange(1, 3).Draw(t, path+"#recs")
			l := rapid.IntRange(0, 20).Draw(t, path+"#vlen")
			return RecordBatch(n, rapid.SliceOfN(rapid.Byte(), l, l).Draw(t, path))
		}
	}
	if env.Bounded && env.HostileGroupMetadata && name == "Metadata" && rapid.IntRange(0, 1).Draw(t, path+"?hostile-metadata") == 0 {
		sh.add("hostile-subscription")
		var b []byte
		b = binary.BigEndian.AppendUint16(b, uint16(rapid.SampledFrom([]int{0, 1, 3, 0xffff}).Draw(t, path+"#ver")))
		switch rapid.IntRange(0, 5).Draw(t, path+"#hm") {
		case 0: // nothing at all / a few bytes
			n := rapid.IntRange(0, 5).Draw(t, path+"#cut")
			return append(b, 0, 0, 0, 1)[:n]
		case 1, 2: // a topic count that has nothing to do with the bytes present
			cnt := rapid.SampledFrom([]uint32{0xffffffff, 0x7fffffff, 0x80000000, 0xfffffffe, 0xf0000000, 1000, 3}).Draw(t, path+"#count")
			b = binary.BigEndian.AppendUint32(b, cnt)
			if rapid.Bool().Draw(t, path+"#one-topic") {
				b = binary.BigEndian.AppendUint16(b, 6)
				b = append(b, "orders"...)
			}
			return b
		case 3: // name length beyond the data
			b = binary.BigEndian.AppendUint32(b, 2)
			b = binary.BigEndian.AppendUint16(b, 6)
			b = append(b, "orders"...)
			b = binary.BigEndian.AppendUint16(b, uint16(rapid.SampledFrom([]int{7, 255, 0x7fff, 0xffff}).Draw(t, path+"#namelen")))
			return append(b, "pay"...)
		case 4: // negative-looking count, well-formed entries after it
			b = binary.BigEndian.AppendUint32(b, 0xffffffff)
			for _, tp := range []string{"orders", "payments"} {
				b = binary.BigEndian.AppendUint16(b, uint16(len(tp)))
				b = append(b, tp...)
			}
			return b
		default: // random bytes
			n := rapid.IntRange(0, 24).Draw(t, path+"#n")
			r := rapid.SliceOfN(rapid.Byte(), n, n).Draw(t, path)
			if len(r) >= 6 && r[2] < 0x80 && r[2] > 0 {
				r[2] |= 0x80 // keep the count either tiny or beyond any memory cap (never a few GiB)
			}
			return r
		}
	}
	if env.Bounded && name == "Metadata" {
		// JoinGroup protocol metadata: a well-formed consumer subscription. (The broker sizes
		// an allocation from the 32-bit topic count in these bytes, see notes/C11.md; a served-
		// version check must not take the shared machine down.)
		var b []byte
		b = binary.BigEndian.AppendUint16(b, uint16(rapid.IntRange(0, 1).Draw(t, path+"#ver")))
		n := rapid.IntRange(0, 2).Draw(t, path+"#topics")
		b = binary.BigEndian.AppendUint32(b, uint32(n))
		for i := 0; i < n; i++ {
			tp := "orders"
			if len(env.Topics) > 0 {
				tp = rapid.SampledFrom(env.Topics).Draw(t, path+"#topic")
			}
			b = binary.BigEndian.AppendUint16(b, uint16(len(tp)))
			b = append(b, tp...)
		}
		if rapid.Bool().Draw(t, path+"#userdata") {
			b = binary.BigEndian.AppendUint32(b, 0)
		} else {
			b = binary.BigEndian.AppendUint32(b, 0xffffffff)
		}
		return b
	}
	switch rapid.IntRange(0, 3).Draw(t, path+"?b") {
	case 0:
		return nil
	case 1:
		return []byte{}
	default:
		n := rapid.IntRange(1, 24).Draw(t, path+"#")
		return rapid.SliceOfN(rapid.Byte(), n, n).Draw(t, path)
	}
}

func putVarint(b []byte, v int64) []byte {
	return binary.AppendVarint(b, v)
}

// RecordBatch encodes a valid uncompressed v2 record batch with n records (base offset 0).
func RecordBatch(n int, value []byte) []byte {
	var recs []byte
	for i := 0; i < n; i++ {
		var r []byte
		r = append(r, 0)                      // attributes
		r = putVarint(r, 0)                   // timestamp delta
		r = putVarint(r, int64(i))            // offset delta
		r = putVarint(r, -1)                  // null key
		r = putVarint(r, int64(len(value)))   // value
		r = append(r, value...)
		r = putVarint(r, 0) // headers
		recs = putVarint(recs, int64(len(r)))
		recs = append(recs, r...)
	}
	body := make([]byte, 0, 49+len(recs))
	body = binary.BigEndian.AppendUint16(body, 0)                 // attributes
	body = binary.BigEndian.AppendUint32(body, uint32(n-1))       // lastOffsetDelta
	body = binary.BigEndian.AppendUint64(body, 1700000000000)     // baseTimestamp
	body = binary.BigEndian.AppendUint64(body, 1700000000000)     // maxTimestamp
	body = binary.BigEndian.AppendUint64(body, ^uint64(0))        // producerId -1
	body = binary.BigEndian.AppendUint16(body, 0xffff)            // producerEpoch -1
	body = binary.BigEndian.AppendUint32(body, 0xffffffff)        // baseSequence -1
	body = binary.BigEndian.AppendUint32(body, uint32(n))         // record count
	body = append(body, recs...)
	out := make([]byte, 0, 21+len(body))
	out = binary.BigEndian.AppendUint64(out, 0)                      // baseOffset
	out = binary.BigEndian.AppendUint32(out, uint32(4+1+4+len(body))) // batchLength
	out = binary.BigEndian.AppendUint32(out, 0)                      // partitionLeaderEpoch
	out = append(out, 2)                                             // magic
	out = binary.BigEndian.AppendUint32(out, crc32.Checksum(body, crc32.MakeTable(crc32.Castagnoli)))
	return append(out, body...)
}

// EncodeHeader writes a request header the way the Kafka protocol defines it (request
// header v1 = key, version, correlation id, nullable client id; v2 adds a tagged-field
// section), independent of kmsg. tags is the raw tagged-field section (nil = a single 0
// byte) and is only written when flexible.
func EncodeHeader(key, version int16, corr int32, clientID *string, flexible bool, tags []byte) []byte {
	b := make([]byte, 0, 16)
	b = binary.BigEndian.AppendUint16(b, uint16(key))
	b = binary.BigEndian.AppendUint16(b, uint16(version))
	b = binary.BigEndian.AppendUint32(b, uint32(corr))
	if clientID == nil {
		b = binary.BigEndian.AppendUint16(b, 0xffff)
	} else {
		b = binary.BigEndian.AppendUint16(b, uint16(len(*clientID)))
		b = append(b, *clientID...)
	}
	if flexible {
		if tags == nil {
			b = append(b, 0)
		} else {
			b = append(b, tags...)
		}
	}
	return b
}

// EncodeTags builds a tagged-field section from (tag, value) pairs.
func EncodeTags(pairs [][2][]byte) []byte {
	b := binary.AppendUvarint(nil, uint64(len(pairs)))
	for i, p := range pairs {
		_ = p[0]
		b = binary.AppendUvarint(b, uint64(i))
		b = binary.AppendUvarint(b, uint64(len(p[1])))
		b = append(b, p[1]...)
	}
	return b
}
