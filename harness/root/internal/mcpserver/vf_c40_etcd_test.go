//go:build verif

package mcpserver

import (
	"context"
	"encoding/hex"
	"encoding/json"
	"fmt"
	"sort"
	"strings"
	"testing"
	"time"

	"github.com/modelcontextprotocol/go-sdk/mcp"
	"github.com/twmb/franz-go/pkg/kmsg"
	clientv3 "go.etcd.io/etcd/client/v3"
	"pgregory.net/rapid"
	"verif.local/vfkit"

	"github.com/KafScale/platform/internal/testutil"
	metadatapb "github.com/KafScale/platform/pkg/gen/metadata"
	"github.com/KafScale/platform/pkg/metadata"
	"github.com/KafScale/platform/pkg/protocol"
)

// C40, etcd-backed leg: cmd/mcp wires the MCP server to metadata.NewEtcdStore(ctx,
// ClusterMetadata{}, cfg). Here the same store (behind the recorder) runs against an embedded
// etcd that was populated the way the system populates it (operator-style snapshot, broker-
// style store calls: CreateTopic / CreatePartitions / UpdateTopicConfig / UpdateOffsets /
// CommitConsumerOffset / PutConsumerGroup incl. groups without members). The before/after
// comparison is on the RAW etcd keys and values under /kafscale/ read with a separate client -
// never through the store's own read methods (a read that writes would hide itself).

var c40EtcdTopicPool = []string{"orders", "payments", "events", "a.b", "x_y", "t-1", "ORDERS", "__consumer_offsets"}
var c40EtcdGroupPool = []string{"grp-a", "grp-b", "billing", "G", "idle-group", "offsets-only"}

func c40RawDump(ctx context.Context, cli *clientv3.Client) (map[string]string, error) {
	cctx, cancel := context.WithTimeout(ctx, 10*time.Second)
	defer cancel()
	resp, err := cli.Get(cctx, "/kafscale/", clientv3.WithPrefix())
	if err != nil {
		return nil, err
	}
	out := make(map[string]string, len(resp.Kvs))
	for _, kv := range resp.Kvs {
		out[string(kv.Key)] = hex.EncodeToString(kv.Value)
	}
	return out, nil
}

func c40RawDiff(a, b map[string]string) string {
	keys := map[string]bool{}
	for k := range a {
		keys[k] = true
	}
	for k := range b {
		keys[k] = true
	}
	sorted := make([]string, 0, len(keys))
	for k := range keys {
		sorted = append(sorted, k)
	}
	sort.Strings(sorted)
	var out []string
	show := func(h string) string {
		b, _ := hex.DecodeString(h)
		s := fmt.Sprintf("%q", b)
		if len(s) > 200 {
			s = s[:200] + "..."
		}
		return s
	}
	for _, k := range sorted {
		va, ina := a[k]
		vb, inb := b[k]
		switch {
		case !inb:
			out = append(out, fmt.Sprintf("key %s was DELETED (value was %s)", k, show(va)))
		case !ina:
			out = append(out, fmt.Sprintf("key %s was CREATED with %s", k, show(vb)))
		case va != vb:
			out = append(out, fmt.Sprintf("key %s CHANGED from %s to %s", k, show(va), show(vb)))
		}
	}
	return strings.Join(out, "\n")
}

type c40EtcdWorld struct {
	c40World
	memberless  []string
	staleConfig []string
	noSnapshot  bool // fresh cluster: nobody has published /kafscale/metadata/snapshot yet
}

// c40EtcdPopulate fills the embedded etcd; every failure of a populate step is an environment
// problem (returned), not a property violation.
func c40EtcdPopulate(t *rapid.T, ctx context.Context, cli *clientv3.Client, endpoints []string) (c40EtcdWorld, error) {
	w := c40EtcdWorld{c40World: c40World{partitions: map[string]int{}}}
	dctx, cancel := context.WithTimeout(ctx, 10*time.Second)
	_, err := cli.Delete(dctx, "/kafscale/", clientv3.WithPrefix())
	cancel()
	if err != nil {
		return w, fmt.Errorf("clear etcd: %w", err)
	}
	// fresh cluster: the operator has not published a snapshot yet (other keys may exist already)
	w.noSnapshot = rapid.IntRange(0, 3).Draw(t, "noSnapshotYet") == 2
	// operator-style snapshot
	nb := rapid.IntRange(1, 3).Draw(t, "brokers")
	var brokers []protocol.MetadataBroker
	for i := 0; i < nb; i++ {
		brokers = append(brokers, protocol.MetadataBroker{NodeID: int32(i), Host: fmt.Sprintf("demo-broker-%d.demo-broker-headless.default.svc.cluster.local", i), Port: 9092})
	}
	var topics []protocol.MetadataTopic
	used := map[string]bool{}
	nt := rapid.IntRange(0, 4).Draw(t, "topics")
	if w.noSnapshot {
		nt = 0
	}
	for i := 0; i < nt; i++ {
		name := rapid.SampledFrom(c40EtcdTopicPool).Draw(t, "topicName")
		if used[name] {
			continue
		}
		used[name] = true
		np := rapid.IntRange(1, 4).Draw(t, "partitions")
		var parts []protocol.MetadataPartition
		for p := 0; p < np; p++ {
			leader := int32(p % nb)
			parts = append(parts, protocol.MetadataPartition{Partition: int32(p), Leader: leader, Replicas: []int32{leader}, ISR: []int32{leader}})
		}
		topics = append(topics, protocol.MetadataTopic{Topic: kmsg.StringPtr(name), TopicID: metadata.TopicIDForName(name), Partitions: parts})
		w.topics = append(w.topics, name)
		w.partitions[name] = np
	}
	snap := metadata.ClusterMetadata{Brokers: brokers, Topics: topics, ClusterName: kmsg.StringPtr("demo"), ClusterID: kmsg.StringPtr("uid-40")}
	payload, err := json.Marshal(snap)
	if err != nil {
		return w, err
	}
	if !w.noSnapshot {
		pctx, cancel := context.WithTimeout(ctx, 10*time.Second)
		_, err = cli.Put(pctx, "/kafscale/metadata/snapshot", string(payload))
		cancel()
		if err != nil {
			return w, fmt.Errorf("put snapshot: %w", err)
		}
	}
	// broker-style writes through a store of their own
	broker, err := metadata.NewEtcdStore(ctx, metadata.ClusterMetadata{}, metadata.EtcdStoreConfig{Endpoints: endpoints})
	if err != nil {
		return w, fmt.Errorf("broker store: %w", err)
	}
	defer func() {
		_ = broker.Close()
		if w.noSnapshot {
			// the populate steps themselves must leave the snapshot key absent
			dctx, cancel := context.WithTimeout(ctx, 10*time.Second)
			_, _ = cli.Delete(dctx, "/kafscale/metadata/snapshot")
			cancel()
		}
	}()
	if !w.noSnapshot && rapid.IntRange(0, 3).Draw(t, "brokerCreatesTopic") == 2 {
		name := "made-by-broker"
		if _, err := broker.CreateTopic(ctx, metadata.TopicSpec{Name: name, NumPartitions: 2, ReplicationFactor: 1}); err == nil {
			w.topics = append(w.topics, name)
			w.partitions[name] = 2
		}
	}
	for _, tp := range w.topics {
		for p := 0; p < w.partitions[tp]; p++ {
			if rapid.Bool().Draw(t, "hasOffset") {
				if err := broker.UpdateOffsets(ctx, tp, int32(p), int64(rapid.IntRange(0, 1000).Draw(t, "lastOffset"))); err != nil {
					return w, fmt.Errorf("UpdateOffsets: %w", err)
				}
			}
		}
		stored := rapid.Bool().Draw(t, "hasConfig")
		if stored {
			if err := broker.UpdateTopicConfig(ctx, &metadatapb.TopicConfig{Name: tp, RetentionMs: int64(rapid.IntRange(-1, 100000).Draw(t, "retention")),
				SegmentBytes: 1 << 20, Config: map[string]string{"cleanup.policy": rapid.SampledFrom([]string{"delete", "compact"}).Draw(t, "policy")}}); err != nil {
				return w, fmt.Errorf("UpdateTopicConfig(%s): %w", tp, err)
			}
		}
		// later: the topic is expanded (CreatePartitions rewrites the snapshot, not the config key)
		if rapid.IntRange(0, 2).Draw(t, "expandLater") == 1 {
			n := w.partitions[tp] + rapid.IntRange(1, 3).Draw(t, "expandBy")
			if err := broker.CreatePartitions(ctx, tp, int32(n)); err != nil {
				return w, fmt.Errorf("CreatePartitions(%s,%d): %w", tp, n, err)
			}
			w.partitions[tp] = n
			if stored {
				w.staleConfig = append(w.staleConfig, tp)
			}
		}
	}
	ng := rapid.IntRange(0, 3).Draw(t, "groups")
	usedG := map[string]bool{}
	for i := 0; i < ng; i++ {
		gid := rapid.SampledFrom(c40EtcdGroupPool).Draw(t, "groupID")
		if usedG[gid] {
			continue
		}
		usedG[gid] = true
		w.groups = append(w.groups, gid)
		g := &metadatapb.ConsumerGroup{GroupId: gid, State: rapid.SampledFrom([]string{"stable", "empty", "dead"}).Draw(t, "state"),
			ProtocolType: "consumer", Protocol: "range", GenerationId: int32(rapid.IntRange(0, 9).Draw(t, "gen")), Members: map[string]*metadatapb.GroupMember{}}
		nm := rapid.SampledFrom([]int{0, 0, 1, 2}).Draw(t, "members")
		for m := 0; m < nm; m++ {
			mem := &metadatapb.GroupMember{ClientId: fmt.Sprintf("client-%d", m), ClientHost: "10.0.0.1", SessionTimeoutMs: 30000}
			if len(w.topics) > 0 {
				tp := w.topics[m%len(w.topics)]
				mem.Subscriptions = []string{tp}
				mem.Assignments = []*metadatapb.Assignment{{Topic: tp, Partitions: []int32{0}}}
			}
			g.Members[fmt.Sprintf("member-%d", m)] = mem
		}
		if nm == 0 {
			g.State = "empty"
			w.memberless = append(w.memberless, gid)
		} else {
			g.Leader = "member-0"
		}
		if err := broker.PutConsumerGroup(ctx, g); err != nil {
			return w, fmt.Errorf("PutConsumerGroup: %w", err)
		}
		if w.noSnapshot && rapid.Bool().Draw(t, "earlyCommit") {
			_ = broker.CommitConsumerOffset(ctx, gid, "orders", 0, int64(rapid.IntRange(0, 500).Draw(t, "earlyOffset")), "")
		}
		for _, tp := range w.topics {
			for p := 0; p < w.partitions[tp]; p++ {
				if rapid.IntRange(0, 2).Draw(t, "committed") == 1 {
					if err := broker.CommitConsumerOffset(ctx, gid, tp, int32(p), int64(rapid.IntRange(0, 500).Draw(t, "offset")), rapid.SampledFrom([]string{"", "meta"}).Draw(t, "offsetMeta")); err != nil {
						return w, fmt.Errorf("CommitConsumerOffset: %w", err)
					}
				}
			}
		}
	}
	return w, nil
}

func TestVF_C40_EtcdTools(t *testing.T) {
	st := vfkit.NewStats("C40", "etcd")
	defer st.Flush()
	inconclusive := func(format string, a ...any) {
		msg := "VF-INCONCLUSIVE: " + fmt.Sprintf(format, a...)
		fmt.Println(msg)
		t.Fatal(msg)
	}
	endpoints := testutil.StartEmbeddedEtcd(t)
	if len(endpoints) == 0 {
		inconclusive("embedded etcd did not start")
	}
	ctx, cancel := context.WithCancel(context.Background())
	defer cancel()
	raw, err := clientv3.New(clientv3.Config{Endpoints: endpoints, DialTimeout: 5 * time.Second})
	if err != nil {
		inconclusive("etcd client: %v", err)
	}
	defer func() { _ = raw.Close() }()

	rec := &c40Recorder{inner: metadata.NewInMemoryStore(metadata.ClusterMetadata{})}
	server := NewServer(Options{Store: rec, Metrics: c40Metrics{}, Version: "verif"})
	st1, ct1 := mcp.NewInMemoryTransports()
	ss, err := server.Connect(ctx, st1, nil)
	if err != nil {
		inconclusive("server connect: %v", err)
	}
	client := mcp.NewClient(&mcp.Implementation{Name: "vf-c40-etcd", Version: "0"}, nil)
	cs, err := client.Connect(ctx, ct1, nil)
	if err != nil {
		inconclusive("client connect: %v", err)
	}
	defer func() { _ = cs.Close(); _ = ss.Wait() }()
	lt, err := cs.ListTools(ctx, nil)
	if err != nil || len(lt.Tools) == 0 {
		inconclusive("ListTools: %v", err)
	}
	type toolInfo struct {
		name   string
		schema map[string]any
	}
	var tools []toolInfo
	for _, tl := range lt.Tools {
		var schema map[string]any
		b, _ := json.Marshal(tl.InputSchema)
		_ = json.Unmarshal(b, &schema)
		tools = append(tools, toolInfo{tl.Name, schema})
	}
	sort.Slice(tools, func(i, j int) bool { return tools[i].name < tools[j].name })

	rapid.Check(t, func(t *rapid.T) {
		w, err := c40EtcdPopulate(t, ctx, raw, endpoints)
		if err != nil {
			fmt.Println("VF-INCONCLUSIVE: populate:", err)
			t.Fatalf("VF-INCONCLUSIVE: populate: %v", err)
		}
		// the store cmd/mcp builds
		store, err := metadata.NewEtcdStore(ctx, metadata.ClusterMetadata{}, metadata.EtcdStoreConfig{Endpoints: endpoints})
		if err != nil {
			fmt.Println("VF-INCONCLUSIVE: mcp store:", err)
			t.Fatalf("VF-INCONCLUSIVE: mcp store: %v", err)
		}
		defer func() { _ = store.Close() }()
		rec.set(store)
		if len(w.memberless) > 0 {
			st.Class("memberless-group-present")
		}
		if w.noSnapshot {
			st.Class("no-snapshot-published-yet")
		}
		if len(w.staleConfig) > 0 {
			st.Class("stored-config-older-than-partition-count")
		}
		ncalls := rapid.IntRange(1, 6).Draw(t, "calls")
		for i := 0; i < ncalls; i++ {
			tool := tools[rapid.IntRange(0, len(tools)-1).Draw(t, "tool")]
			info := &c40Arg{}
			var args any
			switch rapid.IntRange(0, 14).Draw(t, "argShape") {
			case 6:
				args = nil
			case 7:
				args = json.RawMessage(rapid.SampledFrom([]string{`[]`, `"orders"`, `null`, `7`, `{"group_id":["grp-a"]}`}).Draw(t, "rawArgs"))
			default:
				args = c40Object(t, w.c40World, tool.schema, info)
			}
			before, err := c40RawDump(ctx, raw)
			if err != nil {
				t.Fatalf("VF-INCONCLUSIVE: raw dump: %v", err)
			}
			st.Eval()
			res, callErr := cs.CallTool(ctx, &mcp.CallToolParams{Name: tool.name, Arguments: args})
			outcome := "ok"
			if callErr != nil {
				outcome = "protocol-error"
			} else if res != nil && res.IsError {
				outcome = "tool-error"
			}
			st.Class(tool.name + ":" + outcome)
			argJSON, _ := json.Marshal(args)
			after, err := c40RawDump(ctx, raw)
			if err != nil {
				t.Fatalf("VF-INCONCLUSIVE: raw dump: %v", err)
			}
			if d := c40RawDiff(before, after); d != "" {
				t.Fatalf("tool %s with arguments %s changed the etcd-backed metadata store (%d keys under /kafscale/):\n%s\nmemberless groups: %v, topics with a stored config older than their partition count: %v",
					tool.name, argJSON, len(before), d, w.memberless, w.staleConfig)
			}
			if wr := rec.takeWrites(); len(wr) > 0 {
				t.Fatalf("tool %s with arguments %s called state-changing store methods %v", tool.name, argJSON, wr)
			}
			if info.namesExisting && info.nonEmpty {
				st.Class("names-existing-object")
				if st.NonTrivial(tool.name, string(argJSON), w.topics, w.groups, w.memberless, w.staleConfig) {
					st.Sample(map[string]any{"tool": tool.name, "arguments": json.RawMessage(argJSON), "topics": w.topics, "groups": w.groups,
						"memberless_groups": w.memberless, "stale_configs": w.staleConfig, "etcd_keys": len(before), "outcome": outcome})
				}
			}
		}
	})
}
