//go:build verif

package mcpserver

import (
	"context"
	"encoding/json"
	"fmt"
	"sort"
	"strings"
	"sync"
	"testing"
	"time"

	"github.com/modelcontextprotocol/go-sdk/mcp"
	clientv3 "go.etcd.io/etcd/client/v3"
	"pgregory.net/rapid"
	"verif.local/vfkit"

	"github.com/KafScale/platform/internal/testutil"
	"github.com/KafScale/platform/pkg/metadata"
)

// C40, concurrent leg: the read-only MCP tools run CONCURRENTLY with admin mutations
// (DeleteTopic / CreateTopic / CreatePartitions) issued on the same EtcdStore. A tool that
// touches the store's state while a mutation is in flight can make an acknowledged mutation
// disappear, which is a change of cluster state caused by the tool. Oracle after both sides
// finished: (1) an INDEPENDENT EtcdStore opened afterwards shows every acknowledged mutation
// (model: initial topics + acknowledged mutations in order; a mutation that returned an error
// leaves its topic unasserted); (2) no state-changing Store method was called through the
// server; (3) every raw etcd key that does not belong to a mutated topic (and is not the
// snapshot) is unchanged, and no such key appeared.
//
// The interleaving comes from the Go scheduler, so a failure cannot be re-triggered by re-running
// the same draws: like C42 the first detected violation is re-reported from one call site.

var c40ConcSticky string

type c40ConcOp struct {
	Kind  string // delete | create | grow
	Topic int
	N     int32
}

func c40ConcCase(t *rapid.T, st *vfkit.Stats, ctx context.Context, raw *clientv3.Client, endpoints []string, rec *c40Recorder, cs *mcp.ClientSession, schemas map[string]map[string]any) string {
	w, err := c40EtcdPopulate(t, ctx, raw, endpoints)
	if err != nil {
		fmt.Println("VF-INCONCLUSIVE: populate:", err)
		t.Fatalf("VF-INCONCLUSIVE: populate: %v", err)
	}
	// admin mutations
	var ops []c40ConcOp
	for i, n := 0, rapid.IntRange(1, 5).Draw(t, "mutations"); i < n; i++ {
		op := c40ConcOp{Topic: rapid.IntRange(0, 7).Draw(t, "mutTopic")}
		switch rapid.IntRange(0, 5).Draw(t, "mutKind") {
		case 0, 1, 2:
			op.Kind = "delete"
		case 3, 4:
			op.Kind, op.N = "create", int32(rapid.IntRange(1, 3).Draw(t, "createParts"))
		default:
			op.Kind, op.N = "grow", int32(rapid.IntRange(1, 3).Draw(t, "growBy"))
		}
		ops = append(ops, op)
	}
	// tool calls (cycled until the mutations are done)
	type call struct {
		name string
		args any
	}
	var calls []call
	toolNames := make([]string, 0, len(schemas))
	for k := range schemas {
		toolNames = append(toolNames, k)
	}
	sort.Strings(toolNames)
	for i, n := 0, rapid.IntRange(4, 12).Draw(t, "toolCalls"); i < n; i++ {
		if _, ok := schemas["describe_configs"]; ok && rapid.IntRange(0, 2).Draw(t, "unknownConfig") > 0 {
			// a topic nobody knows (yet): e.g. an operator looking for a topic that is being created
			calls = append(calls, call{"describe_configs", map[string]any{"topics": []any{fmt.Sprintf("not-there-%d", rapid.IntRange(0, 9).Draw(t, "unknownName"))}}})
			continue
		}
		name := rapid.SampledFrom(toolNames).Draw(t, "tool")
		calls = append(calls, call{name, c40Object(t, w.c40World, schemas[name], &c40Arg{})})
	}

	store, err := metadata.NewEtcdStore(ctx, metadata.ClusterMetadata{}, metadata.EtcdStoreConfig{Endpoints: endpoints})
	if err != nil {
		fmt.Println("VF-INCONCLUSIVE: store:", err)
		t.Fatalf("VF-INCONCLUSIVE: store: %v", err)
	}
	defer func() { _ = store.Close() }()
	rec.set(store)
	before, err := c40RawDump(ctx, raw)
	if err != nil {
		t.Fatalf("VF-INCONCLUSIVE: raw dump: %v", err)
	}
	st.Eval()

	// model
	model := map[string]int{}
	for _, tp := range w.topics {
		model[tp] = w.partitions[tp]
	}
	unknown := map[string]bool{}
	touched := map[string]bool{}
	var trace []string
	var wg sync.WaitGroup
	done := make(chan struct{})
	wg.Add(2)
	go func() { // admin side, directly on the same store
		defer wg.Done()
		defer close(done)
		for _, op := range ops {
			names := make([]string, 0, len(model))
			for k := range model {
				names = append(names, k)
			}
			sort.Strings(names)
			switch op.Kind {
			case "delete":
				if len(names) == 0 {
					continue
				}
				tp := names[op.Topic%len(names)]
				touched[tp] = true
				if err := store.DeleteTopic(ctx, tp); err != nil {
					unknown[tp] = true
					trace = append(trace, fmt.Sprintf("DeleteTopic(%s)=%v", tp, err))
				} else {
					delete(model, tp)
					trace = append(trace, fmt.Sprintf("DeleteTopic(%s)=ok", tp))
				}
			case "create":
				tp := fmt.Sprintf("made-by-admin-%d", op.Topic)
				touched[tp] = true
				if _, err := store.CreateTopic(ctx, metadata.TopicSpec{Name: tp, NumPartitions: op.N, ReplicationFactor: 1}); err != nil {
					if _, exists := model[tp]; !exists {
						unknown[tp] = true
					}
					trace = append(trace, fmt.Sprintf("CreateTopic(%s,%d)=%v", tp, op.N, err))
				} else {
					model[tp] = int(op.N)
					delete(unknown, tp)
					trace = append(trace, fmt.Sprintf("CreateTopic(%s,%d)=ok", tp, op.N))
				}
			case "grow":
				if len(names) == 0 {
					continue
				}
				tp := names[op.Topic%len(names)]
				touched[tp] = true
				n := model[tp] + int(op.N)
				if err := store.CreatePartitions(ctx, tp, int32(n)); err != nil {
					unknown[tp] = true
					trace = append(trace, fmt.Sprintf("CreatePartitions(%s,%d)=%v", tp, n, err))
				} else {
					model[tp] = n
					trace = append(trace, fmt.Sprintf("CreatePartitions(%s,%d)=ok", tp, n))
				}
			}
		}
	}()
	toolCalls := 0
	go func() { // ops user side, through the MCP server
		defer wg.Done()
		for i := 0; i < 600; i++ {
			select {
			case <-done:
				if i >= len(calls) {
					return
				}
			default:
			}
			c := calls[i%len(calls)]
			cctx, cancel := context.WithTimeout(ctx, 20*time.Second)
			_, _ = cs.CallTool(cctx, &mcp.CallToolParams{Name: c.name, Arguments: c.args})
			cancel()
			toolCalls++
		}
	}()
	wg.Wait()
	st.ClassN("tool-calls-overlapping-mutations", toolCalls)
	for _, tr := range trace {
		st.Class(strings.SplitN(tr, "(", 2)[0] + ":" + map[bool]string{true: "ok", false: "error"}[strings.HasSuffix(tr, "=ok")])
	}

	if wr := rec.takeWrites(); len(wr) > 0 {
		return fmt.Sprintf("tools called state-changing store methods %v while %v ran", wr, trace)
	}
	// (1) independent observer
	obs, err := metadata.NewEtcdStore(ctx, metadata.ClusterMetadata{}, metadata.EtcdStoreConfig{Endpoints: endpoints})
	if err != nil {
		t.Fatalf("VF-INCONCLUSIVE: observer store: %v", err)
	}
	meta, err := obs.Metadata(ctx, nil)
	_ = obs.Close()
	if err != nil {
		t.Fatalf("VF-INCONCLUSIVE: observer metadata: %v", err)
	}
	got := map[string]int{}
	for _, tp := range meta.Topics {
		if tp.Topic != nil {
			got[*tp.Topic] = len(tp.Partitions)
		}
	}
	callDesc, _ := json.Marshal(calls)
	for tp, n := range model {
		if unknown[tp] {
			continue
		}
		if g, ok := got[tp]; !ok || g != n {
			return fmt.Sprintf("after the acknowledged admin mutations %v (concurrent with %d read-only tool calls %s) an independent store shows topic %s with %d partitions (present=%v), expected %d", trace, toolCalls, callDesc, tp, g, ok, n)
		}
	}
	for tp, g := range got {
		if _, ok := model[tp]; !ok && !unknown[tp] {
			return fmt.Sprintf("after the acknowledged admin mutations %v (concurrent with %d read-only tool calls %s) an independent store still shows topic %s (%d partitions) although it was deleted / never created", trace, toolCalls, callDesc, tp, g)
		}
	}
	// (3) keys that do not belong to a mutated topic
	after, err := c40RawDump(ctx, raw)
	if err != nil {
		t.Fatalf("VF-INCONCLUSIVE: raw dump: %v", err)
	}
	belongs := func(key string) bool {
		if key == "/kafscale/metadata/snapshot" {
			return true
		}
		for tp := range touched {
			if strings.Contains(key, "/"+tp+"/") || strings.HasSuffix(key, "/"+tp) {
				return true
			}
		}
		return false
	}
	fb, fa := map[string]string{}, map[string]string{}
	for k, v := range before {
		if !belongs(k) {
			fb[k] = v
		}
	}
	for k, v := range after {
		if !belongs(k) {
			fa[k] = v
		}
	}
	if d := c40RawDiff(fb, fa); d != "" {
		return fmt.Sprintf("etcd keys unrelated to the mutated topics %v changed while read-only tools ran concurrently with %v:\n%s", touched, trace, d)
	}
	if len(trace) > 0 && toolCalls > 0 {
		if st.NonTrivial(trace, string(callDesc)) {
			st.Sample(map[string]any{"mutations": trace, "tool_calls": toolCalls, "distinct_calls": len(calls)})
		}
	}
	return ""
}

func TestVF_C40_EtcdConcurrent(t *testing.T) {
	st := vfkit.NewStats("C40", "etcdconc")
	defer st.Flush()
	inconclusive := func(format string, a ...any) {
		msg := "VF-INCONCLUSIVE: " + fmt.Sprintf(format, a...)
		fmt.Println(msg)
		t.Fatal(msg)
	}
	endpoints := testutil.StartEmbeddedEtcd(t)
	if len(endpoints) == 0 {
		inconclusive("embedded etcd did not start")
	}
	ctx, cancel := context.WithCancel(context.Background())
	defer cancel()
	raw, err := clientv3.New(clientv3.Config{Endpoints: endpoints, DialTimeout: 5 * time.Second})
	if err != nil {
		inconclusive("etcd client: %v", err)
	}
	defer func() { _ = raw.Close() }()
	rec := &c40Recorder{inner: metadata.NewInMemoryStore(metadata.ClusterMetadata{})}
	server := NewServer(Options{Store: rec, Metrics: c40Metrics{}, Version: "verif"})
	st1, ct1 := mcp.NewInMemoryTransports()
	ss, err := server.Connect(ctx, st1, nil)
	if err != nil {
		inconclusive("server connect: %v", err)
	}
	client := mcp.NewClient(&mcp.Implementation{Name: "vf-c40-conc", Version: "0"}, nil)
	cs, err := client.Connect(ctx, ct1, nil)
	if err != nil {
		inconclusive("client connect: %v", err)
	}
	defer func() { _ = cs.Close(); _ = ss.Wait() }()
	lt, err := cs.ListTools(ctx, nil)
	if err != nil || len(lt.Tools) == 0 {
		inconclusive("ListTools: %v", err)
	}
	schemas := map[string]map[string]any{}
	for _, tl := range lt.Tools {
		var schema map[string]any
		b, _ := json.Marshal(tl.InputSchema)
		_ = json.Unmarshal(b, &schema)
		schemas[tl.Name] = schema
	}

	rapid.Check(t, func(t *rapid.T) {
		msg := c40ConcSticky
		if msg == "" {
			if msg = c40ConcCase(t, st, ctx, raw, endpoints, rec, cs, schemas); msg != "" {
				fmt.Println("C40 violation detected:", msg)
				c40ConcSticky = "[first detected by an earlier evaluation in this process; the interleaving comes from the scheduler and cannot be replayed from the draws] " + msg
			}
		}
		if msg != "" {
			t.Fatalf("%s", msg) // single call site (rapid compares tracebacks to tell a failure from a flaky test)
		}
	})
}
