//go:build verif

package mcpserver

import (
	"context"
	"encoding/hex"
	"encoding/json"
	"fmt"
	"sort"
	"strings"
	"sync"
	"testing"

	"github.com/modelcontextprotocol/go-sdk/mcp"
	"github.com/twmb/franz-go/pkg/kmsg"
	"google.golang.org/protobuf/proto"
	"pgregory.net/rapid"
	"verif.local/vfkit"

	console "github.com/KafScale/platform/internal/console"
	metadatapb "github.com/KafScale/platform/pkg/gen/metadata"
	"github.com/KafScale/platform/pkg/metadata"
	"github.com/KafScale/platform/pkg/protocol"
)

// C40: calling any tool of the ops MCP server with any arguments leaves topics, offsets,
// groups and configurations in the metadata store unchanged.
//
// The tools are enumerated from the server itself (ListTools over the SDK's in-memory
// transport) and arguments are generated from each tool's JSON input schema. The store
// handed to the server is a recorder around a real metadata.InMemoryStore: a call of any
// state-changing Store method is a violation, and a deep snapshot taken through the inner
// store's read API before and after every call must be identical.

type c40Recorder struct {
	mu     sync.Mutex
	inner  metadata.Store
	writes []string
	reads  int
}

func (r *c40Recorder) set(inner metadata.Store) {
	r.mu.Lock()
	r.inner, r.writes, r.reads = inner, nil, 0
	r.mu.Unlock()
}
func (r *c40Recorder) in() metadata.Store { r.mu.Lock(); defer r.mu.Unlock(); r.reads++; return r.inner }
func (r *c40Recorder) wr(what string) metadata.Store {
	r.mu.Lock()
	defer r.mu.Unlock()
	r.writes = append(r.writes, what)
	return r.inner
}
func (r *c40Recorder) takeWrites() []string {
	r.mu.Lock()
	defer r.mu.Unlock()
	w := r.writes
	r.writes = nil
	return w
}

func (r *c40Recorder) Metadata(ctx context.Context, topics []string) (*metadata.ClusterMetadata, error) {
	return r.in().Metadata(ctx, topics)
}
func (r *c40Recorder) NextOffset(ctx context.Context, topic string, partition int32) (int64, error) {
	return r.in().NextOffset(ctx, topic, partition)
}
func (r *c40Recorder) UpdateOffsets(ctx context.Context, topic string, partition int32, lastOffset int64) error {
	return r.wr(fmt.Sprintf("UpdateOffsets(%q,%d,%d)", topic, partition, lastOffset)).UpdateOffsets(ctx, topic, partition, lastOffset)
}
func (r *c40Recorder) CommitConsumerOffset(ctx context.Context, group, topic string, partition int32, offset int64, md string) error {
	return r.wr(fmt.Sprintf("CommitConsumerOffset(%q,%q,%d,%d)", group, topic, partition, offset)).CommitConsumerOffset(ctx, group, topic, partition, offset, md)
}
func (r *c40Recorder) FetchConsumerOffset(ctx context.Context, group, topic string, partition int32) (int64, string, error) {
	return r.in().FetchConsumerOffset(ctx, group, topic, partition)
}
func (r *c40Recorder) ListConsumerOffsets(ctx context.Context) ([]metadata.ConsumerOffset, error) {
	return r.in().ListConsumerOffsets(ctx)
}
func (r *c40Recorder) PutConsumerGroup(ctx context.Context, group *metadatapb.ConsumerGroup) error {
	return r.wr(fmt.Sprintf("PutConsumerGroup(%v)", group.GetGroupId())).PutConsumerGroup(ctx, group)
}
func (r *c40Recorder) FetchConsumerGroup(ctx context.Context, groupID string) (*metadatapb.ConsumerGroup, error) {
	return r.in().FetchConsumerGroup(ctx, groupID)
}
func (r *c40Recorder) ListConsumerGroups(ctx context.Context) ([]*metadatapb.ConsumerGroup, error) {
	return r.in().ListConsumerGroups(ctx)
}
func (r *c40Recorder) DeleteConsumerGroup(ctx context.Context, groupID string) error {
	return r.wr(fmt.Sprintf("DeleteConsumerGroup(%q)", groupID)).DeleteConsumerGroup(ctx, groupID)
}
func (r *c40Recorder) FetchTopicConfig(ctx context.Context, topic string) (*metadatapb.TopicConfig, error) {
	return r.in().FetchTopicConfig(ctx, topic)
}
func (r *c40Recorder) UpdateTopicConfig(ctx context.Context, cfg *metadatapb.TopicConfig) error {
	return r.wr(fmt.Sprintf("UpdateTopicConfig(%v)", cfg.GetName())).UpdateTopicConfig(ctx, cfg)
}
func (r *c40Recorder) CreatePartitions(ctx context.Context, topic string, n int32) error {
	return r.wr(fmt.Sprintf("CreatePartitions(%q,%d)", topic, n)).CreatePartitions(ctx, topic, n)
}
func (r *c40Recorder) CreateTopic(ctx context.Context, spec metadata.TopicSpec) (*protocol.MetadataTopic, error) {
	return r.wr(fmt.Sprintf("CreateTopic(%q,%d)", spec.Name, spec.NumPartitions)).CreateTopic(ctx, spec)
}
func (r *c40Recorder) DeleteTopic(ctx context.Context, name string) error {
	return r.wr(fmt.Sprintf("DeleteTopic(%q)", name)).DeleteTopic(ctx, name)
}

type c40Metrics struct{}

func (c40Metrics) Snapshot(context.Context) (*console.MetricsSnapshot, error) {
	return &console.MetricsSnapshot{S3State: "healthy", S3LatencyMS: 12, ProduceRPS: 3}, nil
}

// ---------------------------------------------------------------- store contents

var c40TopicPool = []string{"orders", "payments", "events", "a.b", "x_y", "t-1", "grp-a:orders", "ORDERS", "ünï", "__consumer_offsets"}
var c40GroupPool = []string{"grp-a", "grp-b", "billing", "grp-a:orders", "G", "ünï-group"}
var c40Hostile = []string{"", " ", "nope", "orders ", "../etc", "a:b:0", "*", "%s%n", "\u0000", strings.Repeat("x", 300), "orders\n", "null"}

type c40World struct {
	topics     []string
	partitions map[string]int
	groups     []string
	refreshed  bool // partition counts changed after the config records were written
	// group ids that own committed offsets but have no group record (record deleted afterwards, or
	// offsets committed without a record ever being stored)
	ghostGroups []string
}

func c40Populate(t *rapid.T) (*metadata.InMemoryStore, c40World) {
	w := c40World{partitions: map[string]int{}}
	nb := rapid.IntRange(0, 3).Draw(t, "brokers")
	var brokers []protocol.MetadataBroker
	for i := 0; i < nb; i++ {
		brokers = append(brokers, protocol.MetadataBroker{NodeID: int32(i), Host: fmt.Sprintf("broker-%d", i), Port: 9092})
	}
	nt := rapid.IntRange(0, 5).Draw(t, "topics")
	var topics []protocol.MetadataTopic
	used := map[string]bool{}
	for i := 0; i < nt; i++ {
		name := rapid.SampledFrom(c40TopicPool).Draw(t, "topicName")
		if used[name] {
			continue
		}
		used[name] = true
		np := rapid.IntRange(0, 4).Draw(t, "partitions")
		var parts []protocol.MetadataPartition
		for p := 0; p < np; p++ {
			leader := int32(0)
			if nb > 0 {
				leader = int32(p % nb)
			}
			parts = append(parts, protocol.MetadataPartition{Partition: int32(p), Leader: leader, Replicas: []int32{leader}, ISR: []int32{leader}})
		}
		topics = append(topics, protocol.MetadataTopic{Topic: kmsg.StringPtr(name), Partitions: parts})
		w.topics = append(w.topics, name)
		w.partitions[name] = np
	}
	cm := metadata.ClusterMetadata{Brokers: brokers, Topics: topics}
	if rapid.Bool().Draw(t, "named") {
		cm.ClusterName, cm.ClusterID = kmsg.StringPtr("c40"), kmsg.StringPtr("id-40")
	}
	s := metadata.NewInMemoryStore(cm)
	ctx := context.Background()
	for _, tp := range w.topics {
		for p := 0; p < w.partitions[tp]; p++ {
			if rapid.Bool().Draw(t, "hasOffset") {
				_ = s.UpdateOffsets(ctx, tp, int32(p), int64(rapid.IntRange(0, 1000).Draw(t, "lastOffset")))
			}
		}
		if rapid.Bool().Draw(t, "hasConfig") {
			_ = s.UpdateTopicConfig(ctx, &metadatapb.TopicConfig{Name: tp, RetentionMs: int64(rapid.IntRange(-1, 100000).Draw(t, "retention")),
				SegmentBytes: 1 << 20, Config: map[string]string{"cleanup.policy": rapid.SampledFrom([]string{"delete", "compact"}).Draw(t, "policy")}})
		}
	}
	ng := rapid.IntRange(0, 3).Draw(t, "groups")
	usedG := map[string]bool{}
	for i := 0; i < ng; i++ {
		gid := rapid.SampledFrom(c40GroupPool).Draw(t, "groupID")
		if usedG[gid] {
			continue
		}
		usedG[gid] = true
		w.groups = append(w.groups, gid)
		g := &metadatapb.ConsumerGroup{GroupId: gid, State: rapid.SampledFrom([]string{"stable", "empty", "preparing_rebalance"}).Draw(t, "state"),
			ProtocolType: "consumer", Protocol: "range", GenerationId: int32(rapid.IntRange(0, 9).Draw(t, "gen")), Members: map[string]*metadatapb.GroupMember{}}
		nm := rapid.IntRange(0, 2).Draw(t, "members")
		for m := 0; m < nm; m++ {
			mem := &metadatapb.GroupMember{ClientId: fmt.Sprintf("client-%d", m), ClientHost: "10.0.0.1", SessionTimeoutMs: 30000}
			if len(w.topics) > 0 {
				tp := w.topics[m%len(w.topics)]
				mem.Subscriptions = []string{tp}
				mem.Assignments = []*metadatapb.Assignment{{Topic: tp, Partitions: []int32{0}}}
			}
			g.Members[fmt.Sprintf("member-%d", m)] = mem
		}
		if nm > 0 {
			g.Leader = "member-0"
		}
		_ = s.PutConsumerGroup(ctx, g)
		for _, tp := range w.topics {
			for p := 0; p < w.partitions[tp]; p++ {
				if rapid.IntRange(0, 2).Draw(t, "committed") == 0 {
					_ = s.CommitConsumerOffset(ctx, gid, tp, int32(p), int64(rapid.IntRange(0, 500).Draw(t, "offset")), rapid.SampledFrom([]string{"", "meta"}).Draw(t, "offsetMeta"))
				}
			}
		}
	}
	// Later history: some groups were deleted (DeleteConsumerGroup drops only the record, the committed
	// offsets stay), and offsets were committed for a group that never stored a record.
	if len(w.topics) > 0 {
		kept := w.groups[:0:0]
		for _, gid := range w.groups {
			if rapid.IntRange(0, 3).Draw(t, "groupDeletedLater") == 2 {
				tp := w.topics[0]
				_ = s.CommitConsumerOffset(ctx, gid, tp, 0, int64(rapid.IntRange(1, 500).Draw(t, "ghostOffset")), "")
				_ = s.DeleteConsumerGroup(ctx, gid)
				w.ghostGroups = append(w.ghostGroups, gid)
				continue
			}
			kept = append(kept, gid)
		}
		w.groups = kept
		if rapid.IntRange(0, 3).Draw(t, "offsetsWithoutRecord") == 1 {
			gid := "offsets-only"
			_ = s.CommitConsumerOffset(ctx, gid, w.topics[len(w.topics)-1], 0, int64(rapid.IntRange(1, 500).Draw(t, "orphanOffset")), "meta")
			w.ghostGroups = append(w.ghostGroups, gid)
		}
	}
	// Later history: the partition count of some topics changed after their config record was
	// written, without the record being rewritten - what a metadata snapshot refresh does
	// (InMemoryStore.Update is what the etcd snapshot watcher calls) - or through
	// CreatePartitions (which rewrites the record).
	if len(w.topics) > 0 && rapid.IntRange(0, 2).Draw(t, "laterGrowth") > 0 {
		if meta, err := s.Metadata(ctx, nil); err == nil {
			grew := false
			for i := range meta.Topics {
				name := *meta.Topics[i].Topic
				switch rapid.IntRange(0, 3).Draw(t, "growHow") {
				case 1, 2: // snapshot refresh with more partitions
					add := rapid.IntRange(1, 3).Draw(t, "growBy")
					for k := 0; k < add; k++ {
						id := int32(len(meta.Topics[i].Partitions))
						meta.Topics[i].Partitions = append(meta.Topics[i].Partitions, protocol.MetadataPartition{Partition: id, Replicas: []int32{0}, ISR: []int32{0}})
					}
					w.partitions[name] += add
					grew = true
				}
			}
			if grew {
				s.Update(*meta)
				w.refreshed = true
			}
			for _, tp := range w.topics {
				if rapid.IntRange(0, 4).Draw(t, "createPartitions") == 2 {
					if s.CreatePartitions(ctx, tp, int32(w.partitions[tp]+1)) == nil {
						w.partitions[tp]++
					}
				}
			}
		}
	}
	return s, w
}

// c40Snapshot renders topics, next offsets, consumer offsets (+metadata), groups and
// configurations through the inner store's read API in a canonical form.
func c40Snapshot(s *metadata.InMemoryStore, w c40World) (string, error) {
	ctx := context.Background()
	var sb strings.Builder
	meta, err := s.Metadata(ctx, nil)
	if err != nil {
		return "", err
	}
	mj, err := json.Marshal(meta)
	if err != nil {
		return "", err
	}
	sb.WriteString("metadata " + string(mj) + "\n")
	names := []string{}
	for _, tp := range meta.Topics {
		names = append(names, *tp.Topic)
		for _, p := range tp.Partitions {
			off, err := s.NextOffset(ctx, *tp.Topic, p.Partition)
			fmt.Fprintf(&sb, "next %q/%d = %d %v\n", *tp.Topic, p.Partition, off, err)
		}
	}
	// also the names the case knows about and the hostile ones (auto-creation on lookup would show here)
	probe := append(append([]string{}, c40TopicPool...), c40Hostile...)
	sort.Strings(probe)
	for _, tp := range probe {
		cfg, err := s.FetchTopicConfig(ctx, tp)
		b := []byte{}
		if cfg != nil {
			if cfg.CreatedAt != "" {
				// InMemoryStore synthesizes a default config stamped with the wall clock for topics
				// without a stored one; that stamp is not store state
				cfg.CreatedAt = "<set>"
			}
			b, _ = proto.MarshalOptions{Deterministic: true}.Marshal(cfg)
		}
		fmt.Fprintf(&sb, "config %q = %s %v\n", tp, hex.EncodeToString(b), err)
	}
	offs, err := s.ListConsumerOffsets(ctx)
	if err != nil {
		return "", err
	}
	lines := []string{}
	for _, o := range offs {
		_, md, _ := s.FetchConsumerOffset(ctx, o.Group, o.Topic, o.Partition)
		lines = append(lines, fmt.Sprintf("committed %q %q %d = %d %q", o.Group, o.Topic, o.Partition, o.Offset, md))
	}
	sort.Strings(lines)
	sb.WriteString(strings.Join(lines, "\n") + "\n")
	// Groups are read one id at a time (every id the harness or a tool argument can name), NOT through
	// ListConsumerGroups: that is the read the list_groups tool itself uses, and a listing that
	// materialises records as a side effect would hide its own effect from a list-based comparison.
	lines = lines[:0]
	ids := map[string]bool{}
	for _, list := range [][]string{c40GroupPool, c40TopicPool, c40Hostile, w.groups, w.ghostGroups} {
		for _, id := range list {
			ids[id] = true
		}
	}
	for id := range ids {
		g, err := s.FetchConsumerGroup(ctx, id)
		b := []byte{}
		if g != nil {
			b, _ = proto.MarshalOptions{Deterministic: true}.Marshal(g)
		}
		lines = append(lines, fmt.Sprintf("group %q = present:%v %s %v", id, g != nil, hex.EncodeToString(b), err))
	}
	sort.Strings(lines)
	sb.WriteString(strings.Join(lines, "\n") + "\n")
	return sb.String(), nil
}

// ---------------------------------------------------------------- argument generation from the schema

func c40Types(schema map[string]any) []string {
	switch v := schema["type"].(type) {
	case string:
		return []string{v}
	case []any:
		out := []string{}
		for _, x := range v {
			if s, ok := x.(string); ok {
				out = append(out, s)
			}
		}
		return out
	}
	return nil
}

type c40Arg struct {
	namesExisting bool
	nonEmpty      bool
}

func c40String(t *rapid.T, w c40World, prop string, info *c40Arg) string {
	pool := w.topics
	if strings.Contains(prop, "group") {
		pool = w.groups
	}
	k := rapid.IntRange(0, 9).Draw(t, "strKind")
	switch {
	case k <= 5 && len(pool) > 0:
		info.namesExisting, info.nonEmpty = true, true
		return rapid.SampledFrom(pool).Draw(t, "existing")
	case k <= 7:
		v := rapid.SampledFrom(append(append([]string{}, c40TopicPool...), c40GroupPool...)).Draw(t, "poolName")
		info.nonEmpty = true
		for _, e := range pool {
			if e == v {
				info.namesExisting = true
			}
		}
		return v
	default:
		v := rapid.SampledFrom(c40Hostile).Draw(t, "hostile")
		if v != "" {
			info.nonEmpty = true
		}
		return v
	}
}

func c40Value(t *rapid.T, w c40World, prop string, schema map[string]any, info *c40Arg) any {
	types := c40Types(schema)
	if rapid.IntRange(0, 11).Draw(t, "wrongType") == 5 || len(types) == 0 {
		return rapid.SampledFrom([]any{nil, 42, -1.5, true, "orders", []any{1, nil, map[string]any{}}, map[string]any{"a": 1}, []any{[]any{"orders"}}}).Draw(t, "wrong")
	}
	switch rapid.SampledFrom(types).Draw(t, "type") {
	case "string":
		return c40String(t, w, prop, info)
	case "array":
		n := rapid.IntRange(0, 4).Draw(t, "arrayLen")
		out := make([]any, 0, n)
		item, _ := schema["items"].(map[string]any)
		for i := 0; i < n; i++ {
			if item != nil && len(c40Types(item)) > 0 && c40Types(item)[0] != "string" {
				out = append(out, c40Value(t, w, prop, item, info))
			} else {
				out = append(out, c40String(t, w, prop, info))
			}
		}
		return out
	case "null":
		return nil
	case "integer", "number":
		return rapid.IntRange(-5, 5).Draw(t, "int")
	case "boolean":
		return rapid.Bool().Draw(t, "bool")
	case "object":
		return c40Object(t, w, schema, info)
	}
	return nil
}

func c40Object(t *rapid.T, w c40World, schema map[string]any, info *c40Arg) map[string]any {
	out := map[string]any{}
	props, _ := schema["properties"].(map[string]any)
	keys := make([]string, 0, len(props))
	for k := range props {
		keys = append(keys, k)
	}
	sort.Strings(keys)
	for _, k := range keys {
		ps, _ := props[k].(map[string]any)
		if rapid.IntRange(0, 7).Draw(t, "omit") == 3 {
			continue
		}
		out[k] = c40Value(t, w, k, ps, info)
	}
	if rapid.IntRange(0, 9).Draw(t, "extra") == 4 {
		out[rapid.SampledFrom([]string{"names", "topics", "group_id", "force", "create", "__proto__"}).Draw(t, "extraKey")] =
			rapid.SampledFrom([]any{true, "orders", []any{"orders"}, 1}).Draw(t, "extraVal")
	}
	return out
}

func TestVF_C40_Tools(t *testing.T) {
	st := vfkit.NewStats("C40", "tools")
	defer st.Flush()
	ctx, cancel := context.WithCancel(context.Background())
	defer cancel()
	rec := &c40Recorder{inner: metadata.NewInMemoryStore(metadata.ClusterMetadata{})}
	server := NewServer(Options{Store: rec, Metrics: c40Metrics{}, Version: "verif"})
	st1, ct1 := mcp.NewInMemoryTransports()
	ss, err := server.Connect(ctx, st1, nil)
	if err != nil {
		t.Fatalf("VF-INCONCLUSIVE: server connect: %v", err)
	}
	client := mcp.NewClient(&mcp.Implementation{Name: "vf-c40", Version: "0"}, nil)
	cs, err := client.Connect(ctx, ct1, nil)
	if err != nil {
		t.Fatalf("VF-INCONCLUSIVE: client connect: %v", err)
	}
	defer func() { _ = cs.Close(); _ = ss.Wait() }()
	lt, err := cs.ListTools(ctx, nil)
	if err != nil || len(lt.Tools) == 0 {
		t.Fatalf("VF-INCONCLUSIVE: ListTools: %v (%d tools)", err, len(lt.Tools))
	}
	type toolInfo struct {
		name   string
		schema map[string]any
	}
	var tools []toolInfo
	var toolNames []string
	for _, tl := range lt.Tools {
		var schema map[string]any
		b, _ := json.Marshal(tl.InputSchema)
		_ = json.Unmarshal(b, &schema)
		tools = append(tools, toolInfo{tl.Name, schema})
		toolNames = append(toolNames, tl.Name)
	}
	sort.Slice(tools, func(i, j int) bool { return tools[i].name < tools[j].name })
	sort.Strings(toolNames)
	st.Note("tools", toolNames)

	rapid.Check(t, func(t *rapid.T) {
		inner, w := c40Populate(t)
		rec.set(inner)
		if w.refreshed {
			st.Class("partition-count-changed-after-config-was-stored")
		}
		if len(w.ghostGroups) > 0 {
			st.Class("offsets-left-by-a-group-without-record")
		}
		ncalls := rapid.IntRange(1, 6).Draw(t, "calls")
		for i := 0; i < ncalls; i++ {
			tool := tools[rapid.IntRange(0, len(tools)-1).Draw(t, "tool")]
			info := &c40Arg{}
			var args any
			switch rapid.IntRange(0, 14).Draw(t, "argShape") {
			case 6:
				args = nil
			case 7:
				args = json.RawMessage(rapid.SampledFrom([]string{`[]`, `"orders"`, `null`, `7`, `{"names":{"0":"orders"}}`, `{"group_id":["grp-a"]}`}).Draw(t, "rawArgs"))
			default:
				args = c40Object(t, w, tool.schema, info)
			}
			before, err := c40Snapshot(inner, w)
			if err != nil {
				t.Fatalf("VF-INCONCLUSIVE: snapshot: %v", err)
			}
			st.Eval()
			res, callErr := cs.CallTool(ctx, &mcp.CallToolParams{Name: tool.name, Arguments: args})
			outcome := "ok"
			if callErr != nil {
				outcome = "protocol-error"
			} else if res != nil && res.IsError {
				outcome = "tool-error"
			}
			st.Class(tool.name + ":" + outcome)
			argJSON, _ := json.Marshal(args)
			if wr := rec.takeWrites(); len(wr) > 0 {
				t.Fatalf("tool %s with arguments %s called state-changing store methods %v", tool.name, argJSON, wr)
			}
			after, err := c40Snapshot(inner, w)
			if err != nil {
				t.Fatalf("VF-INCONCLUSIVE: snapshot: %v", err)
			}
			if before != after {
				t.Fatalf("tool %s with arguments %s changed the metadata store\nbefore:\n%s\nafter:\n%s", tool.name, argJSON, before, after)
			}
			if info.namesExisting && info.nonEmpty {
				st.Class("names-existing-object")
				if st.NonTrivial(tool.name, string(argJSON), w.topics, w.groups) {
					st.Sample(map[string]any{"tool": tool.name, "arguments": json.RawMessage(argJSON), "topics": w.topics, "groups": w.groups, "outcome": outcome})
				}
			}
		}
	})
}
