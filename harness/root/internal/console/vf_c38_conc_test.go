//go:build verif

package console

import (
	"fmt"
	"io"
	"log"
	"net/http"
	"net/http/httptest"
	"os"
	"strings"
	"sync"
	"testing"

	"pgregory.net/rapid"
	"verif.local/vfkit"

	"github.com/KafScale/platform/pkg/metadata"
)

// C38, concurrent leg: protected requests carrying token T race a POST logout of T (real
// goroutines released by one barrier); other sessions may have been validated just before
// (so that T is or is not the "most recently validated" one). While the race is on, a request
// may be answered or rejected. AFTER the logout has returned 200 and all racing requests have
// returned, T has been logged out: every replay of T must be rejected with 401, while the
// other live sessions must still be answered.
//
// Interleavings come from the Go scheduler and cannot be replayed from the draws, so the
// first detected violation is re-reported from a single call site (rapid compares tracebacks
// to tell a failure from a flaky test). The leg is also built with -race.

var c38ConcSticky string

type c38ConcPlan struct {
	Racers   int      // concurrent protected requests with T
	Paths    []string // one per racer
	Prime    string   // none | same | other | other-then-same
	Logouts  int      // concurrent logouts of T (1-2)
	Replays  int
	OtherOut bool // also log the other session out concurrently (its own replay must then fail too)
}

var c38ConcPaths = []string{"/ui/api/status", "/ui/api/status", "/ui/api/status/topics/orders", "/ui/api/lfs/status", "/ui/api/lfs/orphans", "/ui/api/lfs/topics"}

func c38ConcDo(h http.Handler, method, target, remote, body, token string) int {
	var rd io.Reader
	if body != "" {
		rd = strings.NewReader(body)
	}
	req := httptest.NewRequest(method, target, rd)
	req.RemoteAddr = remote
	if token != "" {
		req.AddCookie(&http.Cookie{Name: sessionCookieName, Value: token})
	}
	rec := httptest.NewRecorder()
	h.ServeHTTP(rec, req)
	return rec.Code
}

func c38ConcLogin(h http.Handler, n int) (string, int) {
	body, _ := c38Body(0)
	req := httptest.NewRequest("POST", "/ui/api/auth/login", strings.NewReader(body))
	req.RemoteAddr = fmt.Sprintf("10.%d.%d.%d:4000", n/65536%250+1, n/256%256, n%256) // a new peer each time: never rate limited
	rec := httptest.NewRecorder()
	h.ServeHTTP(rec, req)
	for _, c := range rec.Result().Cookies() {
		if c.Name == sessionCookieName && c.Value != "" {
			return c.Value, rec.Code
		}
	}
	return "", rec.Code
}

func TestVF_C38_Concurrent(t *testing.T) {
	legName := "concurrent"
	if v := os.Getenv("VF_C38_LEG"); v != "" {
		legName = v // the same test also runs as the -race leg
	}
	st := vfkit.NewStats("C38", legName)
	defer st.Flush()
	h, err := NewMux(ServerOptions{Auth: AuthConfig{Username: c38User, Password: c38Pass}, Store: metadata.NewInMemoryStore(metadata.ClusterMetadata{}),
		Logger: log.New(io.Discard, "", 0), LFSHandlers: NewLFSHandlers(LFSConfig{Enabled: true}, log.New(io.Discard, "", 0))})
	if err != nil {
		fmt.Println("VF-INCONCLUSIVE: NewMux:", err)
		t.Fatalf("VF-INCONCLUSIVE: NewMux: %v", err)
	}
	logins := 0
	oneCase := func(rt *rapid.T) string {
		p := c38ConcPlan{Racers: rapid.IntRange(1, 8).Draw(rt, "racers"), Prime: rapid.SampledFrom([]string{"none", "same", "other", "other", "other-then-same"}).Draw(rt, "prime"),
			Logouts: rapid.SampledFrom([]int{1, 1, 1, 2}).Draw(rt, "logouts"), Replays: rapid.IntRange(1, 3).Draw(rt, "replays"), OtherOut: rapid.IntRange(0, 3).Draw(rt, "otherOut") == 2}
		for i := 0; i < p.Racers; i++ {
			p.Paths = append(p.Paths, rapid.SampledFrom(c38ConcPaths).Draw(rt, "path"))
		}
		st.Eval()
		logins++
		tok, code := c38ConcLogin(h, logins)
		if tok == "" {
			fmt.Printf("VF-INCONCLUSIVE: login %d answered %d\n", logins, code)
			rt.Fatalf("VF-INCONCLUSIVE: login %d answered %d", logins, code)
		}
		logins++
		other, code := c38ConcLogin(h, logins)
		if other == "" {
			fmt.Printf("VF-INCONCLUSIVE: login %d answered %d\n", logins, code)
			rt.Fatalf("VF-INCONCLUSIVE: login %d answered %d", logins, code)
		}
		// which session was validated most recently before the race
		switch p.Prime {
		case "same":
			c38ConcDo(h, "GET", "/ui/api/status", "10.0.0.1:1", "", tok)
		case "other":
			c38ConcDo(h, "GET", "/ui/api/status", "10.0.0.1:1", "", tok)
			c38ConcDo(h, "GET", "/ui/api/status", "10.0.0.1:1", "", other)
		case "other-then-same":
			c38ConcDo(h, "GET", "/ui/api/status", "10.0.0.1:1", "", other)
			c38ConcDo(h, "GET", "/ui/api/status", "10.0.0.1:1", "", tok)
		}
		start := make(chan struct{})
		var wg sync.WaitGroup
		codes := make([]int, p.Racers)
		outCodes := make([]int, p.Logouts)
		otherOutCode := 0
		for i := 0; i < p.Racers; i++ {
			wg.Add(1)
			go func(i int) {
				defer wg.Done()
				<-start
				codes[i] = c38ConcDo(h, "GET", p.Paths[i], "10.0.0.2:2", "", tok)
			}(i)
		}
		for i := 0; i < p.Logouts; i++ {
			wg.Add(1)
			go func(i int) {
				defer wg.Done()
				<-start
				outCodes[i] = c38ConcDo(h, "POST", "/ui/api/auth/logout", "10.0.0.3:3", "", tok)
			}(i)
		}
		if p.OtherOut {
			wg.Add(1)
			go func() {
				defer wg.Done()
				<-start
				otherOutCode = c38ConcDo(h, "POST", "/ui/api/auth/logout", "10.0.0.4:4", "", other)
			}()
		}
		close(start)
		wg.Wait()
		answered := 0
		for i, c := range codes {
			if c == http.StatusServiceUnavailable {
				return fmt.Sprintf("racing request %d answered 503", i)
			}
			if c != http.StatusUnauthorized {
				answered++
			}
		}
		switch {
		case answered == 0:
			st.Class("race:all-requests-rejected")
		case answered == len(codes):
			st.Class("race:all-requests-answered")
		default:
			st.Class("race:mixed")
		}
		st.Class("prime-" + p.Prime)
		for _, c := range outCodes {
			if c != http.StatusOK {
				return fmt.Sprintf("POST logout answered %d", c)
			}
		}
		// the logout has completed: replays of T must be rejected
		for i := 0; i < p.Replays; i++ {
			path := p.Paths[i%len(p.Paths)]
			if c := c38ConcDo(h, "GET", path, "10.0.0.5:5", "", tok); c != http.StatusUnauthorized {
				return fmt.Sprintf("token was logged out (POST logout answered 200, %d protected requests raced it: %v, session validated before the race: %s) but a later GET %s with it answered %d instead of 401",
					p.Racers, codes, p.Prime, path, c)
			}
		}
		// the other session
		c := c38ConcDo(h, "GET", "/ui/api/status", "10.0.0.6:6", "", other)
		if p.OtherOut {
			if otherOutCode == http.StatusOK && c != http.StatusUnauthorized {
				return fmt.Sprintf("the second session was logged out concurrently (200) but a later request with it answered %d", c)
			}
		} else if c == http.StatusUnauthorized {
			return fmt.Sprintf("logging out one session (racers %d, prime %s) made the other live session unusable: 401", p.Racers, p.Prime)
		}
		if st.NonTrivial(p.Racers, p.Prime, p.Logouts, p.OtherOut, answered, fmt.Sprint(p.Paths)) {
			st.Sample(map[string]any{"plan": p, "race_codes": codes})
		}
		return ""
	}
	rapid.Check(t, func(rt *rapid.T) {
		msg := c38ConcSticky
		if msg == "" {
			if msg = oneCase(rt); msg != "" {
				fmt.Println("C38 violation detected:", msg)
				c38ConcSticky = "[first detected by an earlier evaluation in this process; the interleaving comes from the scheduler and cannot be replayed from the draws] " + msg
			}
		}
		if msg != "" {
			rt.Fatalf("%s", msg) // single call site
		}
	})
}
