//go:build verif

package console

import (
	"context"
	"fmt"
	"io"
	"log"
	"net/http"
	"net/http/httptest"
	"strings"
	"testing"
	"testing/synctest"
	"time"

	"pgregory.net/rapid"
	"verif.local/vfkit"

	"github.com/KafScale/platform/pkg/metadata"
)

// C38: every protected console endpoint answers only requests that carry a session token
// issued by a successful login, not expired, not logged out; a client address gets at most
// the configured number of login attempts in any sliding window.
//
// The whole history (logins, logouts, requests, time jumps) is drawn up front as plain data
// and executed against console.NewMux inside a synctest bubble (virtual clock). The
// reference model knows the issued tokens (value and advertised expiry taken from the
// Set-Cookie of the login response), which of them were logged out, and the times of the
// processed login attempts per client address.

type c38Act struct {
	Kind   string // login | burst | logout | req | sleep | sleepTo
	Addr   int
	Port   int
	Creds  int
	Method string
	Path   string
	Cookie int
	Tok    int
	Dur    int // seconds
	N      int
	// second cookie of the same name (c38CkPair) and its position
	Cookie2 int
	Tok2    int
	Swap    bool
	Probe   bool // logout: follow up with a protected request carrying the same cookies
	Hdr     int  // proxy-style request headers (see c38Headers)
}

const (
	c38CkNone = iota
	c38CkToken
	c38CkRandom
	c38CkOtherName
	c38CkMangled
	c38CkTokenPlusNoise
	c38CkEmpty
	c38CkPair // two cookies named kafscale_ui_session in one request
)

// peer addresses: private, loopback, public (IPv4 and IPv6)
var c38Addrs = []string{"10.0.0.1", "10.0.0.2", "192.168.7.9", "[2001:db8::1]", "127.0.0.1", "[::1]", "198.51.100.7", "172.16.5.4", "[fd00::5]"}

// c38Headers builds proxy-style headers; n is a per-history request counter so that
// "rotating" variants name a different client on every request.
func c38Headers(kind, n int) map[string]string {
	rot := fmt.Sprintf("203.0.113.%d", n%250+1)
	switch kind {
	case 2:
		return map[string]string{"X-Forwarded-For": rot}
	case 3:
		return map[string]string{"X-Forwarded-For": fmt.Sprintf("198.18.%d.%d, 10.0.0.9", n/250%250, n%250+1)}
	case 4:
		return map[string]string{"X-Real-IP": rot, "Forwarded": "for=" + rot}
	case 5:
		return map[string]string{"X-Forwarded-For": "203.0.113.200", "X-Real-IP": "203.0.113.200"}
	case 6:
		return map[string]string{"X-Forwarded-For": "unknown, not-an-ip"}
	case 7:
		return map[string]string{"X-Forwarded-For": fmt.Sprintf("2001:db8::%x", n+1)}
	}
	return nil
}

var c38Paths = []string{
	"/ui/api/status", "/ui/api/status", "/ui/api/status/topics", "/ui/api/status/topics/orders", "/ui/api/status/topics/a/b",
	"/ui/api/status/topics/", "/ui/api/metrics", "/ui/api/lfs/status", "/ui/api/lfs/objects", "/ui/api/lfs/objects?topic=x&limit=3",
	"/ui/api/lfs/topics", "/ui/api/lfs/topics/", "/ui/api/lfs/topics/foo", "/ui/api/lfs/events", "/ui/api/lfs/orphans",
	"/ui/api/lfs/s3/browse", "/ui/api/lfs/s3/presign",
	// not registered / public ones (no assertion, statistics only)
	"/ui/api/status/", "/ui/api/other", "/ui/api/lfs", "/ui/api/lfs/s3", "/ui/api/auth/config", "/ui/api/auth/session", "/healthz", "/ui/", "/ui/index.html",
}

var c38Methods = []string{"GET", "GET", "GET", "POST", "DELETE", "PUT", "HEAD", "OPTIONS", "PATCH"}

func c38DrawActs(t *rapid.T) []c38Act {
	n := rapid.IntRange(1, 60).Draw(t, "steps")
	acts := make([]c38Act, 0, n)
	for i := 0; i < n; i++ {
		a := c38Act{}
		k := rapid.IntRange(0, 99).Draw(t, "kind")
		switch {
		case k < 22:
			a.Kind = "login"
		case k < 30:
			a.Kind = "burst"
			a.N = rapid.IntRange(2, 26).Draw(t, "burstN")
		case k < 40:
			a.Kind = "logout"
		case k < 78:
			a.Kind = "req"
		case k < 90:
			a.Kind = "sleep"
			a.Dur = rapid.SampledFrom([]int{1, 1, 5, 30, 58, 59, 60, 61, 120, 600, 3600, 6 * 3600, 12*3600 - 1, 12 * 3600, 12*3600 + 1, 13 * 3600, 30 * 3600}).Draw(t, "dur")
		default:
			a.Kind = "sleepTo" // to just before / exactly at / just after the advertised expiry of a token
			a.Dur = rapid.SampledFrom([]int{-2, -1, 0, 1, 2}).Draw(t, "delta")
		}
		a.Addr = rapid.IntRange(0, len(c38Addrs)-1).Draw(t, "addr")
		if rapid.IntRange(0, 2).Draw(t, "addr0") > 0 {
			a.Addr = 0 // concentrate on one client so that the limit is reached
		}
		a.Port = rapid.IntRange(1024, 1030).Draw(t, "port")
		a.Creds = rapid.SampledFrom([]int{0, 0, 0, 0, 1, 2, 3, 4, 5, 6}).Draw(t, "creds")
		a.Tok = rapid.IntRange(0, 7).Draw(t, "tok")
		a.Hdr = rapid.SampledFrom([]int{0, 0, 0, 2, 2, 3, 4, 5, 6, 7}).Draw(t, "hdr")
		if a.Kind == "req" || a.Kind == "logout" {
			if rapid.IntRange(0, 4).Draw(t, "twoCookies") == 3 {
				a.Cookie = -1
				a.Cookie2 = rapid.SampledFrom([]int{c38CkToken, c38CkToken, c38CkRandom, c38CkRandom, c38CkEmpty}).Draw(t, "cookie2")
				a.Tok2 = rapid.IntRange(0, 7).Draw(t, "tok2")
				a.Swap = rapid.Bool().Draw(t, "swap")
			}
		}
		switch a.Kind {
		case "req":
			a.Method = rapid.SampledFrom(c38Methods).Draw(t, "method")
			a.Path = rapid.SampledFrom(c38Paths).Draw(t, "path")
			ck := rapid.SampledFrom([]int{c38CkNone, c38CkToken, c38CkToken, c38CkToken, c38CkToken, c38CkRandom, c38CkOtherName, c38CkMangled, c38CkTokenPlusNoise, c38CkEmpty}).Draw(t, "cookie")
			if a.Cookie == -1 {
				a.Cookie = c38CkPair
			} else {
				a.Cookie = ck
			}
		case "logout":
			a.Method = rapid.SampledFrom([]string{"POST", "POST", "POST", "POST", "GET", "DELETE"}).Draw(t, "method")
			ck := rapid.SampledFrom([]int{c38CkToken, c38CkToken, c38CkToken, c38CkNone, c38CkRandom, c38CkOtherName}).Draw(t, "cookie")
			if a.Cookie == -1 {
				a.Cookie = c38CkPair
			} else {
				a.Cookie = ck
			}
			a.Probe = rapid.Bool().Draw(t, "probe")
			a.Path = rapid.SampledFrom([]string{"/ui/api/status", "/ui/api/status/topics/orders", "/ui/api/lfs/status", "/ui/api/lfs/orphans"}).Draw(t, "probePath")
		case "login", "burst":
			a.Method = rapid.SampledFrom([]string{"POST", "POST", "POST", "POST", "POST", "POST", "POST", "GET", "PUT"}).Draw(t, "method")
		}
		acts = append(acts, a)
	}
	return acts
}

const (
	c38User = "admin"
	c38Pass = "s3cr3t-pw"
)

func c38Body(creds int) (string, bool) {
	switch creds {
	case 0:
		return fmt.Sprintf(`{"username":%q,"password":%q}`, c38User, c38Pass), true
	case 1:
		return fmt.Sprintf(`{"username":%q,"password":"wrong"}`, c38User), false
	case 2:
		return fmt.Sprintf(`{"username":"root","password":%q}`, c38Pass), false
	case 3:
		return `{"username":"","password":""}`, false
	case 4:
		return `{"username":`, false
	case 5:
		return fmt.Sprintf(`{"username":%q,"password":%q}`, c38Pass, c38User), false
	default:
		return fmt.Sprintf(`{"username":%q,"password":%q}`, c38User+" ", c38Pass), false
	}
}

type c38Tok struct {
	val       string
	expiry    time.Time // advertised by the login response
	loggedOut bool
	unknown   bool // named in a logout that carried several session cookies: which one was ended is not specified
}

type c38Spy struct {
	metadata.Store
	calls int
}

func (s *c38Spy) Metadata(ctx context.Context, topics []string) (*metadata.ClusterMetadata, error) {
	s.calls++
	return s.Store.Metadata(ctx, topics)
}

type c38Run struct {
	fail      string
	trace     []string
	nt        bool
	classes   []string
	ttlNote   string
	limitNote string
}

func (r *c38Run) failf(format string, a ...any) {
	if r.fail == "" {
		r.fail = fmt.Sprintf(format, a...)
	}
}

// c38Exec runs one history; must be called inside a synctest bubble.
func c38Exec(acts []c38Act, authEnabled bool) *c38Run {
	run := &c38Run{}
	cfg := AuthConfig{Username: c38User, Password: c38Pass}
	if !authEnabled {
		cfg.Password = ""
	}
	ref := newAuthManager(cfg) // same constructor: the configured limit / window
	limit, window := 0, time.Duration(0)
	if ref.limiter != nil {
		limit, window = ref.limiter.limit, ref.limiter.window
	}
	run.limitNote = fmt.Sprintf("%d per %s", limit, window)
	run.ttlNote = ref.ttl.String()
	spy := &c38Spy{Store: metadata.NewInMemoryStore(metadata.ClusterMetadata{})}
	h, err := NewMux(ServerOptions{Auth: cfg, Store: spy, Logger: log.New(io.Discard, "", 0),
		LFSHandlers: NewLFSHandlers(LFSConfig{Enabled: true}, log.New(io.Discard, "", 0))})
	if err != nil {
		run.failf("VF-INCONCLUSIVE: NewMux: %v", err)
		return run
	}
	mux, isMux := h.(*http.ServeMux)
	var toks []*c38Tok
	attempts := map[string][]time.Time{} // processed login attempts per client address
	loggedOutSets := map[string]bool{}   // cookie value lists a successful logout was performed with
	cookieKey := func(cs []*http.Cookie) string {
		var vals []string
		for _, c := range cs {
			if c.Name == sessionCookieName {
				vals = append(vals, c.Value)
			}
		}
		return strings.Join(vals, "\x00")
	}

	reqSeq := 0
	hdrKind := 0 // set by the step being executed
	do := func(method, target, remote, body string, cookies []*http.Cookie) (*httptest.ResponseRecorder, string) {
		reqSeq++
		ctx, cancel := context.WithTimeout(context.Background(), 3*time.Second)
		defer cancel()
		var rd io.Reader
		if body != "" {
			rd = strings.NewReader(body)
		}
		req := httptest.NewRequest(method, target, rd).WithContext(ctx)
		req.RemoteAddr = remote
		for k, v := range c38Headers(hdrKind, reqSeq) {
			req.Header.Set(k, v)
		}
		for _, c := range cookies {
			req.AddCookie(c)
		}
		pattern := ""
		if isMux {
			_, pattern = mux.Handler(req)
		}
		rec := httptest.NewRecorder()
		h.ServeHTTP(rec, req)
		return rec, pattern
	}
	live := func(tk *c38Tok, now time.Time) (alive, dontCare bool) {
		if tk.loggedOut {
			return false, false
		}
		if tk.unknown {
			return false, true
		}
		if now.Equal(tk.expiry) {
			return false, true // the statement does not say which side the exact instant belongs to
		}
		return now.Before(tk.expiry), false
	}
	cookieFor := func(a c38Act, now time.Time) (cs []*http.Cookie, expectLive, dontCare bool, class string, tk *c38Tok) {
		pick := func() *c38Tok {
			if len(toks) == 0 {
				return nil
			}
			return toks[a.Tok%len(toks)]
		}
		switch a.Cookie {
		case c38CkNone:
			return nil, false, false, "no-cookie", nil
		case c38CkEmpty:
			return []*http.Cookie{{Name: sessionCookieName, Value: ""}}, false, false, "empty-cookie", nil
		case c38CkRandom:
			return []*http.Cookie{{Name: sessionCookieName, Value: fmt.Sprintf("Zm9yZ2VkLXRva2VuLW5ldmVyLWlzc3VlZC0%08d", a.Tok)}}, false, false, "forged-cookie", nil
		case c38CkPair:
			// two cookies of the session name: an issued token (or a forged value when none exists yet)
			// and a second value; all dead -> must be rejected, all live -> answered, mixed -> which one
			// counts is not specified (no assertion), see also loggedOutSets
			one := func(kind, idx int) (*http.Cookie, string, bool, bool) {
				if kind == c38CkToken && len(toks) > 0 {
					tk := toks[idx%len(toks)]
					al, dc := live(tk, now)
					st := "dead"
					if dc {
						st = "unspecified"
					} else if al {
						st = "live"
					}
					return &http.Cookie{Name: sessionCookieName, Value: tk.val}, st, al, dc
				}
				if kind == c38CkEmpty {
					return &http.Cookie{Name: sessionCookieName, Value: ""}, "empty", false, false
				}
				return &http.Cookie{Name: sessionCookieName, Value: fmt.Sprintf("Zm9yZ2VkLXBhaXItbmV2ZXItaXNzdWVkLTAw%08d", idx)}, "forged", false, false
			}
			c1, s1, al1, dc1 := one(c38CkToken, a.Tok)
			c2, s2, al2, dc2 := one(a.Cookie2, a.Tok2)
			if a.Swap {
				c1, c2, s1, s2 = c2, c1, s2, s1
			}
			cs = []*http.Cookie{c1, c2}
			class = "two-session-cookies:" + s1 + "+" + s2
			switch {
			case dc1 || dc2 || al1 != al2:
				return cs, false, true, class, nil
			default:
				return cs, al1, false, class, nil
			}
		}
		tk = pick()
		if tk == nil {
			return nil, false, false, "no-cookie", nil
		}
		al, dc := live(tk, now)
		state := "live"
		if tk.loggedOut {
			state = "logged-out"
		} else if dc {
			state = "at-expiry-instant"
		} else if !al {
			state = "expired"
		}
		switch a.Cookie {
		case c38CkOtherName:
			return []*http.Cookie{{Name: "kafscale_session", Value: tk.val}}, false, false, "token-under-other-cookie-name", nil
		case c38CkMangled:
			v := tk.val[:len(tk.val)-1]
			if a.Tok%2 == 0 {
				v = tk.val + "A"
			}
			return []*http.Cookie{{Name: sessionCookieName, Value: v}}, false, false, "mangled-token", nil
		case c38CkTokenPlusNoise:
			return []*http.Cookie{{Name: "theme", Value: "dark"}, {Name: sessionCookieName, Value: tk.val}}, al, dc, "token-" + state, tk
		}
		return []*http.Cookie{{Name: sessionCookieName, Value: tk.val}}, al, dc, "token-" + state, tk
	}

	login := func(a c38Act) {
		now := time.Now()
		ip := c38Addrs[a.Addr]
		remote := fmt.Sprintf("%s:%d", ip, a.Port)
		key := strings.Trim(ip, "[]")
		body, right := c38Body(a.Creds)
		hdrKind = a.Hdr
		if a.Hdr != 0 {
			run.classes = append(run.classes, "login-with-proxy-headers")
		}
		rec, _ := do(a.Method, "/ui/api/auth/login", remote, body, nil)
		var sess *http.Cookie
		for _, c := range rec.Result().Cookies() {
			if c.Name == sessionCookieName && c.Value != "" {
				sess = c
			}
		}
		run.trace = append(run.trace, fmt.Sprintf("login(%s,%s,creds%d)=%d", a.Method, key, a.Creds, rec.Code))
		if a.Method != "POST" || !authEnabled {
			if rec.Code == 200 || sess != nil {
				run.failf("login with method %s (auth enabled=%v) answered %d and set session cookie=%v", a.Method, authEnabled, rec.Code, sess != nil)
			}
			run.classes = append(run.classes, "login-not-an-attempt")
			return
		}
		if rec.Code == http.StatusTooManyRequests {
			run.classes = append(run.classes, "login-rate-limited")
			run.nt = true // an attempt beyond what the window admits
			if sess != nil {
				run.failf("rate-limited login set a session cookie")
			}
			return
		}
		// processed attempt
		inWin := 0
		for _, ts := range attempts[key] {
			if ts.After(now.Add(-window)) {
				inWin++
			}
		}
		if limit > 0 && inWin >= limit {
			run.nt = true
			run.classes = append(run.classes, "attempt-beyond-limit")
			run.failf("client %s: login attempt at %s was processed (status %d) although %d attempts were already processed in the preceding %s (configured limit %d)",
				key, now.Format(time.RFC3339), rec.Code, inWin, window, limit)
		}
		attempts[key] = append(attempts[key], now)
		if inWin+1 == limit {
			run.classes = append(run.classes, "window-filled-to-limit")
		}
		if !right {
			run.classes = append(run.classes, "login-wrong-credentials")
			if rec.Code == 200 || sess != nil {
				run.failf("login with wrong credentials (variant %d) answered %d, session cookie set=%v", a.Creds, rec.Code, sess != nil)
			}
			return
		}
		run.classes = append(run.classes, "login-ok")
		if rec.Code != 200 || sess == nil {
			// not required by the statement; later steps simply have no token from this login
			run.classes = append(run.classes, "login-right-credentials-refused")
			return
		}
		exp := sess.Expires
		if exp.IsZero() {
			exp = now.Add(ref.ttl) // session cookie without advertised expiry: fall back to the configured ttl
		}
		toks = append(toks, &c38Tok{val: sess.Value, expiry: exp})
	}

	reqStep := func(a c38Act) {
		hdrKind = a.Hdr
		now := time.Now()
		cs, expectLive, dontCare, class, _ := cookieFor(a, now)
		before := spy.calls
		rec, pattern := do(a.Method, a.Path, fmt.Sprintf("%s:%d", c38Addrs[a.Addr], a.Port), "", cs)
		protected := strings.HasPrefix(pattern, "/ui/api/") && !strings.HasPrefix(pattern, "/ui/api/auth/")
		if !isMux {
			protected = strings.HasPrefix(a.Path, "/ui/api/status") && a.Path != "/ui/api/status/" || a.Path == "/ui/api/metrics"
		}
		run.trace = append(run.trace, fmt.Sprintf("req(%s %s,%s)=%d", a.Method, a.Path, class, rec.Code))
		if !protected {
			run.classes = append(run.classes, "req-unprotected-path")
			return
		}
		run.classes = append(run.classes, "req-protected:"+class)
		if authEnabled && len(cs) > 0 && loggedOutSets[cookieKey(cs)] {
			run.nt = true
			run.classes = append(run.classes, "req-with-the-cookies-of-a-completed-logout")
			if rec.Code != http.StatusUnauthorized {
				run.failf("%s %s (pattern %q) answered %d although it carries exactly the session cookies (%s) a successful POST logout was performed with", a.Method, a.Path, pattern, rec.Code, class)
			}
			return
		}
		if class == "token-expired" || class == "token-logged-out" {
			run.nt = true
		}
		if dontCare {
			return
		}
		rejected := rec.Code == http.StatusUnauthorized || (rec.Code == http.StatusServiceUnavailable && strings.Contains(rec.Body.String(), "ui auth disabled"))
		if !authEnabled {
			if !rejected {
				run.failf("auth is not configured but %s %s (pattern %q) answered %d", a.Method, a.Path, pattern, rec.Code)
			}
			return
		}
		if expectLive {
			if rejected {
				run.failf("%s %s (pattern %q) with a live session token (%s) was rejected with %d at %s", a.Method, a.Path, pattern, class, rec.Code, now.Format(time.RFC3339))
			}
			return
		}
		if rec.Code != http.StatusUnauthorized {
			run.failf("%s %s (pattern %q) with %s answered %d instead of 401 at %s; body %q", a.Method, a.Path, pattern, class, rec.Code, now.Format(time.RFC3339), c38Short(rec.Body.String()))
		}
		if spy.calls != before {
			run.failf("%s %s with %s: the protected handler ran (metadata store was read) although the request was answered %d", a.Method, a.Path, class, rec.Code)
		}
	}

	for _, a := range acts {
		if run.fail != "" {
			break
		}
		switch a.Kind {
		case "sleep":
			time.Sleep(time.Duration(a.Dur) * time.Second)
			run.trace = append(run.trace, fmt.Sprintf("sleep(%ds)", a.Dur))
		case "sleepTo":
			if len(toks) == 0 {
				continue
			}
			tk := toks[a.Tok%len(toks)]
			target := tk.expiry.Add(time.Duration(a.Dur) * time.Second)
			if d := time.Until(target); d > 0 {
				time.Sleep(d)
				run.trace = append(run.trace, fmt.Sprintf("sleepToExpiry(%+d)", a.Dur))
			}
		case "login":
			login(a)
		case "burst":
			for i := 0; i < a.N && run.fail == ""; i++ {
				login(a)
			}
		case "logout":
			now := time.Now()
			cs, _, _, class, tk := cookieFor(a, now)
			hdrKind = a.Hdr
			rec, _ := do(a.Method, "/ui/api/auth/logout", fmt.Sprintf("%s:%d", c38Addrs[a.Addr], a.Port), "", cs)
			run.trace = append(run.trace, fmt.Sprintf("logout(%s,%s)=%d", a.Method, class, rec.Code))
			if a.Method == "POST" && rec.Code == 200 {
				if tk != nil {
					tk.loggedOut = true
					run.classes = append(run.classes, "logout-of-issued-token")
				}
				if key := cookieKey(cs); key != "" {
					loggedOutSets[key] = true
				}
				if a.Cookie == c38CkPair {
					run.classes = append(run.classes, "logout-with-two-session-cookies")
					for _, c := range cs {
						for _, t2 := range toks {
							if t2.val == c.Value && !t2.loggedOut {
								t2.unknown = true
							}
						}
					}
				}
			}
			if a.Probe {
				probe := a
				probe.Kind, probe.Method = "req", "GET"
				reqStep(probe)
			}
		case "req":
			reqStep(a)
		}
	}
	return run
}

func c38Short(s string) string {
	if len(s) > 120 {
		return s[:120] + "..."
	}
	return s
}

func TestVF_C38_Sessions(t *testing.T) {
	st := vfkit.NewStats("C38", "sessions")
	defer st.Flush()
	rapid.Check(t, func(rt *rapid.T) {
		acts := c38DrawActs(rt)
		authEnabled := rapid.IntRange(0, 19).Draw(rt, "authDisabled") != 0
		st.Eval()
		var run *c38Run
		synctest.Test(t, func(t *testing.T) {
			run = c38Exec(acts, authEnabled)
		})
		if run == nil {
			rt.Fatalf("VF-INCONCLUSIVE: bubble did not produce a result")
		}
		st.Note("configured_login_limit", run.limitNote)
		st.Note("configured_session_ttl", run.ttlNote)
		if !authEnabled {
			st.Class("auth-not-configured")
		}
		for _, c := range run.classes {
			st.Class(c)
		}
		if run.nt {
			if st.NonTrivial(run.trace) {
				st.Sample(run.trace)
			}
		}
		if run.fail != "" {
			rt.Fatalf("%s\nhistory: %v", run.fail, run.trace)
		}
	})
}
