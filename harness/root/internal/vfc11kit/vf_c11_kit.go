//go:build verif

// Package vfc11kit holds what the two C11 legs (broker in cmd/broker, proxy in cmd/proxy;
// both are package main and cannot share test code directly) have in common: choosing a
// (key, version) probe, talking to a server over a real TCP connection and judging the
// reply with the client codec.
package vfc11kit

import (
	"bytes"
	"encoding/binary"
	"errors"
	"fmt"
	"io"
	"net"
	"os"
	"sort"
	"strings"
	"syscall"
	"time"

	"github.com/KafScale/platform/internal/vfc10gen"
	"github.com/twmb/franz-go/pkg/kmsg"
	"pgregory.net/rapid"
)

type Pair struct{ Key, Version int16 }

// Table is the advertised version table of a server.
type Table struct {
	Pairs  []Pair
	Ranges map[int16][2]int16 // key -> [min,max], only entries with min >= 0
	Other  []int16            // keys the client codec knows that are not advertised
}

func NewTable(keys []kmsg.ApiVersionsResponseApiKey) *Table {
	tb := &Table{Ranges: map[int16][2]int16{}}
	for _, e := range keys {
		if e.MinVersion < 0 || e.MaxVersion < e.MinVersion {
			continue
		}
		tb.Ranges[e.ApiKey] = [2]int16{e.MinVersion, e.MaxVersion}
		for v := e.MinVersion; v <= e.MaxVersion; v++ {
			tb.Pairs = append(tb.Pairs, Pair{e.ApiKey, v})
		}
	}
	for k := int16(0); k <= kmsg.MaxKey; k++ {
		if _, ok := tb.Ranges[k]; !ok && kmsg.RequestForKey(k) != nil {
			tb.Other = append(tb.Other, k)
		}
	}
	sort.Slice(tb.Pairs, func(i, j int) bool {
		if tb.Pairs[i].Key != tb.Pairs[j].Key {
			return tb.Pairs[i].Key < tb.Pairs[j].Key
		}
		return tb.Pairs[i].Version < tb.Pairs[j].Version
	})
	return tb
}

// Probe is one request to send.
type Probe struct {
	Key, Version int16
	Class        string // advertised | below-min | above-max | far-version | unadvertised-key
	Advertised   bool
	Req          kmsg.Request
	Shape        *vfc10gen.Shape
	Corr         int32
	ClientID     string
	Acks0        bool // produce with acks=0: no reply expected
	Frame        []byte
	Prefix       []byte // bytes written in front of the frame in the same write (PROXY header)
}

func (p *Probe) Name() string { return fmt.Sprintf("%s v%d", kmsg.NameForKey(p.Key), p.Version) }

// GenProbe draws a probe. env should be Bounded.
func GenProbe(t *rapid.T, tb *Table, env *vfc10gen.Env, label string) *Probe {
	p := &Probe{}
	switch c := rapid.IntRange(0, 20).Draw(t, label+"class"); {
	case c == 20:
		// ApiVersions from a client newer than the server (version negotiation)
		r := tb.Ranges[18]
		p.Key, p.Class = 18, "apiversions-above-max"
		p.Version = rapid.SampledFrom([]int16{r[1] + 1, r[1] + 2, r[1] + 6, 100, 32767}).Draw(t, label+"av")
	case c < 13:
		kv := tb.Pairs[vfc10gen.Pick(t, label+"kv", len(tb.Pairs))]
		p.Key, p.Version, p.Class, p.Advertised = kv.Key, kv.Version, "advertised", true
	case c < 15:
		kv := tb.Pairs[vfc10gen.Pick(t, label+"kv", len(tb.Pairs))]
		p.Key, p.Version, p.Class = kv.Key, tb.Ranges[kv.Key][0]-1, "below-min"
	case c < 17:
		kv := tb.Pairs[vfc10gen.Pick(t, label+"kv", len(tb.Pairs))]
		p.Key, p.Version, p.Class = kv.Key, tb.Ranges[kv.Key][1]+1, "above-max"
	case c < 18:
		kv := tb.Pairs[vfc10gen.Pick(t, label+"kv", len(tb.Pairs))]
		p.Key = kv.Key
		max := tb.Ranges[kv.Key][1]
		kmax := kmsg.RequestForKey(kv.Key).MaxVersion()
		p.Version = rapid.SampledFrom([]int16{max + 5, kmax + 1, kmax + 3, 100, 32767}).Draw(t, label+"far")
		p.Class = "far-version"
	default:
		p.Key = tb.Other[vfc10gen.Pick(t, label+"other", len(tb.Other))]
		p.Version = int16(rapid.IntRange(0, int(kmsg.RequestForKey(p.Key).MaxVersion())).Draw(t, label+"ver"))
		p.Class = "unadvertised-key"
	}
	p.Req = vfc10gen.NewRequest(p.Key, p.Version)
	p.Shape = vfc10gen.Fill(t, p.Req, env)
	p.Corr = rapid.Int32().Draw(t, label+"corr")
	p.ClientID = rapid.SampledFrom([]string{"vf-client", "", "kgo", "consumer-ü"}).Draw(t, label+"client")
	if pr, ok := p.Req.(*kmsg.ProduceRequest); ok && pr.Acks == 0 {
		p.Acks0 = true
	}
	return p
}

// Encode renders the frame (call after any adjustment of p.Req).
func (p *Probe) Encode() {
	p.Frame = kmsg.NewRequestFormatter(kmsg.FormatterClientID(p.ClientID)).AppendRequest(nil, p.Req, p.Corr)
}

// Outcome of one exchange.
type Outcome struct {
	Kind  string // reply | reply-then-closed | noreply | closed | request-lost | silent | wrong-correlation | extra-reply
	Reply []byte
	Err   error
	Extra []byte
}

func sentinelCorr(c int32) int32 {
	s := c ^ 0x5a5a5a5a
	if s == c {
		s++
	}
	return s
}

func readFrame(conn net.Conn) ([]byte, error) {
	var l [4]byte
	if _, err := io.ReadFull(conn, l[:]); err != nil {
		return nil, err
	}
	n := int32(binary.BigEndian.Uint32(l[:]))
	if n < 0 || n > 64<<20 {
		return nil, fmt.Errorf("reply frame announces %d bytes", n)
	}
	b := make([]byte, n)
	if _, err := io.ReadFull(conn, b); err != nil {
		return nil, fmt.Errorf("reply frame truncated: %w", err)
	}
	return b, nil
}

// QuickWait is how long Exchange waits for a frame before it sends a second sentinel.
const QuickWait = 10 * time.Second

// Exchange writes the probe and a sentinel ApiVersions v0 request (s1) in ONE write (a
// pipelining client) on the connection. Servers answer the requests of one connection in
// order, so the frames that come back tell deterministically whether the probe got a reply:
// the probe's reply then s1's, or s1's alone (= no reply for the probe), or EOF.
//
// If nothing arrives for QuickWait, a second sentinel (s2) is sent in a write of its own.
// When s2 is answered although s1 (sent earlier on the same connection) never was, requests
// were lost by the server ("request-lost"): evidence by order, not by time. Only when the
// connection stays open and silent for another `guard` after s2 the outcome is "silent".
func Exchange(conn net.Conn, p *Probe, guard time.Duration) Outcome {
	sc := sentinelCorr(p.Corr)
	s2c := sc ^ 0x01010101
	if s2c == p.Corr {
		s2c ^= 0x10
	}
	mk := func(corr int32) []byte {
		sreq := kmsg.NewPtrApiVersionsRequest()
		sreq.SetVersion(0)
		return kmsg.NewRequestFormatter(kmsg.FormatterClientID("vf-sentinel")).AppendRequest(nil, sreq, corr)
	}
	// the witness line, should the server under test take the process down
	if len(p.Frame) <= 4096 {
		fmt.Fprintf(os.Stdout, "C11-probe %s (%s) prefix=%x %x\n", p.Name(), p.Class, p.Prefix, p.Frame)
	} else {
		fmt.Fprintf(os.Stdout, "C11-probe %s (%s) prefix=%x %d bytes, shape=%s, first 256: %x\n", p.Name(), p.Class, p.Prefix, len(p.Frame), p.Shape, p.Frame[:256])
	}
	_ = conn.SetWriteDeadline(time.Now().Add(guard))
	out := append(append(append([]byte(nil), p.Prefix...), p.Frame...), mk(sc)...)
	_, _ = conn.Write(out) // the server may already have closed the connection; reading tells
	isTimeout := func(err error) bool {
		var ne net.Error
		return errors.As(err, &ne) && ne.Timeout() || errors.Is(err, os.ErrDeadlineExceeded)
	}
	var reply []byte
	gotS1, gotS2, sentS2 := false, false, false
	for {
		wait := QuickWait
		if sentS2 {
			wait = guard
		}
		_ = conn.SetReadDeadline(time.Now().Add(wait))
		f, err := readFrame(conn)
		if err != nil {
			if isTimeout(err) {
				if !sentS2 {
					sentS2 = true
					_ = conn.SetWriteDeadline(time.Now().Add(guard))
					_, _ = conn.Write(mk(s2c))
					continue
				}
				if gotS1 {
					break // everything of interest was answered; only s2's reply is slow
				}
				return Outcome{Kind: "silent", Reply: reply, Err: fmt.Errorf("connection open but no frame for %v + %v (second sentinel sent in between)", QuickWait, guard)}
			}
			if reply != nil {
				return Outcome{Kind: "reply-then-closed", Reply: reply, Err: err}
			}
			return Outcome{Kind: "closed", Err: err}
		}
		if len(f) < 4 {
			return Outcome{Kind: "wrong-correlation", Reply: f, Err: fmt.Errorf("reply of %d bytes has no correlation id", len(f))}
		}
		switch c := int32(binary.BigEndian.Uint32(f[:4])); {
		case c == p.Corr && reply == nil && !gotS1:
			reply = f
		case c == sc && !gotS1:
			gotS1 = true
		case c == s2c && sentS2 && !gotS2:
			gotS2 = true
		default:
			if reply != nil {
				return Outcome{Kind: "extra-reply", Reply: reply, Extra: f}
			}
			return Outcome{Kind: "wrong-correlation", Reply: f, Err: fmt.Errorf("reply carries correlation id %d, request had %d", c, p.Corr)}
		}
		if gotS2 && !gotS1 {
			return Outcome{Kind: "request-lost", Reply: reply, Err: fmt.Errorf("a sentinel sent later on the connection was answered, the sentinel pipelined right behind the probe never was (probe answered: %v)", reply != nil)}
		}
		if gotS1 && (!sentS2 || gotS2) {
			break
		}
	}
	if reply != nil {
		return Outcome{Kind: "reply", Reply: reply}
	}
	return Outcome{Kind: "noreply"}
}

// ExchangeSolo writes the probe alone (no pipelined sentinel) on a fresh connection and
// reads one frame. It settles an Exchange that ended in a connection RESET: a server that
// answers and then closes while the pipelined sentinel is still unread makes the kernel
// send RST, which can destroy the reply in flight, so "reset" is no evidence either way.
// With the probe alone nothing is unread when the server closes, so the reply arrives.
func ExchangeSolo(conn net.Conn, p *Probe, guard time.Duration) Outcome {
	_ = conn.SetWriteDeadline(time.Now().Add(guard))
	_, _ = conn.Write(append(append([]byte(nil), p.Prefix...), p.Frame...))
	_ = conn.SetReadDeadline(time.Now().Add(guard))
	f, err := readFrame(conn)
	if err != nil {
		return Outcome{Kind: "closed", Err: err}
	}
	if len(f) < 4 || int32(binary.BigEndian.Uint32(f[:4])) != p.Corr {
		return Outcome{Kind: "wrong-correlation", Reply: f, Err: fmt.Errorf("solo reply does not carry the probe's correlation id")}
	}
	return Outcome{Kind: "reply-then-closed", Reply: f}
}

// IsReset reports whether an Exchange ended in a TCP reset.
func IsReset(err error) bool {
	return err != nil && (errors.Is(err, syscall.ECONNRESET) || strings.Contains(err.Error(), "connection reset"))
}

// requestFlexible: first from the independent table, else from the codec.
func requestFlexible(key, version int16) bool {
	if f, ok := vfc10gen.IsFlexible(key, version); ok {
		return f
	}
	r := kmsg.RequestForKey(key)
	if r == nil {
		return false
	}
	r.SetVersion(version)
	return r.IsFlexible()
}

func decodeExact(key, version int16, body []byte) (kmsg.Response, string) {
	resp := kmsg.ResponseForKey(key)
	if resp == nil {
		return nil, fmt.Sprintf("client codec has no response type for key %d", key)
	}
	resp.SetVersion(version)
	if err := resp.ReadFrom(body); err != nil {
		return nil, fmt.Sprintf("client codec cannot decode the %d-byte body at v%d: %v", len(body), version, err)
	}
	if re := resp.AppendTo(nil); !bytes.Equal(re, body) {
		return nil, fmt.Sprintf("body is not a canonical v%d message: decoding consumes/re-encodes to %d bytes, reply body has %d (first diff at %d)", version, len(re), len(body), firstDiff(re, body))
	}
	return resp, ""
}

func firstDiff(a, b []byte) int {
	n := len(a)
	if len(b) < n {
		n = len(b)
	}
	for i := 0; i < n; i++ {
		if a[i] != b[i] {
			return i
		}
	}
	return n
}

// JudgeReply checks correlation id, header shape and decodability of a reply at the
// request's version. Returns ("", note) when fine.
func JudgeReply(p *Probe, tb *Table, reply []byte) (violation string, note string) {
	if len(reply) < 4 {
		return fmt.Sprintf("reply of %d bytes", len(reply)), ""
	}
	if c := int32(binary.BigEndian.Uint32(reply[:4])); c != p.Corr {
		return fmt.Sprintf("correlation id %d, want %d", c, p.Corr), ""
	}
	rest := reply[4:]
	// ApiVersions above the advertised maximum: KIP-511 / the protocol guide require the v0
	// response (v0 header, error UNSUPPORTED_VERSION) - the one layout every client, however
	// new, can decode; a body in any newer layout is by definition one the client was not
	// told about.
	if p.Key == 18 {
		if r, ok := tb.Ranges[18]; ok && p.Version > r[1] {
			resp, msg := decodeExact(18, 0, rest)
			if msg != "" {
				return fmt.Sprintf("ApiVersions v%d is above the advertised max v%d: the reply must be a v0 ApiVersionsResponse, but %s", p.Version, r[1], msg), ""
			}
			if ec := resp.(*kmsg.ApiVersionsResponse).ErrorCode; ec != 35 {
				return fmt.Sprintf("ApiVersions v%d is above the advertised max v%d: the v0 reply must carry UNSUPPORTED_VERSION (35), got error code %d", p.Version, r[1], ec), ""
			}
			return "", "apiversions-v0-fallback"
		}
	}
	flexHeader := p.Key != 18 && requestFlexible(p.Key, p.Version)
	hdrNote := "header-v0"
	if flexHeader {
		hdrNote = "header-v1"
		n, used := binary.Uvarint(rest)
		if used <= 0 {
			return "flexible version but the response header has no tagged-field section", ""
		}
		rest = rest[used:]
		for i := uint64(0); i < n; i++ {
			_, u1 := binary.Uvarint(rest)
			if u1 <= 0 {
				return "malformed response header tagged fields", ""
			}
			rest = rest[u1:]
			sz, u2 := binary.Uvarint(rest)
			if u2 <= 0 || uint64(len(rest)-u2) < sz {
				return "malformed response header tagged fields", ""
			}
			rest = rest[u2+int(sz):]
		}
	}
	if _, msg := decodeExact(p.Key, p.Version, rest); msg != "" {
		shape := "without"
		if flexHeader {
			shape = "with"
		}
		return fmt.Sprintf("%s (response header parsed %s tagged-field section)", msg, shape), ""
	}
	return "", hdrNote
}

// PickPort reserves a loopback port (listen, note, close).
func PickPort() (string, error) {
	ln, err := net.Listen("tcp", "127.0.0.1:0")
	if err != nil {
		return "", err
	}
	addr := ln.Addr().String()
	_ = ln.Close()
	return addr, nil
}

// StartServer picks a free loopback port, calls start(addr) (which must begin listening in the
// background and report a listen failure on the returned channel) and waits until the
// listener answers. If the port was taken in between (busy shared machine) another one is tried.
func StartServer(start func(addr string) <-chan error) (string, error) {
	var last error
	for attempt := 0; attempt < 6; attempt++ {
		addr, err := PickPort()
		if err != nil {
			last = err
			continue
		}
		errc := start(addr)
		ok := false
		for i := 0; i < 300 && !ok; i++ {
			select {
			case e := <-errc:
				last = fmt.Errorf("listen on %s: %v", addr, e)
				i = 300
				continue
			default:
			}
			c, err := net.DialTimeout("tcp", addr, time.Second)
			if err == nil {
				_ = c.Close()
				ok = true
			} else {
				last = err
				time.Sleep(10 * time.Millisecond)
			}
		}
		if !ok {
			continue
		}
		time.Sleep(20 * time.Millisecond)
		select {
		case e := <-errc: // somebody else's listener answered, ours failed
			last = fmt.Errorf("listen on %s: %v", addr, e)
			continue
		default:
		}
		return addr, nil
	}
	return "", last
}

// DeadPort returns a loopback address that refuses connections for as long as release is not
// called: the port is bound (nobody else can get it) but never listened on.
func DeadPort() (addr string, release func(), err error) {
	fd, err := syscall.Socket(syscall.AF_INET, syscall.SOCK_STREAM, 0)
	if err != nil {
		return "", nil, err
	}
	if err := syscall.Bind(fd, &syscall.SockaddrInet4{Port: 0, Addr: [4]byte{127, 0, 0, 1}}); err != nil {
		_ = syscall.Close(fd)
		return "", nil, err
	}
	sa, err := syscall.Getsockname(fd)
	if err != nil {
		_ = syscall.Close(fd)
		return "", nil, err
	}
	port := sa.(*syscall.SockaddrInet4).Port
	return fmt.Sprintf("127.0.0.1:%d", port), func() { _ = syscall.Close(fd) }, nil
}

// DialRetry waits for a just-started listener.
func DialRetry(addr string) (net.Conn, error) {
	var last error
	for i := 0; i < 200; i++ {
		c, err := net.DialTimeout("tcp", addr, 2*time.Second)
		if err == nil {
			return c, nil
		}
		last = err
		time.Sleep(10 * time.Millisecond)
	}
	return nil, last
}
