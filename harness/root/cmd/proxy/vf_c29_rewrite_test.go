//go:build verif

package main

// C29 (proxy leg): "every envelope the proxy produces decodes back to the same fields".
// Produce requests whose flagged records carry allow-listed headers (content-type,
// correlation-id, traceparent, ...) with ARBITRARY byte values - Kafka header values are
// byte strings - go through rewriteProduceRecords; the envelope the proxy writes is decoded
// again and every field the proxy derives from a header must give back the header's bytes.
// Omitting such a header from the envelope, or rejecting the request, is accepted; silently
// different text is not. (Builds on the C31 harness helpers: files_from C31.)

import (
	"context"
	"fmt"
	"strings"
	"testing"
	"unicode/utf8"

	"github.com/KafScale/platform/pkg/lfs"
	"github.com/KafScale/platform/pkg/protocol"
	"github.com/twmb/franz-go/pkg/kgo"
	"github.com/twmb/franz-go/pkg/kmsg"
	"pgregory.net/rapid"
	"verif.local/vfkit"
)

const c29pKnownMangled = "C29-non-utf8-header-values-mangled"

var c29pAllowListed = []string{"content-type", "Content-Type", "content-encoding", "correlation-id", "Correlation-ID", "message-id", "x-correlation-id", "x-request-id", "traceparent", "tracestate"}

func c29pHeaderValue(t *rapid.T) []byte {
	switch rapid.IntRange(0, 5).Draw(t, "valueKind") {
	case 0:
		return []byte("application/json")
	case 1:
		return []byte("text/plain; name=\"café.txt\"") // valid UTF-8
	case 2:
		return []byte("text/plain; name=\"caf\xe9.txt\"") // latin-1 byte
	case 3:
		n := rapid.IntRange(1, 16).Draw(t, "idLen") // raw binary id (JMS / Spring correlation ids)
		return rapid.SliceOfN(rapid.Byte(), n, n).Draw(t, "rawID")
	case 4:
		return []byte{}
	default:
		return []byte(rapid.SampledFrom([]string{"00-4bf92f3577b34da6a3ce929d0e0e4736-00f067aa0ba902b7-01", "日本語", "a\x00b", "\xff\xfe", "ok\xc3", "\xed\xa0\x80"}).Draw(t, "text"))
	}
}

type c29pExpect struct {
	contentType []byte            // value of the first header named exactly "content-type"; nil if none
	headers     map[string][]byte // allow-listed headers by their original key (last one wins)
}

func c29pExpectFor(r vfkit.Record) c29pExpect {
	e := c29pExpect{headers: map[string][]byte{}}
	for _, h := range r.Headers {
		if h.Key == "content-type" && e.contentType == nil {
			e.contentType = append([]byte{}, h.Value...)
		}
		if lfsSafeHeaderAllowlist[strings.ToLower(h.Key)] {
			e.headers[h.Key] = append([]byte{}, h.Value...)
		}
	}
	return e
}

// c29pJudge compares the decoded envelope with the header bytes. It returns a violation and
// the number of fields that fall under the listed finding (non-UTF-8 value).
func c29pJudge(env lfs.Envelope, want c29pExpect, honourKnown bool) (string, int) {
	excluded := 0
	check := func(what string, got string, assigned []byte) string {
		if got == string(assigned) {
			return ""
		}
		if !utf8.Valid(assigned) && honourKnown && vfkit.Known(c29pKnownMangled) {
			excluded++
			return ""
		}
		return fmt.Sprintf("%s decodes to %q, the record's header holds %q", what, got, assigned)
	}
	if env.ContentType != "" && want.contentType != nil {
		if v := check("content_type", env.ContentType, want.contentType); v != "" {
			return v, excluded
		}
	}
	for k, got := range env.OriginalHeaders {
		assigned, ok := want.headers[k]
		if !ok {
			continue // a key the harness does not know (e.g. a reversible encoding under another name)
		}
		if v := check(fmt.Sprintf("original_headers[%s]", k), got, assigned); v != "" {
			return v, excluded
		}
	}
	return "", excluded
}

// c29pRun builds one uncompressed/compressed batch from recs, rewrites it and judges every
// flagged record. Returns violation, excluded count, number of judged envelopes.
func c29pRun(recs []vfkit.Record, codec int, honourKnown bool) (string, int, int, error) {
	fs := newC31S3()
	m := c31Module(fs, "sha256", 5<<20)
	b := c31Batch{codec: codec}
	b.hdr = *vfkit.NewBatch(0, 1700000000000, recs)
	if err := c31EncodeBatch(&b); err != nil {
		return "harness: " + err.Error(), 0, 0, nil
	}
	req := &kmsg.ProduceRequest{Acks: 1, TimeoutMillis: 5000, Topics: []kmsg.ProduceRequestTopic{{Topic: "c29",
		Partitions: []kmsg.ProduceRequestTopicPartition{{Partition: 0, Records: append([]byte(nil), b.raw...)}}}}}
	header := &protocol.RequestHeader{APIKey: protocol.APIKeyProduce, APIVersion: 9, CorrelationID: 1}
	if _, err := m.rewriteProduceRecords(context.Background(), header, req); err != nil {
		return "", 0, 0, err
	}
	out, err := vfkit.DecodeBatches(req.Topics[0].Partitions[0].Records)
	if err != nil || len(out) != 1 {
		return fmt.Sprintf("rewritten record set does not decode: %v", err), 0, 0, nil
	}
	orecs, err := c31OpenBatch(kgo.DefaultDecompressor(), out[0])
	if err != nil || len(orecs) != len(recs) {
		return fmt.Sprintf("rewritten records unreadable: %v (%d of %d)", err, len(orecs), len(recs)), 0, 0, nil
	}
	excluded, judged := 0, 0
	for i, r := range b.hdr.Records {
		if !c31IsFlagged(r) {
			continue
		}
		env, err := lfs.DecodeEnvelope(orecs[i].Value)
		if err != nil {
			return fmt.Sprintf("record %d: the proxy's envelope does not decode: %v (%q)", i, err, orecs[i].Value), excluded, judged, nil
		}
		judged++
		v, ex := c29pJudge(env, c29pExpectFor(r), honourKnown)
		excluded += ex
		if v != "" {
			return fmt.Sprintf("record %d: %s\n envelope %s", i, v, orecs[i].Value), excluded, judged, nil
		}
	}
	return "", excluded, judged, nil
}

func TestVF_C29_ProxyHeaders(t *testing.T) {
	st := vfkit.NewStats("C29", "proxy-headers")
	defer st.Flush()
	rapid.Check(t, func(t *rapid.T) {
		st.Eval()
		n := rapid.IntRange(1, 4).Draw(t, "nRecords")
		recs := make([]vfkit.Record, n)
		invalid := 0
		flagged := 0
		for i := range recs {
			recs[i] = vfkit.Record{TsDelta: int64(i), Key: []byte(fmt.Sprintf("k%d", i)), Value: []byte(fmt.Sprintf("blob-%d-%s", i, strings.Repeat("x", i*3)))}
			nh := rapid.IntRange(0, 4).Draw(t, "nHeaders")
			for j := 0; j < nh; j++ {
				h := vfkit.RecHeader{Key: rapid.SampledFrom(c29pAllowListed).Draw(t, "headerKey"), Value: c29pHeaderValue(t)}
				if !utf8.Valid(h.Value) {
					invalid++
				}
				recs[i].Headers = append(recs[i].Headers, h)
			}
			if i == 0 || rapid.IntRange(0, 3).Draw(t, "flag") > 0 {
				pos := rapid.IntRange(0, len(recs[i].Headers)).Draw(t, "flagPos")
				hs := append([]vfkit.RecHeader{}, recs[i].Headers[:pos]...)
				hs = append(hs, vfkit.RecHeader{Key: "LFS_BLOB", Value: []byte{}})
				recs[i].Headers = append(hs, recs[i].Headers[pos:]...)
				flagged++
			}
		}
		codec := rapid.SampledFrom([]int{0, 0, 2, 3}).Draw(t, "codec")
		viol, excluded, judged, err := c29pRun(recs, codec, true)
		for i := 0; i < excluded; i++ {
			st.ExcludedCase(c29pKnownMangled)
		}
		if err != nil {
			st.Class("rejected by the proxy")
			return
		}
		if viol != "" {
			t.Fatalf("%s", viol)
		}
		st.ClassN("envelopes-judged", judged)
		if invalid > 0 {
			st.Class("has non-UTF-8 header value")
		} else {
			st.Class("all header values valid UTF-8")
		}
		var fp []string
		for _, r := range recs {
			for _, h := range r.Headers {
				fp = append(fp, fmt.Sprintf("%s=%x", h.Key, h.Value))
			}
		}
		st.NonTrivial(fp, codec)
		st.Sample(map[string]any{"records": n, "flagged": flagged, "headers": fp})
	})
}

// TestVF_C29_WitnessProxy replays the witness of the listed finding.
func TestVF_C29_WitnessProxy(t *testing.T) {
	st := vfkit.NewStats("C29", "witness-proxy")
	defer st.Flush()
	st.Eval()
	rec := vfkit.Record{Key: []byte("k"), Value: []byte("payload"), Headers: []vfkit.RecHeader{
		{Key: "LFS_BLOB", Value: []byte{}},
		{Key: "correlation-id", Value: []byte{0x9f, 0x86, 0xd0, 0x81, 0x88, 0x4c, 0x7d, 0x65}},
		{Key: "content-type", Value: []byte("text/plain; name=\"caf\xe9.txt\"")},
	}}
	viol, _, _, err := c29pRun([]vfkit.Record{rec}, 0, false)
	st.NonTrivial("witness-mangled")
	st.Sample(map[string]any{"violation": viol, "rejected": fmt.Sprint(err)})
	st.KnownResult(c29pKnownMangled, viol != "", "flagged record with correlation-id = 9f 86 d0 81 88 4c 7d 65 and a latin-1 content-type -> "+viol)
}
