//go:build verif

package main

// C11 (proxy leg): every (key, version) the proxy advertises gets a reply that the client
// codec decodes at that version (correlation id, header shape, canonical body), and no
// version yields an undecodable reply.
//
// The real proxy (listenAndServe/handleConnection: own ApiVersions / Metadata /
// FindCoordinator answers, produce & fetch split-merge, group routing, raw forwarding)
// runs on loopback in front of ONE backend. cmd/broker's handler is package main and cannot
// be linked into this package, so the backend is the real broker.Server (framing, parsing,
// error fallback) with a small handler that answers like a healthy broker: Produce and
// Fetch echo every requested topic/partition, everything else gets the codec's default
// response for that key and version. What is under test is the proxy's own handling.

import (
	"context"
	"encoding/binary"
	"fmt"
	"io"
	"log"
	"log/slog"
	"math"
	"strings"
	"sync/atomic"
	"testing"
	"time"

	"github.com/aws/aws-sdk-go-v2/service/s3"

	"github.com/KafScale/platform/internal/vfc10gen"
	"github.com/KafScale/platform/internal/vfc11kit"
	"github.com/KafScale/platform/pkg/broker"
	"github.com/KafScale/platform/pkg/metadata"
	"github.com/KafScale/platform/pkg/protocol"
	"github.com/twmb/franz-go/pkg/kmsg"
	"pgregory.net/rapid"
	"verif.local/vfkit"
)

const c11FindingProxyFallback = "C11-proxy-apiversions-no-v0-fallback"
const c11FindingBackendError = "C11-proxy-backend-error-no-reply"

// c11ProxyOwnPath: keys the proxy answers itself or routes through its produce/fetch code,
// whose backend-error reply is built from the request BODY (correct). Every other key goes
// through the pass-through / group-routing paths of the listed finding.
func c11ProxyOwnPath(key int16) bool {
	switch key {
	case 0, 1, 3, 10, 18:
		return true
	}
	return false
}

// c11StartProxy starts a real proxy on loopback and waits until it accepts connections.
func c11StartProxy(ctx context.Context, backends []string, store metadata.Store, lfs *lfsModule) (string, error) {
	return vfc11kit.StartServer(func(addr string) <-chan error {
		p := &proxy{
			addr: addr, advertisedHost: "proxy.example", advertisedPort: 9092,
			store: store, backends: backends, logger: slog.New(slog.NewTextHandler(io.Discard, nil)),
			dialTimeout: 2 * time.Second, cacheTTL: time.Hour, apiVersions: generateProxyApiVersions(),
			brokerAddrs: make(map[string]string), topicNames: make(map[[16]byte]string),
			backendRetries: 1, backendBackoff: time.Millisecond, lfs: lfs,
		}
		p.setCachedBackends(p.backends)
		p.touchHealthy()
		p.setReady(true)
		p.refreshMetadataCache(ctx)
		errc := make(chan error, 1)
		go func() {
			if err := p.listenAndServe(ctx); err != nil {
				errc <- err
			}
		}()
		return errc
	})
}

type c11Backend struct{}

func (c11Backend) Handle(ctx context.Context, header *protocol.RequestHeader, req kmsg.Request) ([]byte, error) {
	switch r := req.(type) {
	case *kmsg.ProduceRequest:
		if r.Acks == 0 {
			return nil, nil
		}
		resp := kmsg.NewPtrProduceResponse()
		for _, t := range r.Topics {
			rt := kmsg.NewProduceResponseTopic()
			rt.Topic = t.Topic
			for _, p := range t.Partitions {
				rp := kmsg.NewProduceResponseTopicPartition()
				rp.Partition = p.Partition
				rp.BaseOffset = 7
				rt.Partitions = append(rt.Partitions, rp)
			}
			resp.Topics = append(resp.Topics, rt)
		}
		return protocol.EncodeResponse(header.CorrelationID, header.APIVersion, resp), nil
	case *kmsg.FetchRequest:
		resp := kmsg.NewPtrFetchResponse()
		for _, t := range r.Topics {
			rt := kmsg.NewFetchResponseTopic()
			rt.Topic = t.Topic
			rt.TopicID = t.TopicID
			for _, p := range t.Partitions {
				rp := kmsg.NewFetchResponseTopicPartition()
				rp.Partition = p.Partition
				rp.HighWatermark = 3
				rp.LastStableOffset = 3
				rt.Partitions = append(rt.Partitions, rp)
			}
			resp.Topics = append(resp.Topics, rt)
		}
		return protocol.EncodeResponse(header.CorrelationID, header.APIVersion, resp), nil
	}
	resp := req.ResponseKind()
	return protocol.EncodeResponse(header.CorrelationID, header.APIVersion, resp), nil
}

// c11S3 is an S3 API that accepts everything (the LFS module only uploads when a record
// carries an LFS_BLOB header).
type c11S3 struct{}

func (c11S3) CreateMultipartUpload(context.Context, *s3.CreateMultipartUploadInput, ...func(*s3.Options)) (*s3.CreateMultipartUploadOutput, error) {
	id := "vf"
	return &s3.CreateMultipartUploadOutput{UploadId: &id}, nil
}
func (c11S3) UploadPart(context.Context, *s3.UploadPartInput, ...func(*s3.Options)) (*s3.UploadPartOutput, error) {
	e := "etag"
	return &s3.UploadPartOutput{ETag: &e}, nil
}
func (c11S3) CompleteMultipartUpload(context.Context, *s3.CompleteMultipartUploadInput, ...func(*s3.Options)) (*s3.CompleteMultipartUploadOutput, error) {
	return &s3.CompleteMultipartUploadOutput{}, nil
}
func (c11S3) AbortMultipartUpload(context.Context, *s3.AbortMultipartUploadInput, ...func(*s3.Options)) (*s3.AbortMultipartUploadOutput, error) {
	return &s3.AbortMultipartUploadOutput{}, nil
}
func (c11S3) PutObject(context.Context, *s3.PutObjectInput, ...func(*s3.Options)) (*s3.PutObjectOutput, error) {
	return &s3.PutObjectOutput{}, nil
}
func (c11S3) GetObject(context.Context, *s3.GetObjectInput, ...func(*s3.Options)) (*s3.GetObjectOutput, error) {
	return nil, fmt.Errorf("vf: no such object")
}
func (c11S3) DeleteObject(context.Context, *s3.DeleteObjectInput, ...func(*s3.Options)) (*s3.DeleteObjectOutput, error) {
	return &s3.DeleteObjectOutput{}, nil
}
func (c11S3) HeadBucket(context.Context, *s3.HeadBucketInput, ...func(*s3.Options)) (*s3.HeadBucketOutput, error) {
	return &s3.HeadBucketOutput{}, nil
}
func (c11S3) CreateBucket(context.Context, *s3.CreateBucketInput, ...func(*s3.Options)) (*s3.CreateBucketOutput, error) {
	return &s3.CreateBucketOutput{}, nil
}

func c11LfsModule() *lfsModule {
	logger := slog.New(slog.NewTextHandler(io.Discard, nil))
	m := &lfsModule{
		logger:      logger,
		s3Uploader:  &s3Uploader{bucket: "c11-bucket", region: "us-east-1", chunkSize: 5 << 20, api: c11S3{}},
		s3Bucket:    "c11-bucket",
		s3Namespace: "ns11",
		maxBlob:     5 << 30,
		chunkSize:   5 << 20,
		checksumAlg: "sha256",
		proxyID:     "c11-proxy",
		metrics:     newLfsMetrics(),
		tracker:     &LfsOpsTracker{config: TrackerConfig{}, logger: logger},
	}
	atomic.StoreUint32(&m.s3Healthy, 1)
	return m
}

// c11HostileBatch: a v2 record batch whose NumRecords / record section do not fit together.
func c11HostileBatch(t *rapid.T, label string) ([]byte, string) {
	n := rapid.IntRange(1, 3).Draw(t, label+"recs")
	b := vfc10gen.RecordBatch(n, []byte("value"))
	class := ""
	switch rapid.IntRange(0, 3).Draw(t, label+"shape") {
	case 0, 1:
		nr := rapid.SampledFrom([]int32{-1, math.MinInt32, 0, int32(n + 1), int32(n - 1), math.MaxInt32, 1 << 30, -2}).Draw(t, label+"numrecords")
		binary.BigEndian.PutUint32(b[57:61], uint32(nr))
		class = fmt.Sprintf("numrecords=%d(have %d)", nr, n)
	case 2: // malformed record section, count left alone
		k := rapid.IntRange(0, len(b)-61).Draw(t, label+"junk")
		junk := rapid.SliceOfN(rapid.Byte(), k, k).Draw(t, label+"junkbytes")
		b = append(b[:61:61], junk...)
		binary.BigEndian.PutUint32(b[8:12], uint32(len(b)-12))
		class = "junk-record-section"
	default: // record section cut short
		k := rapid.IntRange(61, len(b)).Draw(t, label+"cut")
		b = b[:k:k]
		binary.BigEndian.PutUint32(b[8:12], uint32(len(b)-12))
		class = "truncated-record-section"
	}
	if rapid.Bool().Draw(t, label+"second-batch") {
		b = append(b, vfc10gen.RecordBatch(1, []byte("ok"))...)
	}
	return b, class
}

func c11ProxyMetadata(backendHost string, backendPort int32) metadata.ClusterMetadata {
	clusterID := "vf-cluster"
	mk := func(name string, parts int) protocol.MetadataTopic {
		t := protocol.MetadataTopic{Topic: kmsg.StringPtr(name), TopicID: metadata.TopicIDForName(name)}
		for i := 0; i < parts; i++ {
			t.Partitions = append(t.Partitions, protocol.MetadataPartition{Partition: int32(i), Leader: 1, Replicas: []int32{1}, ISR: []int32{1}})
		}
		return t
	}
	return metadata.ClusterMetadata{
		ControllerID: 1, ClusterID: &clusterID,
		Brokers: []protocol.MetadataBroker{{NodeID: 1, Host: backendHost, Port: backendPort}},
		Topics:  []protocol.MetadataTopic{mk("orders", 2), mk("payments", 1)},
	}
}

func TestVF_C11_Proxy(t *testing.T) {
	st := vfkit.NewStats("C11", "proxy")
	defer st.Flush()
	log.SetOutput(io.Discard)
	tb := vfc11kit.NewTable(generateProxyApiVersions())
	if len(tb.Pairs) < 20 || len(tb.Other) == 0 {
		t.Fatalf("HARNESS: proxy advertised table %d pairs, %d other keys", len(tb.Pairs), len(tb.Other))
	}
	st.Note("advertised_pairs", len(tb.Pairs))
	fail := func(format string, a ...any) {
		msg := fmt.Sprintf(format, a...)
		fmt.Println("VF-INCONCLUSIVE:", msg)
		t.Fatalf("%s", msg)
	}

	ctx, cancel := context.WithCancel(context.Background())
	defer cancel()
	startBroker := func(h broker.Handler) (string, error) {
		return vfc11kit.StartServer(func(addr string) <-chan error {
			srv := &broker.Server{Addr: addr, Handler: h}
			errc := make(chan error, 1)
			go func() {
				if err := srv.ListenAndServe(ctx); err != nil {
					errc <- err
				}
			}()
			return errc
		})
	}
	backendAddr, err := startBroker(c11Backend{})
	if err != nil {
		fail("backend did not come up: %v", err)
	}
	host, port := "127.0.0.1", int32(portFromAddr(backendAddr, 0))
	proxyAddr, err := c11StartProxy(ctx, []string{backendAddr}, metadata.NewInMemoryStore(c11ProxyMetadata(host, port)), nil)
	if err != nil {
		fail("proxy did not come up: %v", err)
	}
	// the same proxy with the LFS module enabled (every produced batch is decoded for LFS_BLOB headers)
	lfsAddr, err := c11StartProxy(ctx, []string{backendAddr}, metadata.NewInMemoryStore(c11ProxyMetadata(host, port)), c11LfsModule())
	if err != nil {
		fail("LFS-enabled proxy did not come up: %v", err)
	}
	// the same proxy, ready, but no backend accepts connections (the port is bound, never listened on)
	deadBackend, releaseDead, err := vfc11kit.DeadPort()
	if err != nil {
		fail("cannot reserve a refusing port: %v", err)
	}
	defer releaseDead()
	deadAddr, err := c11StartProxy(ctx, []string{deadBackend}, metadata.NewInMemoryStore(c11ProxyMetadata(host, port)), nil)
	if err != nil {
		fail("proxy with unreachable backend did not come up: %v", err)
	}
	knownBackendErr := vfkit.Known(c11FindingBackendError)
	env := &vfc10gen.Env{
		Bounded: true,
		Topics:  []string{"orders", "payments", "orders", "no-such-topic"},
		IDs:     [][16]byte{metadata.TopicIDForName("orders"), metadata.TopicIDForName("payments")},
		Groups:  []string{"g1", "g2"},
		Members: []string{"", "m-1"},
	}
	knownFallback := vfkit.Known(c11FindingProxyFallback)
	inconclusive := ""
	defer func() {
		if inconclusive != "" {
			fmt.Println("VF-INCONCLUSIVE:", inconclusive)
		}
	}()

	rapid.Check(t, func(t *rapid.T) {
		if inconclusive != "" {
			t.Skip(inconclusive)
		}
		variant := rapid.IntRange(0, 3).Draw(t, "proxy-variant")
		lfsMode := variant == 0
		deadMode := variant == 1
		target, mode := proxyAddr, "plain"
		if lfsMode {
			target, mode = lfsAddr, "lfs"
		}
		if deadMode {
			target, mode = deadAddr, "backend-down"
		}
		conn, err := vfc11kit.DialRetry(target)
		if err != nil {
			inconclusive = "cannot connect to the proxy under test: " + err.Error()
			t.Skip(inconclusive)
		}
		defer conn.Close()
		n := rapid.IntRange(1, 3).Draw(t, "requests")
		for i := 0; i < n; i++ {
			st.Eval()
			pr := vfc11kit.GenProbe(t, tb, env, fmt.Sprintf("r%d-", i))
			st.Class("mode:" + mode)
			if lfsMode && rapid.Bool().Draw(t, fmt.Sprintf("r%d-hostile-produce", i)) {
				// a Produce (record format v2 versions) whose batches do not add up
				r := tb.Ranges[0]
				lo := r[0]
				if lo < 3 {
					lo = 3
				}
				ver := int16(rapid.IntRange(int(lo), int(r[1])).Draw(t, fmt.Sprintf("r%d-pver", i)))
				req := kmsg.NewPtrProduceRequest()
				req.SetVersion(ver)
				req.Acks = int16(rapid.SampledFrom([]int{1, -1, 1, 0}).Draw(t, fmt.Sprintf("r%d-acks", i)))
				req.TimeoutMillis = 1000
				tp := kmsg.NewProduceRequestTopic()
				tp.Topic = rapid.SampledFrom([]string{"orders", "payments", "no-such-topic"}).Draw(t, fmt.Sprintf("r%d-ptopic", i))
				np := rapid.IntRange(1, 2).Draw(t, fmt.Sprintf("r%d-parts", i))
				for k := 0; k < np; k++ {
					pp := kmsg.NewProduceRequestTopicPartition()
					pp.Partition = int32(k)
					var cl string
					pp.Records, cl = c11HostileBatch(t, fmt.Sprintf("r%d-b%d-", i, k))
					st.Class("lfs-batch:" + cl[:strings.IndexAny(cl+"=", "=")])
					tp.Partitions = append(tp.Partitions, pp)
				}
				req.Topics = append(req.Topics, tp)
				pr.Key, pr.Version, pr.Class, pr.Advertised, pr.Req = 0, ver, "advertised", true, req
				pr.Acks0 = req.Acks == 0
				pr.Shape = &vfc10gen.Shape{}
				st.Class("lfs-hostile-produce")
			}
			if req, ok := pr.Req.(*kmsg.ProduceRequest); ok && req.Acks == 0 && len(req.Topics) == 0 {
				// acks=0 with an empty topic list is forwarded raw and the proxy then waits for a
				// backend reply that acks=0 never produces: the connection stalls. Only a timeout
				// could observe that, so it is not asserted here (see notes/C11.md); keep the
				// connection usable.
				req.Acks = 1
				pr.Acks0 = false
				st.Class("steered:acks0-empty-produce")
			}
			if r := tb.Ranges[18]; knownFallback && pr.Key == 18 && pr.Version > r[1] {
				// listed finding: the proxy answers ApiVersions above its max in the requested
				// version's layout with error 0 instead of the v0 UNSUPPORTED_VERSION reply
				st.ExcludedCase(c11FindingProxyFallback)
				pr.Version, pr.Class, pr.Advertised = r[1], "advertised", true
				pr.Req.SetVersion(pr.Version)
			}
			if deadMode && knownBackendErr && !c11ProxyOwnPath(pr.Key) && pr.Advertised {
				// listed finding: on the pass-through / group paths the backend-error reply is built from
				// the whole frame instead of the body, the parse fails and nothing is written
				st.ExcludedCase(c11FindingBackendError)
				continue
			}
			pr.Encode()
			out := vfc11kit.Exchange(conn, pr, 60*time.Second)
			if out.Kind == "closed" && vfc11kit.IsReset(out.Err) && pr.Advertised && !pr.Acks0 {
				// a reset is no evidence (see ExchangeSolo): ask again, probe alone, new connection
				st.Class("outcome:reset-settled-by-solo-probe")
				if c2, derr := vfc11kit.DialRetry(target); derr == nil {
					out = vfc11kit.ExchangeSolo(c2, pr, 60*time.Second)
					c2.Close()
				}
			}
			st.Class("class:" + pr.Class)
			st.Class("outcome:" + out.Kind)
			if pr.Advertised {
				st.Class(fmt.Sprintf("key-%02d", pr.Key))
			}
			switch out.Kind {
			case "request-lost", "silent":
				t.Fatalf("%s (%s) via proxy (%s): %s: %v\nshape=%s frame=%x", pr.Name(), pr.Class, mode, out.Kind, out.Err, pr.Shape, c11Clip(pr.Frame))
			case "wrong-correlation", "extra-reply":
				t.Fatalf("%s (%s) via proxy: %s: %v\nreply=%x extra=%x", pr.Name(), pr.Class, out.Kind, out.Err, c11Clip(out.Reply), c11Clip(out.Extra))
			case "noreply":
				if pr.Advertised && !pr.Acks0 {
					t.Fatalf("%s is advertised by the proxy but the request got no reply (connection stayed open)\nshape=%s frame=%x", pr.Name(), pr.Shape, c11Clip(pr.Frame))
				}
			case "closed":
				if pr.Advertised && !pr.Acks0 {
					t.Fatalf("%s is advertised by the proxy but the connection was closed without a reply (%v)\nshape=%s frame=%x", pr.Name(), out.Err, pr.Shape, c11Clip(pr.Frame))
				}
			case "reply", "reply-then-closed":
				if pr.Acks0 && out.Kind == "reply" {
					t.Fatalf("%s with acks=0 via proxy got a reply frame (%d bytes): the client reads none, so the next request on this connection is answered with this stale frame\nshape=%s request=%x reply=%x",
						pr.Name(), len(out.Reply), pr.Shape, c11Clip(pr.Frame), c11Clip(out.Reply))
				}
				msg, note := vfc11kit.JudgeReply(pr, tb, out.Reply)
				if msg != "" {
					t.Fatalf("%s (%s) via proxy: reply is not decodable at the request version: %s\nshape=%s\nrequest=%x\nreply=%x", pr.Name(), pr.Class, msg, pr.Shape, c11Clip(pr.Frame), c11Clip(out.Reply))
				}
				st.Class("reply:" + note)
			}
			fl, _ := vfc10gen.IsFlexible(pr.Key, pr.Version)
			if fl {
				st.Class("flexible")
			}
			idform := "names"
			if pr.Shape.IDs > 0 {
				idform = "topic-ids"
			}
			if st.NonTrivial(pr.Key, pr.Version, pr.Class, mode, fl, idform, pr.Shape.String(), len(pr.Frame), out.Kind) {
				st.Sample(map[string]any{"api": pr.Name(), "class": pr.Class, "shape": pr.Shape.String(), "outcome": out.Kind})
			}
			if out.Kind == "closed" || out.Kind == "reply-then-closed" {
				break
			}
		}
	})
	if inconclusive != "" {
		t.Fatalf("inconclusive: %s", inconclusive)
	}
}

// TestVF_C11_ProxyWitnessBackendDown: ListOffsets v4 and OffsetCommit v3 through a ready proxy
// whose only backend refuses connections.
func TestVF_C11_ProxyWitnessBackendDown(t *testing.T) {
	st := vfkit.NewStats("C11", "proxy-witness-backend-down")
	defer st.Flush()
	st.Eval()
	log.SetOutput(io.Discard)
	ctx, cancel := context.WithCancel(context.Background())
	defer cancel()
	tb := vfc11kit.NewTable(generateProxyApiVersions())
	dead, releaseDead, err := vfc11kit.DeadPort()
	if err != nil {
		fmt.Println("VF-INCONCLUSIVE: cannot reserve a refusing port:", err)
		t.Fatalf("port: %v", err)
	}
	defer releaseDead()
	addr, err := c11StartProxy(ctx, []string{dead}, metadata.NewInMemoryStore(c11ProxyMetadata("127.0.0.1", 1)), nil)
	if err != nil {
		fmt.Println("VF-INCONCLUSIVE: proxy did not come up:", err)
		t.Fatalf("proxy: %v", err)
	}
	lo := kmsg.NewPtrListOffsetsRequest()
	lo.SetVersion(4)
	lo.ReplicaID = -1
	lt := kmsg.NewListOffsetsRequestTopic()
	lt.Topic = "orders"
	lp := kmsg.NewListOffsetsRequestTopicPartition()
	lp.Partition, lp.Timestamp = 0, -1
	lt.Partitions = append(lt.Partitions, lp)
	lo.Topics = append(lo.Topics, lt)
	oc := kmsg.NewPtrOffsetCommitRequest()
	oc.SetVersion(3)
	oc.Group = "g"
	ot := kmsg.NewOffsetCommitRequestTopic()
	ot.Topic = "orders"
	op := kmsg.NewOffsetCommitRequestTopicPartition()
	op.Partition, op.Offset = 0, 5
	ot.Partitions = append(ot.Partitions, op)
	oc.Topics = append(oc.Topics, ot)
	var fails []string
	for i, req := range []kmsg.Request{lo, oc} {
		pr := &vfc11kit.Probe{Key: req.Key(), Version: req.GetVersion(), Class: "advertised", Advertised: true, Req: req, Corr: int32(100 + i), ClientID: "vf-witness", Shape: &vfc10gen.Shape{}}
		pr.Encode()
		conn, err := vfc11kit.DialRetry(addr)
		if err != nil {
			fmt.Println("VF-INCONCLUSIVE: cannot connect to the proxy:", err)
			t.Fatalf("dial: %v", err)
		}
		out := vfc11kit.Exchange(conn, pr, 60*time.Second)
		_ = conn.Close()
		switch out.Kind {
		case "reply", "reply-then-closed":
			if msg, _ := vfc11kit.JudgeReply(pr, tb, out.Reply); msg != "" {
				fails = append(fails, pr.Name()+": "+msg)
			}
		default:
			fails = append(fails, fmt.Sprintf("%s: %s (no reply)", pr.Name(), out.Kind))
		}
	}
	still := len(fails) > 0
	what := "ready proxy, backend refuses connections: "
	if still {
		what += strings.Join(fails, "; ") + " - respondBackendError gets frame.Payload (header+body) instead of body at the pass-through / group-routing call sites, the parse fails and nothing is written"
	} else {
		what += "ListOffsets v4 and OffsetCommit v3 answered with decodable replies"
	}
	st.KnownResult(c11FindingBackendError, still, what)
	if still && !vfkit.Known(c11FindingBackendError) {
		t.Fatalf("finding %s is not listed as known and reproduces: %s", c11FindingBackendError, what)
	}
	st.NonTrivial("proxy-witness-backend-down", still)
	st.Sample(map[string]any{"result": what})
	t.Log(what)
}

// TestVF_C11_ProxyWitness replays the witness of the listed proxy finding through the real
// proxy code: an ApiVersions v5 request (one above the advertised max v4).
func TestVF_C11_ProxyWitness(t *testing.T) {
	st := vfkit.NewStats("C11", "proxy-witness")
	defer st.Flush()
	st.Eval()
	tb := vfc11kit.NewTable(generateProxyApiVersions())
	p := &proxy{apiVersions: generateProxyApiVersions(), logger: slog.New(slog.NewTextHandler(io.Discard, nil))}
	max := tb.Ranges[18][1]
	req := kmsg.NewPtrApiVersionsRequest()
	req.SetVersion(max + 1)
	pr := &vfc11kit.Probe{Key: 18, Version: max + 1, Class: "apiversions-above-max", Req: req, Corr: 77, ClientID: "vf-witness"}
	cid := pr.ClientID
	reply, err := p.handleApiVersions(&protocol.RequestHeader{APIKey: 18, APIVersion: pr.Version, CorrelationID: pr.Corr, ClientID: &cid})
	msg := ""
	if err != nil {
		msg = "handleApiVersions failed: " + err.Error()
	} else {
		msg, _ = vfc11kit.JudgeReply(pr, tb, reply)
	}
	what := fmt.Sprintf("proxy, ApiVersions v%d (advertised max v%d): ", pr.Version, max)
	if msg != "" {
		what += msg
	} else {
		what += "answered with the v0 UNSUPPORTED_VERSION fallback"
	}
	st.KnownResult(c11FindingProxyFallback, msg != "", what)
	if msg != "" && !vfkit.Known(c11FindingProxyFallback) {
		t.Fatalf("regression of a repaired finding (%s is not listed as known): %s", c11FindingProxyFallback, what)
	}
	st.NonTrivial("proxy-witness", msg != "")
	st.Sample(map[string]any{"result": what, "reply_hex": fmt.Sprintf("%x", c11Clip(reply))})
	t.Log(what)
}

func c11Clip(b []byte) []byte {
	if len(b) > 300 {
		return b[:300]
	}
	return b
}
