//go:build verif

package main

// C30 (proxy part): POST /lfs/download in stream mode sends object bytes only if their
// SHA-256 and their size match the integrity block the caller supplied (taken from the
// envelope); otherwise an error status and none of the object's bytes.

import (
	"bytes"
	"context"
	"crypto/sha256"
	"encoding/hex"
	"encoding/json"
	"errors"
	"fmt"
	"io"
	"log/slog"
	"math"
	"net/http"
	"net/http/httptest"
	"strings"
	"sync"
	"sync/atomic"
	"testing"
	"time"

	"github.com/aws/aws-sdk-go-v2/aws"
	"github.com/aws/aws-sdk-go-v2/aws/signer/v4"
	"github.com/aws/aws-sdk-go-v2/service/s3"
	"pgregory.net/rapid"
	"verif.local/vfkit"
)

const c30KnownShort = "C30-download-short-object"

// c30S3 serves exactly one scripted GetObject outcome.
type c30S3 struct {
	body     []byte
	err      error
	failAt   int // >=0: the body reader fails after this many bytes
	gets     int
	lastKey  string
	ctype    string
	lenWrong bool
}

type c30FailReader struct {
	b      []byte
	p      int
	failAt int
}

func (r *c30FailReader) Read(p []byte) (int, error) {
	if r.failAt >= 0 && r.p >= r.failAt {
		return 0, errors.New("c30: connection reset while reading the object")
	}
	if r.p >= len(r.b) {
		return 0, io.EOF
	}
	n := len(p)
	if n > 1000 {
		n = 1000
	}
	if n > len(r.b)-r.p {
		n = len(r.b) - r.p
	}
	if r.failAt >= 0 && r.p+n > r.failAt {
		n = r.failAt - r.p
	}
	copy(p, r.b[r.p:r.p+n])
	r.p += n
	return n, nil
}

func (f *c30S3) GetObject(ctx context.Context, in *s3.GetObjectInput, _ ...func(*s3.Options)) (*s3.GetObjectOutput, error) {
	f.gets++
	f.lastKey = aws.ToString(in.Key)
	if f.err != nil {
		return nil, f.err
	}
	ln := int64(len(f.body))
	if f.lenWrong {
		ln += 5
	}
	out := &s3.GetObjectOutput{Body: io.NopCloser(&c30FailReader{b: f.body, failAt: f.failAt}), ContentLength: &ln}
	if f.ctype != "" {
		out.ContentType = aws.String(f.ctype)
	}
	return out, nil
}
func (f *c30S3) CreateMultipartUpload(context.Context, *s3.CreateMultipartUploadInput, ...func(*s3.Options)) (*s3.CreateMultipartUploadOutput, error) {
	return nil, errors.New("c30: unexpected CreateMultipartUpload")
}
func (f *c30S3) UploadPart(context.Context, *s3.UploadPartInput, ...func(*s3.Options)) (*s3.UploadPartOutput, error) {
	return nil, errors.New("c30: unexpected UploadPart")
}
func (f *c30S3) CompleteMultipartUpload(context.Context, *s3.CompleteMultipartUploadInput, ...func(*s3.Options)) (*s3.CompleteMultipartUploadOutput, error) {
	return nil, errors.New("c30: unexpected CompleteMultipartUpload")
}
func (f *c30S3) AbortMultipartUpload(context.Context, *s3.AbortMultipartUploadInput, ...func(*s3.Options)) (*s3.AbortMultipartUploadOutput, error) {
	return nil, errors.New("c30: unexpected AbortMultipartUpload")
}
func (f *c30S3) PutObject(context.Context, *s3.PutObjectInput, ...func(*s3.Options)) (*s3.PutObjectOutput, error) {
	return nil, errors.New("c30: unexpected PutObject")
}
func (f *c30S3) DeleteObject(context.Context, *s3.DeleteObjectInput, ...func(*s3.Options)) (*s3.DeleteObjectOutput, error) {
	return nil, errors.New("c30: unexpected DeleteObject")
}
func (f *c30S3) HeadBucket(context.Context, *s3.HeadBucketInput, ...func(*s3.Options)) (*s3.HeadBucketOutput, error) {
	return &s3.HeadBucketOutput{}, nil
}
func (f *c30S3) CreateBucket(context.Context, *s3.CreateBucketInput, ...func(*s3.Options)) (*s3.CreateBucketOutput, error) {
	return &s3.CreateBucketOutput{}, nil
}

type c30Presign struct{}

func (c30Presign) PresignGetObject(ctx context.Context, in *s3.GetObjectInput, _ ...func(*s3.PresignOptions)) (*v4.PresignedHTTPRequest, error) {
	return &v4.PresignedHTTPRequest{URL: "https://example.invalid/" + aws.ToString(in.Key)}, nil
}

func c30Module(api s3API, maxBlob int64, presign bool) *lfsModule {
	logger := slog.New(slog.NewTextHandler(io.Discard, nil))
	m := &lfsModule{
		logger:           logger,
		s3Uploader:       &s3Uploader{bucket: "c30-bucket", region: "us-east-1", chunkSize: 5 << 20, api: api, presign: c30Presign{}},
		s3Bucket:         "c30-bucket",
		s3Namespace:      "ns",
		maxBlob:          maxBlob,
		chunkSize:        5 << 20,
		checksumAlg:      "sha256",
		proxyID:          "c30-proxy",
		metrics:          newLfsMetrics(),
		tracker:          &LfsOpsTracker{config: TrackerConfig{}, logger: logger},
		topicMaxLength:   249,
		downloadTTLMax:   2 * time.Minute,
		uploadSessionTTL: time.Hour,
		uploadSessions:   make(map[string]*uploadSession),
		presignEnabled:   presign,
	}
	atomic.StoreUint32(&m.s3Healthy, 1)
	return m
}

type c30DLCase struct {
	Content   string `json:"object_vs_envelope"` // what the bucket returns relative to the described blob
	ShaKind   string `json:"sha256"`
	SizeKind  string `json:"size"`
	AlgKind   string `json:"checksum_alg"`
	Mode      string `json:"mode"`
	BlobLen   int    `json:"blob_len"`
	MaxBlob   int64  `json:"max_blob"`
	Integrity bool   `json:"integrity_present"`
	Status    int    `json:"status"`
	blob      []byte
}

var (
	c30DLContent = []string{"exact", "bitflip", "truncated", "truncated-by-1", "extended", "extended-by-1", "empty", "error", "midstream-error", "other"}
	c30DLSha     = []string{"of-described", "of-described", "of-described", "of-described", "of-stored", "of-stored", "of-stored", "upper", "padded", "wrong", "tail-wrong", "head-wrong", "short", "nonhex", "empty"}
	c30DLSize    = []string{"of-described", "of-described", "of-described", "of-described", "of-stored", "of-stored", "of-stored", "plus1", "minus1", "zero", "negative", "huge", "plus-many", "maxint", "maxint-1"}
	c30DLAlg     = []string{"", "", "", "", "sha256", "sha256", "SHA256", " sha256 ", "md5", "none"}
	c30DLMode    = []string{"", "", "stream", "stream", "stream", "stream", "STREAM", " stream ", "presign", "bogus"}
)

func c30Sha(b []byte) string { s := sha256.Sum256(b); return hex.EncodeToString(s[:]) }

// c30RunDownload executes one download; returns (violation, excluded).
func c30RunDownload(st *vfkit.Stats, c *c30DLCase, honourKnown bool) (string, bool) {
	blob := c.blob
	stored := append([]byte(nil), blob...)
	fs := &c30S3{failAt: -1, ctype: ""}
	switch c.Content {
	case "exact":
	case "bitflip":
		if len(stored) == 0 {
			stored = []byte{0x01}
		} else {
			stored[len(stored)/3] ^= 0x01
		}
	case "truncated":
		stored = stored[:len(stored)/2]
	case "truncated-by-1":
		if len(stored) > 0 {
			stored = stored[:len(stored)-1]
		}
	case "extended":
		stored = append(stored, bytes.Repeat([]byte{0xEE}, 70000)...)
	case "extended-by-1":
		stored = append(stored, 0x00)
	case "empty":
		stored = []byte{}
	case "error":
		fs.err = errors.New("NoSuchKey: c30 injected")
	case "midstream-error":
		fs.failAt = len(stored) / 2
	case "other":
		stored = []byte("another tenant's object with unrelated content")
	}
	fs.body = stored

	var sha string
	switch c.ShaKind {
	case "of-described":
		sha = c30Sha(blob)
	case "of-stored":
		sha = c30Sha(stored)
	case "upper":
		sha = strings.ToUpper(c30Sha(blob))
	case "padded":
		sha = "  " + c30Sha(blob) + "\t"
	case "wrong":
		sha = c30Sha(append([]byte("x"), blob...))
	case "tail-wrong": // only the last hex digit differs from the stored object's digest
		h := []byte(c30Sha(stored))
		h[63] = "0123456789abcdef"[(strings.IndexByte("0123456789abcdef", h[63])+1)%16]
		sha = string(h)
	case "head-wrong":
		h := []byte(c30Sha(stored))
		h[0] = "0123456789abcdef"[(strings.IndexByte("0123456789abcdef", h[0])+1)%16]
		sha = string(h)
	case "short":
		sha = c30Sha(blob)[:63]
	case "nonhex":
		sha = "zz" + c30Sha(blob)[2:]
	case "empty":
		sha = ""
	}
	var size int64
	switch c.SizeKind {
	case "of-described":
		size = int64(len(blob))
	case "of-stored":
		size = int64(len(stored))
	case "plus1":
		size = int64(len(blob)) + 1
	case "minus1":
		size = int64(len(blob)) - 1
	case "zero":
		size = 0
	case "negative":
		size = -5
	case "huge":
		size = 1 << 40
	case "plus-many":
		size = int64(len(blob)) + 100000
	case "maxint":
		size = math.MaxInt64
	case "maxint-1":
		size = math.MaxInt64 - 1
	}
	// the listed finding: bucket returns FEWER bytes than the caller declared, with the hash the caller declared
	normSha := strings.ToLower(strings.TrimSpace(sha))
	shortCase := fs.err == nil && fs.failAt < 0 && normSha == c30Sha(stored) && int64(len(stored)) < size
	if honourKnown && vfkit.Known(c30KnownShort) && shortCase {
		st.ExcludedCase(c30KnownShort)
		return "", true
	}

	m := c30Module(fs, c.MaxBlob, false)
	reqBody := map[string]any{"bucket": "c30-bucket", "key": "ns/topic/lfs/2026/01/02/obj-c30", "mode": c.Mode}
	if c.Integrity {
		ib := map[string]any{"sha256": sha, "size": size}
		if c.AlgKind != "" {
			ib["checksum_alg"] = c.AlgKind
		}
		reqBody["integrity"] = ib
	}
	jb, _ := json.Marshal(reqBody)
	req := httptest.NewRequest(http.MethodPost, "/lfs/download", bytes.NewReader(jb))
	rr := httptest.NewRecorder()
	m.handleHTTPDownload(rr, req)
	c.Status = rr.Code
	body := rr.Body.Bytes()
	st.Class(fmt.Sprintf("status:%d", rr.Code))

	if rr.Code >= 200 && rr.Code < 300 {
		if !c.Integrity {
			return fmt.Sprintf("download answered %d without any integrity block", rr.Code), false
		}
		if got := c30Sha(body); got != normSha {
			return fmt.Sprintf("download sent %d bytes with SHA-256 %s but the caller supplied %q (object: %s, stored %d bytes)", len(body), got, sha, c.Content, len(stored)), false
		}
		if int64(len(body)) != size {
			return fmt.Sprintf("download sent %d bytes (SHA-256 as supplied) but the caller supplied size %d (object: %s, stored %d bytes)", len(body), size, c.Content, len(stored)), false
		}
		if cl := rr.Header().Get("Content-Length"); cl != "" && cl != fmt.Sprint(len(body)) {
			return fmt.Sprintf("Content-Length %s but %d bytes sent", cl, len(body)), false
		}
		st.Class("served")
		return "", false
	}
	// error status: none of the object's bytes may be in the response
	if len(stored) >= 12 {
		if bytes.Contains(body, stored[:12]) || bytes.Contains(body, stored[len(stored)-12:]) {
			return fmt.Sprintf("error response %d carries bytes of the object: %q", rr.Code, body), false
		}
	}
	var er lfsErrorResponse
	if err := json.Unmarshal(body, &er); err != nil || er.Code == "" {
		st.Class("refused:unstructured-body")
		return "", false
	}
	st.Class("refused:" + er.Code)
	return "", false
}

func TestVF_C30_Download(t *testing.T) {
	st := vfkit.NewStats("C30", "download")
	defer st.Flush()
	rapid.Check(t, func(t *rapid.T) {
		st.Eval()
		c := &c30DLCase{
			Content:   rapid.SampledFrom(c30DLContent).Draw(t, "content"),
			ShaKind:   rapid.SampledFrom(c30DLSha).Draw(t, "sha"),
			SizeKind:  rapid.SampledFrom(c30DLSize).Draw(t, "size"),
			AlgKind:   rapid.SampledFrom(c30DLAlg).Draw(t, "alg"),
			Mode:      rapid.SampledFrom(c30DLMode).Draw(t, "mode"),
			Integrity: rapid.IntRange(0, 19).Draw(t, "integrity") > 0,
			MaxBlob:   rapid.SampledFrom([]int64{1 << 20, 1 << 20, 0, 5 << 30}).Draw(t, "maxBlob"),
		}
		n := rapid.OneOf(rapid.IntRange(0, 3), rapid.IntRange(12, 200), rapid.IntRange(32000, 34000), rapid.IntRange(0, 70000)).Draw(t, "blobLen")
		seed := rapid.SliceOfN(rapid.Byte(), 16, 16).Draw(t, "blobSeed")
		c.blob = make([]byte, n)
		for i := range c.blob {
			c.blob[i] = seed[i%16] + byte(i/16)*31 + byte(i)
		}
		c.BlobLen = n
		st.Class("object:" + c.Content)
		st.Class("sha:" + c.ShaKind)
		st.Class("size:" + c.SizeKind)
		viol, excluded := c30RunDownload(st, c, true)
		if excluded {
			return
		}
		if viol != "" {
			t.Fatalf("%s\ncase %+v", viol, *c)
		}
		if c.Content != "exact" || c.ShaKind != "of-described" || c.SizeKind != "of-described" {
			st.NonTrivial(c.Content, c.ShaKind, c.SizeKind, c.AlgKind, c.Mode, c.Integrity, c.MaxBlob, n, hex.EncodeToString(seed))
			st.Sample(c)
		}
	})
}

// TestVF_C30_Witness replays the minimal witness of the listed finding.
func TestVF_C30_Witness(t *testing.T) {
	st := vfkit.NewStats("C30", "witness")
	defer st.Flush()
	st.Eval()
	// The bucket holds the first half of the blob; the caller passes that half's SHA-256
	// together with the envelope's (larger) size.
	c := &c30DLCase{Content: "truncated", ShaKind: "of-stored", SizeKind: "of-described", Mode: "stream", Integrity: true, MaxBlob: 1 << 20,
		blob: []byte("0123456789abcdef0123456789abcdef"), BlobLen: 32}
	viol, _ := c30RunDownload(st, c, false)
	st.NonTrivial("witness-short")
	st.Sample(map[string]any{"case": c, "result": viol})
	st.KnownResult(c30KnownShort, viol != "", "stored object = first 16 of 32 bytes, caller supplies sha256(stored) and size 32 -> "+fmt.Sprint(c.Status)+": "+viol)
}

// ---- concurrent downloads ----------------------------------------------------------------
//
// Two stream downloads are in flight at the same time (a client fetching several blobs in
// parallel, or retrying while the first attempt is still buffering), optionally carrying
// the same client-chosen X-Request-ID. The S3 body of one of them is gated: it stops after
// a prefix until the other request has run to completion. Both answers are judged by the
// same rule as everywhere: 2xx => SHA-256(body) and len(body) are the ones supplied.

type c30GateS3 struct {
	c30S3
	bodies   map[string][]byte
	gateKey  string
	gateAt   int
	atGate   chan struct{}
	release  chan struct{}
	once     sync.Once
	gmu      sync.Mutex
	gateUsed bool
}

type c30GateReader struct {
	s *c30GateS3
	b []byte
	p int
	g bool
}

func (r *c30GateReader) Read(p []byte) (int, error) {
	if r.g && r.p >= r.s.gateAt {
		r.g = false
		r.s.once.Do(func() { close(r.s.atGate) })
		<-r.s.release
	}
	if r.p >= len(r.b) {
		return 0, io.EOF
	}
	n := len(p)
	if n > 700 {
		n = 700
	}
	if n > len(r.b)-r.p {
		n = len(r.b) - r.p
	}
	if r.g && r.p+n > r.s.gateAt {
		n = r.s.gateAt - r.p
	}
	copy(p, r.b[r.p:r.p+n])
	r.p += n
	return n, nil
}

func (f *c30GateS3) GetObject(ctx context.Context, in *s3.GetObjectInput, _ ...func(*s3.Options)) (*s3.GetObjectOutput, error) {
	k := aws.ToString(in.Key)
	b, ok := f.bodies[k]
	if !ok {
		return nil, errors.New("NoSuchKey")
	}
	ln := int64(len(b))
	gate := false
	f.gmu.Lock()
	if k == f.gateKey && !f.gateUsed && f.gateAt < len(b) {
		f.gateUsed, gate = true, true // only the first reader of the key is gated
	}
	f.gmu.Unlock()
	return &s3.GetObjectOutput{Body: io.NopCloser(&c30GateReader{s: f, b: b, g: gate}), ContentLength: &ln}, nil
}

func c30DownloadOnce(m *lfsModule, key string, blob []byte, requestID string) *httptest.ResponseRecorder {
	jb, _ := json.Marshal(map[string]any{"bucket": "c30-bucket", "key": key, "mode": "stream",
		"integrity": map[string]any{"sha256": c30Sha(blob), "size": len(blob)}})
	req := httptest.NewRequest(http.MethodPost, "/lfs/download", bytes.NewReader(jb))
	if requestID != "" {
		req.Header.Set("X-Request-ID", requestID)
	}
	rr := httptest.NewRecorder()
	m.handleHTTPDownload(rr, req)
	return rr
}

func c30JudgeDownload(who string, rr *httptest.ResponseRecorder, blob []byte) string {
	if rr.Code < 200 || rr.Code >= 300 {
		return ""
	}
	body := rr.Body.Bytes()
	if got := c30Sha(body); got != c30Sha(blob) || len(body) != len(blob) {
		return fmt.Sprintf("%s answered %d with %d bytes hashing to %s, the caller supplied size %d and sha256 %s", who, rr.Code, len(body), got, len(blob), c30Sha(blob))
	}
	return ""
}

func TestVF_C30_DownloadConcurrent(t *testing.T) {
	st := vfkit.NewStats("C30", "download-concurrent")
	defer st.Flush()
	rapid.Check(t, func(t *rapid.T) {
		st.Eval()
		mk := func(label string) []byte {
			n := rapid.OneOf(rapid.IntRange(1, 64), rapid.IntRange(500, 5000), rapid.IntRange(30000, 70000)).Draw(t, label+"Len")
			seed := rapid.SliceOfN(rapid.Byte(), 8, 8).Draw(t, label+"Seed")
			b := make([]byte, n)
			for i := range b {
				b[i] = seed[i%8] ^ byte(i*13) ^ byte(i>>7)
			}
			return b
		}
		blobA, blobB := mk("a"), mk("b")
		sameObject := rapid.IntRange(0, 5).Draw(t, "sameObject") == 0
		keyA, keyB := "ns/topic/lfs/2026/01/02/obj-a", "ns/topic/lfs/2026/01/02/obj-b"
		if sameObject {
			blobB, keyB = blobA, keyA
		}
		idKind := rapid.SampledFrom([]string{"same", "same", "same", "different", "absent", "same-after-sanitising"}).Draw(t, "requestIDs")
		idA, idB := "", ""
		switch idKind {
		case "same":
			idA = rapid.SampledFrom([]string{"batch-42", "7f3c2a1e-0000-4000-8000-000000000001", "x"}).Draw(t, "id")
			idB = idA
		case "different":
			idA, idB = "req-a", "req-b"
		case "same-after-sanitising":
			idA, idB = "job/1:a", "job_1_a"
		}
		// B is the gated one: it stops after gateAt bytes of its S3 body until A is done
		gateAt := rapid.IntRange(0, len(blobB)).Draw(t, "gateAt")
		fs := &c30GateS3{bodies: map[string][]byte{keyA: blobA, keyB: blobB}, gateKey: keyB, gateAt: gateAt,
			atGate: make(chan struct{}), release: make(chan struct{})}
		m := c30Module(fs, 1<<20, false)
		st.Class("request-ids:" + idKind)

		doneB := make(chan *httptest.ResponseRecorder, 1)
		go func() { doneB <- c30DownloadOnce(m, keyB, blobB, idB) }()
		var rrB *httptest.ResponseRecorder
		select {
		case <-fs.atGate:
			st.Class("interleaved(B parked mid-body while A ran to completion)")
		case rrB = <-doneB:
			st.Class("B finished before reaching the gate")
		}
		// while B is parked, the gate must not catch A when both read the same key
		fs.once.Do(func() { close(fs.atGate) })
		rrA := c30DownloadOnce(m, keyA, blobA, idA)
		close(fs.release)
		if rrB == nil {
			rrB = <-doneB
		}
		st.Class(fmt.Sprintf("status:%d/%d", rrA.Code, rrB.Code))
		if v := c30JudgeDownload("download A (ran while B was in flight)", rrA, blobA); v != "" {
			t.Fatalf("%s; request ids %q/%q", v, idA, idB)
		}
		if v := c30JudgeDownload("download B (parked mid-body while A ran)", rrB, blobB); v != "" {
			t.Fatalf("%s; request ids %q/%q, B parked after %d of %d bytes, A has %d bytes", v, idA, idB, gateAt, len(blobB), len(blobA))
		}
		st.NonTrivial(idKind, len(blobA), len(blobB), gateAt, sameObject)
		st.Sample(map[string]any{"request_ids": idKind, "len_a": len(blobA), "len_b": len(blobB), "b_parked_after": gateAt, "same_object": sameObject, "status_a": rrA.Code, "status_b": rrB.Code})
	})
}
