//go:build verif

package main

// C31: rewriteProduceRecords changes only the flagged values. Inputs are encoded with the
// independent vfkit batch codec (never with lfsEncodeRecord / kmsg.AppendTo) and outputs
// are decoded with it again; the only shared third-party piece is the compression
// library (kgo) used to produce and to open compressed record sets.

import (
	"bytes"
	"context"
	"crypto/md5"
	"crypto/sha256"
	"encoding/hex"
	"errors"
	"fmt"
	"hash/crc32"
	"io"
	"log/slog"
	"sort"
	"strings"
	"sync/atomic"
	"testing"

	"github.com/KafScale/platform/pkg/lfs"
	"github.com/KafScale/platform/pkg/protocol"
	"github.com/aws/aws-sdk-go-v2/aws"
	"github.com/aws/aws-sdk-go-v2/service/s3"
	"github.com/twmb/franz-go/pkg/kgo"
	"github.com/twmb/franz-go/pkg/kmsg"
	"pgregory.net/rapid"
	"verif.local/vfkit"
)

// ---- recording S3 fake (PutObject + order-preserving multipart) --------------------------

type c31Upload struct {
	parts map[int32][]byte
}

type c31S3 struct {
	objects map[string][]byte
	puts    []string
	uploads map[string]*c31Upload
	seq     int
}

func newC31S3() *c31S3 { return &c31S3{objects: map[string][]byte{}, uploads: map[string]*c31Upload{}} }

func (f *c31S3) PutObject(ctx context.Context, in *s3.PutObjectInput, _ ...func(*s3.Options)) (*s3.PutObjectOutput, error) {
	var data []byte
	if in.Body != nil {
		data, _ = io.ReadAll(in.Body)
	}
	if in.ContentLength != nil && *in.ContentLength != int64(len(data)) {
		return nil, fmt.Errorf("c31 s3: ContentLength %d but body has %d bytes", *in.ContentLength, len(data))
	}
	k := aws.ToString(in.Key)
	f.objects[k] = data
	f.puts = append(f.puts, k)
	return &s3.PutObjectOutput{}, nil
}
func (f *c31S3) CreateMultipartUpload(ctx context.Context, in *s3.CreateMultipartUploadInput, _ ...func(*s3.Options)) (*s3.CreateMultipartUploadOutput, error) {
	f.seq++
	id := fmt.Sprintf("up-%d", f.seq)
	f.uploads[id+"|"+aws.ToString(in.Key)] = &c31Upload{parts: map[int32][]byte{}}
	return &s3.CreateMultipartUploadOutput{UploadId: aws.String(id)}, nil
}
func (f *c31S3) UploadPart(ctx context.Context, in *s3.UploadPartInput, _ ...func(*s3.Options)) (*s3.UploadPartOutput, error) {
	u := f.uploads[aws.ToString(in.UploadId)+"|"+aws.ToString(in.Key)]
	if u == nil {
		return nil, errors.New("c31 s3: NoSuchUpload")
	}
	data, _ := io.ReadAll(in.Body)
	u.parts[aws.ToInt32(in.PartNumber)] = data
	sum := md5.Sum(data)
	return &s3.UploadPartOutput{ETag: aws.String("\"" + hex.EncodeToString(sum[:]) + "\"")}, nil
}
func (f *c31S3) CompleteMultipartUpload(ctx context.Context, in *s3.CompleteMultipartUploadInput, _ ...func(*s3.Options)) (*s3.CompleteMultipartUploadOutput, error) {
	id := aws.ToString(in.UploadId) + "|" + aws.ToString(in.Key)
	u := f.uploads[id]
	if u == nil {
		return nil, errors.New("c31 s3: NoSuchUpload")
	}
	var body []byte
	last := int32(0)
	if in.MultipartUpload == nil || len(in.MultipartUpload.Parts) == 0 {
		return nil, errors.New("c31 s3: MalformedXML (no parts)")
	}
	for _, p := range in.MultipartUpload.Parts {
		n := aws.ToInt32(p.PartNumber)
		if n <= last {
			return nil, errors.New("c31 s3: InvalidPartOrder")
		}
		last = n
		data, ok := u.parts[n]
		if !ok {
			return nil, errors.New("c31 s3: InvalidPart")
		}
		sum := md5.Sum(data)
		if aws.ToString(p.ETag) != "\""+hex.EncodeToString(sum[:])+"\"" {
			return nil, errors.New("c31 s3: InvalidPart (etag)")
		}
		body = append(body, data...)
	}
	delete(f.uploads, id)
	f.objects[aws.ToString(in.Key)] = body
	f.puts = append(f.puts, aws.ToString(in.Key))
	return &s3.CompleteMultipartUploadOutput{}, nil
}
func (f *c31S3) AbortMultipartUpload(ctx context.Context, in *s3.AbortMultipartUploadInput, _ ...func(*s3.Options)) (*s3.AbortMultipartUploadOutput, error) {
	delete(f.uploads, aws.ToString(in.UploadId)+"|"+aws.ToString(in.Key))
	return &s3.AbortMultipartUploadOutput{}, nil
}
func (f *c31S3) GetObject(ctx context.Context, in *s3.GetObjectInput, _ ...func(*s3.Options)) (*s3.GetObjectOutput, error) {
	return nil, errors.New("c31 s3: unexpected GetObject")
}
func (f *c31S3) DeleteObject(ctx context.Context, in *s3.DeleteObjectInput, _ ...func(*s3.Options)) (*s3.DeleteObjectOutput, error) {
	delete(f.objects, aws.ToString(in.Key))
	return &s3.DeleteObjectOutput{}, nil
}
func (f *c31S3) HeadBucket(context.Context, *s3.HeadBucketInput, ...func(*s3.Options)) (*s3.HeadBucketOutput, error) {
	return &s3.HeadBucketOutput{}, nil
}
func (f *c31S3) CreateBucket(context.Context, *s3.CreateBucketInput, ...func(*s3.Options)) (*s3.CreateBucketOutput, error) {
	return &s3.CreateBucketOutput{}, nil
}

func c31Module(api s3API, defaultAlg string, chunk int64) *lfsModule {
	logger := slog.New(slog.NewTextHandler(io.Discard, nil))
	m := &lfsModule{
		logger:      logger,
		s3Uploader:  &s3Uploader{bucket: "c31-bucket", region: "us-east-1", chunkSize: chunk, api: api},
		s3Bucket:    "c31-bucket",
		s3Namespace: "ns31",
		maxBlob:     5 << 30,
		chunkSize:   chunk,
		checksumAlg: defaultAlg,
		proxyID:     "c31-proxy",
		metrics:     newLfsMetrics(),
		tracker:     &LfsOpsTracker{config: TrackerConfig{}, logger: logger},
	}
	atomic.StoreUint32(&m.s3Healthy, 1)
	return m
}

// ---- model of the request -------------------------------------------------------------------

type c31Batch struct {
	hdr     vfkit.Batch // header fields + Records (uncompressed form)
	codec   int
	raw     []byte // encoded bytes as sent
	flagged int
}

type c31Part struct {
	index   int32
	batches []c31Batch
	raw     []byte
}

type c31Topic struct {
	name  string
	parts []c31Part
}

var c31CodecNames = []string{"none", "gzip", "snappy", "lz4", "zstd"}

var c31Compressors = func() map[int]kgo.Compressor {
	out := map[int]kgo.Compressor{}
	for c, opt := range map[int]kgo.CompressionCodec{1: kgo.GzipCompression(), 2: kgo.SnappyCompression(), 3: kgo.Lz4Compression(), 4: kgo.ZstdCompression()} {
		comp, err := kgo.DefaultCompressor(opt)
		if err != nil {
			panic(err)
		}
		out[c] = comp
	}
	return out
}()

func c31Compress(codec int, raw []byte) ([]byte, error) {
	if codec == 0 {
		return raw, nil
	}
	out, used := c31Compressors[codec].Compress(bytes.NewBuffer(nil), raw)
	if int(used) != codec {
		return nil, fmt.Errorf("compressor used codec %d instead of %d", used, codec)
	}
	return append([]byte(nil), out...), nil
}

func c31Digest(alg string, b []byte) string {
	switch alg {
	case "md5":
		s := md5.Sum(b)
		return hex.EncodeToString(s[:])
	case "crc32":
		return fmt.Sprintf("%08x", crc32.ChecksumIEEE(b))
	case "none":
		return ""
	default:
		s := sha256.Sum256(b)
		return hex.EncodeToString(s[:])
	}
}

func c31IsFlagged(r vfkit.Record) bool {
	for _, h := range r.Headers {
		if h.Key == "LFS_BLOB" {
			return true
		}
	}
	return false
}

var c31OtherHeaderKeys = []string{"content-type", "Content-Type", "content-encoding", "correlation-id", "x-request-id", "traceparent", "TraceState",
	"app", "lfs_blob", "LFS_BLOB2", "LFS-BLOB", "", "k\x00ey", "ünï", "LFS_BLOB_ALG_X"}

type c31GenInfo struct {
	allowBad     bool // this request may carry a wrong checksum / unsupported algorithm / checksum with alg none
	expectReject bool // wrong checksum / unsupported algorithm / checksum with alg none: an error is the expected answer
}

func c31GenValue(t *rapid.T, big bool) []byte {
	switch rapid.IntRange(0, 6).Draw(t, "valueKind") {
	case 0:
		return nil
	case 1:
		return []byte{}
	case 2:
		return []byte(`{"kfs_lfs":1,"bucket":"b","key":"k","size":1,"sha256":"s"}`)
	case 3:
		if big {
			n := rapid.IntRange(1000, 4000).Draw(t, "bigLen")
			b := make([]byte, n)
			seed := rapid.Byte().Draw(t, "bigSeed")
			for i := range b {
				b[i] = seed + byte(i*7) + byte(i>>8)
			}
			return b
		}
		fallthrough
	default:
		n := rapid.IntRange(1, 48).Draw(t, "valueLen")
		return rapid.SliceOfN(rapid.Byte(), n, n).Draw(t, "value")
	}
}

func c31GenRecord(t *rapid.T, i int, defaultAlg string, flagBias int, big bool, info *c31GenInfo) vfkit.Record {
	r := vfkit.Record{OffsetDelta: int32(i)}
	r.TsDelta = rapid.OneOf(rapid.Int64Range(0, 5), rapid.Int64Range(-3, 100000), rapid.Int64Range(1<<31, 1<<40)).Draw(t, "tsDelta")
	switch rapid.IntRange(0, 3).Draw(t, "keyKind") {
	case 0:
		r.Key = nil
	case 1:
		r.Key = []byte{}
	default:
		n := rapid.IntRange(1, 12).Draw(t, "keyLen")
		r.Key = rapid.SliceOfN(rapid.Byte(), n, n).Draw(t, "key")
	}
	r.Value = c31GenValue(t, big)
	nh := rapid.IntRange(0, 4).Draw(t, "nOtherHeaders")
	for j := 0; j < nh; j++ {
		h := vfkit.RecHeader{Key: rapid.SampledFrom(c31OtherHeaderKeys).Draw(t, "hk")}
		switch rapid.IntRange(0, 3).Draw(t, "hvKind") {
		case 0:
			h.Value = nil
		case 1:
			h.Value = []byte{}
		case 2:
			h.Value = []byte("text/plain; charset=ütf-8 \xff")
		default:
			n := rapid.IntRange(1, 10).Draw(t, "hvLen")
			h.Value = rapid.SliceOfN(rapid.Byte(), n, n).Draw(t, "hv")
		}
		r.Headers = append(r.Headers, h)
	}
	if rapid.IntRange(0, 9).Draw(t, "flag") < flagBias {
		// algorithm header
		alg := defaultAlg
		algHdr := rapid.SampledFrom([]string{"", "", "", "sha256", "md5", "crc32", "none", "MD5", " sha256 ", "sha1"}).Draw(t, "algHeader")
		if algHdr == "sha1" && !info.allowBad {
			algHdr = "crc32"
		}
		var extra []vfkit.RecHeader
		if algHdr != "" {
			extra = append(extra, vfkit.RecHeader{Key: "LFS_BLOB_ALG", Value: []byte(algHdr)})
			alg = strings.ToLower(strings.TrimSpace(algHdr))
		}
		if alg == "sha1" {
			info.expectReject = true
		}
		correct := c31Digest(alg, r.Value)
		var flagVal []byte
		switch rapid.IntRange(0, 9).Draw(t, "flagValueKind") {
		case 0, 1, 2:
			flagVal = []byte{}
		case 3:
			flagVal = nil
		case 4:
			flagVal = []byte(strings.ToUpper(correct))
		case 5:
			flagVal = []byte("  " + correct + " ")
		case 6:
			if info.allowBad && rapid.IntRange(0, 1).Draw(t, "wrongChecksum") == 0 {
				flagVal = []byte("00" + correct)
				if alg != "sha1" {
					info.expectReject = true
				}
			} else {
				flagVal = []byte(correct)
			}
		default:
			flagVal = []byte(correct)
		}
		if alg == "none" && len(strings.TrimSpace(string(flagVal))) > 0 {
			if info.allowBad {
				info.expectReject = true
			} else {
				flagVal = []byte{}
			}
		}
		flag := vfkit.RecHeader{Key: "LFS_BLOB", Value: flagVal}
		// position of the flag among the other headers, possibly duplicated
		pos := rapid.IntRange(0, len(r.Headers)).Draw(t, "flagPos")
		hs := append([]vfkit.RecHeader{}, r.Headers[:pos]...)
		hs = append(hs, flag)
		hs = append(hs, r.Headers[pos:]...)
		if rapid.IntRange(0, 5).Draw(t, "dupFlag") == 0 {
			hs = append(hs, vfkit.RecHeader{Key: "LFS_BLOB", Value: flagVal})
		}
		if rapid.Bool().Draw(t, "algFirst") {
			hs = append(extra, hs...)
		} else {
			hs = append(hs, extra...)
		}
		r.Headers = hs
	}
	return r
}

func c31EncodeBatch(b *c31Batch) error {
	recs := vfkit.EncodeRecords(b.hdr.Records)
	payload, err := c31Compress(b.codec, recs)
	if err != nil {
		return err
	}
	enc := b.hdr // copy
	enc.RawRecords = payload
	if len(payload) == 0 {
		enc.RawRecords = []byte{}
	}
	enc.Attributes = (b.hdr.Attributes &^ 0x7) | int16(b.codec)
	b.hdr.Attributes = enc.Attributes
	b.raw = enc.Encode()
	return nil
}

// c31OpenBatch returns the records of an encoded batch (decompressing when needed) using
// the vfkit decoder.
func c31OpenBatch(decomp kgo.Decompressor, b vfkit.Batch) ([]vfkit.Record, error) {
	codec := int(b.Attributes & 0x7)
	if codec == 0 {
		return b.Records, nil
	}
	plain, err := decomp.Decompress(b.RawRecords, kgo.CompressionCodecType(codec))
	if err != nil {
		return nil, fmt.Errorf("decompress(%s): %w", c31CodecNames[codec], err)
	}
	tmp := b
	tmp.Attributes = b.Attributes &^ 0x7
	tmp.RawRecords = append([]byte{}, plain...)
	tmp.Records = nil
	dec, _, err := vfkit.DecodeBatch(tmp.Encode())
	if err != nil {
		return nil, fmt.Errorf("records of compressed batch: %w", err)
	}
	return dec.Records, nil
}

func c31BytesEq(a, b []byte) bool {
	return (a == nil) == (b == nil) && bytes.Equal(a, b)
}

func c31HeadersEq(a, b []vfkit.RecHeader) bool {
	if len(a) != len(b) {
		return false
	}
	for i := range a {
		if a[i].Key != b[i].Key || !c31BytesEq(a[i].Value, b[i].Value) {
			return false
		}
	}
	return true
}

func c31DescribeRecord(r vfkit.Record) string {
	var hs []string
	for _, h := range r.Headers {
		if h.Value == nil {
			hs = append(hs, fmt.Sprintf("%q=null", h.Key))
		} else {
			hs = append(hs, fmt.Sprintf("%q=%q", h.Key, h.Value))
		}
	}
	k, v := "null", "null"
	if r.Key != nil {
		k = fmt.Sprintf("%q", r.Key)
	}
	if r.Value != nil {
		v = fmt.Sprintf("%d bytes %.40q", len(r.Value), r.Value)
	}
	return fmt.Sprintf("{attr=%d ts=%d off=%d key=%s value=%s headers=[%s]}", r.Attr, r.TsDelta, r.OffsetDelta, k, v, strings.Join(hs, " "))
}

// c31Verify compares the rewritten request with the model. It returns a violation text.
func c31Verify(m *lfsModule, fs *c31S3, decomp kgo.Decompressor, topics []c31Topic, req *kmsg.ProduceRequest, preexisting map[string]bool) string {
	if len(req.Topics) != len(topics) {
		return fmt.Sprintf("topic count changed %d -> %d", len(topics), len(req.Topics))
	}
	usedKeys := map[string]bool{}
	for ti, tp := range topics {
		ot := req.Topics[ti]
		if ot.Topic != tp.name {
			return fmt.Sprintf("topic %d renamed %q -> %q", ti, tp.name, ot.Topic)
		}
		if len(ot.Partitions) != len(tp.parts) {
			return fmt.Sprintf("topic %q: partition count changed %d -> %d", tp.name, len(tp.parts), len(ot.Partitions))
		}
		for pi, pp := range tp.parts {
			op := ot.Partitions[pi]
			where := fmt.Sprintf("topic %q partition %d", tp.name, pp.index)
			if op.Partition != pp.index {
				return fmt.Sprintf("%s: partition index changed to %d", where, op.Partition)
			}
			anyFlag := false
			for _, b := range pp.batches {
				if b.flagged > 0 {
					anyFlag = true
				}
			}
			if !anyFlag {
				if !bytes.Equal(op.Records, pp.raw) {
					return fmt.Sprintf("%s has no flagged record but its bytes changed (%d -> %d bytes)", where, len(pp.raw), len(op.Records))
				}
				continue
			}
			outBatches, err := vfkit.DecodeBatches(op.Records)
			if err != nil {
				return fmt.Sprintf("%s: rewritten record set is not a valid sequence of batches (length/CRC/magic): %v", where, err)
			}
			if len(outBatches) != len(pp.batches) {
				return fmt.Sprintf("%s: batch count changed %d -> %d", where, len(pp.batches), len(outBatches))
			}
			for bi, ib := range pp.batches {
				ob := outBatches[bi]
				bw := fmt.Sprintf("%s batch %d (%s)", where, bi, c31CodecNames[ib.codec])
				if ib.flagged == 0 {
					if !bytes.Equal(ob.Raw, ib.raw) {
						return fmt.Sprintf("%s has no flagged record but its bytes changed", bw)
					}
					continue
				}
				h := ib.hdr
				if ob.BaseOffset != h.BaseOffset || ob.LeaderEpoch != h.LeaderEpoch || ob.Magic != h.Magic || ob.Attributes != h.Attributes ||
					ob.LastOffsetDelta != h.LastOffsetDelta || ob.FirstTimestamp != h.FirstTimestamp || ob.MaxTimestamp != h.MaxTimestamp ||
					ob.ProducerID != h.ProducerID || ob.ProducerEpoch != h.ProducerEpoch || ob.BaseSequence != h.BaseSequence || ob.NumRecords != h.NumRecords {
					return fmt.Sprintf("%s: batch header changed:\n in  base=%d epoch=%d magic=%d attr=%#x lastDelta=%d ts=%d/%d pid=%d/%d seq=%d n=%d\n out base=%d epoch=%d magic=%d attr=%#x lastDelta=%d ts=%d/%d pid=%d/%d seq=%d n=%d", bw,
						h.BaseOffset, h.LeaderEpoch, h.Magic, h.Attributes, h.LastOffsetDelta, h.FirstTimestamp, h.MaxTimestamp, h.ProducerID, h.ProducerEpoch, h.BaseSequence, h.NumRecords,
						ob.BaseOffset, ob.LeaderEpoch, ob.Magic, ob.Attributes, ob.LastOffsetDelta, ob.FirstTimestamp, ob.MaxTimestamp, ob.ProducerID, ob.ProducerEpoch, ob.BaseSequence, ob.NumRecords)
				}
				outRecs, err := c31OpenBatch(decomp, ob)
				if err != nil {
					return fmt.Sprintf("%s: cannot read rewritten records: %v", bw, err)
				}
				if len(outRecs) != len(h.Records) {
					return fmt.Sprintf("%s: record count changed %d -> %d", bw, len(h.Records), len(outRecs))
				}
				for ri, ir := range h.Records {
					or := outRecs[ri]
					rw := fmt.Sprintf("%s record %d", bw, ri)
					if or.Attr != ir.Attr || or.TsDelta != ir.TsDelta || or.OffsetDelta != ir.OffsetDelta || !c31BytesEq(or.Key, ir.Key) {
						return fmt.Sprintf("%s: attributes/timestamp/offset/key changed:\n in  %s\n out %s", rw, c31DescribeRecord(ir), c31DescribeRecord(or))
					}
					if !c31IsFlagged(ir) {
						if !c31BytesEq(or.Value, ir.Value) || !c31HeadersEq(or.Headers, ir.Headers) {
							return fmt.Sprintf("%s is not flagged but changed:\n in  %s\n out %s", rw, c31DescribeRecord(ir), c31DescribeRecord(or))
						}
						continue
					}
					var wantH []vfkit.RecHeader
					for _, hh := range ir.Headers {
						if hh.Key != "LFS_BLOB" {
							wantH = append(wantH, hh)
						}
					}
					if !c31HeadersEq(or.Headers, wantH) {
						return fmt.Sprintf("%s: headers are not the original minus LFS_BLOB:\n in  %s\n out %s", rw, c31DescribeRecord(ir), c31DescribeRecord(or))
					}
					if !lfs.IsLfsEnvelope(or.Value) {
						return fmt.Sprintf("%s: new value is not recognised as an envelope: %q", rw, or.Value)
					}
					env, err := lfs.DecodeEnvelope(or.Value)
					if err != nil {
						return fmt.Sprintf("%s: new value does not decode as an envelope: %v (%q)", rw, err, or.Value)
					}
					if env.Bucket != m.s3Bucket {
						return fmt.Sprintf("%s: envelope bucket %q, proxy bucket %q", rw, env.Bucket, m.s3Bucket)
					}
					if usedKeys[env.Key] || preexisting[env.Key] {
						return fmt.Sprintf("%s: envelope points at object %q which is not a new object of its own", rw, env.Key)
					}
					usedKeys[env.Key] = true
					obj, ok := fs.objects[env.Key]
					if !ok {
						return fmt.Sprintf("%s: envelope names object %q which was not uploaded", rw, env.Key)
					}
					if !bytes.Equal(obj, ir.Value) {
						return fmt.Sprintf("%s: uploaded object (%d bytes) differs from the original value (%d bytes)", rw, len(obj), len(ir.Value))
					}
					if env.Size != int64(len(ir.Value)) {
						return fmt.Sprintf("%s: envelope size %d, original value has %d bytes", rw, env.Size, len(ir.Value))
					}
					if env.SHA256 != c31Digest("sha256", ir.Value) {
						return fmt.Sprintf("%s: envelope sha256 %s, original value hashes to %s", rw, env.SHA256, c31Digest("sha256", ir.Value))
					}
					alg := strings.ToLower(strings.TrimSpace(env.ChecksumAlg))
					switch alg {
					case "", "sha256", "md5", "crc32":
						if alg == "" {
							alg = "sha256"
						}
						if env.Checksum != "" && !strings.EqualFold(env.Checksum, c31Digest(alg, ir.Value)) {
							return fmt.Sprintf("%s: envelope %s checksum %s does not match the original value (%s)", rw, alg, env.Checksum, c31Digest(alg, ir.Value))
						}
					case "none":
						if env.Checksum != "" {
							return fmt.Sprintf("%s: envelope has checksum_alg none but checksum %q", rw, env.Checksum)
						}
					default:
						return fmt.Sprintf("%s: envelope declares unsupported checksum_alg %q", rw, env.ChecksumAlg)
					}
				}
			}
		}
	}
	return ""
}

type c31Sample struct {
	Topics    int      `json:"topics"`
	Parts     int      `json:"partitions"`
	Batches   int      `json:"batches"`
	Records   int      `json:"records"`
	Flagged   int      `json:"flagged"`
	Codecs    []string `json:"codecs"`
	Rewritten bool     `json:"rewritten"`
	Err       string   `json:"error,omitempty"`
}

// c31GenRequest draws one produce request (model + kmsg form). Partition indexes are
// distinct within a topic, topic names are distinct.
func c31GenRequest(t *rapid.T, st *vfkit.Stats, defaultAlg string, info *c31GenInfo) ([]c31Topic, *kmsg.ProduceRequest, c31Sample, int) {
	flagBias := rapid.SampledFrom([]int{0, 2, 4, 4, 6, 9}).Draw(t, "flagBias")

	hugeBatch := rapid.IntRange(0, 19).Draw(t, "hugeBatch") == 0 // 1 request in 20 carries one batch of 4095..9000 tiny records
	hugeDone := false
	nt := rapid.SampledFrom([]int{1, 1, 2, 3}).Draw(t, "nTopics")
	topics := make([]c31Topic, nt)
	req := &kmsg.ProduceRequest{Acks: 1, TimeoutMillis: 5000}
	sample := c31Sample{Topics: nt}
	codecSet := map[string]bool{}
	mixedCompressed := 0
	for ti := range topics {
		topics[ti].name = rapid.SampledFrom([]string{"orders", "lfs.t", "a-b_c", "T2", "x"}).Draw(t, "topic") + fmt.Sprint(ti)
		np := rapid.SampledFrom([]int{1, 1, 2, 3}).Draw(t, "nParts")
		rt := kmsg.ProduceRequestTopic{Topic: topics[ti].name}
		for pi := 0; pi < np; pi++ {
			part := c31Part{index: int32(pi*8 + rapid.IntRange(0, 7).Draw(t, "partIndex"))} // distinct per topic
			nb := rapid.SampledFrom([]int{0, 1, 1, 1, 2, 2, 3}).Draw(t, "nBatches")
			for bi := 0; bi < nb; bi++ {
				var recs []vfkit.Record
				fl := 0
				nr := 0
				codecChoices := []int{0, 0, 0, 0, 2, 2, 2, 2, 3, 3, 3, 3, 1, 4}
				if hugeBatch && !hugeDone {
					// size class "huge batch": thousands of tiny records (producers batch up to
					// batch.size bytes, so > 4096 small records per batch is ordinary), 1-3 flagged
					hugeDone = true
					nr = rapid.SampledFrom([]int{4095, 4096, 4097, 4097, 6000, 9000}).Draw(t, "hugeRecords")
					recs = make([]vfkit.Record, nr)
					for ri := range recs {
						recs[ri] = vfkit.Record{OffsetDelta: int32(ri), TsDelta: int64(ri), Value: []byte{byte(ri), byte(ri >> 8)}}
						if ri%1000 == 7 {
							recs[ri].Key = []byte{byte(ri >> 4)}
							recs[ri].Headers = []vfkit.RecHeader{{Key: "app", Value: []byte("x")}}
						}
					}
					nflag := rapid.IntRange(1, 3).Draw(t, "hugeFlagged")
					for k := 0; k < nflag; k++ {
						idx := rapid.SampledFrom([]int{0, 1, 4094, 4095, nr - 1, nr - 2, nr / 2}).Draw(t, "hugeFlagIndex")
						if idx >= nr {
							idx = nr - 1
						}
						if !c31IsFlagged(recs[idx]) {
							recs[idx].Headers = append(recs[idx].Headers, vfkit.RecHeader{Key: "LFS_BLOB", Value: []byte{}})
							fl++
						}
					}
					codecChoices = []int{0, 0, 2, 3}
					st.Class(fmt.Sprintf("huge-batch:%d-records", nr))
				} else {
					nr = rapid.OneOf(rapid.IntRange(1, 4), rapid.IntRange(1, 20)).Draw(t, "nRecords")
					recs = make([]vfkit.Record, nr)
					big := rapid.IntRange(0, 7).Draw(t, "bigValues") == 0
					for ri := range recs {
						recs[ri] = c31GenRecord(t, ri, defaultAlg, flagBias, big, info)
						if c31IsFlagged(recs[ri]) {
							fl++
						}
					}
				}
				// gzip/zstd are rarer: the code under test builds a fresh encoder per rewritten batch (tens of ms)
				b := c31Batch{codec: rapid.SampledFrom(codecChoices).Draw(t, "codec"), flagged: fl}
				first := rapid.SampledFrom([]int64{0, 1, 1700000000000, -1}).Draw(t, "firstTs")
				nbh := vfkit.NewBatch(rapid.SampledFrom([]int64{0, 0, 5, 1 << 33}).Draw(t, "baseOffset"), first, recs)
				// NewBatch renumbers offset deltas 0..n-1 and derives lastOffsetDelta/numRecords
				nbh.LeaderEpoch = rapid.SampledFrom([]int32{-1, 0, 7}).Draw(t, "leaderEpoch")
				nbh.MaxTimestamp = rapid.SampledFrom([]int64{nbh.MaxTimestamp, first, first + 12345}).Draw(t, "maxTs")
				if rapid.IntRange(0, 3).Draw(t, "idempotent") == 0 {
					nbh.ProducerID = int64(rapid.IntRange(0, 1<<40).Draw(t, "pid"))
					nbh.ProducerEpoch = int16(rapid.IntRange(0, 100).Draw(t, "pepoch"))
					nbh.BaseSequence = int32(rapid.IntRange(0, 1<<30).Draw(t, "seq"))
				}
				nbh.Attributes = int16(rapid.SampledFrom([]int{0, 0, 0x08, 0x10, 0x18}).Draw(t, "attrBits"))
				b.hdr = *nbh
				if err := c31EncodeBatch(&b); err != nil {
					t.Fatalf("harness: cannot encode input batch: %v", err)
				}
				part.batches = append(part.batches, b)
				part.raw = append(part.raw, b.raw...)
				sample.Batches++
				sample.Records += nr
				sample.Flagged += fl
				codecSet[c31CodecNames[b.codec]] = true
				if b.codec != 0 && fl > 0 && fl < nr {
					mixedCompressed++
				}
			}
			topics[ti].parts = append(topics[ti].parts, part)
			rt.Partitions = append(rt.Partitions, kmsg.ProduceRequestTopicPartition{Partition: part.index, Records: append([]byte(nil), part.raw...)})
			sample.Parts++
		}
		req.Topics = append(req.Topics, rt)
	}
	for c := range codecSet {
		sample.Codecs = append(sample.Codecs, c)
		st.Class("codec:" + c)
	}
	sort.Strings(sample.Codecs)

	// sanity of the harness itself: the input must be well-formed for the independent decoder
	for _, tp := range topics {
		for _, pp := range tp.parts {
			if _, err := vfkit.DecodeBatches(pp.raw); err != nil {
				t.Fatalf("harness: generated input does not decode: %v", err)
			}
		}
	}
	return topics, req, sample, mixedCompressed
}

func TestVF_C31_Rewrite(t *testing.T) {
	st := vfkit.NewStats("C31", "rewrite")
	defer st.Flush()
	decomp := kgo.DefaultDecompressor()
	rapid.Check(t, func(t *rapid.T) {
		st.Eval()
		defaultAlg := rapid.SampledFrom([]string{"sha256", "sha256", "sha256", "md5", "crc32", "none"}).Draw(t, "defaultAlg")
		chunk := rapid.SampledFrom([]int64{5 << 20, 5 << 20, 1024}).Draw(t, "chunkSize")
		fs := newC31S3()
		fs.objects["ns31/pre/lfs/2020/01/01/obj-preexisting"] = []byte("pre-existing")
		pre := map[string]bool{"ns31/pre/lfs/2020/01/01/obj-preexisting": true}
		m := c31Module(fs, defaultAlg, chunk)
		info := &c31GenInfo{allowBad: rapid.IntRange(0, 7).Draw(t, "allowBadFlags") == 0}
		topics, req, sample, mixedCompressed := c31GenRequest(t, st, defaultAlg, info)

		header := &protocol.RequestHeader{APIKey: protocol.APIKeyProduce, APIVersion: 9, CorrelationID: 7}
		res, err := m.rewriteProduceRecords(context.Background(), header, req)
		switch {
		case err != nil && info.expectReject:
			st.Class("rejected(bad checksum/algorithm as generated)")
			return
		case err != nil:
			// An error answer is "rejected cleanly"; it is counted so that a check that only
			// ever sees rejections is visible in the evidence.
			st.Class("rejected(clean input)")
			sample.Err = err.Error()
			st.Sample(sample)
			return
		}
		if info.expectReject {
			st.Class("bad checksum/algorithm accepted (still verified)")
		}
		sample.Rewritten = res.modified
		if sample.Flagged == 0 {
			st.Class("no-flagged-record")
			if res.modified {
				t.Fatalf("request without any LFS_BLOB record reported as modified")
			}
		} else {
			st.Class("has-flagged-records")
			if !res.modified {
				t.Fatalf("request with %d flagged records reported as not modified", sample.Flagged)
			}
		}
		if v := c31Verify(m, fs, decomp, topics, req, pre); v != "" {
			t.Fatalf("%s", v)
		}
		if sample.Flagged > 0 && len(fs.puts) != sample.Flagged {
			st.Class("uploads!=flagged-records")
		}
		if chunk == 1024 {
			st.Class("small-chunk(multipart path)")
		}
		if mixedCompressed > 0 {
			st.Class("mixed flagged/unflagged in a compressed batch")
			st.NonTrivial(sample.Topics, sample.Parts, sample.Batches, sample.Records, sample.Flagged, sample.Codecs, len(req.Topics[0].Partitions[0].Records), defaultAlg)
			st.Sample(sample)
		}
	})
}
