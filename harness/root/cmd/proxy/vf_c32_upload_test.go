//go:build verif

package main

// C32: an LFS HTTP upload (POST /lfs/produce, or a multipart session init/parts/complete)
// that is answered with success means: the object named by the returned envelope exists,
// its size and SHA-256 match the envelope, and the broker acknowledged the envelope record
// with error code 0. Anything else must be an error status.
//
// S3 is a fake with faithful multipart semantics (an object is the concatenation of the
// parts LISTED in the completion request, ascending part numbers required, etags must
// match, every listed part but the last >= 5 MiB) and a fault plan; the broker is a fake
// Kafka endpoint on a loopback socket whose reply is scripted per case.

import (
	"bytes"
	"context"
	"crypto/md5"
	"crypto/sha256"
	"encoding/base64"
	"encoding/binary"
	"encoding/hex"
	"encoding/json"
	"errors"
	"fmt"
	"hash/crc32"
	"io"
	"log/slog"
	"net"
	"net/http"
	"net/http/httptest"
	"reflect"
	"strings"
	"sync"
	"sync/atomic"
	"testing"
	"time"

	"github.com/KafScale/platform/pkg/lfs"
	"github.com/aws/aws-sdk-go-v2/aws"
	"github.com/aws/aws-sdk-go-v2/service/s3"
	"github.com/twmb/franz-go/pkg/kmsg"
	"pgregory.net/rapid"
	"verif.local/vfkit"
)

const (
	c32KnownBroker = "C32-broker-reply-ignored"
	c32KnownSubset = "C32-complete-subset-of-parts"
	c32KnownRetry  = "C32-part-retry-corrupts-hash"
	c32MiB5        = 5 << 20
)

// ---- S3 fake ---------------------------------------------------------------------------------

type c32Part struct {
	data []byte
	etag string
}

type c32MPU struct {
	key   string
	parts map[int32]c32Part
}

type c32S3 struct {
	mu      sync.Mutex
	objects map[string][]byte
	mpus    map[string]*c32MPU
	seq     int
	// fault plan: operation name -> "before" (no effect, error) | "after" (effect, error)
	fault      map[string]string
	faultTimes map[string]int
	ops        []string
	// completion gate: CompleteMultipartUpload announces itself on atGate and waits for release
	gateComplete bool
	atGate       chan struct{}
	release      chan struct{}
	// part gate: the next UploadPart announces itself on partAtGate and waits for partRelease
	gatePart    bool
	partAtGate  chan struct{}
	partRelease chan struct{}
}

func newC32S3() *c32S3 {
	return &c32S3{objects: map[string][]byte{}, mpus: map[string]*c32MPU{}, fault: map[string]string{}, faultTimes: map[string]int{}}
}

var errC32Injected = errors.New("c32: injected S3 failure")

// begin logs the call and returns the fault to apply. Faults are transient: a planned fault
// fires faultTimes[op] times (default once) and then disappears.
func (f *c32S3) begin(op string) string {
	f.ops = append(f.ops, op)
	fl := f.fault[op]
	if fl != "" {
		if n := f.faultTimes[op]; n > 1 {
			f.faultTimes[op] = n - 1
		} else {
			delete(f.fault, op)
			delete(f.faultTimes, op)
		}
	}
	return fl
}

// readBody consumes the request body; for a "mid" fault only the first half is read (the
// connection broke mid-transfer) and the call fails without any effect.
func c32ReadBody(fl string, body io.Reader) ([]byte, error) {
	if fl == "mid" {
		probe := make([]byte, 1<<20)
		total := 0
		// read roughly half of what is there: first learn the size if the reader knows it
		if l, ok := body.(interface{ Len() int }); ok {
			half := l.Len() / 2
			for total < half {
				want := half - total
				if want > len(probe) {
					want = len(probe)
				}
				n, err := body.Read(probe[:want])
				total += n
				if err != nil {
					break
				}
			}
		} else {
			n, _ := body.Read(probe[:1])
			total += n
		}
		return nil, fmt.Errorf("%w: connection reset after %d body bytes", errC32Injected, total)
	}
	return io.ReadAll(body)
}

func (f *c32S3) PutObject(ctx context.Context, in *s3.PutObjectInput, _ ...func(*s3.Options)) (*s3.PutObjectOutput, error) {
	f.mu.Lock()
	defer f.mu.Unlock()
	fl := f.begin("PutObject")
	if fl == "before" {
		return nil, errC32Injected
	}
	data, err := c32ReadBody(fl, in.Body)
	if err != nil {
		return nil, err
	}
	if in.ContentLength != nil && *in.ContentLength != int64(len(data)) {
		return nil, fmt.Errorf("c32 s3: IncompleteBody: ContentLength %d, body %d", *in.ContentLength, len(data))
	}
	f.objects[aws.ToString(in.Key)] = data
	if fl == "after" {
		return nil, errC32Injected
	}
	return &s3.PutObjectOutput{}, nil
}

func (f *c32S3) CreateMultipartUpload(ctx context.Context, in *s3.CreateMultipartUploadInput, _ ...func(*s3.Options)) (*s3.CreateMultipartUploadOutput, error) {
	f.mu.Lock()
	defer f.mu.Unlock()
	fl := f.begin("CreateMultipartUpload")
	if fl == "before" {
		return nil, errC32Injected
	}
	f.seq++
	id := fmt.Sprintf("mpu-%d", f.seq)
	f.mpus[id] = &c32MPU{key: aws.ToString(in.Key), parts: map[int32]c32Part{}}
	if fl == "after" {
		return nil, errC32Injected
	}
	return &s3.CreateMultipartUploadOutput{UploadId: aws.String(id)}, nil
}

func (f *c32S3) UploadPart(ctx context.Context, in *s3.UploadPartInput, _ ...func(*s3.Options)) (*s3.UploadPartOutput, error) {
	f.mu.Lock()
	gate := f.gatePart
	f.gatePart = false
	f.mu.Unlock()
	if gate {
		close(f.partAtGate)
		<-f.partRelease
	}
	f.mu.Lock()
	defer f.mu.Unlock()
	fl := f.begin("UploadPart")
	if fl == "before" {
		return nil, errC32Injected
	}
	u := f.mpus[aws.ToString(in.UploadId)]
	if u == nil || u.key != aws.ToString(in.Key) {
		return nil, errors.New("c32 s3: NoSuchUpload")
	}
	data, err := c32ReadBody(fl, in.Body)
	if err != nil {
		return nil, err
	}
	n := aws.ToInt32(in.PartNumber)
	if n < 1 || n > 10000 {
		return nil, errors.New("c32 s3: InvalidArgument part number")
	}
	head := data
	if len(head) > 256 {
		head = head[:256]
	}
	etag := fmt.Sprintf("\"%s-%d-%d-%08x\"", aws.ToString(in.UploadId), n, len(data), crc32.ChecksumIEEE(head))
	u.parts[n] = c32Part{data: data, etag: etag}
	if fl == "after" {
		return nil, errC32Injected
	}
	return &s3.UploadPartOutput{ETag: aws.String(etag)}, nil
}

func (f *c32S3) CompleteMultipartUpload(ctx context.Context, in *s3.CompleteMultipartUploadInput, _ ...func(*s3.Options)) (*s3.CompleteMultipartUploadOutput, error) {
	f.mu.Lock()
	gate := f.gateComplete
	f.gateComplete = false
	f.mu.Unlock()
	if gate {
		close(f.atGate)
		<-f.release
	}
	f.mu.Lock()
	defer f.mu.Unlock()
	fl := f.begin("CompleteMultipartUpload")
	if fl == "before" {
		return nil, errC32Injected
	}
	id := aws.ToString(in.UploadId)
	u := f.mpus[id]
	if u == nil || u.key != aws.ToString(in.Key) {
		return nil, errors.New("c32 s3: NoSuchUpload")
	}
	if in.MultipartUpload == nil || len(in.MultipartUpload.Parts) == 0 {
		return nil, errors.New("c32 s3: MalformedXML: no parts")
	}
	last := int32(0)
	var body []byte
	listed := in.MultipartUpload.Parts
	for i, p := range listed {
		n := aws.ToInt32(p.PartNumber)
		if n <= last {
			return nil, errors.New("c32 s3: InvalidPartOrder")
		}
		last = n
		part, ok := u.parts[n]
		if !ok || part.etag != aws.ToString(p.ETag) {
			return nil, errors.New("c32 s3: InvalidPart")
		}
		if i < len(listed)-1 && len(part.data) < c32MiB5 {
			return nil, errors.New("c32 s3: EntityTooSmall")
		}
		body = append(body, part.data...)
	}
	delete(f.mpus, id)
	f.objects[u.key] = body
	if fl == "after" {
		return nil, errC32Injected
	}
	return &s3.CompleteMultipartUploadOutput{}, nil
}

func (f *c32S3) AbortMultipartUpload(ctx context.Context, in *s3.AbortMultipartUploadInput, _ ...func(*s3.Options)) (*s3.AbortMultipartUploadOutput, error) {
	f.mu.Lock()
	defer f.mu.Unlock()
	f.begin("AbortMultipartUpload")
	delete(f.mpus, aws.ToString(in.UploadId))
	return &s3.AbortMultipartUploadOutput{}, nil
}

func (f *c32S3) GetObject(ctx context.Context, in *s3.GetObjectInput, _ ...func(*s3.Options)) (*s3.GetObjectOutput, error) {
	return nil, errors.New("c32 s3: unexpected GetObject")
}

func (f *c32S3) DeleteObject(ctx context.Context, in *s3.DeleteObjectInput, _ ...func(*s3.Options)) (*s3.DeleteObjectOutput, error) {
	f.mu.Lock()
	defer f.mu.Unlock()
	fl := f.begin("DeleteObject")
	if fl == "before" {
		return nil, errC32Injected
	}
	delete(f.objects, aws.ToString(in.Key))
	if fl == "after" {
		return nil, errC32Injected
	}
	return &s3.DeleteObjectOutput{}, nil
}
func (f *c32S3) HeadBucket(context.Context, *s3.HeadBucketInput, ...func(*s3.Options)) (*s3.HeadBucketOutput, error) {
	return &s3.HeadBucketOutput{}, nil
}
func (f *c32S3) CreateBucket(context.Context, *s3.CreateBucketInput, ...func(*s3.Options)) (*s3.CreateBucketOutput, error) {
	return &s3.CreateBucketOutput{}, nil
}

// ---- broker fake -----------------------------------------------------------------------------

type c32BrokerPlan struct {
	Kind string `json:"kind"` // ack | error-code | close | garbage | empty-response | other-partition
	Code int16  `json:"code"`
}

type c32Received struct {
	topic     string
	partition int32
	records   []byte
	parseErr  string
	replied   string // what the broker sent back: "ack", "code:<n>", "closed", "garbage", ...
}

type c32Broker struct {
	ln   net.Listener
	mu   sync.Mutex
	plan c32BrokerPlan
	got  []c32Received
	wg   sync.WaitGroup
}

func newC32Broker() (*c32Broker, error) {
	ln, err := net.Listen("tcp", "127.0.0.1:0")
	if err != nil {
		return nil, err
	}
	b := &c32Broker{ln: ln}
	b.wg.Add(1)
	go func() {
		defer b.wg.Done()
		for {
			conn, err := ln.Accept()
			if err != nil {
				return
			}
			b.wg.Add(1)
			go func() {
				defer b.wg.Done()
				defer conn.Close()
				b.serve(conn)
			}()
		}
	}()
	return b, nil
}

func (b *c32Broker) stop() { _ = b.ln.Close(); b.wg.Wait() }

func (b *c32Broker) set(plan c32BrokerPlan) {
	b.mu.Lock()
	b.plan = plan
	b.got = nil
	b.mu.Unlock()
}

func (b *c32Broker) received() []c32Received {
	b.mu.Lock()
	defer b.mu.Unlock()
	return append([]c32Received(nil), b.got...)
}

func (b *c32Broker) serve(conn net.Conn) {
	_ = conn.SetDeadline(time.Now().Add(30 * time.Second))
	for {
		var lb [4]byte
		if _, err := io.ReadFull(conn, lb[:]); err != nil {
			return
		}
		n := int(binary.BigEndian.Uint32(lb[:]))
		if n < 0 || n > 64<<20 {
			return
		}
		payload := make([]byte, n)
		if _, err := io.ReadFull(conn, payload); err != nil {
			return
		}
		rec, corr := c32ParseProduce(payload)
		b.mu.Lock()
		plan := b.plan
		b.mu.Unlock()
		var reply []byte
		switch plan.Kind {
		case "ack":
			reply = c32ProduceResponse(corr, rec.topic, rec.partition, 0, true)
			rec.replied = "ack"
		case "error-code":
			reply = c32ProduceResponse(corr, rec.topic, rec.partition, plan.Code, true)
			rec.replied = fmt.Sprintf("code:%d", plan.Code)
		case "empty-response":
			reply = c32ProduceResponse(corr, rec.topic, rec.partition, 0, false)
			rec.replied = "empty-response"
		case "other-partition":
			reply = c32ProduceResponse(corr, rec.topic, rec.partition+1, 0, true)
			rec.replied = "other-partition"
		case "garbage":
			reply = []byte{0xde, 0xad, 0xbe, 0xef, 0x01, 0x02, 0x03}
			rec.replied = "garbage"
		default: // close
			rec.replied = "closed"
		}
		b.mu.Lock()
		b.got = append(b.got, rec)
		b.mu.Unlock()
		if reply == nil {
			return
		}
		var out [4]byte
		binary.BigEndian.PutUint32(out[:], uint32(len(reply)))
		if _, err := conn.Write(append(out[:], reply...)); err != nil {
			return
		}
	}
}

// c32ParseProduce reads a flexible (v9) produce request: header (key, version, correlation
// id, nullable client id, tagged fields) + body decoded by kmsg.
func c32ParseProduce(p []byte) (c32Received, int32) {
	var r c32Received
	if len(p) < 10 {
		r.parseErr = "short request"
		return r, 0
	}
	key := int16(binary.BigEndian.Uint16(p[0:]))
	ver := int16(binary.BigEndian.Uint16(p[2:]))
	corr := int32(binary.BigEndian.Uint32(p[4:]))
	cl := int16(binary.BigEndian.Uint16(p[8:]))
	off := 10
	if cl > 0 {
		off += int(cl)
	}
	if key != 0 || ver != 9 || off >= len(p) {
		r.parseErr = fmt.Sprintf("unexpected request key=%d version=%d", key, ver)
		return r, corr
	}
	if p[off] != 0 {
		r.parseErr = "unexpected header tagged fields"
		return r, corr
	}
	off++
	req := kmsg.NewPtrProduceRequest()
	req.Version = ver
	if err := req.ReadFrom(p[off:]); err != nil {
		r.parseErr = "produce body: " + err.Error()
		return r, corr
	}
	if len(req.Topics) != 1 || len(req.Topics[0].Partitions) != 1 {
		r.parseErr = fmt.Sprintf("expected one topic/partition, got %d topics", len(req.Topics))
		return r, corr
	}
	r.topic = req.Topics[0].Topic
	r.partition = req.Topics[0].Partitions[0].Partition
	r.records = req.Topics[0].Partitions[0].Records
	return r, corr
}

func c32ProduceResponse(corr int32, topic string, partition int32, code int16, withPartition bool) []byte {
	resp := kmsg.NewPtrProduceResponse()
	resp.Version = 9
	if withPartition {
		t := kmsg.NewProduceResponseTopic()
		t.Topic = topic
		p := kmsg.NewProduceResponseTopicPartition()
		p.Partition = partition
		p.ErrorCode = code
		p.BaseOffset = 42
		if code != 0 {
			p.BaseOffset = -1
		}
		t.Partitions = append(t.Partitions, p)
		resp.Topics = append(resp.Topics, t)
	}
	out := make([]byte, 4, 64)
	binary.BigEndian.PutUint32(out, uint32(corr))
	out = append(out, 0) // response header v1: empty tagged fields
	return resp.AppendTo(out)
}

// ---- module ------------------------------------------------------------------------------------

// c32Module builds the module the way initLFSModule does for KAFSCALE_LFS_PROXY_CHUNK_SIZE =
// chunk (0 = unset): the uploader gets the normalised chunk size (>= 5 MiB).
func c32Module(api s3API, broker string, defaultAlg string, chunk int64) *lfsModule {
	upChunk := chunk
	if upChunk < c32MiB5 {
		upChunk = c32MiB5
	}
	if chunk == 0 {
		chunk = c32MiB5
	}
	logger := slog.New(slog.NewTextHandler(io.Discard, nil))
	m := &lfsModule{
		logger:           logger,
		s3Uploader:       &s3Uploader{bucket: "c32-bucket", region: "us-east-1", chunkSize: upChunk, api: api},
		s3Bucket:         "c32-bucket",
		s3Namespace:      "ns32",
		maxBlob:          64 << 20,
		chunkSize:        chunk,
		checksumAlg:      defaultAlg,
		proxyID:          "c32-proxy",
		metrics:          newLfsMetrics(),
		tracker:          &LfsOpsTracker{config: TrackerConfig{}, logger: logger},
		topicMaxLength:   249,
		downloadTTLMax:   2 * time.Minute,
		uploadSessionTTL: time.Hour,
		uploadSessions:   make(map[string]*uploadSession),
		dialTimeout:      20 * time.Second,
		backendRetries:   1,
		backendBackoff:   time.Millisecond,
		backends:         []string{broker},
	}
	atomic.StoreUint32(&m.s3Healthy, 1)
	return m
}

// ---- payload pieces (big parts share one pattern buffer; a 16-byte stamp makes them distinct)

var c32Pattern = func() []byte {
	b := make([]byte, 9<<20) // large enough for bodies just above an 8 MiB chunk size
	x := uint32(2463534242)
	for i := 0; i+4 <= len(b); i += 4 {
		x ^= x << 13
		x ^= x >> 17
		x ^= x << 5
		binary.LittleEndian.PutUint32(b[i:], x)
	}
	return b
}()

type c32Piece struct {
	stamp [16]byte
	size  int
}

func (p c32Piece) reader() io.Reader {
	if p.size <= 16 {
		return bytes.NewReader(p.stamp[:p.size])
	}
	return io.MultiReader(bytes.NewReader(p.stamp[:]), bytes.NewReader(c32Pattern[16:p.size]))
}

func (p c32Piece) writeTo(w io.Writer) {
	_, _ = io.Copy(w, p.reader())
}

func c32PiecesEqual(obj []byte, pieces []c32Piece) bool {
	off := 0
	for _, p := range pieces {
		if off+p.size > len(obj) {
			return false
		}
		seg := obj[off : off+p.size]
		if p.size <= 16 {
			if !bytes.Equal(seg, p.stamp[:p.size]) {
				return false
			}
		} else if !bytes.Equal(seg[:16], p.stamp[:]) || !bytes.Equal(seg[16:], c32Pattern[16:p.size]) {
			return false
		}
		off += p.size
	}
	return off == len(obj)
}

func c32Checksum(alg string, pieces []c32Piece) string {
	switch alg {
	case "md5":
		h := md5.New()
		for _, p := range pieces {
			p.writeTo(h)
		}
		return hex.EncodeToString(h.Sum(nil))
	case "crc32":
		h := crc32.NewIEEE()
		for _, p := range pieces {
			p.writeTo(h)
		}
		return hex.EncodeToString(h.Sum(nil))
	default:
		h := sha256.New()
		for _, p := range pieces {
			p.writeTo(h)
		}
		return hex.EncodeToString(h.Sum(nil))
	}
}

func c32ShaBytes(b []byte) string { s := sha256.Sum256(b); return hex.EncodeToString(s[:]) }

// c32VerifySuccess checks everything a success answer promises.
func c32VerifySuccess(fs *c32S3, br *c32Broker, respBody []byte, wantTopic string, wantPartition int32, wantKey []byte, uploaded []c32Piece) string {
	var env lfs.Envelope
	if err := json.Unmarshal(respBody, &env); err != nil {
		return fmt.Sprintf("success answer does not carry an envelope: %v (%q)", err, respBody)
	}
	if env.Bucket != "c32-bucket" || env.Key == "" {
		return fmt.Sprintf("success envelope names bucket %q key %q", env.Bucket, env.Key)
	}
	fs.mu.Lock()
	obj, ok := fs.objects[env.Key]
	fs.mu.Unlock()
	if !ok {
		return fmt.Sprintf("success answered but object %q does not exist in the bucket (s3 ops: %v)", env.Key, fs.ops)
	}
	if int64(len(obj)) != env.Size {
		return fmt.Sprintf("success answered: envelope size %d but stored object %q has %d bytes", env.Size, env.Key, len(obj))
	}
	if got := c32ShaBytes(obj); got != strings.ToLower(env.SHA256) {
		return fmt.Sprintf("success answered: envelope sha256 %s but stored object hashes to %s", env.SHA256, got)
	}
	if uploaded != nil && !c32PiecesEqual(obj, uploaded) {
		return fmt.Sprintf("success answered but the stored object (%d bytes) is not the uploaded content", len(obj))
	}
	got := br.received()
	if len(got) == 0 {
		return "success answered but the broker never received a produce request"
	}
	acked := false
	for _, r := range got {
		if r.parseErr != "" {
			continue
		}
		if r.topic != wantTopic || r.partition != wantPartition {
			continue
		}
		b, _, err := vfkit.DecodeBatch(r.records)
		if err != nil || len(b.Records) != 1 {
			continue
		}
		e2, err := lfs.DecodeEnvelope(b.Records[0].Value)
		if err != nil || !reflect.DeepEqual(e2, env) {
			continue
		}
		if !bytes.Equal(b.Records[0].Key, wantKey) {
			return fmt.Sprintf("envelope record was produced with key %q, the upload asked for %q", b.Records[0].Key, wantKey)
		}
		if r.replied == "ack" {
			acked = true
		}
	}
	if !acked {
		var rs []string
		for _, r := range got {
			rs = append(rs, fmt.Sprintf("{topic=%s partition=%d parseErr=%q broker-replied=%s}", r.topic, r.partition, r.parseErr, r.replied))
		}
		return fmt.Sprintf("success answered but the broker did not acknowledge the envelope record with code 0: %s", strings.Join(rs, " "))
	}
	return ""
}

var c32BrokerPlans = []c32BrokerPlan{{Kind: "ack"}, {Kind: "ack"}, {Kind: "ack"}, {Kind: "ack"}, {Kind: "ack"}, {Kind: "ack"}, {Kind: "ack"}, {Kind: "ack"}, {Kind: "ack"},
	{Kind: "close"}, {Kind: "close"},
	{Kind: "error-code", Code: 6}, {Kind: "error-code", Code: 29}, {Kind: "error-code", Code: -1}, {Kind: "error-code", Code: 3}, {Kind: "error-code", Code: 10},
	{Kind: "garbage"}, {Kind: "empty-response"}, {Kind: "other-partition"}}

func c32PlanIsIgnoredReply(p c32BrokerPlan) bool {
	return p.Kind == "error-code" || p.Kind == "garbage" || p.Kind == "empty-response" || p.Kind == "other-partition"
}

func c32Stamp(t *rapid.T, label string) [16]byte {
	var s [16]byte
	copy(s[:], rapid.SliceOfN(rapid.Byte(), 16, 16).Draw(t, label))
	return s
}

// ---- single-request uploads ----------------------------------------------------------------------

type c32SingleSample struct {
	Chunk    int64         `json:"chunk_size_config"`
	Size     int           `json:"size"`
	Alg      string        `json:"alg_header"`
	Checksum string        `json:"checksum_header"`
	Fault    string        `json:"s3_fault"`
	Broker   c32BrokerPlan `json:"broker"`
	Status   int           `json:"status"`
}

func c32RunSingle(st *vfkit.Stats, br *c32Broker, chunk int64, size int, stamp [16]byte, algHdr, ckKind, faultOp, faultKind string, plan c32BrokerPlan, topic string, keyB64 string, partHdr string) (string, c32SingleSample) {
	fs := newC32S3()
	if faultOp != "" {
		fs.fault[faultOp] = faultKind
	}
	m := c32Module(fs, br.ln.Addr().String(), "sha256", chunk)
	br.set(plan)
	piece := c32Piece{stamp: stamp, size: size}
	req := httptest.NewRequest(http.MethodPost, "/lfs/produce", piece.reader())
	req.ContentLength = int64(size)
	req.Header.Set("X-Kafka-Topic", topic)
	req.Header.Set("Content-Type", "application/octet-stream")
	if keyB64 != "" {
		req.Header.Set("X-Kafka-Key", keyB64)
	}
	if partHdr != "" {
		req.Header.Set("X-Kafka-Partition", partHdr)
	}
	if algHdr != "" {
		req.Header.Set("X-LFS-Checksum-Alg", algHdr)
	}
	effAlg := strings.ToLower(strings.TrimSpace(algHdr))
	if effAlg == "" {
		effAlg = "sha256"
	}
	switch ckKind {
	case "correct":
		req.Header.Set("X-LFS-Checksum", c32Checksum(effAlg, []c32Piece{piece}))
	case "upper":
		req.Header.Set("X-LFS-Checksum", strings.ToUpper(c32Checksum(effAlg, []c32Piece{piece})))
	case "wrong":
		req.Header.Set("X-LFS-Checksum", "ab"+c32Checksum(effAlg, []c32Piece{piece}))
	}
	rr := httptest.NewRecorder()
	m.handleHTTPProduce(rr, req)
	sample := c32SingleSample{Chunk: chunk, Size: size, Alg: algHdr, Checksum: ckKind, Fault: faultOp + ":" + faultKind, Broker: plan, Status: rr.Code}
	st.Class(fmt.Sprintf("single-status:%d", rr.Code))
	if rr.Code < 200 || rr.Code >= 300 {
		return "", sample
	}
	var wantKey []byte
	if keyB64 != "" {
		wantKey, _ = base64.StdEncoding.DecodeString(keyB64)
	}
	wantPart := int32(0)
	if partHdr != "" {
		var p int
		fmt.Sscanf(strings.TrimSpace(partHdr), "%d", &p)
		wantPart = int32(p)
	}
	if v := c32VerifySuccess(fs, br, rr.Body.Bytes(), topic, wantPart, wantKey, []c32Piece{piece}); v != "" {
		return fmt.Sprintf("POST /lfs/produce answered %d: %s\ncase %+v", rr.Code, v, sample), sample
	}
	if ckKind == "wrong" && effAlg != "none" {
		st.Class("single-wrong-checksum-accepted(not asserted)")
	}
	return "", sample
}

// chunk-size configurations (KAFSCALE_LFS_PROXY_CHUNK_SIZE): unset, the 5 MiB minimum, 8 MiB
var c32ChunkConfigs = []int64{0, c32MiB5, 8 << 20}

func c32BoundarySizes(chunk int64) []int {
	out := []int{c32MiB5 - 1, c32MiB5, c32MiB5 + 1}
	if chunk > c32MiB5 {
		out = append(out, int(chunk)-1, int(chunk), int(chunk)+1, (c32MiB5+int(chunk))/2)
	}
	return out
}

// TestVF_C32_SingleEnum: every chunk-size configuration x every body size just below / at /
// above the 5 MiB multipart threshold and the configured chunk size, well-behaved client
// and broker (plus one checksum algorithm other than sha256).
func TestVF_C32_SingleEnum(t *testing.T) {
	st := vfkit.NewStats("C32", "single-enum")
	defer st.Flush()
	br, err := newC32Broker()
	if err != nil {
		fmt.Println("VF-INCONCLUSIVE: cannot open a loopback listener for the broker fake:", err)
		t.Fatalf("listen: %v", err)
	}
	defer br.stop()
	var stamp [16]byte
	copy(stamp[:], "single-enum-body")
	for _, chunk := range c32ChunkConfigs {
		for i, size := range c32BoundarySizes(chunk) {
			st.Eval()
			alg, ck := "", "absent"
			if i%3 == 1 {
				alg, ck = "md5", "correct"
			}
			viol, sample := c32RunSingle(st, br, chunk, size, stamp, alg, ck, "", "", c32BrokerPlan{Kind: "ack"}, "uploads", "a2V5", "3")
			if viol != "" {
				t.Fatalf("%s", viol)
			}
			if sample.Status != http.StatusOK {
				st.Class("single-enum-not-accepted")
			}
			st.NonTrivial("single-enum", chunk, size)
			st.Sample(sample)
		}
	}
	st.Note("enumerated", "chunk size config {unset, 5 MiB, 8 MiB} x body sizes {5 MiB-1, 5 MiB, 5 MiB+1, chunk-1, chunk, chunk+1, midway}")
}

func TestVF_C32_Single(t *testing.T) {
	st := vfkit.NewStats("C32", "single")
	defer st.Flush()
	br, err := newC32Broker()
	if err != nil {
		fmt.Println("VF-INCONCLUSIVE: cannot open a loopback listener for the broker fake:", err)
		t.Fatalf("listen: %v", err)
	}
	defer br.stop()
	rapid.Check(t, func(t *rapid.T) {
		st.Eval()
		size := rapid.OneOf(rapid.IntRange(0, 4), rapid.IntRange(1, 300), rapid.IntRange(1, 300), rapid.IntRange(60000, 70000)).Draw(t, "size")
		chunk := rapid.SampledFrom(c32ChunkConfigs).Draw(t, "chunkSizeConfig")
		if rapid.IntRange(0, 39).Draw(t, "bigBody") == 0 {
			// rationed 5-9 MiB bodies around the multipart threshold and the configured chunk size
			size = rapid.SampledFrom(c32BoundarySizes(chunk)).Draw(t, "bigSize")
			st.Class("single-big-body")
		}
		st.Class(fmt.Sprintf("chunk-config:%d", chunk))
		stamp := c32Stamp(t, "stamp")
		algHdr := rapid.SampledFrom([]string{"", "", "", "", "sha256", "sha256", "md5", "md5", "crc32", "crc32", "none", "MD5", "bogus"}).Draw(t, "alg")
		ckKind := rapid.SampledFrom([]string{"absent", "absent", "absent", "correct", "correct", "correct", "upper", "wrong"}).Draw(t, "checksum")
		faultOp, faultKind := "", ""
		if rapid.IntRange(0, 4).Draw(t, "withFault") == 0 {
			faultOp = rapid.SampledFrom([]string{"PutObject", "PutObject", "CreateMultipartUpload", "UploadPart", "CompleteMultipartUpload", "DeleteObject"}).Draw(t, "faultOp")
			faultKind = rapid.SampledFrom([]string{"before", "after", "mid"}).Draw(t, "faultKind")
		}
		plan := rapid.SampledFrom(c32BrokerPlans).Draw(t, "broker")
		topic := rapid.SampledFrom([]string{"uploads", "uploads", "uploads", "uploads", "a.b-c_d", "a.b-c_d", "T", "bad topic", ""}).Draw(t, "topic")
		keyB64 := rapid.SampledFrom([]string{"", "", "", "a2V5", "a2V5", "AAECAw==", "AAECAw==", "%%%"}).Draw(t, "key")
		partHdr := rapid.SampledFrom([]string{"", "", "", "0", "0", "3", "3", "x"}).Draw(t, "partition")
		st.Class("broker:" + plan.Kind)
		if faultOp != "" {
			st.Class("s3-fault:" + faultOp + ":" + faultKind)
		}
		if vfkit.Known(c32KnownBroker) && c32PlanIsIgnoredReply(plan) {
			st.ExcludedCase(c32KnownBroker)
			return
		}
		viol, sample := c32RunSingle(st, br, chunk, size, stamp, algHdr, ckKind, faultOp, faultKind, plan, topic, keyB64, partHdr)
		if viol != "" {
			t.Fatalf("%s", viol)
		}
		if plan.Kind != "ack" || faultOp != "" {
			st.NonTrivial("single", chunk, size, algHdr, ckKind, faultOp, faultKind, plan.Kind, plan.Code, topic, keyB64, partHdr)
			st.Sample(sample)
		}
	})
}

// ---- multipart sessions ----------------------------------------------------------------------------

type c32ListEntry struct {
	Part int32  `json:"part_number"`
	ETag string `json:"etag"`
}

type c32SessionSample struct {
	ClientRetries bool          `json:"client_retries_failed_requests"`
	Parts         []int         `json:"part_sizes"`
	Declared      int64         `json:"declared_size"`
	Alg           string        `json:"alg"`
	Checksum      string        `json:"checksum"`
	ListKind      string        `json:"completion_list"`
	Fault         string        `json:"s3_fault"`
	Broker        c32BrokerPlan `json:"broker"`
	Statuses      []int         `json:"statuses"`
	RetryKind     string        `json:"second_completion"`
	ResentPart    bool          `json:"resent_part"`
}

func c32JSONReq(method, path string, v any) *http.Request {
	b, _ := json.Marshal(v)
	return httptest.NewRequest(method, path, bytes.NewReader(b))
}

type c32SessionPlan struct {
	sizes     []int
	stamps    [][16]byte
	declDelta int64
	alg       string
	ckKind    string
	listKind  string
	retryKind string
	faultOp   string
	faultKind string
	broker    c32BrokerPlan
	resend    bool
	// overlapPart: PUT of part overlapPart (1-based) is repeated by the client (same bytes)
	// while the first PUT is still in flight to S3 (client-side timeout + retry); 0 = never
	overlapPart int
	// declaredFactor: size_bytes = declaredFactor x the bytes actually sent (0/1 = exact)
	declaredFactor int
	faultTimes     int // how many consecutive calls the injected fault hits (0/1 = once)
	// abortDuringComplete: DELETE /lfs/uploads/<id> arrives while the first completion is
	// inside S3 CompleteMultipartUpload (a watchdog / second tab cancelling a slow upload)
	abortDuringComplete bool
	// clientRetries: the client repeats an init / completion request once after a 5xx answer
	// (the injected S3 fault is transient: it hits one call), with retryBroker for the repeat
	clientRetries bool
	retryBroker   *c32BrokerPlan
	noRetry       bool // do not retry a part whose S3 upload failed (set only when that history is a listed finding)
	outOfOrder    bool
	partition     *int32
	keyB64        string
}

func c32BuildList(kind string, etags map[int32]string, n int) []c32ListEntry {
	full := make([]c32ListEntry, 0, n)
	for i := 1; i <= n; i++ {
		full = append(full, c32ListEntry{Part: int32(i), ETag: etags[int32(i)]})
	}
	if n == 0 {
		return []c32ListEntry{}
	}
	switch kind {
	case "full":
		return full
	case "subset-drop-first":
		return full[1:]
	case "subset-drop-last":
		return full[:len(full)-1]
	case "reordered":
		out := append([]c32ListEntry{}, full...)
		for i, j := 0, len(out)-1; i < j; i, j = i+1, j-1 {
			out[i], out[j] = out[j], out[i]
		}
		return out
	case "duplicated":
		return append(append([]c32ListEntry{}, full...), full[len(full)-1])
	case "wrong-etag":
		out := append([]c32ListEntry{}, full...)
		out[0].ETag = "\"bogus\""
		return out
	case "unknown-part":
		return append(append([]c32ListEntry{}, full...), c32ListEntry{Part: int32(n + 1), ETag: "\"x\""})
	case "empty":
		return []c32ListEntry{}
	}
	return full
}

func c32IsSubsetKind(kind string, n int) bool {
	return n >= 2 && (kind == "subset-drop-first" || kind == "subset-drop-last")
}

func c32RunSession(st *vfkit.Stats, br *c32Broker, p c32SessionPlan) (string, c32SessionSample) {
	fs := newC32S3()
	m := c32Module(fs, br.ln.Addr().String(), "sha256", 0)
	sample := c32SessionSample{ClientRetries: p.clientRetries, Parts: p.sizes, Alg: p.alg, Checksum: p.ckKind, ListKind: p.listKind, Fault: p.faultOp + ":" + p.faultKind,
		Broker: p.broker, RetryKind: p.retryKind, ResentPart: p.resend}
	pieces := make([]c32Piece, len(p.sizes))
	total := int64(0)
	for i := range p.sizes {
		pieces[i] = c32Piece{stamp: p.stamps[i], size: p.sizes[i]}
		total += int64(p.sizes[i])
	}
	declared := total + p.declDelta
	if p.declaredFactor > 1 {
		declared = total * int64(p.declaredFactor)
	}
	sample.Declared = declared
	effAlg := strings.ToLower(strings.TrimSpace(p.alg))
	if effAlg == "" {
		effAlg = "sha256"
	}
	initReq := map[string]any{"topic": "sessions", "content_type": "video/mp4", "size_bytes": declared}
	if p.alg != "" {
		initReq["checksum_alg"] = p.alg
	}
	switch p.ckKind {
	case "correct":
		initReq["checksum"] = c32Checksum(effAlg, pieces)
	case "wrong":
		initReq["checksum"] = "cd" + c32Checksum(effAlg, pieces)
	}
	if p.keyB64 != "" {
		initReq["key"] = p.keyB64
	}
	if p.partition != nil {
		initReq["partition"] = *p.partition
	}
	if p.faultOp == "CreateMultipartUpload" {
		fs.fault[p.faultOp] = p.faultKind
	}
	rr := httptest.NewRecorder()
	m.handleHTTPUploadInit(rr, c32JSONReq(http.MethodPost, "/lfs/uploads", initReq))
	sample.Statuses = append(sample.Statuses, rr.Code)
	if rr.Code >= 500 && p.clientRetries {
		delete(fs.fault, "CreateMultipartUpload")
		rr = httptest.NewRecorder()
		m.handleHTTPUploadInit(rr, c32JSONReq(http.MethodPost, "/lfs/uploads", initReq))
		sample.Statuses = append(sample.Statuses, rr.Code)
		st.Class("session-init-retried")
	}
	if rr.Code != http.StatusOK {
		st.Class(fmt.Sprintf("session-init-status:%d", rr.Code))
		return "", sample
	}
	var initResp lfsUploadInitResponse
	if err := json.Unmarshal(rr.Body.Bytes(), &initResp); err != nil || initResp.UploadID == "" {
		return fmt.Sprintf("init answered 200 without an upload id: %q", rr.Body.Bytes()), sample
	}
	base := "/lfs/uploads/" + initResp.UploadID
	etags := map[int32]string{}
	partFaultArmed := false
	if p.faultOp == "UploadPart" {
		fs.fault[p.faultOp] = p.faultKind
		fs.faultTimes[p.faultOp] = p.faultTimes
		partFaultArmed = true
	}
	var putMu sync.Mutex
	putPart := func(n int, piece c32Piece) int {
		req := httptest.NewRequest(http.MethodPut, fmt.Sprintf("%s/parts/%d", base, n), piece.reader())
		req.ContentLength = int64(piece.size)
		rr := httptest.NewRecorder()
		m.handleHTTPUploadSession(rr, req)
		putMu.Lock()
		defer putMu.Unlock()
		sample.Statuses = append(sample.Statuses, rr.Code)
		if rr.Code == http.StatusOK {
			var pr lfsUploadPartResponse
			if err := json.Unmarshal(rr.Body.Bytes(), &pr); err == nil && pr.ETag != "" {
				if _, seen := etags[int32(n)]; !seen {
					etags[int32(n)] = pr.ETag
				}
			}
		}
		return rr.Code
	}
	accepted := []c32Piece{}
	if p.outOfOrder && len(pieces) >= 2 {
		putPart(2, pieces[1]) // must be refused (409); the session continues
	}
	for i, piece := range pieces {
		var code int
		if p.overlapPart == i+1 {
			// first PUT parks inside S3 UploadPart; the client's retry of the same part arrives
			// meanwhile; then S3 answers. Statuses of both are recorded; the first one counts.
			fs.mu.Lock()
			fs.gatePart, fs.partAtGate, fs.partRelease = true, make(chan struct{}), make(chan struct{})
			atGate, release := fs.partAtGate, fs.partRelease
			fs.mu.Unlock()
			first := make(chan int, 1)
			go func() { first <- putPart(i+1, piece) }()
			select {
			case <-atGate:
				second := make(chan int, 1)
				started := make(chan struct{})
				go func() { close(started); second <- putPart(i+1, piece) }()
				<-started
				time.Sleep(20 * time.Millisecond) // scheduling aid only; no verdict depends on it
				close(release)
				code = <-first
				c2 := <-second
				st.Class(fmt.Sprintf("overlapping-put-same-part:%d/%d", code, c2))
				if code != http.StatusOK && c2 == http.StatusOK {
					code = c2
				}
			case code = <-first:
				fs.mu.Lock()
				fs.gatePart = false
				fs.mu.Unlock()
				st.Class("overlapping-put-same-part:first-never-reached-S3")
			}
		} else {
			code = putPart(i+1, piece)
		}
		if code == http.StatusBadGateway && partFaultArmed {
			partFaultArmed = false
			// a part upload that failed at S3 (injected) is retried once by the client, unless
			// exactly that history is a listed finding
			if p.noRetry {
				st.ExcludedCase(c32KnownRetry)
				break
			}
			delete(fs.fault, "UploadPart")
			code = putPart(i+1, piece)
			if code == http.StatusOK {
				st.Class("session-part-retried-after-s3-failure")
			}
		}
		if code == http.StatusOK {
			accepted = append(accepted, piece)
		} else {
			break
		}
		if p.resend && i == 0 {
			// resend part 1 with DIFFERENT bytes: the proxy answers with the stored etag
			other := piece
			other.stamp[0] ^= 0xff
			putPart(1, other)
		}
	}
	if len(accepted) != len(pieces) {
		st.Class("session-parts-incomplete")
	}
	if p.faultOp == "CompleteMultipartUpload" || p.faultOp == "AbortMultipartUpload" {
		fs.fault[p.faultOp] = p.faultKind
	}
	var wantKey []byte
	if p.keyB64 != "" {
		wantKey, _ = base64.StdEncoding.DecodeString(p.keyB64)
	}
	wantPart := int32(0)
	if p.partition != nil {
		wantPart = *p.partition
	}
	lastStatus := 0
	raceAbort := p.abortDuringComplete
	complete := func(kind string, plan c32BrokerPlan) string {
		br.set(plan)
		list := c32BuildList(kind, etags, len(etags))
		rr := httptest.NewRecorder()
		if raceAbort {
			raceAbort = false
			fs.mu.Lock()
			fs.gateComplete, fs.atGate, fs.release = true, make(chan struct{}), make(chan struct{})
			atGate, release := fs.atGate, fs.release
			fs.mu.Unlock()
			done := make(chan struct{})
			go func() {
				defer close(done)
				m.handleHTTPUploadSession(rr, c32JSONReq(http.MethodPost, base+"/complete", map[string]any{"parts": list}))
			}()
			select {
			case <-atGate:
				// the completion holds the session and sits inside S3; the abort arrives now
				started := make(chan struct{})
				abortDone := make(chan int, 1)
				go func() {
					close(started)
					ar := httptest.NewRecorder()
					m.handleHTTPUploadSession(ar, httptest.NewRequest(http.MethodDelete, base, nil))
					abortDone <- ar.Code
				}()
				<-started
				time.Sleep(20 * time.Millisecond) // scheduling aid only: lets the abort reach the session lock; no verdict depends on it
				close(release)
				<-done
				st.Class(fmt.Sprintf("abort-during-complete:abort-status:%d", <-abortDone))
			case <-done:
				fs.mu.Lock()
				fs.gateComplete = false
				fs.mu.Unlock()
				st.Class("abort-during-complete:completion-never-reached-S3")
			}
		} else {
			m.handleHTTPUploadSession(rr, c32JSONReq(http.MethodPost, base+"/complete", map[string]any{"parts": list}))
		}
		sample.Statuses = append(sample.Statuses, rr.Code)
		lastStatus = rr.Code
		st.Class(fmt.Sprintf("session-complete-status:%d", rr.Code))
		if rr.Code < 200 || rr.Code >= 300 {
			return ""
		}
		st.Class("session-complete-success/list:" + kind)
		// what the envelope must describe is checked against the bucket; content equality is
		// checked against the parts the proxy accepted (all of them, in order)
		if v := c32VerifySuccess(fs, br, rr.Body.Bytes(), "sessions", wantPart, wantKey, accepted); v != "" {
			return fmt.Sprintf("POST %s/complete (list %s) answered %d: %s\ncase %+v", "/lfs/uploads/<id>", kind, rr.Code, v, sample)
		}
		return ""
	}
	if v := complete(p.listKind, p.broker); v != "" {
		return v, sample
	}
	if p.clientRetries && lastStatus >= 500 {
		// the same completion request again after a 5xx answer
		delete(fs.fault, "CompleteMultipartUpload")
		plan := p.broker
		if p.retryBroker != nil {
			plan = *p.retryBroker
		}
		st.Class("session-complete-retried-after-5xx")
		if v := complete(p.listKind, plan); v != "" {
			return v + "\n(this was the client's retry of the completion after a 5xx answer)", sample
		}
	}
	if p.retryKind != "" {
		delete(fs.fault, "CompleteMultipartUpload")
		if v := complete(p.retryKind, p.broker); v != "" {
			return v, sample
		}
	}
	return "", sample
}

func TestVF_C32_Session(t *testing.T) {
	st := vfkit.NewStats("C32", "session")
	defer st.Flush()
	br, err := newC32Broker()
	if err != nil {
		fmt.Println("VF-INCONCLUSIVE: cannot open a loopback listener for the broker fake:", err)
		t.Fatalf("listen: %v", err)
	}
	defer br.stop()
	rapid.Check(t, func(t *rapid.T) {
		st.Eval()
		var p c32SessionPlan
		nparts := rapid.SampledFrom([]int{1, 1, 2, 2, 2, 3}).Draw(t, "nparts")
		for i := 0; i < nparts; i++ {
			if i < nparts-1 {
				p.sizes = append(p.sizes, c32MiB5)
			} else {
				p.sizes = append(p.sizes, rapid.OneOf(rapid.IntRange(1, 40), rapid.IntRange(1000, 70000)).Draw(t, "lastPartSize"))
			}
			p.stamps = append(p.stamps, c32Stamp(t, "stamp"))
		}
		p.declDelta = rapid.SampledFrom([]int64{0, 0, 0, 0, 0, 0, 0, 0, 0, 1, -1, 4096}).Draw(t, "declaredDelta")
		p.alg = rapid.SampledFrom([]string{"", "", "", "sha256", "sha256", "md5", "md5", "crc32", "crc32", "none", "bogus"}).Draw(t, "alg")
		p.ckKind = rapid.SampledFrom([]string{"absent", "absent", "absent", "correct", "correct", "correct", "wrong"}).Draw(t, "checksum")
		p.listKind = rapid.SampledFrom([]string{"full", "full", "full", "full", "full", "full", "full", "subset-drop-first", "subset-drop-last", "reordered", "duplicated", "wrong-etag", "unknown-part", "empty"}).Draw(t, "list")
		p.retryKind = rapid.SampledFrom([]string{"", "", "full", "subset-drop-last"}).Draw(t, "retry")
		if rapid.IntRange(0, 4).Draw(t, "withFault") == 0 {
			p.faultOp = rapid.SampledFrom([]string{"CreateMultipartUpload", "UploadPart", "CompleteMultipartUpload", "CompleteMultipartUpload", "AbortMultipartUpload"}).Draw(t, "faultOp")
			p.faultKind = rapid.SampledFrom([]string{"before", "after"}).Draw(t, "faultKind")
		}
		p.broker = rapid.SampledFrom(c32BrokerPlans).Draw(t, "broker")
		p.clientRetries = rapid.IntRange(0, 2).Draw(t, "clientRetries") > 0
		if rapid.Bool().Draw(t, "retryBrokerAck") {
			p.retryBroker = &c32BrokerPlan{Kind: "ack"}
		}
		if rapid.IntRange(0, 3).Draw(t, "wellFormedWithFault") == 0 {
			// class "transient S3 failure, otherwise well-behaved client": one fault on
			// create / part / complete, every failed request is retried once
			p.declDelta, p.alg, p.listKind, p.retryKind = 0, rapid.SampledFrom([]string{"", "md5", "crc32"}).Draw(t, "wfAlg"), "full", ""
			if p.ckKind == "wrong" {
				p.ckKind = "correct"
			}
			p.faultOp = rapid.SampledFrom([]string{"CreateMultipartUpload", "UploadPart", "CompleteMultipartUpload", "CompleteMultipartUpload"}).Draw(t, "wfFaultOp")
			p.faultKind = rapid.SampledFrom([]string{"before", "after"}).Draw(t, "wfFaultKind")
			p.clientRetries = true
			p.broker = c32BrokerPlan{Kind: "ack"}
			st.Class("class:transient-s3-failure-with-retries")
		}
		if p.faultOp != "" {
			// the fault hits one call (transient) or three in a row; a part/object upload may also
			// break in the middle of the body
			p.faultTimes = rapid.SampledFrom([]int{1, 1, 1, 3}).Draw(t, "faultTimes")
			if p.faultOp == "UploadPart" && rapid.IntRange(0, 2).Draw(t, "midBody") == 0 {
				p.faultKind = "mid"
			}
			st.Class("s3-fault-kind:" + p.faultKind)
		}
		if rapid.IntRange(0, 5).Draw(t, "overlap") == 0 {
			p.overlapPart = rapid.IntRange(1, nparts).Draw(t, "overlapPart")
			st.Class("overlapping-put-same-part")
		}
		// declared sizes that are multiples of what is sent (k x part size): a session that
		// double-counts a part would reach such a total
		switch rapid.IntRange(0, 7).Draw(t, "declaredFactor") {
		case 0:
			p.declaredFactor = 2
		case 1:
			p.declaredFactor = 3
		}
		if p.overlapPart > 0 && rapid.Bool().Draw(t, "overlapDoubleShape") {
			// the shape in which double counting would be invisible to the size check: one
			// 5 MiB part, declared size 10 MiB
			p.sizes, p.stamps, p.overlapPart, p.declaredFactor = []int{c32MiB5}, p.stamps[:1], 1, 2
			p.listKind, p.retryKind, p.declDelta, p.faultOp = "full", "", 0, ""
		}
		if p.declaredFactor > 1 {
			st.Class(fmt.Sprintf("declared=%dx-sent", p.declaredFactor))
		}
		p.abortDuringComplete = rapid.IntRange(0, 5).Draw(t, "abortDuringComplete") == 0
		if p.abortDuringComplete {
			st.Class("abort-during-complete")
		}
		p.resend = rapid.IntRange(0, 3).Draw(t, "resend") == 0
		p.outOfOrder = rapid.IntRange(0, 5).Draw(t, "outOfOrder") == 0
		if rapid.Bool().Draw(t, "withPartition") {
			v := int32(rapid.IntRange(0, 5).Draw(t, "partition"))
			p.partition = &v
		}
		p.keyB64 = rapid.SampledFrom([]string{"", "a2V5", "AAECAw=="}).Draw(t, "key")
		st.Class("broker:" + p.broker.Kind)
		st.Class("list:" + p.listKind)
		st.Class(fmt.Sprintf("parts:%d", nparts))
		if p.faultOp != "" {
			st.Class("s3-fault:" + p.faultOp + ":" + p.faultKind)
		}
		if vfkit.Known(c32KnownBroker) && c32PlanIsIgnoredReply(p.broker) {
			st.ExcludedCase(c32KnownBroker)
			return
		}
		p.noRetry = vfkit.Known(c32KnownRetry)
		if vfkit.Known(c32KnownSubset) && (c32IsSubsetKind(p.listKind, nparts) || c32IsSubsetKind(p.retryKind, nparts)) {
			st.ExcludedCase(c32KnownSubset)
			return
		}
		viol, sample := c32RunSession(st, br, p)
		if viol != "" {
			t.Fatalf("%s", viol)
		}
		if p.broker.Kind != "ack" || p.listKind != "full" || p.faultOp != "" || p.abortDuringComplete || p.overlapPart > 0 {
			st.NonTrivial("session", p.sizes, p.declDelta, p.alg, p.ckKind, p.listKind, p.retryKind, p.faultOp, p.faultKind, p.broker.Kind, p.broker.Code, p.resend, p.outOfOrder, p.clientRetries, p.retryBroker != nil, p.faultTimes, p.abortDuringComplete, p.overlapPart, p.declaredFactor)
			st.Sample(sample)
		}
	})
}

// TestVF_C32_RetryEnum: a well-behaved client whose every failed request is retried once,
// enumerated over the S3 fault point x fault kind x number of parts x broker behaviour on
// the first completion.
func TestVF_C32_RetryEnum(t *testing.T) {
	st := vfkit.NewStats("C32", "retry-enum")
	defer st.Flush()
	br, err := newC32Broker()
	if err != nil {
		fmt.Println("VF-INCONCLUSIVE: cannot open a loopback listener for the broker fake:", err)
		t.Fatalf("listen: %v", err)
	}
	defer br.stop()
	var stampA, stampB [16]byte
	copy(stampA[:], "retry-enum-part1")
	copy(stampB[:], "retry-enum-part2")
	ack := c32BrokerPlan{Kind: "ack"}
	for _, op := range []string{"", "CreateMultipartUpload", "UploadPart", "CompleteMultipartUpload", "AbortMultipartUpload"} {
		for _, kind := range []string{"before", "after", "mid"} {
			if (op == "" && kind != "before") || (kind == "mid" && op != "UploadPart") {
				continue
			}
			for _, sizes := range [][]int{{300}, {c32MiB5, 77}} {
				for _, first := range []c32BrokerPlan{ack, {Kind: "close"}} {
					for _, alg := range []string{"", "crc32"} {
						st.Eval()
						p := c32SessionPlan{sizes: sizes, stamps: [][16]byte{stampA, stampB}[:len(sizes)], alg: alg, ckKind: "correct", listKind: "full",
							faultOp: op, faultKind: kind, broker: first, clientRetries: true, retryBroker: &ack, noRetry: vfkit.Known(c32KnownRetry), keyB64: "a2V5"}
						viol, sample := c32RunSession(st, br, p)
						if viol != "" {
							t.Fatalf("%s", viol)
						}
						st.NonTrivial("retry-enum", op, kind, sizes, first.Kind, alg)
						st.Sample(sample)
					}
				}
			}
		}
	}
	// a client retry of PUT part N arriving while the first PUT of N is in flight to S3,
	// for declared sizes 1x / 2x / 3x what is sent
	for _, sizes := range [][]int{{c32MiB5}, {300}, {c32MiB5, 77}, {c32MiB5, c32MiB5}} {
		for part := 1; part <= len(sizes); part++ {
			for _, factor := range []int{1, 2, 3} {
				st.Eval()
				p := c32SessionPlan{sizes: sizes, stamps: [][16]byte{stampA, stampB}[:len(sizes)], ckKind: "absent", listKind: "full",
					broker: ack, overlapPart: part, declaredFactor: factor, keyB64: "a2V5"}
				viol, sample := c32RunSession(st, br, p)
				if viol != "" {
					t.Fatalf("%s\n(PUT of part %d was repeated while the first PUT was in flight to S3; declared size = %d x sent)", viol, part, factor)
				}
				st.NonTrivial("overlap", sizes, part, factor)
				st.Sample(sample)
			}
		}
	}
	// a DELETE of the session arriving while its completion is inside S3
	for _, sizes := range [][]int{{300}, {c32MiB5, 77}} {
		for _, alg := range []string{"", "md5"} {
			st.Eval()
			p := c32SessionPlan{sizes: sizes, stamps: [][16]byte{stampA, stampB}[:len(sizes)], alg: alg, ckKind: "correct", listKind: "full",
				broker: ack, abortDuringComplete: true, keyB64: "a2V5"}
			viol, sample := c32RunSession(st, br, p)
			if viol != "" {
				t.Fatalf("%s\n(a DELETE of the session arrived while the completion was inside S3 CompleteMultipartUpload)", viol)
			}
			st.NonTrivial("abort-race", sizes, alg)
			st.Sample(sample)
		}
	}
	st.Note("enumerated", "S3 fault point {none, create, part, complete, abort} x {before, after effect, mid-body (part)} x parts {1, 2} x first broker behaviour {ack, close} x alg {sha256, crc32}; every failed init/part/complete request is retried once")
}

// TestVF_C32_Witness replays minimal witnesses of the listed findings.
func TestVF_C32_Witness(t *testing.T) {
	st := vfkit.NewStats("C32", "witness")
	defer st.Flush()
	br, err := newC32Broker()
	if err != nil {
		fmt.Println("VF-INCONCLUSIVE: cannot open a loopback listener for the broker fake:", err)
		t.Fatalf("listen: %v", err)
	}
	defer br.stop()
	var stampA, stampB [16]byte
	copy(stampA[:], "witness-part-one")
	copy(stampB[:], "witness-part-two")

	// 1. single upload, broker answers NOT_LEADER_OR_FOLLOWER (6)
	st.Eval()
	v1, s1 := c32RunSingle(st, br, 0, 100, stampA, "", "absent", "", "", c32BrokerPlan{Kind: "error-code", Code: 6}, "uploads", "", "")
	st.NonTrivial("witness-broker")
	st.Sample(map[string]any{"witness": "single upload, broker replies error code 6", "status": s1.Status, "violation": v1})
	st.KnownResult(c32KnownBroker, v1 != "", fmt.Sprintf("POST /lfs/produce with broker reply code 6 -> HTTP %d", s1.Status))

	// 2. session of two parts completed with only part 2 listed
	st.Eval()
	v2, s2 := c32RunSession(st, br, c32SessionPlan{sizes: []int{c32MiB5, 10}, stamps: [][16]byte{stampA, stampB}, listKind: "subset-drop-first", broker: c32BrokerPlan{Kind: "ack"}})
	st.NonTrivial("witness-subset")
	st.Sample(map[string]any{"witness": "two parts uploaded, completion lists only part 2", "statuses": s2.Statuses, "violation": v2})
	// 3. one small part whose first S3 upload fails, client retries it, full completion list
	st.Eval()
	v3, s3r := c32RunSession(st, br, c32SessionPlan{sizes: []int{10}, stamps: [][16]byte{stampA}, listKind: "full", faultOp: "UploadPart", faultKind: "before", broker: c32BrokerPlan{Kind: "ack"}})
	st.NonTrivial("witness-retry")
	st.Sample(map[string]any{"witness": "part 1 fails at S3 (502), client retries it, completes with the full list", "statuses": s3r.Statuses, "violation": v3})
	st.KnownResult(c32KnownRetry, v3 != "", fmt.Sprintf("part PUT 502 then retry 200 then complete -> statuses %v", s3r.Statuses))

	st.KnownResult(c32KnownSubset, v2 != "", fmt.Sprintf("complete with parts=[2] of [1,2] -> statuses %v", s2.Statuses))
}
