//go:build verif

package main

import (
	"context"
	"fmt"
	"io"
	"log/slog"
	"net"
	"sort"
	"strings"
	"sync"
	"sync/atomic"
	"testing"
	"time"

	"github.com/KafScale/platform/pkg/metadata"
	"github.com/KafScale/platform/pkg/protocol"
	"github.com/twmb/franz-go/pkg/kmsg"
	"pgregory.net/rapid"
	"verif.local/vfkit"
)

// C28: a metadata / coordinator / not-ready reply of the proxy names only the proxy as
// broker, leader and coordinator, and keeps topics, partitions, topic ids, error codes and
// leader epochs of the cluster metadata.
//
// The request bytes are produced with kmsg's request formatter and sent over a net.Pipe
// to the real proxy.handleConnection; the reply is decoded with kmsg (trusted codec).
// Reference for the topology: metadata.Store.Metadata (the same component the proxy
// reads; trusted base) for "all" / by-name requests, and a filter of the full store view
// by topic id (written here) for by-id requests.

const (
	c28Host = "proxy.vf.example"
	c28Port = int32(19092)
)

var c28NamePool = []string{"orders", "payments", "a", "a.b", "events-1", "logs_x", "t", "z9"}

type c28Snapshot struct {
	Brokers    int
	Controller int32
	Topics     []c28Topic
}

type c28Topic struct {
	Name      string
	ExplicitI bool // topic id stored explicitly (operator) instead of derived by the store
	IDGen     int  // >0: the topic was re-created and its stored id is the one of generation IDGen
	TopicErr  int16
	Internal  bool
	Parts     []c28Part
}

type c28Part struct {
	ID     int32
	Err    int16
	Leader int32
	Epoch  int32
	Repl   []int32
}

func c28DrawSnapshot(t *rapid.T) c28Snapshot {
	nb := rapid.IntRange(1, 4).Draw(t, "brokers")
	s := c28Snapshot{Brokers: nb, Controller: int32(rapid.IntRange(0, nb-1).Draw(t, "controller"))}
	nt := rapid.IntRange(0, 5).Draw(t, "ntopics")
	names := rapid.Permutation(c28NamePool).Draw(t, "names")[:nt]
	for _, n := range names {
		tp := c28Topic{Name: n, ExplicitI: rapid.Bool().Draw(t, "explicitID")}
		// a stored topic never carries a topic-level error in snapshots written by the
		// operator or by CreateTopic; generated rarely and only observed (not asserted).
		if rapid.IntRange(0, 59).Draw(t, "topicErrDie") == 41 {
			tp.TopicErr = rapid.SampledFrom([]int16{3, 5, 29}).Draw(t, "topicErr")
		}
		tp.Internal = rapid.IntRange(0, 9).Draw(t, "internalDie") == 7
		np := rapid.IntRange(0, 6).Draw(t, "nparts")
		for i := 0; i < np; i++ {
			p := c28Part{ID: int32(i)}
			p.Leader = int32(rapid.IntRange(0, nb-1).Draw(t, "leader"))
			if rapid.IntRange(0, 4).Draw(t, "perrDie") == 0 {
				p.Err = rapid.SampledFrom([]int16{5, 6, 9, 3, 72}).Draw(t, "perr")
				if p.Err == 5 {
					p.Leader = -1
				}
			}
			p.Epoch = rapid.OneOf(rapid.Just(int32(0)), rapid.Int32Range(-1, 5), rapid.Int32Range(0, 1<<30)).Draw(t, "epoch")
			nrep := rapid.IntRange(1, nb).Draw(t, "nrep")
			for r := 0; r < nrep; r++ {
				p.Repl = append(p.Repl, int32((int(p.Leader)+nb+r)%nb))
			}
			tp.Parts = append(tp.Parts, p)
		}
		s.Topics = append(s.Topics, tp)
	}
	return s
}

// id is the topic id the store reports for the topic (a zero stored id is derived from the name).
func (tp c28Topic) id() [16]byte {
	if tp.IDGen > 0 {
		return metadata.TopicIDForName(fmt.Sprintf("%s#gen%d", tp.Name, tp.IDGen))
	}
	return metadata.TopicIDForName(tp.Name)
}

func (s c28Snapshot) clone() c28Snapshot {
	out := c28Snapshot{Brokers: s.Brokers, Controller: s.Controller}
	for _, tp := range s.Topics {
		c := tp
		c.Parts = nil
		for _, p := range tp.Parts {
			q := p
			q.Repl = append([]int32(nil), p.Repl...)
			c.Parts = append(c.Parts, q)
		}
		out.Topics = append(out.Topics, c)
	}
	return out
}

func (s c28Snapshot) cluster() metadata.ClusterMetadata {
	cm := metadata.ClusterMetadata{ControllerID: s.Controller, ClusterID: kmsg.StringPtr("vf-cluster")}
	for i := 0; i < s.Brokers; i++ {
		cm.Brokers = append(cm.Brokers, protocol.MetadataBroker{NodeID: int32(i), Host: fmt.Sprintf("broker-%d.kafscale.svc", i), Port: 9092})
	}
	for _, tp := range s.Topics {
		mt := protocol.MetadataTopic{Topic: kmsg.StringPtr(tp.Name), ErrorCode: tp.TopicErr, IsInternal: tp.Internal}
		if tp.IDGen > 0 || tp.ExplicitI {
			mt.TopicID = tp.id()
		}
		for _, p := range tp.Parts {
			mt.Partitions = append(mt.Partitions, protocol.MetadataPartition{ErrorCode: p.Err, Partition: p.ID, Leader: p.Leader,
				LeaderEpoch: p.Epoch, Replicas: append([]int32(nil), p.Repl...), ISR: append([]int32(nil), p.Repl...)})
		}
		cm.Topics = append(cm.Topics, mt)
	}
	return cm
}

// topology projection of one topic as the property statement lists it
type c28Proj struct {
	Name  string
	ID    string
	Err   int16
	Parts string
}

func c28Project(version int16, name *string, id [16]byte, err int16, parts []kmsg.MetadataResponseTopicPartition) c28Proj {
	p := c28Proj{Err: err}
	if name != nil {
		p.Name = *name
	}
	if version >= 10 {
		p.ID = fmt.Sprintf("%x", id)
	}
	var ps []string
	for _, pt := range parts {
		ep := int32(0)
		if version >= 7 {
			ep = pt.LeaderEpoch
		}
		ps = append(ps, fmt.Sprintf("%d/e%d/le%d", pt.Partition, pt.ErrorCode, ep))
	}
	sort.Strings(ps)
	p.Parts = strings.Join(ps, ",")
	return p
}

func c28SortProj(ps []c28Proj) []string {
	out := make([]string, 0, len(ps))
	for _, p := range ps {
		out = append(out, fmt.Sprintf("%q id=%s err=%d [%s]", p.Name, p.ID, p.Err, p.Parts))
	}
	sort.Strings(out)
	return out
}

func c28Discard() *slog.Logger { return slog.New(slog.NewTextHandler(io.Discard, nil)) }

func c28EncodeRequest(req kmsg.Request, corr int32) []byte {
	f := kmsg.NewRequestFormatter(kmsg.FormatterClientID("vf-c28"))
	return f.AppendRequest(nil, req, corr)[4:]
}

// c28RoundTrip sends one request through proxy.handleConnection over a pipe and returns
// the reply payload (nil, nil when the proxy closed the connection without replying).
func c28RoundTrip(p *proxy, payload []byte) ([]byte, error) {
	cli, srv := net.Pipe()
	done := make(chan struct{})
	ctx, cancel := context.WithCancel(context.Background())
	go func() { defer close(done); p.handleConnection(ctx, srv) }()
	defer func() { _ = cli.Close(); <-done; cancel() }()
	_ = cli.SetDeadline(time.Now().Add(60 * time.Second))
	if err := protocol.WriteFrame(cli, payload); err != nil {
		if ne, ok := err.(net.Error); ok && ne.Timeout() {
			return nil, fmt.Errorf("client write timed out")
		}
		return nil, nil
	}
	fr, err := protocol.ReadFrame(cli)
	if err != nil {
		if strings.Contains(err.Error(), "timeout") {
			return nil, fmt.Errorf("client read timed out")
		}
		return nil, nil
	}
	return fr.Payload, nil
}

func c28SplitReply(payload []byte, flexible bool) (int32, []byte, error) {
	if len(payload) < 4 {
		return 0, nil, fmt.Errorf("reply shorter than a correlation id (%d bytes)", len(payload))
	}
	corr := int32(uint32(payload[0])<<24 | uint32(payload[1])<<16 | uint32(payload[2])<<8 | uint32(payload[3]))
	body := payload[4:]
	if flexible {
		if len(body) < 1 || body[0] != 0 {
			return 0, nil, fmt.Errorf("flexible response header without an empty tag section")
		}
		body = body[1:]
	}
	return corr, body, nil
}

type c28Req struct {
	Version int16
	Kind    string // all | names | ids | empty
	Names   []string
	IDs     []string // hex
}

func c28UnknownID(i int) [16]byte {
	var id [16]byte
	copy(id[:], []byte(fmt.Sprintf("unknown-id-%05d", i)))
	return id
}

func c28OnlyProxy(ids []int32) bool {
	for _, v := range ids {
		if v != 0 {
			return false
		}
	}
	return true
}

// c28History is the per-case state: ONE proxy instance, the model of the store content at
// this moment, and every topic id that was ever valid (so later by-id requests can ask for
// ids of topics that were deleted or re-created meanwhile).
type c28History struct {
	p       *proxy
	store   *metadata.InMemoryStore // the cluster metadata (reference reads it directly)
	gate    *c28GatedStore          // what the proxy reads through
	snap    c28Snapshot
	everIDs [][16]byte
	everSet map[[16]byte]bool
	changed bool // store content changed after the first request
	trace   []string
}

func (h *c28History) remember() {
	for _, tp := range h.snap.Topics {
		id := tp.id()
		if !h.everSet[id] {
			h.everSet[id] = true
			h.everIDs = append(h.everIDs, id)
		}
	}
}

// c28Mutate changes the store content the way the running system does: topic deleted,
// deleted and re-created (new topic id), partitions added, leaders moved, topic created.
func c28Mutate(t *rapid.T, h *c28History) {
	nb := h.snap.Brokers
	ops := []string{"delete", "recreate", "grow", "move", "add"}
	if len(h.snap.Topics) == 0 {
		ops = []string{"add"}
	}
	op := rapid.SampledFrom(ops).Draw(t, "mutation")
	pick := func() int { return rapid.IntRange(0, len(h.snap.Topics)-1).Draw(t, "victim") }
	switch op {
	case "delete":
		i := pick()
		h.trace = append(h.trace, "delete "+h.snap.Topics[i].Name)
		h.snap.Topics = append(h.snap.Topics[:i:i], h.snap.Topics[i+1:]...)
	case "recreate":
		i := pick()
		tp := &h.snap.Topics[i]
		tp.IDGen++
		np := rapid.IntRange(1, 4).Draw(t, "newParts")
		tp.Parts = nil
		for k := 0; k < np; k++ {
			l := int32(rapid.IntRange(0, nb-1).Draw(t, "leader"))
			tp.Parts = append(tp.Parts, c28Part{ID: int32(k), Leader: l, Repl: []int32{l}})
		}
		h.trace = append(h.trace, fmt.Sprintf("recreate %s gen%d parts=%d", tp.Name, tp.IDGen, np))
	case "grow":
		i := pick()
		tp := &h.snap.Topics[i]
		add := rapid.IntRange(1, 2).Draw(t, "addParts")
		for k := 0; k < add; k++ {
			l := int32(rapid.IntRange(0, nb-1).Draw(t, "leader"))
			tp.Parts = append(tp.Parts, c28Part{ID: int32(len(tp.Parts)), Leader: l, Repl: []int32{l}})
		}
		h.trace = append(h.trace, fmt.Sprintf("grow %s +%d", tp.Name, add))
	case "move":
		i := pick()
		tp := &h.snap.Topics[i]
		for k := range tp.Parts {
			if tp.Parts[k].Leader >= 0 {
				tp.Parts[k].Leader = (tp.Parts[k].Leader + 1) % int32(nb)
			}
			if tp.Parts[k].Epoch < 1<<30 {
				tp.Parts[k].Epoch++
			}
			tp.Parts[k].Repl = []int32{(tp.Parts[k].Leader + int32(nb)) % int32(nb)}
		}
		h.trace = append(h.trace, "move-leaders "+tp.Name)
	case "add":
		have := map[string]bool{}
		for _, tp := range h.snap.Topics {
			have[tp.Name] = true
		}
		var free []string
		for _, n := range c28NamePool {
			if !have[n] {
				free = append(free, n)
			}
		}
		if len(free) == 0 {
			return
		}
		n := rapid.SampledFrom(free).Draw(t, "newTopic")
		tp := c28Topic{Name: n, ExplicitI: rapid.Bool().Draw(t, "explicitID")}
		for k, np := 0, rapid.IntRange(1, 3).Draw(t, "newParts"); k < np; k++ {
			l := int32(rapid.IntRange(0, nb-1).Draw(t, "leader"))
			tp.Parts = append(tp.Parts, c28Part{ID: int32(k), Leader: l, Repl: []int32{l}})
		}
		h.snap.Topics = append(h.snap.Topics, tp)
		h.trace = append(h.trace, "add "+n)
	}
	h.store.Update(h.snap.cluster())
	h.changed = true
	h.remember()
}

// c28Request draws one Metadata request, sends it through the proxy and compares the reply
// with the reference projection of the store content AT THIS MOMENT. It returns whether
// the request was non-trivial by the stated rule.
func c28Request(t *rapid.T, st *vfkit.Stats, h *c28History) bool {
	pr := c28Prepare(t, st, h, false)
	reply, err := c28RoundTrip(h.p, pr.payload)
	if err != nil {
		fmt.Println("VF-INCONCLUSIVE: " + err.Error())
		t.Fatalf("VF-INCONCLUSIVE: %v", err)
	}
	nt, violation := c28Verify(st, h, pr, reply)
	if violation != "" {
		t.Fatalf("%s", violation)
	}
	return nt
}

// c28Prepared is one drawn request with its reference projection (store content now).
type c28Prepared struct {
	rq                  c28Req
	version             int16
	want                []c28Proj
	hasUnknown          bool
	outOfDomainTopicErr bool
	corr                int32
	payload             []byte
}

func c28Prepare(t *rapid.T, st *vfkit.Stats, h *c28History, overlapping bool) *c28Prepared {
	snap, store := h.snap, h.store
	// rapid favours small indexes: the interesting kinds / versions come first
	kinds := []string{"ids", "names", "all", "ids", "names", "empty"}
	if overlapping {
		kinds = []string{"ids", "all", "ids", "names", "empty"}
	}
	kind := rapid.SampledFrom(kinds).Draw(t, "kind")
	var version int16
	switch kind {
	case "ids":
		version = rapid.SampledFrom([]int16{12, 10, 11}).Draw(t, "version")
	case "empty":
		version = rapid.SampledFrom([]int16{12, 9, 7, 1, 4, 10, 5, 8, 2, 3, 6, 11}).Draw(t, "version")
	default:
		version = rapid.SampledFrom([]int16{12, 9, 7, 0, 10, 1, 11, 8, 6, 4, 5, 2, 3}).Draw(t, "version")
	}
	rq := c28Req{Version: version, Kind: kind}
	req := kmsg.NewPtrMetadataRequest()
	req.Version = version
	req.AllowAutoTopicCreation = rapid.Bool().Draw(t, "autoCreate")
	hasUnknown := false
	staleID := false
	var wantIDs [][16]byte
	currentID := map[[16]byte]bool{}
	for _, tp := range snap.Topics {
		currentID[tp.id()] = true
	}
	switch rq.Kind {
	case "all":
		req.Topics = nil
	case "empty":
		req.Topics = []kmsg.MetadataRequestTopic{}
	case "names":
		n := rapid.IntRange(1, 4).Draw(t, "nreq")
		for i := 0; i < n; i++ {
			var name string
			if len(snap.Topics) > 0 && rapid.IntRange(0, 2).Draw(t, "knownDie") != 1 {
				name = snap.Topics[rapid.IntRange(0, len(snap.Topics)-1).Draw(t, "pick")].Name
			} else {
				name = rapid.SampledFrom(append([]string{"nope", "orders2", "A"}, c28NamePool...)).Draw(t, "name")
			}
			rq.Names = append(rq.Names, name)
			rt := kmsg.NewMetadataRequestTopic()
			rt.Topic = kmsg.StringPtr(name)
			req.Topics = append(req.Topics, rt)
		}
	case "ids":
		n := rapid.IntRange(1, 4).Draw(t, "nreq")
		for i := 0; i < n; i++ {
			var id [16]byte
			src := rapid.SampledFrom([]string{"stale", "current", "ever", "absent-name", "unknown"}).Draw(t, "idSource")
			var stale [][16]byte // ids that were valid earlier on this proxy instance and are not any more
			for _, e := range h.everIDs {
				if !currentID[e] {
					stale = append(stale, e)
				}
			}
			switch {
			case src == "stale" && len(stale) > 0:
				id = stale[rapid.IntRange(0, len(stale)-1).Draw(t, "stalePick")]
			case src == "ever" && len(h.everIDs) > 0:
				// ids that are or WERE valid on this proxy instance; the latest-remembered first
				id = h.everIDs[len(h.everIDs)-1-rapid.IntRange(0, len(h.everIDs)-1).Draw(t, "everPick")]
			case (src == "current" || src == "ever" || src == "stale") && len(snap.Topics) > 0:
				id = snap.Topics[rapid.IntRange(0, len(snap.Topics)-1).Draw(t, "pick")].id()
			case src == "absent-name":
				id = metadata.TopicIDForName(rapid.SampledFrom(c28NamePool).Draw(t, "absentName"))
			default:
				id = c28UnknownID(rapid.IntRange(0, 3).Draw(t, "unk"))
			}
			if h.everSet[id] && !currentID[id] {
				staleID = true
			}
			wantIDs = append(wantIDs, id)
			rq.IDs = append(rq.IDs, fmt.Sprintf("%x", id))
			rt := kmsg.NewMetadataRequestTopic()
			rt.TopicID = id
			rt.Topic = nil
			// from v10 the name next to a topic id is nullable; an empty non-null name is a valid encoding too
			if rapid.IntRange(0, 2).Draw(t, "emptyNameDie") == 1 {
				rt.Topic = kmsg.StringPtr("")
				st.Class("by-id-entry-with-empty-non-null-name")
			}
			req.Topics = append(req.Topics, rt)
		}
	}
	st.Class("req-" + rq.Kind)
	st.Class(fmt.Sprintf("v%d", version))
	if h.changed {
		st.Class("req-after-store-change")
	}
	if staleID {
		st.Class("by-id-request-for-id-no-longer-valid")
	}
	h.trace = append(h.trace, fmt.Sprintf("request v%d %s names=%v ids=%v", version, rq.Kind, rq.Names, rq.IDs))

	// ---- reference projection of the store content at this moment
	ctx := context.Background()
	var want []c28Proj
	outOfDomainTopicErr := false
	switch rq.Kind {
	case "ids":
		all, err := store.Metadata(ctx, nil)
		if err != nil {
			t.Fatalf("harness: store.Metadata: %v", err)
		}
		for _, id := range wantIDs {
			found := false
			for _, tp := range all.Topics {
				if tp.TopicID == id {
					want = append(want, c28Project(version, tp.Topic, tp.TopicID, tp.ErrorCode, tp.Partitions))
					found = true
					if tp.ErrorCode != 0 && len(tp.Partitions) > 0 {
						outOfDomainTopicErr = true
					}
					break
				}
			}
			if !found {
				hasUnknown = true
				want = append(want, c28Proj{Name: "", ID: fmt.Sprintf("%x", id), Err: -1}) // -1 = any non-zero error
			}
		}
	default:
		ref, err := store.Metadata(ctx, rq.Names)
		if err != nil {
			t.Fatalf("harness: store.Metadata: %v", err)
		}
		known := map[string]bool{}
		for _, tp := range snap.Topics {
			known[tp.Name] = true
		}
		for _, n := range rq.Names {
			if !known[n] {
				hasUnknown = true
			}
		}
		for _, tp := range ref.Topics {
			want = append(want, c28Project(version, tp.Topic, tp.TopicID, tp.ErrorCode, tp.Partitions))
			if tp.ErrorCode != 0 && len(tp.Partitions) > 0 {
				outOfDomainTopicErr = true
			}
		}
	}

	corr := int32(rapid.Int32Range(1, 1<<30).Draw(t, "corr"))
	return &c28Prepared{rq: rq, version: version, want: want, hasUnknown: hasUnknown, outOfDomainTopicErr: outOfDomainTopicErr,
		corr: corr, payload: c28EncodeRequest(req, corr)}
}

// c28Verify judges one reply against the prepared reference; returns non-triviality and the
// violation text ("" = none). The caller fails the case from ONE call site so that rapid sees
// the same traceback whichever of two overlapping requests was the one answered wrongly.
func c28Verify(st *vfkit.Stats, h *c28History, pr *c28Prepared, reply []byte) (nontrivial bool, violation string) {
	snap := h.snap
	rq, version, want, hasUnknown, outOfDomainTopicErr, corr := pr.rq, pr.version, pr.want, pr.hasUnknown, pr.outOfDomainTopicErr, pr.corr
	if reply == nil {
		st.Class("no-reply")
		return false, ""
	}
	where := fmt.Sprintf("history %v\n store now %+v", h.trace, snap)
	gotCorr, body, err := c28SplitReply(reply, version >= 9)
	if err != nil {
		return false, fmt.Sprintf("metadata v%d reply: %v", version, err)
	}
	if gotCorr != corr {
		return false, fmt.Sprintf("metadata v%d reply has correlation id %d, request had %d", version, gotCorr, corr)
	}
	resp := kmsg.NewPtrMetadataResponse()
	resp.Version = version
	if err := resp.ReadFrom(body); err != nil {
		return false, fmt.Sprintf("metadata v%d reply does not decode: %v (request %+v)\n%s", version, err, rq, where)
	}

	// ---- only the proxy is named
	if len(resp.Brokers) != 1 || resp.Brokers[0].NodeID != 0 || resp.Brokers[0].Host != c28Host || resp.Brokers[0].Port != c28Port {
		return false, fmt.Sprintf("metadata v%d reply broker list is %+v, want exactly {0 %s %d}\n%s", version, resp.Brokers, c28Host, c28Port, where)
	}
	if version >= 1 && resp.ControllerID != 0 {
		return false, fmt.Sprintf("metadata v%d reply controller id %d is not the proxy (0); snapshot controller %d", version, resp.ControllerID, snap.Controller)
	}
	leaked := false
	for _, tp := range resp.Topics {
		for _, pt := range tp.Partitions {
			// leader -1 names nobody (leaderless partition); anything else must be the proxy
			if !(pt.Leader == 0 || pt.Leader == -1) || !c28OnlyProxy(pt.Replicas) || !c28OnlyProxy(pt.ISR) || !c28OnlyProxy(pt.OfflineReplicas) {
				if tp.ErrorCode != 0 && outOfDomainTopicErr {
					leaked = true
					continue
				}
				name := ""
				if tp.Topic != nil {
					name = *tp.Topic
				}
				return false, fmt.Sprintf("metadata v%d reply: topic %q partition %d names a broker other than the proxy: leader=%d replicas=%v isr=%v offline=%v (request %+v)\n%s",
					version, name, pt.Partition, pt.Leader, pt.Replicas, pt.ISR, pt.OfflineReplicas, rq, where)
			}
		}
	}
	if leaked {
		st.Class("observed-only:stored-topic-error-with-partitions-passed-through")
	}

	// ---- topology kept
	var got []c28Proj
	for _, tp := range resp.Topics {
		got = append(got, c28Project(version, tp.Topic, tp.TopicID, tp.ErrorCode, tp.Partitions))
	}
	// unknown ids: any non-zero error code is accepted
	wantAny := map[string]int{}
	var wantExact []c28Proj
	for _, w := range want {
		if w.Err == -1 {
			wantAny[w.ID]++
		} else {
			wantExact = append(wantExact, w)
		}
	}
	var gotExact []c28Proj
	for _, g := range got {
		if wantAny[g.ID] > 0 && g.Err != 0 && g.Parts == "" {
			wantAny[g.ID]--
			if g.Err == protocol.UNKNOWN_TOPIC_ID {
				st.Class("unknown-id-answered-UNKNOWN_TOPIC_ID")
			} else {
				st.Class("unknown-id-answered-other-error")
			}
			continue
		}
		gotExact = append(gotExact, g)
	}
	for id, n := range wantAny {
		if n > 0 {
			return false, fmt.Sprintf("metadata v%d by-id reply lacks an error entry for topic id %s, which no topic has now; reply topics %v (request %+v)\n%s", version, id, c28SortProj(got), rq, where)
		}
	}
	ws, gs := c28SortProj(wantExact), c28SortProj(gotExact)
	if strings.Join(ws, "\n") != strings.Join(gs, "\n") {
		return false, fmt.Sprintf("metadata v%d reply topology differs from the cluster metadata at this moment for request %+v\n got:  %v\n want: %v\n%s", version, rq, gs, ws, where)
	}

	nonZeroLeader := false
	for _, tp := range snap.Topics {
		for _, pt := range tp.Parts {
			if pt.Leader > 0 {
				nonZeroLeader = true
			}
		}
	}
	if hasUnknown {
		st.Class("has-unknown-topic")
	}
	if nonZeroLeader {
		st.Class("snapshot-has-leader-other-than-0")
	}
	if len(resp.Topics) == 0 {
		st.Class("reply-without-topics")
	}
	return snap.Brokers >= 2 && (hasUnknown || rq.Kind == "ids"), ""
}

// c28GatedStore is the metadata.Store the proxy under test reads through. While armed,
// every Metadata call is held at the gate, so two client requests can be made to overlap
// inside the store read (a slow etcd-backed read); otherwise it is transparent.
type c28GatedStore struct {
	*metadata.InMemoryStore
	mu      sync.Mutex
	armed   bool
	arrived chan struct{}
	release chan struct{}
}

func (g *c28GatedStore) Metadata(ctx context.Context, topics []string) (*metadata.ClusterMetadata, error) {
	g.mu.Lock()
	if g.armed {
		arrived, release := g.arrived, g.release
		g.mu.Unlock()
		select {
		case arrived <- struct{}{}:
		default:
		}
		<-release
	} else {
		g.mu.Unlock()
	}
	return g.InMemoryStore.Metadata(ctx, topics)
}

// c28Overlap sends two requests so that both are in flight at the same time: the store
// read is gated until both callers are inside it (or until both round trips are otherwise
// accounted for; the 50 ms fallback only bounds the wait when a caller never reaches the
// store - it is not a verdict). Store content does not change meanwhile, so each reply must
// equal the reference projection for ITS OWN request.
func c28Overlap(t *rapid.T, st *vfkit.Stats, h *c28History) bool {
	a := c28Prepare(t, st, h, true)
	b := c28Prepare(t, st, h, true)
	g := h.gate
	g.mu.Lock()
	g.armed, g.arrived, g.release = true, make(chan struct{}, 8), make(chan struct{})
	arrived, release := g.arrived, g.release
	g.mu.Unlock()
	type res struct {
		reply []byte
		err   error
	}
	ra, rb := make(chan res, 1), make(chan res, 1)
	go func() { r, e := c28RoundTrip(h.p, a.payload); ra <- res{r, e} }()
	go func() { r, e := c28RoundTrip(h.p, b.payload); rb <- res{r, e} }()
	var resA, resB *res
	inside := 0
	fallback := time.NewTimer(50 * time.Millisecond)
	defer fallback.Stop()
	timedOut := false
	for !timedOut && inside+c28Btoi(resA != nil)+c28Btoi(resB != nil) < 2 {
		select {
		case <-arrived:
			inside++
		case r := <-ra:
			resA = &r
		case r := <-rb:
			resB = &r
		case <-fallback.C:
			timedOut = true
		}
	}
	g.mu.Lock()
	g.armed = false
	g.mu.Unlock()
	close(release)
	if resA == nil {
		r := <-ra
		resA = &r
	}
	if resB == nil {
		r := <-rb
		resB = &r
	}
	switch {
	case inside >= 2:
		st.Class("overlap:both-requests-inside-store-read")
	case timedOut:
		st.Class("overlap:fallback-release")
	default:
		st.Class("overlap:one-finished-early")
	}
	for _, r := range []*res{resA, resB} {
		if r.err != nil {
			fmt.Println("VF-INCONCLUSIVE: " + r.err.Error())
			t.Fatalf("VF-INCONCLUSIVE: %v", r.err)
		}
	}
	h.trace = append(h.trace, "^ the last two requests overlapped")
	ntA, vA := c28Verify(st, h, a, resA.reply)
	ntB, vB := c28Verify(st, h, b, resB.reply)
	if vA != "" || vB != "" {
		t.Fatalf("overlapping requests: %s", strings.TrimSpace(vA+"\n"+vB))
	}
	return ntA || ntB
}

func c28Btoi(b bool) int {
	if b {
		return 1
	}
	return 0
}

// c28Backend is a reachable broker behind the proxy: it answers Metadata the way a real
// broker does (real broker list, controller and leader ids from cluster metadata) and
// does not auto-create anything. The unchanged proxy never needs it for Metadata; it is
// there so that a proxy that consults or relays a backend is exposed.
type c28Backend struct {
	ln    net.Listener
	store atomic.Pointer[metadata.InMemoryStore]
	asked atomic.Int64
	wg    sync.WaitGroup
}

const (
	c28BackendNode = int32(7)
	c28BackendHost = "broker-7.kafscale.svc"
)

func c28StartBackend() (*c28Backend, error) {
	ln, err := net.Listen("tcp4", "127.0.0.1:0")
	if err != nil {
		return nil, err
	}
	b := &c28Backend{ln: ln}
	b.wg.Add(1)
	go func() {
		defer b.wg.Done()
		for {
			conn, err := ln.Accept()
			if err != nil {
				return
			}
			b.wg.Add(1)
			go b.serve(conn)
		}
	}()
	return b, nil
}

func (b *c28Backend) stop() { _ = b.ln.Close(); b.wg.Wait() }

func (b *c28Backend) serve(conn net.Conn) {
	defer b.wg.Done()
	defer conn.Close()
	for {
		_ = conn.SetDeadline(time.Now().Add(60 * time.Second))
		fr, err := protocol.ReadFrame(conn)
		if err != nil {
			return
		}
		hdr, req, err := protocol.ParseRequest(fr.Payload)
		if err != nil {
			return
		}
		if fc, ok := req.(*kmsg.FindCoordinatorRequest); ok {
			// cmd/broker answers every FindCoordinator by naming itself
			b.asked.Add(1)
			out := kmsg.NewPtrFindCoordinatorResponse()
			out.NodeID, out.Host, out.Port = c28BackendNode, c28BackendHost, 9092
			for _, k := range fc.CoordinatorKeys {
				c := kmsg.NewFindCoordinatorResponseCoordinator()
				c.Key, c.NodeID, c.Host, c.Port = k, c28BackendNode, c28BackendHost, 9092
				out.Coordinators = append(out.Coordinators, c)
			}
			if protocol.WriteFrame(conn, protocol.EncodeResponse(hdr.CorrelationID, hdr.APIVersion, out)) != nil {
				return
			}
			continue
		}
		mr, ok := req.(*kmsg.MetadataRequest)
		store := b.store.Load()
		if !ok || store == nil {
			return
		}
		b.asked.Add(1)
		var names []string
		for _, tp := range mr.Topics {
			if tp.Topic != nil {
				names = append(names, *tp.Topic)
			}
		}
		meta, err := store.Metadata(context.Background(), names)
		if err != nil {
			return
		}
		resp := kmsg.NewPtrMetadataResponse()
		resp.Brokers = meta.Brokers
		resp.ClusterID = meta.ClusterID
		resp.ControllerID = meta.ControllerID
		resp.Topics = meta.Topics
		if protocol.WriteFrame(conn, protocol.EncodeResponse(hdr.CorrelationID, hdr.APIVersion, resp)) != nil {
			return
		}
	}
}

// Each case is a short history on ONE proxy instance: snapshot S1 (+ the start-up cache
// refresh main() does), 1-2 requests, the store content changes, more requests (by-id ones
// prefer ids that were valid earlier), optionally a periodic cache refresh and a second
// change. Every reply is compared with the store content at that moment.
func TestVF_C28_Metadata(t *testing.T) {
	st := vfkit.NewStats("C28", "metadata")
	defer st.Flush()
	backend, err := c28StartBackend()
	if err != nil {
		fmt.Println("VF-INCONCLUSIVE: backend listener: " + err.Error())
		t.Fatalf("VF-INCONCLUSIVE: backend listener: %v", err)
	}
	defer backend.stop()
	defer func() { st.Note("metadata_requests_that_reached_a_backend", backend.asked.Load()) }()
	rapid.Check(t, func(t *rapid.T) {
		st.Eval()
		snap := c28DrawSnapshot(t)
		initial := snap.clone()
		store := metadata.NewInMemoryStore(snap.cluster())
		gate := &c28GatedStore{InMemoryStore: store}
		backend.store.Store(store)
		p := &proxy{advertisedHost: c28Host, advertisedPort: c28Port, store: gate, logger: c28Discard(),
			dialTimeout: 5 * time.Second, cacheTTL: time.Minute, brokerAddrs: map[string]string{}, topicNames: map[[16]byte]string{},
			backendRetries: 1, backendBackoff: time.Millisecond}
		// a deployed proxy has brokers behind it: static backend list (KAFSCALE_PROXY_BACKENDS) in 2 of 3 cases
		if rapid.IntRange(0, 2).Draw(t, "backendDie") != 1 {
			p.backends = []string{backend.ln.Addr().String()}
			p.setCachedBackends(p.backends)
			p.touchHealthy()
			st.Class("proxy-has-reachable-backend")
		}
		p.setReady(true)
		p.refreshMetadataCache(context.Background()) // initMetadataCache at start-up (without its 10 s ticker)
		h := &c28History{p: p, store: store, gate: gate, snap: snap, everSet: map[[16]byte]bool{}}
		h.remember()

		nt := false
		for i, n := 0, rapid.SampledFrom([]int{1, 2}).Draw(t, "requestsBefore"); i < n; i++ {
			nt = c28Request(t, st, h) || nt
		}
		rounds := rapid.SampledFrom([]int{1, 2, 1, 0}).Draw(t, "changeRounds")
		for r := 0; r < rounds; r++ {
			for i, n := 0, rapid.SampledFrom([]int{1, 2}).Draw(t, "mutations"); i < n; i++ {
				c28Mutate(t, h)
			}
			if rapid.IntRange(0, 3).Draw(t, "tickDie") == 2 {
				p.refreshMetadataCache(context.Background()) // the periodic 10 s refresh fired
				h.trace = append(h.trace, "cache-refresh-tick")
				st.Class("periodic-refresh-between-requests")
			}
			for i, n := 0, rapid.SampledFrom([]int{2, 1, 3}).Draw(t, "requestsAfter"); i < n; i++ {
				nt = c28Request(t, st, h) || nt
			}
			if rapid.IntRange(0, 3).Draw(t, "overlapDie") == 1 {
				nt = c28Overlap(t, st, h) || nt
			}
		}
		if rounds == 0 || rapid.IntRange(0, 2).Draw(t, "finalOverlapDie") == 1 {
			nt = c28Overlap(t, st, h) || nt
		}
		st.Class(fmt.Sprintf("change-rounds=%d", rounds))
		if nt {
			if st.NonTrivial(initial, h.trace) {
				st.Sample(map[string]any{"initial_snapshot": initial, "history": h.trace})
			}
		}
	})
}

// Coordinator replies and the not-ready variants (proxy without any live backend).
func TestVF_C28_NotReady(t *testing.T) {
	st := vfkit.NewStats("C28", "notready")
	defer st.Flush()
	backend, err := c28StartBackend()
	if err != nil {
		fmt.Println("VF-INCONCLUSIVE: backend listener: " + err.Error())
		t.Fatalf("VF-INCONCLUSIVE: backend listener: %v", err)
	}
	defer backend.stop()
	defer func() { st.Note("requests_that_reached_a_backend", backend.asked.Load()) }()
	rapid.Check(t, func(t *rapid.T) {
		st.Eval()
		snap := c28DrawSnapshot(t)
		store := metadata.NewInMemoryStore(snap.cluster())
		backend.store.Store(store)
		p := &proxy{advertisedHost: c28Host, advertisedPort: c28Port, store: store, logger: c28Discard(),
			dialTimeout: 5 * time.Second, cacheTTL: time.Minute, brokerAddrs: map[string]string{}, topicNames: map[[16]byte]string{},
			backendRetries: 1, backendBackoff: time.Millisecond}
		mode := rapid.SampledFrom([]string{"metadata/notready", "coordinator/notready", "metadata/notready", "coordinator/ready"}).Draw(t, "mode")
		ready := strings.HasSuffix(mode, "/ready") // ready metadata is the other leg
		api := strings.SplitN(mode, "/", 2)[0]
		p.setReady(ready)
		corr := int32(rapid.Int32Range(1, 1<<30).Draw(t, "corr"))
		st.Class(fmt.Sprintf("%s-ready=%v", api, ready))

		if ready && rapid.IntRange(0, 3).Draw(t, "backendDie") != 1 {
			// a ready proxy has brokers behind it; the fake broker names ITSELF as coordinator
			p.backends = []string{backend.ln.Addr().String()}
			p.setCachedBackends(p.backends)
			p.touchHealthy()
			st.Class("proxy-has-reachable-backend")
		}
		if api == "coordinator" {
			req := kmsg.NewPtrFindCoordinatorRequest()
			// v3 is the only version the proxy advertises; the others are still answered by it
			req.Version = rapid.SampledFrom([]int16{3, 3, 4, 2, 1, 0}).Draw(t, "fcVersion")
			keys := []string{rapid.SampledFrom([]string{"g", "group-1", "", "txn.a"}).Draw(t, "key")}
			req.CoordinatorKey = keys[0]
			req.CoordinatorType = int8(rapid.SampledFrom([]int{1, 0}).Draw(t, "ctype")) // 0 group, 1 transaction (v1+)
			if req.Version >= 4 {
				for i, n := 0, rapid.IntRange(0, 2).Draw(t, "moreKeys"); i < n; i++ {
					keys = append(keys, rapid.SampledFrom([]string{"g2", "txn.b", "g"}).Draw(t, "key"))
				}
				req.CoordinatorKeys = keys
			}
			st.Class(fmt.Sprintf("fc-v%d-type%d", req.Version, req.CoordinatorType))
			reply, err := c28RoundTrip(p, c28EncodeRequest(req, corr))
			if err != nil {
				fmt.Println("VF-INCONCLUSIVE: " + err.Error())
				t.Fatalf("VF-INCONCLUSIVE: %v", err)
			}
			if reply == nil {
				st.Class("no-reply")
				return
			}
			gotCorr, body, err := c28SplitReply(reply, req.Version >= 3)
			if err != nil {
				t.Fatalf("find-coordinator v%d reply: %v", req.Version, err)
			}
			if gotCorr != corr {
				t.Fatalf("find-coordinator reply correlation id %d, want %d", gotCorr, corr)
			}
			resp := kmsg.NewPtrFindCoordinatorResponse()
			resp.Version = req.Version
			if err := resp.ReadFrom(body); err != nil {
				t.Fatalf("find-coordinator v%d reply does not decode: %v", req.Version, err)
			}
			// judge every coordinator the reply names: top level (v0-3) and per key (v4+)
			type named struct {
				err  int16
				node int32
				host string
				port int32
			}
			var all []named
			if req.Version <= 3 {
				all = append(all, named{resp.ErrorCode, resp.NodeID, resp.Host, resp.Port})
			}
			for _, c := range resp.Coordinators {
				all = append(all, named{c.ErrorCode, c.NodeID, c.Host, c.Port})
			}
			if len(all) == 0 {
				st.Class("fc-reply-names-nobody")
			}
			for _, n := range all {
				if n.err == 0 {
					if n.node != 0 || n.host != c28Host || n.port != c28Port {
						t.Fatalf("find-coordinator v%d type %d keys %q (ready=%v, backend=%v) names coordinator {%d %q %d}, want the proxy {0 %q %d}",
							req.Version, req.CoordinatorType, keys, ready, len(p.backends) > 0, n.node, n.host, n.port, c28Host, c28Port)
					}
					if !ready {
						t.Fatalf("find-coordinator answered success although the proxy is not ready")
					}
				} else if !(n.node == -1 || n.node == 0) || !(n.host == "" || n.host == c28Host) || !(n.port == 0 || n.port == c28Port) {
					// an error reply must not name some other node
					t.Fatalf("find-coordinator v%d error reply names a node that is not the proxy: {%d %q %d}", req.Version, n.node, n.host, n.port)
				}
			}
			if st.NonTrivial("coord", ready, req.Version, keys, req.CoordinatorType, len(p.backends), snap.Brokers) {
				st.Sample(map[string]any{"api": api, "ready": ready, "version": req.Version, "type": req.CoordinatorType, "keys": keys, "backend": len(p.backends) > 0, "named": fmt.Sprint(all)})
			}
			return
		}

		// not-ready metadata
		kind := rapid.SampledFrom([]string{"names", "ids", "all"}).Draw(t, "kind")
		var version int16
		if kind == "ids" {
			version = rapid.SampledFrom([]int16{12, 10, 11}).Draw(t, "version")
		} else {
			version = rapid.SampledFrom([]int16{12, 9, 7, 0, 10, 1, 11, 8, 6, 4, 5, 2, 3}).Draw(t, "version")
		}
		req := kmsg.NewPtrMetadataRequest()
		req.Version = version
		type rt struct{ Name, ID string }
		var asked []rt
		switch kind {
		case "all":
			req.Topics = nil
		case "names":
			for i, n := 0, rapid.IntRange(1, 4).Draw(t, "nreq"); i < n; i++ {
				name := rapid.SampledFrom(c28NamePool).Draw(t, "name")
				x := kmsg.NewMetadataRequestTopic()
				x.Topic = kmsg.StringPtr(name)
				req.Topics = append(req.Topics, x)
				asked = append(asked, rt{Name: name})
			}
		case "ids":
			for i, n := 0, rapid.IntRange(1, 4).Draw(t, "nreq"); i < n; i++ {
				id := metadata.TopicIDForName(rapid.SampledFrom(c28NamePool).Draw(t, "idname"))
				x := kmsg.NewMetadataRequestTopic()
				x.TopicID = id
				if rapid.IntRange(0, 2).Draw(t, "emptyNameDie") == 1 {
					x.Topic = kmsg.StringPtr("")
				}
				req.Topics = append(req.Topics, x)
				asked = append(asked, rt{ID: fmt.Sprintf("%x", id)})
			}
		}
		st.Class("notready-md-" + kind)
		reply, err := c28RoundTrip(p, c28EncodeRequest(req, corr))
		if err != nil {
			fmt.Println("VF-INCONCLUSIVE: " + err.Error())
			t.Fatalf("VF-INCONCLUSIVE: %v", err)
		}
		if reply == nil {
			st.Class("no-reply")
			return
		}
		gotCorr, body, err := c28SplitReply(reply, version >= 9)
		if err != nil {
			t.Fatalf("not-ready metadata v%d reply: %v", version, err)
		}
		if gotCorr != corr {
			t.Fatalf("not-ready metadata reply correlation id %d, want %d", gotCorr, corr)
		}
		resp := kmsg.NewPtrMetadataResponse()
		resp.Version = version
		if err := resp.ReadFrom(body); err != nil {
			t.Fatalf("not-ready metadata v%d reply does not decode: %v", version, err)
		}
		for _, b := range resp.Brokers {
			if b.NodeID != 0 || b.Host != c28Host || b.Port != c28Port {
				t.Fatalf("not-ready metadata reply names broker %+v which is not the proxy", b)
			}
		}
		if version >= 1 && !(resp.ControllerID == -1 || resp.ControllerID == 0) {
			t.Fatalf("not-ready metadata reply names controller %d", resp.ControllerID)
		}
		var got []string
		for _, tp := range resp.Topics {
			if tp.ErrorCode == 0 {
				t.Fatalf("not-ready metadata reply reports topic %v without an error", tp.Topic)
			}
			for _, pt := range tp.Partitions {
				if !(pt.Leader == 0 || pt.Leader == -1) || !c28OnlyProxy(pt.Replicas) || !c28OnlyProxy(pt.ISR) {
					t.Fatalf("not-ready metadata reply names a partition leader/replica other than the proxy: %+v", pt)
				}
			}
			n := ""
			if tp.Topic != nil {
				n = *tp.Topic
			}
			id := ""
			if version >= 10 && kind == "ids" {
				id = fmt.Sprintf("%x", tp.TopicID)
			}
			got = append(got, n+"|"+id)
		}
		var want []string
		for _, a := range asked {
			want = append(want, a.Name+"|"+a.ID)
		}
		sort.Strings(got)
		sort.Strings(want)
		if strings.Join(got, ",") != strings.Join(want, ",") {
			t.Fatalf("not-ready metadata v%d reply topics %v differ from the requested topics %v", version, got, want)
		}
		if st.NonTrivial("md", version, kind, want) {
			st.Sample(map[string]any{"api": "metadata-not-ready", "version": version, "kind": kind, "topics": got})
		}
	})
}
