//go:build verif

package main

// C31 (routing leg): the same generated produce requests go through the proxy's real
// produce path — handleProduceRouting: parse, LFS rewrite, split by owning broker, then
// forwardProduce (acks 1 / -1) or fireAndForgetProduce (acks 0) — and the oracle of the
// rewrite leg is applied to what the fake backends actually RECEIVE on their sockets.
//
// Routing table = real metadata.PartitionRouter over lease keys in an embedded etcd
// (one etcd per test function, one router per case), 1-3 fake backends on loopback.

import (
	"bytes"
	"context"
	"encoding/binary"
	"fmt"
	"io"
	"log/slog"
	"net"
	"sort"
	"sync"
	"testing"
	"time"

	"github.com/KafScale/platform/internal/testutil"
	"github.com/KafScale/platform/pkg/metadata"
	"github.com/KafScale/platform/pkg/protocol"
	"github.com/twmb/franz-go/pkg/kgo"
	"github.com/twmb/franz-go/pkg/kmsg"
	clientv3 "go.etcd.io/etcd/client/v3"
	"pgregory.net/rapid"
	"verif.local/vfkit"
)

const c31LeasePrefix = "/kafscale/partition-leases"

var c31BarrierMagic = []byte("\x7fVF-C31-BARRIER\x7f")


// c31Backend is a fake broker: it records every frame, acknowledges produce requests whose
// acks != 0 with code 0 for every partition, and never answers acks = 0.
type c31Backend struct {
	id     int
	ln     net.Listener
	addr   string
	mu     sync.Mutex
	cond   *sync.Cond
	active int
	frames [][]byte
	wg     sync.WaitGroup
}

func newC31Backend(id int) (*c31Backend, error) {
	ln, err := net.Listen("tcp", "127.0.0.1:0")
	if err != nil {
		return nil, err
	}
	b := &c31Backend{id: id, ln: ln, addr: ln.Addr().String()}
	b.cond = sync.NewCond(&b.mu)
	b.wg.Add(1)
	go func() {
		defer b.wg.Done()
		for {
			conn, err := ln.Accept()
			if err != nil {
				return
			}
			b.mu.Lock()
			b.active++
			b.mu.Unlock()
			b.wg.Add(1)
			go func() {
				defer b.wg.Done()
				b.serve(conn)
				_ = conn.Close()
				b.mu.Lock()
				b.active--
				b.cond.Broadcast()
				b.mu.Unlock()
			}()
		}
	}()
	return b, nil
}

func (b *c31Backend) stop() { _ = b.ln.Close(); b.wg.Wait() }

func (b *c31Backend) serve(conn net.Conn) {
	_ = conn.SetDeadline(time.Now().Add(60 * time.Second))
	for {
		var lb [4]byte
		if _, err := io.ReadFull(conn, lb[:]); err != nil {
			return
		}
		n := int(int32(binary.BigEndian.Uint32(lb[:])))
		if n < 0 || n > 256<<20 {
			return
		}
		payload := make([]byte, n)
		if _, err := io.ReadFull(conn, payload); err != nil {
			return
		}
		if bytes.Equal(payload, c31BarrierMagic) {
			// barrier: connections are accepted in order, so every connection the proxy
			// opened before is already counted; wait until they have been read to EOF
			b.mu.Lock()
			for b.active > 1 {
				b.cond.Wait()
			}
			b.mu.Unlock()
			_, _ = conn.Write([]byte{0, 0, 0, 1, 'k'})
			return
		}
		b.mu.Lock()
		b.frames = append(b.frames, payload)
		b.mu.Unlock()
		ver, corr, req, err := c31ParseProduceFrame(payload)
		if err != nil || req.Acks == 0 {
			continue
		}
		resp := kmsg.NewPtrProduceResponse()
		resp.Version = ver
		for _, tp := range req.Topics {
			rt := kmsg.NewProduceResponseTopic()
			rt.Topic = tp.Topic
			for _, pp := range tp.Partitions {
				rp := kmsg.NewProduceResponseTopicPartition()
				rp.Partition = pp.Partition
				rp.BaseOffset = 100
				rt.Partitions = append(rt.Partitions, rp)
			}
			resp.Topics = append(resp.Topics, rt)
		}
		out := make([]byte, 8, 128)
		binary.BigEndian.PutUint32(out[4:], uint32(corr))
		if ver >= 9 {
			out = append(out, 0)
		}
		out = resp.AppendTo(out)
		binary.BigEndian.PutUint32(out[0:], uint32(len(out)-4))
		if _, err := conn.Write(out); err != nil {
			return
		}
	}
}

func (b *c31Backend) reset() { b.mu.Lock(); b.frames = nil; b.mu.Unlock() }

// barrier returns once every connection opened to this backend before the call has been
// read to EOF (the caller has closed them).
func (b *c31Backend) barrier() error {
	conn, err := net.DialTimeout("tcp", b.addr, 10*time.Second)
	if err != nil {
		return err
	}
	defer conn.Close()
	_ = conn.SetDeadline(time.Now().Add(60 * time.Second))
	var lb [4]byte
	binary.BigEndian.PutUint32(lb[:], uint32(len(c31BarrierMagic)))
	if _, err := conn.Write(append(lb[:], c31BarrierMagic...)); err != nil {
		return err
	}
	var reply [5]byte
	_, err = io.ReadFull(conn, reply[:])
	return err
}

// c31ParseProduceFrame decodes request header v1/v2 + produce body (kmsg).
func c31ParseProduceFrame(p []byte) (int16, int32, *kmsg.ProduceRequest, error) {
	if len(p) < 10 {
		return 0, 0, nil, fmt.Errorf("frame of %d bytes is not a request", len(p))
	}
	key := int16(binary.BigEndian.Uint16(p[0:]))
	ver := int16(binary.BigEndian.Uint16(p[2:]))
	corr := int32(binary.BigEndian.Uint32(p[4:]))
	cl := int16(binary.BigEndian.Uint16(p[8:]))
	off := 10
	if cl > 0 {
		off += int(cl)
	}
	if key != 0 {
		return ver, corr, nil, fmt.Errorf("api key %d, expected produce", key)
	}
	if ver >= 9 {
		if off >= len(p) || p[off] != 0 {
			return ver, corr, nil, fmt.Errorf("unexpected header tagged fields")
		}
		off++
	}
	if off > len(p) {
		return ver, corr, nil, fmt.Errorf("truncated header")
	}
	req := kmsg.NewPtrProduceRequest()
	req.Version = ver
	if err := req.ReadFrom(p[off:]); err != nil {
		return ver, corr, nil, fmt.Errorf("produce v%d body: %w", ver, err)
	}
	return ver, corr, req, nil
}

type c31RoutingSample struct {
	Acks      int16     `json:"acks"`
	Version   int16     `json:"api_version"`
	Backends  int       `json:"backends"`
	Groups    int       `json:"routing_groups"`
	NoRouter  bool      `json:"no_router"`
	Frames    int       `json:"frames_received"`
	Rewritten bool      `json:"rewritten"`
	Request   c31Sample `json:"request"`
}

func TestVF_C31_Routing(t *testing.T) {
	st := vfkit.NewStats("C31", "routing")
	defer st.Flush()
	var endpoints []string
	func() {
		defer func() {
			if r := recover(); r != nil {
				fmt.Println("VF-INCONCLUSIVE: embedded etcd did not start:", r)
			}
		}()
		endpoints = testutil.StartEmbeddedEtcd(t)
	}()
	if len(endpoints) == 0 {
		fmt.Println("VF-INCONCLUSIVE: embedded etcd did not start")
		t.Fatalf("no etcd")
	}
	cli, err := clientv3.New(clientv3.Config{Endpoints: endpoints, DialTimeout: 10 * time.Second})
	if err != nil {
		fmt.Println("VF-INCONCLUSIVE: etcd client:", err)
		t.Fatalf("etcd client: %v", err)
	}
	defer cli.Close()
	var backends []*c31Backend
	for i := 0; i < 3; i++ {
		b, err := newC31Backend(i)
		if err != nil {
			fmt.Println("VF-INCONCLUSIVE: cannot open loopback listener:", err)
			t.Fatalf("listen: %v", err)
		}
		defer b.stop()
		backends = append(backends, b)
	}
	logger := slog.New(slog.NewTextHandler(io.Discard, nil))
	decomp := kgo.DefaultDecompressor()

	rapid.Check(t, func(t *rapid.T) {
		st.Eval()
		ctx, cancel := context.WithTimeout(context.Background(), 90*time.Second)
		defer cancel()
		inconclusive := func(format string, a ...any) {
			fmt.Println("VF-INCONCLUSIVE: " + fmt.Sprintf(format, a...))
			t.Fatalf(format, a...)
		}
		defaultAlg := rapid.SampledFrom([]string{"sha256", "sha256", "md5", "crc32", "none"}).Draw(t, "defaultAlg")
		fs := newC31S3()
		pre := map[string]bool{}
		m := c31Module(fs, defaultAlg, 5<<20)
		info := &c31GenInfo{allowBad: rapid.IntRange(0, 11).Draw(t, "allowBadFlags") == 0}
		topics, req, sample, _ := c31GenRequest(t, st, defaultAlg, info)
		req.Acks = rapid.SampledFrom([]int16{0, 0, 1, -1}).Draw(t, "acks")
		req.Version = rapid.SampledFrom([]int16{9, 9, 9, 8, 7, 3}).Draw(t, "apiVersion")
		req.TimeoutMillis = 5000
		nb := rapid.IntRange(1, 3).Draw(t, "nBackends")
		noRouter := rapid.IntRange(0, 5).Draw(t, "noRouter") == 0

		// routing: each partition is leased to one of the nb backends, or to nobody
		routes := map[string]string{}
		groupSet := map[string]bool{}
		if !noRouter {
			single := rapid.IntRange(0, 2).Draw(t, "allOnOneBackend") == 0
			one := rapid.IntRange(0, nb-1).Draw(t, "theBackend")
			for _, tp := range topics {
				for _, pp := range tp.parts {
					owner := one
					if !single {
						owner = rapid.IntRange(-1, nb-1).Draw(t, "owner")
					}
					if owner >= 0 {
						routes[fmt.Sprintf("%s/%d", tp.name, pp.index)] = fmt.Sprint(owner)
						groupSet[fmt.Sprint(owner)] = true
					} else {
						groupSet[""] = true
					}
				}
			}
		} else {
			groupSet[""] = true
		}

		p := &proxy{advertisedHost: "proxy.vf", advertisedPort: 19092, logger: logger, dialTimeout: 10 * time.Second, cacheTTL: time.Minute,
			brokerAddrs: map[string]string{}, topicNames: map[[16]byte]string{}, backendRetries: 2, backendBackoff: time.Millisecond, lfs: m}
		cm := metadata.ClusterMetadata{ControllerID: 0, ClusterID: kmsg.StringPtr("vf")}
		for i := 0; i < nb; i++ {
			p.backends = append(p.backends, backends[i].addr)
			p.brokerAddrs[fmt.Sprint(i)] = backends[i].addr
			cm.Brokers = append(cm.Brokers, protocol.MetadataBroker{NodeID: int32(i), Host: "127.0.0.1", Port: int32(backends[i].ln.Addr().(*net.TCPAddr).Port)})
			backends[i].reset()
		}
		p.store = metadata.NewInMemoryStore(cm)
		p.setCachedBackends(p.backends)
		p.touchHealthy()
		p.setReady(true)
		if !noRouter {
			if _, err := cli.Delete(ctx, c31LeasePrefix+"/", clientv3.WithPrefix()); err != nil {
				inconclusive("etcd delete: %v", err)
			}
			keys := make([]string, 0, len(routes))
			for k := range routes {
				keys = append(keys, k)
			}
			sort.Strings(keys)
			for _, k := range keys {
				if _, err := cli.Put(ctx, c31LeasePrefix+"/"+k, routes[k]); err != nil {
					inconclusive("etcd put: %v", err)
				}
			}
			router, err := metadata.NewPartitionRouter(ctx, cli, logger)
			if err != nil {
				inconclusive("partition router: %v", err)
			}
			defer router.Stop()
			p.router = router
		}

		// the client's wire request
		wire := kmsg.NewRequestFormatter(kmsg.FormatterClientID("vf-c31")).AppendRequest(nil, req, 4242)[4:]
		header := &protocol.RequestHeader{APIKey: protocol.APIKeyProduce, APIVersion: req.Version, CorrelationID: 4242, ClientID: kmsg.StringPtr("vf-c31")}
		pool := newConnPool(p.dialTimeout)
		resp, err := p.handleProduceRouting(ctx, header, append([]byte(nil), wire...), pool)
		pool.Close()
		for i := 0; i < nb; i++ {
			if berr := backends[i].barrier(); berr != nil {
				inconclusive("backend barrier: %v", berr)
			}
		}
		st.Class(fmt.Sprintf("acks:%d", req.Acks))
		st.Class(fmt.Sprintf("groups:%d", len(groupSet)))
		if noRouter {
			st.Class("no-router")
		}
		rs := c31RoutingSample{Acks: req.Acks, Version: req.Version, Backends: nb, Groups: len(groupSet), NoRouter: noRouter, Request: sample}
		switch {
		case err != nil && info.expectReject:
			st.Class("rejected(bad checksum/algorithm as generated)")
			return
		case err != nil:
			st.Class("rejected(clean input)")
			rs.Request.Err = err.Error()
			st.Sample(rs)
			return
		}
		if req.Acks == 0 && resp != nil {
			t.Fatalf("acks=0 produce got a response of %d bytes", len(resp))
		}

		// what the backends received, keyed by topic/partition
		type got struct {
			records []byte
			backend int
		}
		received := map[string][]got{}
		frames := 0
		for i := 0; i < nb; i++ {
			backends[i].mu.Lock()
			fr := append([][]byte(nil), backends[i].frames...)
			backends[i].mu.Unlock()
			for _, f := range fr {
				frames++
				_, _, preq, perr := c31ParseProduceFrame(f)
				if perr != nil {
					t.Fatalf("backend %d received a frame that is not a produce request (%d bytes: %v); acks=%d, %d routing group(s), %d flagged record(s) in the request",
						i, len(f), perr, req.Acks, len(groupSet), sample.Flagged)
				}
				for _, tp := range preq.Topics {
					for _, pp := range tp.Partitions {
						k := fmt.Sprintf("%s/%d", tp.Topic, pp.Partition)
						received[k] = append(received[k], got{records: pp.Records, backend: i})
					}
				}
			}
		}
		rs.Frames = frames
		// acks != 0: the proxy's reply tells which partitions it reports as failed (e.g. a
		// group whose only backend was already used by another group in this fan-out);
		// such a partition may legitimately not have been delivered.
		reported := map[string]int16{}
		if req.Acks != 0 {
			body := resp
			hdr := 4
			if req.Version >= 9 {
				hdr = 5
			}
			pr := kmsg.NewPtrProduceResponse()
			pr.Version = req.Version
			if len(body) < hdr || pr.ReadFrom(body[hdr:]) != nil {
				t.Fatalf("acks=%d produce: the proxy's reply (%d bytes) is not a produce response", req.Acks, len(resp))
			}
			for _, tp := range pr.Topics {
				for _, pp := range tp.Partitions {
					reported[fmt.Sprintf("%s/%d", tp.Topic, pp.Partition)] = pp.ErrorCode
				}
			}
		}
		// assemble the forwarded request in the order of the model
		out := &kmsg.ProduceRequest{}
		var delivered []c31Topic
		for _, tp := range topics {
			ot := kmsg.ProduceRequestTopic{Topic: tp.name}
			dt := c31Topic{name: tp.name}
			for _, pp := range tp.parts {
				k := fmt.Sprintf("%s/%d", tp.name, pp.index)
				g := received[k]
				if code, ok := reported[k]; len(g) == 0 && req.Acks != 0 && ok && code != 0 {
					st.Class("partition reported failed by the proxy and not delivered")
					continue
				}
				dt.parts = append(dt.parts, pp)
				if len(g) == 0 {
					t.Fatalf("topic %q partition %d (%d batches, %d bytes) never reached a backend; acks=%d, %d routing group(s), %d frame(s) received in total",
						tp.name, pp.index, len(pp.batches), len(pp.raw), req.Acks, len(groupSet), frames)
				}
				if len(g) > 1 {
					t.Fatalf("topic %q partition %d was delivered %d times although every backend acknowledged it", tp.name, pp.index, len(g))
				}
				delete(received, k)
				ot.Partitions = append(ot.Partitions, kmsg.ProduceRequestTopicPartition{Partition: pp.index, Records: g[0].records})
			}
			out.Topics = append(out.Topics, ot)
			delivered = append(delivered, dt)
		}
		for k := range received {
			t.Fatalf("a backend received partition %s which the client did not send", k)
		}
		if v := c31Verify(m, fs, decomp, delivered, out, pre); v != "" {
			t.Fatalf("as received by the backends (acks=%d, %d routing group(s)): %s", req.Acks, len(groupSet), v)
		}
		rs.Rewritten = sample.Flagged > 0
		if sample.Flagged > 0 {
			st.Class("rewritten")
			if req.Acks == 0 {
				st.Class("acks=0 and rewritten")
			}
			if req.Acks == 0 || len(groupSet) >= 2 {
				st.NonTrivial(req.Acks, req.Version, nb, len(groupSet), noRouter, sample.Topics, sample.Parts, sample.Batches, sample.Records, sample.Flagged, sample.Codecs, len(wire))
				st.Sample(rs)
			}
		} else {
			st.Class("not-rewritten(forwarded as is)")
		}
	})
}
