//go:build verif

package main

import (
	"bufio"
	"context"
	"encoding/binary"
	"fmt"
	"io"
	"log/slog"
	"net"
	"net/url"
	"os"
	"path/filepath"
	"sort"
	"strings"
	"sync"
	"syscall"
	"testing"
	"time"

	"github.com/KafScale/platform/pkg/metadata"
	"github.com/KafScale/platform/pkg/protocol"
	"github.com/twmb/franz-go/pkg/kmsg"
	clientv3 "go.etcd.io/etcd/client/v3"
	"go.etcd.io/etcd/server/v3/embed"
	"pgregory.net/rapid"
	"verif.local/vfkit"
)

// C27: produce / fetch through the proxy: one reply entry per requested topic-partition,
// success only if a broker reported success, a produce partition is re-sent only after a
// NOT_LEADER answer (so no record is written twice).
//
// Real proxy (handleConnection over a net.Pipe), 2-3 scripted fake brokers on loopback
// sockets, routing table = real metadata.PartitionRouter loaded from lease keys in an
// embedded etcd (one etcd per test function, one router per case).

// ---------------------------------------------------------------- embedded etcd

func c27FreePort() (int, error) {
	ln, err := net.Listen("tcp", "127.0.0.1:0")
	if err != nil {
		return 0, err
	}
	defer ln.Close()
	return ln.Addr().(*net.TCPAddr).Port, nil
}

func c27StartEtcd() (endpoint string, stop func(), err error) {
	for attempt := 0; attempt < 6; attempt++ {
		var cp, pp int
		if cp, err = c27FreePort(); err != nil {
			continue
		}
		if pp, err = c27FreePort(); err != nil {
			continue
		}
		var dir string
		if dir, err = os.MkdirTemp("", "vf-c27-etcd-"); err != nil {
			continue
		}
		cfg := embed.NewConfig()
		cfg.Dir = dir
		cfg.Logger = "zap"
		cfg.LogLevel = "error"
		cfg.LogOutputs = []string{filepath.Join(dir, "etcd.log")}
		cfg.UnsafeNoFsync = true
		cu, _ := url.Parse(fmt.Sprintf("http://127.0.0.1:%d", cp))
		pu, _ := url.Parse(fmt.Sprintf("http://127.0.0.1:%d", pp))
		cfg.ListenClientUrls = []url.URL{*cu}
		cfg.AdvertiseClientUrls = cfg.ListenClientUrls
		cfg.ListenPeerUrls = []url.URL{*pu}
		cfg.AdvertisePeerUrls = cfg.ListenPeerUrls
		cfg.InitialCluster = cfg.InitialClusterFromName(cfg.Name)
		var e *embed.Etcd
		if e, err = embed.StartEtcd(cfg); err != nil {
			_ = os.RemoveAll(dir)
			time.Sleep(time.Duration(attempt+1) * 50 * time.Millisecond)
			continue
		}
		select {
		case <-e.Server.ReadyNotify():
		case <-time.After(30 * time.Second):
			e.Close()
			_ = os.RemoveAll(dir)
			err = fmt.Errorf("embedded etcd not ready after 30s")
			continue
		}
		return "http://" + e.Clients[0].Addr().String(), func() { e.Close(); _ = os.RemoveAll(dir) }, nil
	}
	return "", nil, err
}

// ---------------------------------------------------------------- case description

type c27Behav int

const (
	c27OK              c27Behav = iota // read, decide, well-formed reply
	c27CloseBeforeRead                 // close as soon as bytes arrive, nothing parsed
	c27CloseAfterRead                  // read + decide (a real broker may have appended), close without reply
	c27Garbage                         // read + decide, reply frame shorter than a response header
	c27Truncated                       // read + decide, reply frame cut in the middle of the body
	c27PartialFrame                    // read + decide, announce N bytes, send fewer, close
	c27WrongCorr                       // read + decide, well-formed reply with another correlation id
	c27ReplyThenClose                  // well-formed reply, then the connection is closed (stale in the proxy pool)
	// replies that decode but do not match the sub-request (finding C27-incomplete-backend-reply)
	c27Omit      // last topic (>=2 topics) or last partition entry missing
	c27EmptyBody // no topics at all, error code 0 (what the real broker's buildErrorResponse sends)
	c27Extra     // an additional partition entry that was never requested
	c27DupEntry  // the first partition entry twice
)

const c27FindingIncomplete = "C27-incomplete-backend-reply"

func (b c27Behav) mismatched() bool {
	return b == c27Omit || b == c27EmptyBody || b == c27Extra || b == c27DupEntry
}

var c27BehavNames = []string{"ok", "close-before-read", "close-after-read", "garbage", "truncated", "partial-frame", "wrong-corr", "reply-then-close",
	"omit-entries", "empty-body", "extra-entry", "duplicate-entry"}

func (b c27Behav) String() string { return c27BehavNames[b] }

// reply carried the broker's per-partition answers in a decodable form
func (b c27Behav) reported() bool {
	return b == c27OK || b == c27WrongCorr || b == c27ReplyThenClose || b.mismatched()
}

type c27TP struct {
	Topic string // name
	Part  int32
}

type c27Script struct {
	Down  bool               // nothing listens on the broker's address (connection refused)
	Behav []c27Behav         // by index of the request frame seen by this broker
	Codes map[string][]int16 // "topic/part" -> answer for the n-th sighting
}

type c27ReqPart struct {
	Part int32
	Tag  string // produce: the (unique) records payload
}

type c27ReqTopic struct {
	Name  string
	ByID  bool
	Parts []c27ReqPart
}

type c27Request struct {
	Kind    string // produce | fetch
	Version int16
	Acks    int16
	Topics  []c27ReqTopic
}

type c27Case struct {
	Brokers   []c27Script
	Routes    map[string]string // "topic/part" -> broker id string ("" = no lease)
	RealOwner map[string]int
	NoRouter  bool
	Static    bool // proxy configured with a static backend list
	Requests  []c27Request
}

var c27Topics = []string{"a", "b", "c"} // known to cluster metadata
const c27UnknownTopic = "ghost"         // not in cluster metadata (its id cannot be resolved)

func c27TopicID(name string) [16]byte { return metadata.TopicIDForName(name) }

func c27Key(topic string, part int32) string { return fmt.Sprintf("%s/%d", topic, part) }

func c27DrawCase(t *rapid.T) c27Case {
	var c c27Case
	nb := rapid.SampledFrom([]int{3, 2}).Draw(t, "brokers")
	c.NoRouter = rapid.IntRange(0, 11).Draw(t, "noRouterDie") == 7
	c.Static = rapid.IntRange(0, 2).Draw(t, "staticDie") != 1
	c.Routes = map[string]string{}
	c.RealOwner = map[string]int{}

	nreq := rapid.SampledFrom([]int{1, 1, 2}).Draw(t, "nreq")
	tagN := 0
	used := map[string]c27TP{}
	for r := 0; r < nreq; r++ {
		rq := c27Request{Kind: rapid.SampledFrom([]string{"produce", "fetch", "produce"}).Draw(t, "kind")}
		if rq.Kind == "produce" {
			rq.Version = rapid.SampledFrom([]int16{9, 7, 3, 8, 5}).Draw(t, "pver")
			rq.Acks = rapid.SampledFrom([]int16{-1, 1}).Draw(t, "acks")
		} else {
			rq.Version = rapid.SampledFrom([]int16{13, 12, 11}).Draw(t, "fver")
		}
		allowDup := rapid.IntRange(0, 9).Draw(t, "dupDie") == 6
		pool := append([]string(nil), c27Topics...)
		if rq.Kind == "fetch" {
			pool = append(pool, c27UnknownTopic)
		}
		ntop := rapid.SampledFrom([]int{2, 1, 3}).Draw(t, "ntopics")
		names := rapid.Permutation(pool).Draw(t, "topicOrder")
		for ti := 0; ti < ntop; ti++ {
			name := names[ti%len(names)]
			if allowDup && ti > 0 && rapid.Bool().Draw(t, "dupTopic") {
				name = rq.Topics[0].Name
			}
			tp := c27ReqTopic{Name: name, ByID: rq.Kind == "fetch" && rq.Version >= 13}
			np := rapid.SampledFrom([]int{2, 3, 1, 4}).Draw(t, "nparts")
			order := rapid.Permutation([]int32{0, 1, 2, 3}).Draw(t, "partOrder")
			for pi := 0; pi < np; pi++ {
				part := order[pi]
				if allowDup && pi > 0 && rapid.Bool().Draw(t, "dupPart") {
					part = tp.Parts[0].Part
				}
				tagN++
				tp.Parts = append(tp.Parts, c27ReqPart{Part: part, Tag: fmt.Sprintf("records-%d-%s-%d-#%d", r, name, part, tagN)})
				used[c27Key(name, part)] = c27TP{name, part}
			}
			rq.Topics = append(rq.Topics, tp)
		}
		c.Requests = append(c.Requests, rq)
	}

	keys := make([]string, 0, len(used))
	for k := range used {
		keys = append(keys, k)
	}
	sort.Strings(keys)
	for _, k := range keys {
		// who really owns the partition (answers success), and what the lease table says
		real := rapid.SampledFrom([]int{0, 1, 2, -1, 0, 1, 2}).Draw(t, "realOwner-"+k)
		if real >= nb {
			real = nb - 1
		}
		c.RealOwner[k] = real
		switch rapid.SampledFrom([]string{"right", "other", "right", "none", "right", "ghost"}).Draw(t, "route-"+k) {
		case "right":
			if real >= 0 {
				c.Routes[k] = fmt.Sprint(real)
			} else {
				c.Routes[k] = fmt.Sprint(rapid.IntRange(0, nb-1).Draw(t, "routeTo-"+k))
			}
		case "other":
			c.Routes[k] = fmt.Sprint(rapid.IntRange(0, nb-1).Draw(t, "routeTo-"+k))
		case "ghost":
			c.Routes[k] = "9" // lease held by a broker id that cluster metadata does not list
		}
	}
	behavGen := rapid.SampledFrom([]c27Behav{c27OK, c27OK, c27CloseAfterRead, c27Omit, c27OK, c27EmptyBody, c27OK, c27Extra, c27DupEntry, c27OK, c27ReplyThenClose, c27OK, c27Truncated, c27OK, c27CloseBeforeRead,
		c27OK, c27WrongCorr, c27OK, c27Garbage, c27OK, c27PartialFrame, c27OK})
	downs := 0
	for b := 0; b < nb; b++ {
		s := c27Script{Codes: map[string][]int16{}}
		if rapid.IntRange(0, 9).Draw(t, fmt.Sprintf("down-%d", b)) == 8 && downs < nb-1 {
			s.Down = true
			downs++
		}
		s.Behav = rapid.SliceOfN(behavGen, 6, 6).Draw(t, fmt.Sprintf("behav-%d", b))
		for _, k := range keys {
			var g *rapid.Generator[int16]
			if c.RealOwner[k] == b {
				g = rapid.SampledFrom([]int16{0, 0, 0, 6, 0, 0, 7, 0, 0, 3, 0, 0})
			} else {
				g = rapid.SampledFrom([]int16{6, 6, 6, 0, 6, 6, 3, 6, 6, 7, 6, 6})
			}
			s.Codes[k] = rapid.SliceOfN(g, 3, 3).Draw(t, fmt.Sprintf("codes-%d-%s", b, k))
		}
		c.Brokers = append(c.Brokers, s)
	}
	return c
}

// ---------------------------------------------------------------- fake brokers

type c27Answer struct {
	Key   string // topic key as seen on the wire: name, or "id:<hex>" for fetch v13
	Part  int32
	Tag   string
	Code  int16
	Token int64 // unique base offset / high watermark handed out with this answer
}

type c27Delivery struct {
	Seq     int
	Broker  int
	Behav   c27Behav
	Kind    string
	Answers []c27Answer
}

type c27Cluster struct {
	mu         sync.Mutex
	log        []c27Delivery
	token      int64
	harnessErr []string
	wg         sync.WaitGroup
	brokers    []*c27Broker
}

type c27Broker struct {
	id      int
	cl      *c27Cluster
	script  c27Script
	ln      net.Listener
	fd      int // bound, non-listening socket of a "down" broker
	addr    string
	port    int32
	reqs    int
	sight   map[string]int
	idNames map[[16]byte]string
}

func (cl *c27Cluster) errf(format string, a ...any) {
	cl.mu.Lock()
	cl.harnessErr = append(cl.harnessErr, fmt.Sprintf(format, a...))
	cl.mu.Unlock()
}

// c27BoundSocket reserves a loopback port without listening on it: connecting is refused
// and no other process can take the port while the case runs.
func c27BoundSocket() (fd int, port int, err error) {
	fd, err = syscall.Socket(syscall.AF_INET, syscall.SOCK_STREAM, 0)
	if err != nil {
		return -1, 0, err
	}
	sa := &syscall.SockaddrInet4{Port: 0, Addr: [4]byte{127, 0, 0, 1}}
	if err = syscall.Bind(fd, sa); err != nil {
		syscall.Close(fd)
		return -1, 0, err
	}
	got, err := syscall.Getsockname(fd)
	if err != nil {
		syscall.Close(fd)
		return -1, 0, err
	}
	return fd, got.(*syscall.SockaddrInet4).Port, nil
}

func c27StartCluster(scripts []c27Script) (*c27Cluster, error) {
	cl := &c27Cluster{token: 1000}
	for i, s := range scripts {
		b := &c27Broker{id: i, cl: cl, script: s, fd: -1, sight: map[string]int{}, idNames: map[[16]byte]string{}}
		for _, n := range append(append([]string(nil), c27Topics...), c27UnknownTopic) {
			b.idNames[c27TopicID(n)] = n
		}
		if s.Down {
			fd, port, err := c27BoundSocket()
			if err != nil {
				cl.stop()
				return nil, err
			}
			b.fd, b.port = fd, int32(port)
		} else {
			ln, err := net.Listen("tcp4", "127.0.0.1:0")
			if err != nil {
				cl.stop()
				return nil, err
			}
			b.ln, b.port = ln, int32(ln.Addr().(*net.TCPAddr).Port)
			cl.wg.Add(1)
			go b.acceptLoop()
		}
		b.addr = fmt.Sprintf("127.0.0.1:%d", b.port)
		cl.brokers = append(cl.brokers, b)
	}
	return cl, nil
}

func (cl *c27Cluster) stop() {
	for _, b := range cl.brokers {
		if b.ln != nil {
			_ = b.ln.Close()
		}
		if b.fd >= 0 {
			_ = syscall.Close(b.fd)
			b.fd = -1
		}
	}
	cl.wg.Wait()
}

func (b *c27Broker) acceptLoop() {
	defer b.cl.wg.Done()
	for {
		conn, err := b.ln.Accept()
		if err != nil {
			return
		}
		b.cl.wg.Add(1)
		go b.serve(conn)
	}
}

func (b *c27Broker) serve(conn net.Conn) {
	defer b.cl.wg.Done()
	defer conn.Close()
	br := bufio.NewReader(conn)
	for {
		_ = conn.SetReadDeadline(time.Now().Add(90 * time.Second))
		if _, err := br.Peek(1); err != nil {
			return
		}
		b.cl.mu.Lock()
		k := b.reqs
		b.reqs++
		b.cl.mu.Unlock()
		behav := c27OK
		if k < len(b.script.Behav) {
			behav = b.script.Behav[k]
		}
		if behav == c27CloseBeforeRead {
			b.cl.mu.Lock()
			b.cl.log = append(b.cl.log, c27Delivery{Seq: len(b.cl.log), Broker: b.id, Behav: behav})
			b.cl.mu.Unlock()
			return
		}
		fr, err := protocol.ReadFrame(br)
		if err != nil {
			b.cl.errf("broker %d: incomplete request frame from the proxy: %v", b.id, err)
			return
		}
		hdr, req, err := protocol.ParseRequest(fr.Payload)
		if err != nil {
			b.cl.errf("broker %d: request from the proxy does not parse: %v", b.id, err)
			return
		}
		reply, ok := b.decide(behav, hdr, req)
		if !ok {
			return
		}
		switch behav {
		case c27OK, c27Omit, c27EmptyBody, c27Extra, c27DupEntry:
			if protocol.WriteFrame(conn, reply) != nil {
				return
			}
		case c27ReplyThenClose:
			_ = protocol.WriteFrame(conn, reply)
			return
		case c27WrongCorr:
			binary.BigEndian.PutUint32(reply[:4], uint32(hdr.CorrelationID+7))
			if protocol.WriteFrame(conn, reply) != nil {
				return
			}
		case c27CloseAfterRead:
			return
		case c27Garbage:
			_ = protocol.WriteFrame(conn, reply[:len(reply)%4]) // 0..3 bytes: not even a response header
			return
		case c27Truncated:
			cut := 4 + (len(reply)-4)/2
			_ = protocol.WriteFrame(conn, reply[:cut])
			return
		case c27PartialFrame:
			var lb [4]byte
			binary.BigEndian.PutUint32(lb[:], uint32(len(reply)))
			_, _ = conn.Write(lb[:])
			_, _ = conn.Write(reply[:len(reply)/2])
			return
		}
	}
}

func (b *c27Broker) code(topic string, part int32) int16 {
	k := c27Key(topic, part)
	codes := b.script.Codes[k]
	n := b.sight[k]
	b.sight[k]++
	if len(codes) == 0 {
		return protocol.NOT_LEADER_OR_FOLLOWER
	}
	if n >= len(codes) {
		n = len(codes) - 1
	}
	return codes[n]
}

// decide logs the delivery and builds the well-formed reply bytes (header + body).
func (b *c27Broker) decide(behav c27Behav, hdr *protocol.RequestHeader, req kmsg.Request) ([]byte, bool) {
	b.cl.mu.Lock()
	defer b.cl.mu.Unlock()
	d := c27Delivery{Seq: len(b.cl.log), Broker: b.id, Behav: behav}
	var resp kmsg.Response
	switch r := req.(type) {
	case *kmsg.ProduceRequest:
		d.Kind = "produce"
		out := kmsg.NewPtrProduceResponse()
		out.Version = r.Version
		seen := map[string]bool{} // one sighting per (request, partition): duplicates get the same answer
		ans := map[string]int16{}
		for _, tp := range r.Topics {
			rt := kmsg.NewProduceResponseTopic()
			rt.Topic = tp.Topic
			for _, p := range tp.Partitions {
				k := c27Key(tp.Topic, p.Partition)
				if !seen[k] {
					seen[k] = true
					ans[k] = b.code(tp.Topic, p.Partition)
				}
				b.cl.token++
				a := c27Answer{Key: tp.Topic, Part: p.Partition, Tag: string(p.Records), Code: ans[k], Token: b.cl.token}
				d.Answers = append(d.Answers, a)
				rp := kmsg.NewProduceResponseTopicPartition()
				rp.Partition = p.Partition
				rp.ErrorCode = a.Code
				rp.BaseOffset = -1
				if a.Code == 0 {
					rp.BaseOffset = a.Token
				}
				rt.Partitions = append(rt.Partitions, rp)
			}
			out.Topics = append(out.Topics, rt)
		}
		switch {
		case behav == c27EmptyBody:
			out.Topics = nil
		case behav == c27Omit && len(out.Topics) >= 2:
			out.Topics = out.Topics[:len(out.Topics)-1]
		case behav == c27Omit && len(out.Topics) == 1:
			lt := &out.Topics[0]
			if lt.Partitions = lt.Partitions[:len(lt.Partitions)-1]; len(lt.Partitions) == 0 {
				out.Topics = nil
			}
		case behav == c27Extra && len(out.Topics) > 0:
			b.cl.token++
			rp := kmsg.NewProduceResponseTopicPartition()
			rp.Partition, rp.BaseOffset = 77, b.cl.token
			out.Topics[0].Partitions = append(out.Topics[0].Partitions, rp)
		case behav == c27DupEntry && len(out.Topics) > 0 && len(out.Topics[0].Partitions) > 0:
			out.Topics[0].Partitions = append(out.Topics[0].Partitions, out.Topics[0].Partitions[0])
		}
		resp = out
	case *kmsg.FetchRequest:
		d.Kind = "fetch"
		out := kmsg.NewPtrFetchResponse()
		out.Version = r.Version
		out.SessionID = r.SessionID
		seen := map[string]bool{}
		ans := map[string]int16{}
		for _, tp := range r.Topics {
			rt := kmsg.NewFetchResponseTopic()
			name, key := tp.Topic, tp.Topic
			if r.Version >= 13 {
				rt.TopicID = tp.TopicID
				name = b.idNames[tp.TopicID]
				key = fmt.Sprintf("id:%x", tp.TopicID)
			} else {
				rt.Topic = tp.Topic
			}
			for _, p := range tp.Partitions {
				k := c27Key(name, p.Partition)
				if !seen[k] {
					seen[k] = true
					ans[k] = b.code(name, p.Partition)
				}
				b.cl.token++
				a := c27Answer{Key: key, Part: p.Partition, Code: ans[k], Token: b.cl.token}
				d.Answers = append(d.Answers, a)
				rp := kmsg.NewFetchResponseTopicPartition()
				rp.Partition = p.Partition
				rp.ErrorCode = a.Code
				rp.HighWatermark = -1
				if a.Code == 0 {
					rp.HighWatermark = a.Token
					rp.LastStableOffset = a.Token
					rp.LogStartOffset = 0
				}
				rt.Partitions = append(rt.Partitions, rp)
			}
			out.Topics = append(out.Topics, rt)
		}
		switch {
		case behav == c27EmptyBody:
			out.Topics = nil
		case behav == c27Omit && len(out.Topics) >= 2:
			out.Topics = out.Topics[:len(out.Topics)-1]
		case behav == c27Omit && len(out.Topics) == 1:
			lt := &out.Topics[0]
			if lt.Partitions = lt.Partitions[:len(lt.Partitions)-1]; len(lt.Partitions) == 0 {
				out.Topics = nil
			}
		case behav == c27Extra && len(out.Topics) > 0:
			b.cl.token++
			rp := kmsg.NewFetchResponseTopicPartition()
			rp.Partition, rp.HighWatermark, rp.LastStableOffset, rp.LogStartOffset = 77, b.cl.token, b.cl.token, 0
			out.Topics[0].Partitions = append(out.Topics[0].Partitions, rp)
		case behav == c27DupEntry && len(out.Topics) > 0 && len(out.Topics[0].Partitions) > 0:
			out.Topics[0].Partitions = append(out.Topics[0].Partitions, out.Topics[0].Partitions[0])
		}
		resp = out
	default:
		b.cl.harnessErr = append(b.cl.harnessErr, fmt.Sprintf("broker %d: unexpected request type %T", b.id, req))
		return nil, false
	}
	b.cl.log = append(b.cl.log, d)
	buf := make([]byte, 4, 64)
	binary.BigEndian.PutUint32(buf, uint32(hdr.CorrelationID))
	if resp.IsFlexible() {
		buf = append(buf, 0)
	}
	return resp.AppendTo(buf), true
}

// ---------------------------------------------------------------- client side

func c27EncodeRequest(rq c27Request, corr int32) []byte {
	var req kmsg.Request
	if rq.Kind == "produce" {
		r := kmsg.NewPtrProduceRequest()
		r.Version = rq.Version
		r.Acks = rq.Acks
		r.TimeoutMillis = 1500
		for _, tp := range rq.Topics {
			rt := kmsg.NewProduceRequestTopic()
			rt.Topic = tp.Name
			for _, p := range tp.Parts {
				rp := kmsg.NewProduceRequestTopicPartition()
				rp.Partition = p.Part
				rp.Records = []byte(p.Tag)
				rt.Partitions = append(rt.Partitions, rp)
			}
			r.Topics = append(r.Topics, rt)
		}
		req = r
	} else {
		r := kmsg.NewPtrFetchRequest()
		r.Version = rq.Version
		r.MaxWaitMillis = 10
		r.MinBytes = 1
		r.MaxBytes = 1 << 20
		for _, tp := range rq.Topics {
			rt := kmsg.NewFetchRequestTopic()
			if tp.ByID {
				rt.TopicID = c27TopicID(tp.Name)
			} else {
				rt.Topic = tp.Name
			}
			for _, p := range tp.Parts {
				rp := kmsg.NewFetchRequestTopicPartition()
				rp.Partition = p.Part
				rp.FetchOffset = 0
				rp.PartitionMaxBytes = 1 << 16
				rt.Partitions = append(rt.Partitions, rp)
			}
			r.Topics = append(r.Topics, rt)
		}
		req = r
	}
	f := kmsg.NewRequestFormatter(kmsg.FormatterClientID("vf-c27"))
	return f.AppendRequest(nil, req, corr)[4:]
}

type c27Entry struct {
	Key   string
	Part  int32
	Code  int16
	Token int64
}

func c27DecodeReply(rq c27Request, payload []byte) (int32, []c27Entry, error) {
	if len(payload) < 4 {
		return 0, nil, fmt.Errorf("reply of %d bytes has no correlation id", len(payload))
	}
	corr := int32(binary.BigEndian.Uint32(payload[:4]))
	body := payload[4:]
	var out []c27Entry
	if rq.Kind == "produce" {
		resp := kmsg.NewPtrProduceResponse()
		resp.Version = rq.Version
		if resp.IsFlexible() {
			if len(body) == 0 || body[0] != 0 {
				return corr, nil, fmt.Errorf("flexible reply header without empty tag section")
			}
			body = body[1:]
		}
		if err := resp.ReadFrom(body); err != nil {
			return corr, nil, err
		}
		for _, tp := range resp.Topics {
			for _, p := range tp.Partitions {
				out = append(out, c27Entry{Key: tp.Topic, Part: p.Partition, Code: p.ErrorCode, Token: p.BaseOffset})
			}
		}
		return corr, out, nil
	}
	resp := kmsg.NewPtrFetchResponse()
	resp.Version = rq.Version
	if resp.IsFlexible() {
		if len(body) == 0 || body[0] != 0 {
			return corr, nil, fmt.Errorf("flexible reply header without empty tag section")
		}
		body = body[1:]
	}
	if err := resp.ReadFrom(body); err != nil {
		return corr, nil, err
	}
	for _, tp := range resp.Topics {
		key := tp.Topic
		if rq.Version >= 13 {
			key = fmt.Sprintf("id:%x", tp.TopicID)
		}
		for _, p := range tp.Partitions {
			out = append(out, c27Entry{Key: key, Part: p.Partition, Code: p.ErrorCode, Token: p.HighWatermark})
		}
	}
	return corr, out, nil
}

func c27WireKey(rq c27Request, tp c27ReqTopic) string {
	if rq.Kind == "fetch" && rq.Version >= 13 {
		return fmt.Sprintf("id:%x", c27TopicID(tp.Name))
	}
	return tp.Name
}

type c27Outcome struct {
	Replied  bool
	Corr     int32
	Entries  []c27Entry
	DecodeEr error
	LogFrom  int
	LogTo    int
}

type c27Env struct {
	cli *clientv3.Client
}

const c27LeasePrefix = "/kafscale/partition-leases"

// c27Run executes one case against the real proxy and returns what the client and the
// brokers saw. Errors returned are environment problems (inconclusive), never verdicts.
func c27Run(env *c27Env, c c27Case) (outs []c27Outcome, log []c27Delivery, harnessErrs []string, err error) {
	ctx, cancel := context.WithTimeout(context.Background(), 120*time.Second)
	defer cancel()
	logger := slog.New(slog.NewTextHandler(io.Discard, nil))

	cl, err := c27StartCluster(c.Brokers)
	if err != nil {
		return nil, nil, nil, fmt.Errorf("fake brokers: %w", err)
	}
	stopped := false
	defer func() {
		if !stopped {
			cl.stop()
		}
	}()

	// cluster metadata as the operator would publish it
	cm := metadata.ClusterMetadata{ControllerID: 0, ClusterID: kmsg.StringPtr("vf")}
	var addrs []string
	for _, b := range cl.brokers {
		cm.Brokers = append(cm.Brokers, protocol.MetadataBroker{NodeID: int32(b.id), Host: "127.0.0.1", Port: b.port})
		addrs = append(addrs, b.addr)
	}
	for _, n := range c27Topics {
		mt := protocol.MetadataTopic{Topic: kmsg.StringPtr(n), TopicID: c27TopicID(n)}
		for i := int32(0); i < 4; i++ {
			mt.Partitions = append(mt.Partitions, protocol.MetadataPartition{Partition: i, Leader: i % int32(len(cl.brokers)), Replicas: []int32{0}, ISR: []int32{0}})
		}
		cm.Topics = append(cm.Topics, mt)
	}
	p := &proxy{advertisedHost: "proxy.vf", advertisedPort: 19092, store: metadata.NewInMemoryStore(cm), logger: logger,
		dialTimeout: 5 * time.Second, cacheTTL: time.Minute, brokerAddrs: map[string]string{}, topicNames: map[[16]byte]string{},
		backendRetries: 2, backendBackoff: time.Millisecond, apiVersions: generateProxyApiVersions()}
	if c.Static {
		p.backends = addrs
		p.setCachedBackends(addrs)
		p.touchHealthy()
		p.setReady(true)
	}
	p.refreshMetadataCache(ctx) // what initMetadataCache does at start-up
	if !p.isReady() {
		return nil, nil, nil, fmt.Errorf("proxy did not become ready from cluster metadata")
	}

	if !c.NoRouter {
		if _, err := env.cli.Delete(ctx, c27LeasePrefix+"/", clientv3.WithPrefix()); err != nil {
			return nil, nil, nil, fmt.Errorf("etcd delete: %w", err)
		}
		var ops []clientv3.Op
		rk := make([]string, 0, len(c.Routes))
		for k := range c.Routes {
			rk = append(rk, k)
		}
		sort.Strings(rk)
		for _, k := range rk {
			ops = append(ops, clientv3.OpPut(c27LeasePrefix+"/"+k, c.Routes[k]))
		}
		if len(ops) > 0 {
			if _, err := env.cli.Txn(ctx).Then(ops...).Commit(); err != nil {
				return nil, nil, nil, fmt.Errorf("etcd put leases: %w", err)
			}
		}
		router, err := metadata.NewPartitionRouter(ctx, env.cli, logger)
		if err != nil {
			return nil, nil, nil, fmt.Errorf("partition router: %w", err)
		}
		defer router.Stop()
		p.router = router
	}

	cliConn, srvConn := net.Pipe()
	done := make(chan struct{})
	go func() { defer close(done); p.handleConnection(ctx, srvConn) }()
	var clientErr error
	for i, rq := range c.Requests {
		o := c27Outcome{}
		cl.mu.Lock()
		o.LogFrom = len(cl.log)
		cl.mu.Unlock()
		_ = cliConn.SetDeadline(time.Now().Add(60 * time.Second))
		werr := protocol.WriteFrame(cliConn, c27EncodeRequest(rq, int32(1000+i)))
		var fr *protocol.Frame
		var rerr error
		if werr == nil {
			fr, rerr = protocol.ReadFrame(cliConn)
		}
		for _, e := range []error{werr, rerr} {
			if e != nil && strings.Contains(e.Error(), "timeout") {
				clientErr = fmt.Errorf("client timed out waiting for the proxy (request %d): %v", i, e)
			}
		}
		if werr == nil && rerr == nil {
			o.Replied = true
			o.Corr, o.Entries, o.DecodeEr = c27DecodeReply(rq, fr.Payload)
		}
		cl.mu.Lock()
		o.LogTo = len(cl.log)
		cl.mu.Unlock()
		outs = append(outs, o)
		if !o.Replied {
			break
		}
	}
	_ = cliConn.Close()
	<-done
	cl.stop()
	stopped = true
	cl.mu.Lock()
	log = append(log, cl.log...)
	harnessErrs = append(harnessErrs, cl.harnessErr...)
	cl.mu.Unlock()
	return outs, log, harnessErrs, clientErr
}

// ---------------------------------------------------------------- oracle

func c27Multiset(keys []string) string {
	sort.Strings(keys)
	return strings.Join(keys, " ")
}

// c27Judge returns the first violation of the property statement for request i, or "".
func c27Judge(rq c27Request, i int, o c27Outcome, log []c27Delivery) string {
	if !o.Replied {
		return ""
	}
	if o.DecodeEr != nil {
		return fmt.Sprintf("%s v%d reply does not decode: %v", rq.Kind, rq.Version, o.DecodeEr)
	}
	if o.Corr != int32(1000+i) {
		return fmt.Sprintf("%s reply carries correlation id %d, request had %d", rq.Kind, o.Corr, 1000+i)
	}
	// (1) exactly one entry per requested topic-partition
	var want, got []string
	for _, tp := range rq.Topics {
		for _, pt := range tp.Parts {
			want = append(want, fmt.Sprintf("%s/%d", c27WireKey(rq, tp), pt.Part))
		}
	}
	for _, e := range o.Entries {
		got = append(got, fmt.Sprintf("%s/%d", e.Key, e.Part))
	}
	if w, g := c27Multiset(want), c27Multiset(got); w != g {
		return fmt.Sprintf("%s v%d reply entries {%s} differ from requested topic-partitions {%s}", rq.Kind, rq.Version, g, w)
	}
	mine := log[o.LogFrom:o.LogTo]
	// (2) success only if a broker reported success (tokens are unique per answer)
	okTokens := map[string]bool{}
	for _, d := range mine {
		if !(d.Behav.reported() || d.Behav == c27Truncated) {
			continue
		}
		for _, a := range d.Answers {
			if a.Code == 0 {
				okTokens[fmt.Sprintf("%s/%d@%d", a.Key, a.Part, a.Token)] = true
			}
		}
	}
	for _, e := range o.Entries {
		if e.Code == 0 && !okTokens[fmt.Sprintf("%s/%d@%d", e.Key, e.Part, e.Token)] {
			return fmt.Sprintf("%s reply reports %s/%d successful (offset %d) but no broker reported that success; broker log: %s", rq.Kind, e.Key, e.Part, e.Token, c27LogString(mine))
		}
	}
	if rq.Kind != "produce" {
		return ""
	}
	// (3) a produce partition is re-sent only after a NOT_LEADER answer; never accepted twice
	last := map[string]*c27Answer{}
	lastBehav := map[string]c27Behav{}
	accepted := map[string]int{}
	for di := range mine {
		d := mine[di]
		for ai := range d.Answers {
			a := d.Answers[ai]
			if prev, ok := last[a.Tag]; ok {
				if !(prev.Code == protocol.NOT_LEADER_OR_FOLLOWER && lastBehav[a.Tag].reported()) {
					return fmt.Sprintf("produce records %q (%s/%d) were delivered to broker %d after an earlier delivery that was answered code=%d via %q (not a NOT_LEADER rejection); broker log: %s",
						a.Tag, a.Key, a.Part, d.Broker, prev.Code, lastBehav[a.Tag], c27LogString(mine))
				}
			}
			last[a.Tag] = &d.Answers[ai]
			lastBehav[a.Tag] = d.Behav
			if a.Code == 0 {
				accepted[a.Tag]++
				if accepted[a.Tag] > 1 {
					return fmt.Sprintf("produce records %q (%s/%d) were accepted by brokers twice; broker log: %s", a.Tag, a.Key, a.Part, c27LogString(mine))
				}
			}
		}
	}
	return ""
}

func c27LogString(log []c27Delivery) string {
	var sb strings.Builder
	for _, d := range log {
		fmt.Fprintf(&sb, "[#%d broker%d %s", d.Seq, d.Broker, d.Behav)
		for _, a := range d.Answers {
			fmt.Fprintf(&sb, " %s/%d=%d", a.Key, a.Part, a.Code)
		}
		sb.WriteString("] ")
	}
	return sb.String()
}

// c27Shape: fingerprint + non-triviality (request split over >=2 brokers with >=1 scripted failure that fired)
func c27Shape(rq c27Request, o c27Outcome, log []c27Delivery) (nontrivial bool, fp string, classes []string) {
	mine := log[o.LogFrom:o.LogTo]
	brokers := map[int]bool{}
	failure := false
	var parts []string
	for _, d := range mine {
		if d.Behav != c27CloseBeforeRead {
			brokers[d.Broker] = true
		}
		if d.Behav != c27OK {
			failure = true
			classes = append(classes, "behav:"+d.Behav.String())
		}
		s := fmt.Sprintf("b%d:%s", d.Broker, d.Behav)
		for _, a := range d.Answers {
			if a.Code != 0 {
				failure = true
			}
			if a.Code == protocol.NOT_LEADER_OR_FOLLOWER {
				classes = append(classes, "answer:not-leader")
			} else if a.Code != 0 {
				classes = append(classes, "answer:other-error")
			}
			s += fmt.Sprintf(",%d=%d", a.Part, a.Code)
		}
		parts = append(parts, s)
	}
	sort.Strings(parts)
	shape := fmt.Sprintf("%s v%d", rq.Kind, rq.Version)
	for _, tp := range rq.Topics {
		shape += " " + tp.Name + ":"
		for _, p := range tp.Parts {
			shape += fmt.Sprint(p.Part)
		}
	}
	if len(mine) >= 3 {
		classes = append(classes, "deliveries>=3")
	}
	return len(brokers) >= 2 && failure, shape + " | " + strings.Join(parts, ";"), classes
}

func c27Check(t *rapid.T, st *vfkit.Stats, env *c27Env, c c27Case) {
	outs, log, herrs, err := c27Run(env, c)
	if err != nil {
		fmt.Println("VF-INCONCLUSIVE: " + err.Error())
		t.Fatalf("VF-INCONCLUSIVE: %v", err)
	}
	if len(herrs) > 0 {
		// the proxy sent something to a broker that is not a well-formed produce/fetch request
		t.Fatalf("proxy sent a malformed sub-request to a broker: %v (case %+v)", herrs, c)
	}
	for i, o := range outs {
		rq := c.Requests[i]
		st.Class("req:" + rq.Kind)
		if !o.Replied {
			st.Class("no-reply")
			continue
		}
		if v := c27Judge(rq, i, o, log); v != "" {
			t.Fatalf("request %d: %s\nrequest: %+v\nroutes: %v static=%v norouter=%v\nreply: %+v", i, v, rq, c.Routes, c.Static, c.NoRouter, o.Entries)
		}
		nt, fp, classes := c27Shape(rq, o, log)
		for _, cls := range classes {
			st.Class(cls)
		}
		succ, notLeader, timedOut := 0, 0, 0
		for _, e := range o.Entries {
			switch e.Code {
			case 0:
				succ++
			case protocol.NOT_LEADER_OR_FOLLOWER:
				notLeader++
			case protocol.REQUEST_TIMED_OUT:
				timedOut++
			}
		}
		if succ > 0 {
			st.Class("reply:has-success")
		}
		if notLeader > 0 {
			st.Class("reply:has-final-not-leader")
		}
		if timedOut > 0 {
			st.Class("reply:has-timed-out")
		}
		if nt {
			st.Class("nontrivial:" + rq.Kind)
			if st.NonTrivial(fp) {
				st.Sample(map[string]any{"request": rq, "routes": c.Routes, "broker_log": c27LogString(log[o.LogFrom:o.LogTo]), "reply": o.Entries})
			}
		}
	}
	if c.NoRouter {
		st.Class("no-router")
	}
	for _, b := range c.Brokers {
		if b.Down {
			st.Class("broker-down")
		}
	}
}

func TestVF_C27_Fanout(t *testing.T) {
	st := vfkit.NewStats("C27", "fanout")
	defer st.Flush()
	ep, stop, err := c27StartEtcd()
	if err != nil {
		fmt.Println("VF-INCONCLUSIVE: embedded etcd: " + err.Error())
		t.Fatalf("VF-INCONCLUSIVE: embedded etcd: %v", err)
	}
	defer stop()
	cli, err := clientv3.New(clientv3.Config{Endpoints: []string{ep}, DialTimeout: 10 * time.Second})
	if err != nil {
		fmt.Println("VF-INCONCLUSIVE: etcd client: " + err.Error())
		t.Fatalf("VF-INCONCLUSIVE: etcd client: %v", err)
	}
	defer cli.Close()
	env := &c27Env{cli: cli}
	rapid.Check(t, func(t *rapid.T) {
		st.Eval()
		c := c27DrawCase(t)
		if vfkit.Known(c27FindingIncomplete) {
			// listed finding: backends whose decodable reply does not match the sub-request are
			// excluded by construction (they answer completely instead); generated again as soon
			// as the finding is no longer listed
			excluded := false
			for bi := range c.Brokers {
				for k, bh := range c.Brokers[bi].Behav {
					if bh.mismatched() {
						c.Brokers[bi].Behav[k] = c27OK
						excluded = true
					}
				}
			}
			if excluded {
				st.ExcludedCase(c27FindingIncomplete)
			}
		}
		c27Check(t, st, env, c)
	})
}

// c27WitnessCase: one backend, no router, {a/0, a/1}; the backend's first reply has the given shape.
func c27WitnessCase(kind string, version int16, shape c27Behav) c27Case {
	rq := c27Request{Kind: kind, Version: version, Acks: -1, Topics: []c27ReqTopic{{Name: "a", Parts: []c27ReqPart{
		{Part: 0, Tag: "witness-records-a-0"}, {Part: 1, Tag: "witness-records-a-1"}}}}}
	return c27Case{NoRouter: true, Static: true, Routes: map[string]string{}, RealOwner: map[string]int{"a/0": 0, "a/1": 0},
		Brokers:  []c27Script{{Behav: []c27Behav{shape}, Codes: map[string][]int16{"a/0": {0}, "a/1": {0}}}},
		Requests: []c27Request{rq}}
}

// Witness of C27-incomplete-backend-reply, replayed through the same runner and oracle.
func TestVF_C27_Witness(t *testing.T) {
	st := vfkit.NewStats("C27", "witness")
	defer st.Flush()
	var failing []string
	for _, w := range []struct {
		name    string
		kind    string
		version int16
		shape   c27Behav
	}{
		{"produce v7, backend answers only a/0 of {a/0,a/1}", "produce", 7, c27Omit},
		{"fetch v11, backend answers only a/0 of {a/0,a/1}", "fetch", 11, c27Omit},
		{"produce v7, backend sends an empty body with error code 0", "produce", 7, c27EmptyBody},
		{"fetch v11, backend sends an empty body with error code 0", "fetch", 11, c27EmptyBody},
		{"produce v7, backend adds unrequested a/77", "produce", 7, c27Extra},
		{"fetch v11, backend repeats the a/0 entry", "fetch", 11, c27DupEntry},
	} {
		st.Eval()
		c := c27WitnessCase(w.kind, w.version, w.shape)
		outs, log, herrs, err := c27Run(&c27Env{}, c)
		if err != nil || len(herrs) > 0 || len(outs) != 1 {
			fmt.Printf("VF-INCONCLUSIVE: witness %q could not run: %v %v\n", w.name, err, herrs)
			t.Fatalf("VF-INCONCLUSIVE: witness %q could not run: %v %v", w.name, err, herrs)
		}
		v := c27Judge(c.Requests[0], 0, outs[0], log)
		st.Class("witness:" + w.shape.String())
		if v != "" {
			failing = append(failing, w.name+" => "+v)
			st.NonTrivial(w.name)
			st.Sample(map[string]any{"witness": w.name, "violation": v})
		}
	}
	st.KnownResult(c27FindingIncomplete, len(failing) > 0, strings.Join(failing, " | "))
	t.Logf("%s: %d of 6 witnesses still violate the property", c27FindingIncomplete, len(failing))
}
