//go:build verif

package main

import (
	"context"
	"errors"
	"fmt"
	"io"
	"runtime"
	"sort"
	"strings"
	"sync"
	"testing"
	"time"

	clientv3 "go.etcd.io/etcd/client/v3"
	"pgregory.net/rapid"
	"verif.local/vfkit"

	"github.com/KafScale/platform/internal/testutil"
	"github.com/KafScale/platform/pkg/metadata"
	"github.com/KafScale/platform/pkg/protocol"
	"github.com/KafScale/platform/pkg/storage"
)

// C08, CLI leg: the whole `kafscale-cli restore` (executeRestore: metadata reads, target
// topic creation, config, the S3 copy by RecoverTopicToTimestamp, next offsets, partition
// states) over a real EtcdStore on an embedded etcd and the object-store model. The
// fault-free run records the interleaved sequence of metadata-store (etcd KV) and S3
// operations; then every KV operation of that sequence fails in turn (only that call, or
// that call and every later one = store unreachable), and every S3 upload fails in turn.
// Oracle (unchanged): a restore that returns an error leaves no object under the target
// topic unless a delete failed too.

const (
	c08cLateID = "C08-late-failure-leaves-target-objects"
	c08cNS     = "default"
	c08cSrc    = "orders"
	c08cDst    = "orders-restored"
	c08cT      = int64(1_700_000_000_000)
)

var errC08cInjected = errors.New("vf-injected: metadata store unreachable")

// ---- shared operation trace

type c08cTrace struct {
	mu  sync.Mutex
	ops []string
}

func (tr *c08cTrace) add(s string) int {
	tr.mu.Lock()
	defer tr.mu.Unlock()
	tr.ops = append(tr.ops, s)
	return len(tr.ops) - 1
}

// ---- S3 adapter

type c08cS3 struct {
	o  *vfkit.ObjStore
	tr *c08cTrace
}

func (s *c08cS3) mapErr(err error) error {
	if errors.Is(err, vfkit.ErrObjNotFound) {
		return fmt.Errorf("object: %w", storage.ErrNotFound)
	}
	return err
}
func (s *c08cS3) UploadSegment(ctx context.Context, key string, body []byte) error {
	s.tr.add("s3:put-segment " + key)
	return s.o.Put("put-segment", key, body)
}
func (s *c08cS3) UploadIndex(ctx context.Context, key string, body []byte) error {
	s.tr.add("s3:put-index " + key)
	return s.o.Put("put-index", key, body)
}
func (s *c08cS3) DeleteSegment(ctx context.Context, key string) error {
	s.tr.add("s3:delete-segment " + key)
	return s.o.Delete("delete-segment", key)
}
func (s *c08cS3) DeleteIndex(ctx context.Context, key string) error {
	s.tr.add("s3:delete-index " + key)
	return s.o.Delete("delete-index", key)
}
func (s *c08cS3) DownloadSegment(ctx context.Context, key string, rng *storage.ByteRange) ([]byte, error) {
	s.tr.add("s3:get-segment " + key)
	var r *[2]int64
	if rng != nil {
		r = &[2]int64{rng.Start, rng.End}
	}
	b, err := s.o.Get("get-segment", key, r)
	return b, s.mapErr(err)
}
func (s *c08cS3) DownloadIndex(ctx context.Context, key string) ([]byte, error) {
	s.tr.add("s3:get-index " + key)
	b, err := s.o.Get("get-index", key, nil)
	return b, s.mapErr(err)
}
func (s *c08cS3) ListSegments(ctx context.Context, prefix string) ([]storage.S3Object, error) {
	s.tr.add("s3:list " + prefix)
	objs, err := s.o.List("list", prefix)
	if err != nil {
		return nil, err
	}
	out := make([]storage.S3Object, 0, len(objs))
	for _, o := range objs {
		out = append(out, storage.S3Object{Key: o.Key, Size: o.Size})
	}
	return out, nil
}
func (s *c08cS3) EnsureBucket(ctx context.Context) error { return nil }

// ---- etcd KV wrapper: counts the store's KV calls and fails the planned ones at once

type c08cKV struct {
	clientv3.KV
	tr       *c08cTrace
	mu       sync.Mutex
	n        int  // KV calls seen
	failAt   int  // ordinal of the KV call to fail (-1 = none)
	failRest bool // also fail every later call (store unreachable)
	injected int
}

// c08cFromWatcher: the store's background snapshot watcher re-reads the snapshot whenever it
// changes; those asynchronous calls are not steps of the restore and are passed through
// uncounted so that operation ordinals are deterministic.
func c08cFromWatcher() bool {
	buf := make([]byte, 16384)
	n := runtime.Stack(buf, false)
	return strings.Contains(string(buf[:n]), ".watchSnapshot(")
}

func (k *c08cKV) gate(kind, key string) error {
	if c08cFromWatcher() {
		return nil
	}
	k.mu.Lock()
	i := k.n
	k.n++
	fail := k.failAt >= 0 && (i == k.failAt || (k.failRest && i > k.failAt))
	if fail {
		k.injected++
	}
	k.mu.Unlock()
	mark := ""
	if fail {
		mark = " <fails>"
	}
	k.tr.add(fmt.Sprintf("etcd:%s %s%s", kind, key, mark))
	if fail {
		return errC08cInjected
	}
	return nil
}
func (k *c08cKV) Put(ctx context.Context, key, val string, opts ...clientv3.OpOption) (*clientv3.PutResponse, error) {
	if err := k.gate("put", key); err != nil {
		return nil, err
	}
	return k.KV.Put(ctx, key, val, opts...)
}
func (k *c08cKV) Get(ctx context.Context, key string, opts ...clientv3.OpOption) (*clientv3.GetResponse, error) {
	if err := k.gate("get", key); err != nil {
		return nil, err
	}
	return k.KV.Get(ctx, key, opts...)
}
func (k *c08cKV) Delete(ctx context.Context, key string, opts ...clientv3.OpOption) (*clientv3.DeleteResponse, error) {
	if err := k.gate("delete", key); err != nil {
		return nil, err
	}
	return k.KV.Delete(ctx, key, opts...)
}

// Txn: the snapshot is written with a compare-and-swap transaction; Commit is the call.
type c08cTxn struct {
	clientv3.Txn
	k *c08cKV
}

func (t *c08cTxn) If(cs ...clientv3.Cmp) clientv3.Txn   { t.Txn = t.Txn.If(cs...); return t }
func (t *c08cTxn) Then(ops ...clientv3.Op) clientv3.Txn { t.Txn = t.Txn.Then(ops...); return t }
func (t *c08cTxn) Else(ops ...clientv3.Op) clientv3.Txn { t.Txn = t.Txn.Else(ops...); return t }
func (t *c08cTxn) Commit() (*clientv3.TxnResponse, error) {
	if err := t.k.gate("txn-commit", ""); err != nil {
		return nil, err
	}
	return t.Txn.Commit()
}
func (k *c08cKV) Txn(ctx context.Context) clientv3.Txn { return &c08cTxn{Txn: k.KV.Txn(ctx), k: k} }

// ---- one case

type c08cSource struct {
	Parts   int
	Segs    [][]int // per partition: records per segment
	LastNew bool    // the last segment of partition 0 was created after T (it is cut / dropped)
	Shape   string
	Objects map[string][]byte
}

func c08cKey(topic string, part int32, base int64, ext string) string {
	return fmt.Sprintf("%s/%s/%d/segment-%020d.%s", c08cNS, topic, part, base, ext)
}

func c08cBuild(src *c08cSource) error {
	src.Objects = map[string][]byte{}
	for p, segs := range src.Segs {
		off := int64(0)
		for si, n := range segs {
			ts := c08cT - 10_000
			created := c08cT - 5_000
			if src.LastNew && p == 0 && si == len(segs)-1 {
				ts, created = c08cT-1, c08cT+5_000 // first record before T, later ones after it
			}
			recs := make([]vfkit.Record, n)
			for i := range recs {
				recs[i] = vfkit.Record{TsDelta: int64(i * 10), Key: []byte(fmt.Sprintf("k%d", off+int64(i))), Value: []byte(fmt.Sprintf("p%d-o%d", p, off+int64(i)))}
			}
			rb, err := storage.NewRecordBatchFromBytes(vfkit.NewBatch(off, ts, recs).Encode())
			if err != nil {
				return err
			}
			art, err := storage.BuildSegment(storage.SegmentWriterConfig{IndexIntervalMessages: 1}, []storage.RecordBatch{rb}, time.UnixMilli(created))
			if err != nil {
				return err
			}
			src.Objects[c08cKey(c08cSrc, int32(p), off, "kfs")] = art.SegmentBytes
			src.Objects[c08cKey(c08cSrc, int32(p), off, "index")] = art.IndexBytes
			off += int64(n)
		}
	}
	src.Shape = fmt.Sprintf("partitions=%d segments=%v lastSegmentCreatedAfterT=%v", src.Parts, src.Segs, src.LastNew)
	return nil
}

type c08cPlan struct {
	kvAt   int // -1 none
	kvRest bool
	s3At   int // ordinal among S3 operations to fail (-1 none)
}

type c08cRun struct {
	err      error
	trace    []string
	left     []string
	injected int
	envErr   string
}

type c08cEnv struct {
	endpoints []string
	admin     *clientv3.Client
}

// c08cExecute sets up a fresh metadata store + bucket and runs executeRestore under plan.
func c08cExecute(env *c08cEnv, src *c08cSource, plan c08cPlan) *c08cRun {
	run := &c08cRun{}
	ctx, cancel := context.WithTimeout(context.Background(), 60*time.Second)
	defer cancel()
	if _, err := env.admin.Delete(ctx, "/kafscale", clientv3.WithPrefix()); err != nil {
		run.envErr = "wipe etcd: " + err.Error()
		return run
	}
	store, err := metadata.NewEtcdStore(ctx, metadata.ClusterMetadata{ControllerID: 1, Brokers: []protocol.MetadataBroker{{NodeID: 1, Host: "broker-0", Port: 9092}, {NodeID: 2, Host: "broker-1", Port: 9092}}},
		metadata.EtcdStoreConfig{Endpoints: env.endpoints})
	if err != nil {
		run.envErr = "NewEtcdStore: " + err.Error()
		return run
	}
	defer func() { _ = store.Close() }()
	// two brokers: without a stored config FetchTopicConfig reports the partition count as the
	// replication factor, and the target topic is created with it
	if _, err := store.CreateTopic(ctx, metadata.TopicSpec{Name: c08cSrc, NumPartitions: int32(src.Parts), ReplicationFactor: 1}); err != nil {
		run.envErr = "create source topic: " + err.Error()
		return run
	}
	tr := &c08cTrace{}
	obj := vfkit.NewObjStore()
	for k, v := range src.Objects {
		obj.PokeRaw(k, v)
	}
	s3n := 0
	obj.Fault = func(op vfkit.ObjOp) vfkit.FaultKind {
		i := s3n
		s3n++
		if plan.s3At >= 0 && i == plan.s3At {
			run.injected++
			return vfkit.FaultBefore
		}
		return vfkit.FaultNone
	}
	kv := &c08cKV{KV: store.EtcdClient().KV, tr: tr, failAt: plan.kvAt, failRest: plan.kvRest}
	store.EtcdClient().KV = kv
	run.err = executeRestore(ctx, io.Discard, restoreConfig{SourceTopic: c08cSrc, SourceNamespace: c08cNS, TargetTopic: c08cDst, TargetNamespace: c08cNS,
		RestoreTo: time.UnixMilli(c08cT)}, &c08cS3{o: obj, tr: tr}, store)
	store.EtcdClient().KV = kv.KV
	run.injected += kv.injected
	run.trace = append([]string(nil), tr.ops...)
	for _, k := range obj.Keys() {
		if strings.HasPrefix(k, c08cNS+"/"+c08cDst+"/") {
			run.left = append(run.left, k)
		}
	}
	sort.Strings(run.left)
	return run
}

// c08cJudge: "" = fine; otherwise the violation. A failure that was not injected by the
// plan (a real etcd hiccup on a busy machine) is reported as environment, not as a verdict.
func c08cJudge(run *c08cRun, plan c08cPlan) (violation, env string) {
	if run.envErr != "" {
		return "", run.envErr
	}
	if run.err == nil {
		return "", ""
	}
	if run.injected == 0 || !(errors.Is(run.err, errC08cInjected) || errors.Is(run.err, vfkit.ErrInjected) || strings.Contains(run.err.Error(), "vf-injected") || strings.Contains(run.err.Error(), "injected S3 failure")) {
		return "", "restore failed for a reason the plan did not inject: " + run.err.Error()
	}
	if len(run.left) > 0 {
		return fmt.Sprintf("failed restore (%v) left %d object(s) under the target topic although no delete failed (none was even attempted for them): %v", run.err, len(run.left), run.left), ""
	}
	return "", ""
}

func c08cStart(t *testing.T) *c08cEnv {
	endpoints := testutil.StartEmbeddedEtcd(t)
	admin, err := clientv3.New(clientv3.Config{Endpoints: endpoints, DialTimeout: 5 * time.Second})
	if err != nil {
		fmt.Println("VF-INCONCLUSIVE: cannot connect to embedded etcd:", err)
		t.Fatalf("etcd client: %v", err)
	}
	t.Cleanup(func() { _ = admin.Close() })
	return &c08cEnv{endpoints: endpoints, admin: admin}
}

// c08cAfterCopy: ordinal of the first KV call that comes after the last S3 upload of the
// fault-free run (= after RecoverTopicToTimestamp has returned), and the number of KV calls.
func c08cAfterCopy(trace []string) (first, total int) {
	lastPut := -1
	for i, op := range trace {
		if strings.HasPrefix(op, "s3:put") {
			lastPut = i
		}
	}
	first = -1
	for i, op := range trace {
		if strings.HasPrefix(op, "etcd:") {
			if i > lastPut && lastPut >= 0 && first < 0 {
				first = total
			}
			total++
		}
	}
	return first, total
}

func TestVF_C08_Cli(t *testing.T) {
	st := vfkit.NewStats("C08", "cli")
	defer st.Flush()
	env := c08cStart(t)
	known := vfkit.Known(c08cLateID)
	envTrouble, okCases := 0, 0
	rapid.Check(t, func(t *rapid.T) {
		src := &c08cSource{Parts: rapid.IntRange(1, 2).Draw(t, "parts"), LastNew: rapid.Bool().Draw(t, "lastnew")}
		for p := 0; p < src.Parts; p++ {
			src.Segs = append(src.Segs, rapid.SliceOfN(rapid.IntRange(1, 3), 1, 2).Draw(t, "segs"))
		}
		if err := c08cBuild(src); err != nil {
			t.Fatalf("harness: %v", err)
		}
		st.Eval()
		base := c08cExecute(env, src, c08cPlan{kvAt: -1, s3At: -1})
		if base.envErr != "" || base.err != nil {
			envTrouble++
			st.Note("env_trouble", envTrouble)
			st.Note("env_last", fmt.Sprint(base.envErr, base.err))
			return
		}
		st.Class("fault-free:restored")
		okCases++
		if len(base.left) == 0 {
			t.Fatalf("harness: the fault-free restore copied nothing (%s)\ntrace: %v", src.Shape, base.trace)
		}
		firstAfter, nkv := c08cAfterCopy(base.trace)
		ns3 := 0
		var s3Puts []int
		for _, op := range base.trace {
			if strings.HasPrefix(op, "s3:") {
				if strings.HasPrefix(op, "s3:put") {
					s3Puts = append(s3Puts, ns3)
				}
				ns3++
			}
		}
		check := func(plan c08cPlan, cls string) {
			st.Eval()
			run := c08cExecute(env, src, plan)
			viol, envMsg := c08cJudge(run, plan)
			if envMsg != "" {
				envTrouble++
				st.Note("env_trouble", envTrouble)
				st.Note("env_last", envMsg)
				return
			}
			st.Class(cls)
			if run.err != nil {
				st.Class("restore-failed")
				uploads := 0
				for _, op := range run.trace {
					if strings.HasPrefix(op, "s3:put") {
						uploads++
					}
				}
				if uploads > 0 {
					if st.NonTrivial(src.Shape, plan.kvAt, plan.kvRest, plan.s3At) {
						st.Sample(map[string]any{"source": src.Shape, "plan": fmt.Sprintf("%+v", plan), "error": run.err.Error(), "uploads_before_failure": uploads})
					}
				}
			} else {
				st.Class("restore-succeeded-despite-fault")
			}
			if viol != "" {
				t.Fatalf("%s\nplan: %+v\nsource: %s\ntrace: %v", viol, plan, src.Shape, run.trace)
			}
		}
		for i := 0; i < nkv; i++ {
			for _, rest := range []bool{false, true} {
				after := firstAfter >= 0 && i >= firstAfter
				if after && known {
					st.ExcludedCase(c08cLateID)
					continue
				}
				cls := "metadata-fault:before-or-during-copy"
				if after {
					cls = "metadata-fault:after-copy"
				}
				check(c08cPlan{kvAt: i, kvRest: rest, s3At: -1}, cls)
			}
		}
		for _, j := range s3Puts {
			check(c08cPlan{kvAt: -1, s3At: j}, "s3-upload-fault")
		}
	})
	if okCases == 0 {
		fmt.Println("VF-INCONCLUSIVE: embedded etcd environment unusable")
		t.Fatalf("environment")
	}
}

// Witness of C08-late-failure-leaves-target-objects: one partition, one segment; the
// metadata store becomes unreachable right after the S3 copy.
func TestVF_C08_CliWitness(t *testing.T) {
	st := vfkit.NewStats("C08", "cli-witness")
	defer st.Flush()
	env := c08cStart(t)
	src := &c08cSource{Parts: 1, Segs: [][]int{{2}}}
	if err := c08cBuild(src); err != nil {
		t.Fatalf("harness: %v", err)
	}
	st.Eval()
	base := c08cExecute(env, src, c08cPlan{kvAt: -1, s3At: -1})
	if base.envErr != "" || base.err != nil {
		fmt.Println("VF-INCONCLUSIVE: fault-free witness restore failed:", base.envErr, base.err)
		t.Fatalf("environment")
	}
	firstAfter, _ := c08cAfterCopy(base.trace)
	if firstAfter < 0 {
		st.Note("witness", "no metadata-store call after the copy any more")
		st.KnownResult(c08cLateID, false, "executeRestore issues no metadata-store call after the S3 copy")
		return
	}
	plan := c08cPlan{kvAt: firstAfter, kvRest: true, s3At: -1}
	run := c08cExecute(env, src, plan)
	viol, envMsg := c08cJudge(run, plan)
	if envMsg != "" {
		fmt.Println("VF-INCONCLUSIVE:", envMsg)
		t.Fatalf("environment")
	}
	st.Note("witness_trace", run.trace)
	st.KnownResult(c08cLateID, viol != "", "metadata store unreachable from the first call after the S3 copy (UpdateOffsets): "+viol)
	st.NonTrivial("cli-witness")
	st.Sample(map[string]any{"witness": "1 partition, 1 segment; every etcd call after the copy fails", "result": viol})
}
