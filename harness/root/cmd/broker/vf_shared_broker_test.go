//go:build verif

package main

import (
	"context"
	"errors"
	"fmt"
	"io"
	"log/slog"
	"os"

	"github.com/KafScale/platform/pkg/metadata"
	"github.com/KafScale/platform/pkg/protocol"
	"github.com/KafScale/platform/pkg/storage"
	"github.com/twmb/franz-go/pkg/kmsg"
	"verif.local/vfkit"
)

// vfS3 adapts the vfkit object-store model to storage.S3Client.
type vfS3 struct{ o *vfkit.ObjStore }

func vfMapErr(err error) error {
	if errors.Is(err, vfkit.ErrObjNotFound) {
		return storage.ErrNotFound
	}
	return err
}

func (s *vfS3) UploadSegment(ctx context.Context, key string, body []byte) error {
	return s.o.PutIf("put-segment", key, body, ctx.Err)
}
func (s *vfS3) UploadIndex(ctx context.Context, key string, body []byte) error {
	return s.o.PutIf("put-index", key, body, ctx.Err)
}
func (s *vfS3) DeleteSegment(ctx context.Context, key string) error {
	return s.o.Delete("delete-segment", key)
}
func (s *vfS3) DeleteIndex(ctx context.Context, key string) error {
	return s.o.Delete("delete-index", key)
}
func (s *vfS3) DownloadSegment(ctx context.Context, key string, rng *storage.ByteRange) ([]byte, error) {
	var r *[2]int64
	kind := "get-segment"
	if rng != nil {
		r = &[2]int64{rng.Start, rng.End}
		kind = "get-segment-range"
	}
	b, err := s.o.Get(kind, key, r)
	return b, vfMapErr(err)
}
func (s *vfS3) DownloadIndex(ctx context.Context, key string) ([]byte, error) {
	b, err := s.o.Get("get-index", key, nil)
	return b, vfMapErr(err)
}
func (s *vfS3) ListSegments(ctx context.Context, prefix string) ([]storage.S3Object, error) {
	objs, err := s.o.List("list", prefix)
	if err != nil {
		return nil, err
	}
	out := make([]storage.S3Object, 0, len(objs))
	for _, o := range objs {
		out = append(out, storage.S3Object{Key: o.Key, Size: o.Size})
	}
	return out, nil
}
func (s *vfS3) EnsureBucket(ctx context.Context) error { return nil }

type vfHandlerOpts struct {
	SegmentBytes int  // KAFSCALE_SEGMENT_BYTES (0 = default)
	CacheBytes   int  // KAFSCALE_CACHE_BYTES (0 = default)
	ReadAhead    int  // KAFSCALE_READAHEAD_SEGMENTS (-1 = default)
	NoAutoCreate bool // KAFSCALE_AUTO_CREATE_TOPICS=false
	// NoS3Backpressure raises the S3 health thresholds out of reach so that injected S3
	// failures do not switch the handler into (retriable) backpressure mode; that mode is
	// C25's subject and would otherwise mask durability checks behind a 60 s window.
	NoS3Backpressure bool
}

// vfNewHandler builds the real broker handler over the given store and S3 model.
// Configuration is read by newHandler from the process environment.
func vfNewHandler(store metadata.Store, obj *vfkit.ObjStore, o vfHandlerOpts) *handler {
	set := func(k string, v string) {
		if v == "" {
			os.Unsetenv(k)
		} else {
			os.Setenv(k, v)
		}
	}
	itoa := func(n int) string {
		if n == 0 {
			return ""
		}
		return fmt.Sprintf("%d", n)
	}
	set("KAFSCALE_SEGMENT_BYTES", itoa(o.SegmentBytes))
	set("KAFSCALE_CACHE_BYTES", itoa(o.CacheBytes))
	if o.ReadAhead >= 0 {
		os.Setenv("KAFSCALE_READAHEAD_SEGMENTS", fmt.Sprintf("%d", o.ReadAhead))
	} else {
		os.Unsetenv("KAFSCALE_READAHEAD_SEGMENTS")
	}
	if o.NoAutoCreate {
		os.Setenv("KAFSCALE_AUTO_CREATE_TOPICS", "false")
	} else {
		os.Unsetenv("KAFSCALE_AUTO_CREATE_TOPICS")
	}
	for _, k := range []string{"KAFSCALE_S3_ERROR_RATE_WARN", "KAFSCALE_S3_ERROR_RATE_CRIT"} {
		if o.NoS3Backpressure {
			os.Setenv(k, "2")
		} else {
			os.Unsetenv(k)
		}
	}
	for _, k := range []string{"KAFSCALE_S3_LATENCY_WARN_MS", "KAFSCALE_S3_LATENCY_CRIT_MS"} {
		if o.NoS3Backpressure {
			os.Setenv(k, "3600000")
		} else {
			os.Unsetenv(k)
		}
	}
	os.Unsetenv("KAFSCALE_ACL_ENABLED")
	brokerInfo := protocol.MetadataBroker{NodeID: 1, Host: "localhost", Port: 19092}
	logger := slog.New(slog.NewTextHandler(io.Discard, &slog.HandlerOptions{}))
	return newHandler(store, &vfS3{o: obj}, brokerInfo, logger)
}

// vfStoreWithTopics returns an in-memory store with one broker and the given topics
// (name -> partition count).
func vfStoreWithTopics(topics map[string]int32) *metadata.InMemoryStore {
	store := metadata.NewInMemoryStore(metadata.ClusterMetadata{
		Brokers:      []protocol.MetadataBroker{{NodeID: 1, Host: "localhost", Port: 19092}},
		ControllerID: 1,
	})
	for name, n := range topics {
		if _, err := store.CreateTopic(context.Background(), metadata.TopicSpec{Name: name, NumPartitions: n, ReplicationFactor: 1}); err != nil {
			panic("vf harness: CreateTopic " + name + ": " + err.Error())
		}
	}
	return store
}

// vfSkipRespHeader skips the response header: int32 correlation id and, for flexible
// versions, an (empty) tagged-field section.
func vfSkipRespHeader(raw []byte, flexible bool) ([]byte, bool) {
	if len(raw) < 4 {
		return nil, false
	}
	if !flexible {
		return raw[4:], true
	}
	if len(raw) < 5 || raw[4] != 0 {
		return nil, false
	}
	return raw[5:], true
}

type vfProducePart struct {
	Topic     string
	Partition int32
	Records   []byte
}

type vfProduceResult struct {
	Topic     string
	Partition int32
	ErrorCode int16
	Base      int64
}

// vfProduce sends one produce request through handler.Handle and decodes the response
// with the standard client codec (kmsg). acks=0 yields no response (nil, nil).
func vfProduce(h *handler, version int16, acks int16, clientID string, parts []vfProducePart) ([]vfProduceResult, error) {
	return vfProduceCtx(context.Background(), h, version, acks, clientID, parts)
}

// vfProduceCtx is vfProduce with the connection context supplied by the caller (a
// cancelled context models a client that disconnected while the request was in flight).
func vfProduceCtx(ctx context.Context, h *handler, version int16, acks int16, clientID string, parts []vfProducePart) ([]vfProduceResult, error) {
	req := kmsg.NewPtrProduceRequest()
	req.Version = version
	req.Acks = acks
	req.TimeoutMillis = 1000
	for _, p := range parts {
		var rt *kmsg.ProduceRequestTopic
		for i := range req.Topics {
			if req.Topics[i].Topic == p.Topic {
				rt = &req.Topics[i]
			}
		}
		if rt == nil {
			nt := kmsg.NewProduceRequestTopic()
			nt.Topic = p.Topic
			req.Topics = append(req.Topics, nt)
			rt = &req.Topics[len(req.Topics)-1]
		}
		np := kmsg.NewProduceRequestTopicPartition()
		np.Partition = p.Partition
		np.Records = p.Records
		rt.Partitions = append(rt.Partitions, np)
	}
	cid := clientID
	hdr := &protocol.RequestHeader{APIKey: protocol.APIKeyProduce, APIVersion: version, CorrelationID: 7, ClientID: &cid}
	raw, err := h.Handle(ctx, hdr, req)
	if err != nil {
		return nil, err
	}
	if raw == nil {
		return nil, nil
	}
	body, ok := vfSkipRespHeader(raw, version >= 9)
	if !ok {
		return nil, fmt.Errorf("vf: cannot skip produce response header")
	}
	resp := kmsg.NewPtrProduceResponse()
	resp.Version = version
	if err := resp.ReadFrom(body); err != nil {
		return nil, fmt.Errorf("vf: produce response does not decode: %w", err)
	}
	var out []vfProduceResult
	for _, t := range resp.Topics {
		for _, p := range t.Partitions {
			out = append(out, vfProduceResult{Topic: t.Topic, Partition: p.Partition, ErrorCode: p.ErrorCode, Base: p.BaseOffset})
		}
	}
	return out, nil
}

type vfFetchResult struct {
	ErrorCode     int16
	HighWatermark int64
	Records       []byte
}

// vfFetch fetches one partition by topic name.
func vfFetch(h *handler, version int16, topic string, partition int32, offset int64, maxBytes int32) (vfFetchResult, error) {
	return vfFetchMax(h, version, topic, partition, offset, maxBytes, 1<<30)
}

// vfFetchMax is vfFetch with the request-level MaxBytes (fetch.max.bytes) chosen by the caller.
func vfFetchMax(h *handler, version int16, topic string, partition int32, offset int64, maxBytes, reqMaxBytes int32) (vfFetchResult, error) {
	req := kmsg.NewPtrFetchRequest()
	req.Version = version
	req.MaxWaitMillis = 0
	req.MaxBytes = reqMaxBytes
	rt := kmsg.NewFetchRequestTopic()
	rt.Topic = topic
	rp := kmsg.NewFetchRequestTopicPartition()
	rp.Partition = partition
	rp.FetchOffset = offset
	rp.PartitionMaxBytes = maxBytes
	rt.Partitions = append(rt.Partitions, rp)
	req.Topics = append(req.Topics, rt)
	cid := "vf"
	hdr := &protocol.RequestHeader{APIKey: protocol.APIKeyFetch, APIVersion: version, CorrelationID: 9, ClientID: &cid}
	raw, err := h.Handle(context.Background(), hdr, req)
	if err != nil {
		return vfFetchResult{}, err
	}
	body, ok := vfSkipRespHeader(raw, version >= 12)
	if !ok {
		return vfFetchResult{}, fmt.Errorf("vf: cannot skip fetch response header")
	}
	resp := kmsg.NewPtrFetchResponse()
	resp.Version = version
	if err := resp.ReadFrom(body); err != nil {
		return vfFetchResult{}, fmt.Errorf("vf: fetch response does not decode: %w", err)
	}
	if len(resp.Topics) != 1 || len(resp.Topics[0].Partitions) != 1 {
		return vfFetchResult{}, fmt.Errorf("vf: fetch response has %d topics", len(resp.Topics))
	}
	p := resp.Topics[0].Partitions[0]
	if resp.Topics[0].Topic != topic || p.Partition != partition {
		return vfFetchResult{}, fmt.Errorf("vf: fetch response labelled %s/%d, requested %s/%d", resp.Topics[0].Topic, p.Partition, topic, partition)
	}
	return vfFetchResult{ErrorCode: p.ErrorCode, HighWatermark: p.HighWatermark, Records: p.RecordBatches}, nil
}
