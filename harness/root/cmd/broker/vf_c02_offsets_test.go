//go:build verif

package main

import (
	"bytes"
	"encoding/binary"
	"fmt"
	"sort"
	"strings"
	"testing"

	"pgregory.net/rapid"
	"verif.local/vfkit"
)

// C02: offsets assigned in a partition are unique, strictly increasing in append order
// and gap-free between successive acknowledged batches; the base offset in the response
// is the first offset of that batch in the stored log; for well-formed and malformed
// batches, across flushes and restarts. Rejecting a batch is always acceptable;
// acknowledging it obliges the invariants.

type c02Batch struct {
	Class string
	Bytes []byte
}

func c02Records(t *rapid.T, n int) []vfkit.Record {
	rs := make([]vfkit.Record, n)
	for i := range rs {
		rs[i] = vfkit.Record{TsDelta: int64(i), Key: []byte(fmt.Sprintf("k%d", i)),
			Value: rapid.SliceOfN(rapid.Byte(), 0, 24).Draw(t, "val")}
	}
	return rs
}

func c02DrawBatch(t *rapid.T) c02Batch {
	class := rapid.SampledFrom([]string{"wellformed", "wellformed", "wellformed", "wellformed-large", "lod-neg", "lod-big", "lod-small",
		"count-mismatch", "both-mismatch", "pair-nonpositive", "concat", "badlength", "badmagic", "badcrc", "truncated", "tiny", "garbage"}).Draw(t, "class")
	n := rapid.IntRange(1, 12).Draw(t, "n")
	if class == "wellformed-large" {
		n = rapid.IntRange(40, 300).Draw(t, "nlarge")
	}
	b := vfkit.NewBatch(rapid.Int64Range(0, 5).Draw(t, "clientBase"), 1_700_000_000_000, c02Records(t, n))
	switch class {
	case "wellformed", "wellformed-large":
		return c02Batch{class, b.Encode()}
	case "lod-neg":
		b.LastOffsetDelta = int32(-rapid.IntRange(1, 2*n+3).Draw(t, "neg"))
		if rapid.Bool().Draw(t, "minint") {
			b.LastOffsetDelta = -1 << 31
		}
		return c02Batch{class, b.Encode()}
	case "lod-big":
		b.LastOffsetDelta = int32(n - 1 + rapid.SampledFrom([]int{1, 2, 100, 1 << 20, 1<<31 - 1 - n}).Draw(t, "big"))
		return c02Batch{class, b.Encode()}
	case "lod-small":
		if n < 2 {
			n = 2
			b = vfkit.NewBatch(0, 1_700_000_000_000, c02Records(t, n))
		}
		b.LastOffsetDelta = int32(rapid.IntRange(0, n-2).Draw(t, "small"))
		return c02Batch{class, b.Encode()}
	case "count-mismatch":
		b.NumRecords = int32(rapid.SampledFrom([]int{0, -1, n + 1, n + 50, 1 << 30, n - 1}).Draw(t, "cnt"))
		if int(b.NumRecords) == n {
			b.NumRecords++
		}
		return c02Batch{class, b.Encode()}
	case "both-mismatch":
		// header pair consistent with each other (lastOffsetDelta == numRecords-1) but not with the body
		k := rapid.SampledFrom([]int{n + 1, n + 7, n + 1000, n - 1, 1 << 31, 1<<31 - 1}).Draw(t, "k")
		if k < 1 {
			k = n + 1
		}
		// k = 2^31: numRecords wraps to MinInt32 while lastOffsetDelta = MaxInt32, the pair
		// that satisfies a 32-bit "count == delta+1" comparison by overflow
		b.NumRecords = int32(uint32(k))
		b.LastOffsetDelta = int32(uint32(k - 1))
		return c02Batch{class, b.Encode()}
	case "pair-nonpositive":
		// header pair consistent with each other but zero or negative: numRecords = k <= 0,
		// lastOffsetDelta = k-1 < 0 (a broker that moves its next offset by the header would
		// move it backwards)
		k := rapid.SampledFrom([]int{0, -1, -2, -3, -n, -n - 5, -1 << 30}).Draw(t, "knonpos")
		b.NumRecords = int32(k)
		b.LastOffsetDelta = int32(k - 1)
		return c02Batch{class, b.Encode()}
	case "concat":
		out := b.Encode()
		k := rapid.IntRange(1, 2).Draw(t, "more")
		for i := 0; i < k; i++ {
			m := rapid.IntRange(1, 6).Draw(t, "m")
			out = append(out, vfkit.NewBatch(0, 1_700_000_000_100, c02Records(t, m)).Encode()...)
		}
		return c02Batch{class, out}
	case "badlength":
		raw := b.Encode()
		v := rapid.SampledFrom([]int64{0, -1, 1, int64(len(raw)) - 12 - 1, int64(len(raw)) - 12 + 1, 1 << 30}).Draw(t, "blen")
		binary.BigEndian.PutUint32(raw[8:], uint32(v))
		return c02Batch{class, raw}
	case "badmagic":
		raw := b.Encode()
		raw[16] = rapid.SampledFrom([]byte{0, 1, 3, 255}).Draw(t, "magic")
		return c02Batch{class, raw}
	case "badcrc":
		raw := b.Encode()
		raw[17] ^= 0x5a
		return c02Batch{class, raw}
	case "truncated":
		raw := b.Encode()
		cut := rapid.IntRange(1, len(raw)-1).Draw(t, "cut")
		return c02Batch{class, raw[:cut]}
	case "tiny":
		return c02Batch{class, rapid.SliceOfN(rapid.Byte(), 0, 60).Draw(t, "tiny")}
	default:
		return c02Batch{"garbage", rapid.SliceOfN(rapid.Byte(), 61, 200).Draw(t, "garbage")}
	}
}

// c02Span returns how many offsets an acknowledged batch must occupy, derived from the
// bytes the client sent with the independent codec: total records of a strictly valid
// (possibly concatenated) record set; else, for a single uncompressed magic-2 batch whose
// records section walks cleanly to the end, the number of records actually present.
// ok=false when the bytes give no defensible count.
func c02Span(raw []byte) (span int64, kind string, ok bool) {
	if bs, err := vfkit.DecodeBatches(raw); err == nil && len(bs) > 0 {
		var n int64
		consistent := true
		for _, b := range bs {
			n += int64(len(b.Records))
			if int(b.LastOffsetDelta) != len(b.Records)-1 {
				consistent = false
			}
		}
		if consistent {
			if len(bs) == 1 {
				return n, "valid-single", true
			}
			return n, "valid-concat", true
		}
	}
	h, err := vfkit.DecodeBatchHeader(raw)
	if err != nil || h.Magic != 2 || h.Attributes&0x7 != 0 || int64(h.BatchLength)+12 != int64(len(raw)) {
		return 0, "opaque", false
	}
	// walk the records section ignoring the header counts
	hb := h
	hb.RawRecords = nil
	body := raw[vfkit.BatchHeaderLen:]
	cnt := int64(0)
	p := 0
	for p < len(body) {
		ln, k, err := vfkit.ReadVarint(body[p:])
		if err != nil || ln < 0 || int64(len(body)-p-k) < ln {
			return 0, "opaque", false
		}
		p += k + int(ln)
		cnt++
	}
	if cnt == 0 {
		return 0, "opaque", false
	}
	return cnt, "header-disagrees", true
}

type c02Acked struct {
	Base  int64
	Bytes []byte // as sent, base offset patched to Base
	Span  int64
	Known bool
	Kind  string
	Class string
}

func c02StoredBody(obj *vfkit.ObjStore, prefix string) ([]byte, error) {
	keys := obj.Keys()
	type seg struct {
		base int64
		body []byte
	}
	var segs []seg
	for _, k := range keys {
		if !strings.HasPrefix(k, prefix) || !strings.HasSuffix(k, ".kfs") {
			continue
		}
		data, _ := obj.Peek(k)
		if _, ok := obj.Peek(strings.TrimSuffix(k, ".kfs") + ".index"); !ok {
			return nil, fmt.Errorf("segment %s has no index", k)
		}
		if len(data) < 48 || string(data[:4]) != "KAFS" || string(data[len(data)-4:]) != "END!" {
			return nil, fmt.Errorf("segment %s has a bad frame", k)
		}
		segs = append(segs, seg{int64(binary.BigEndian.Uint64(data[8:16])), data[32 : len(data)-16]})
	}
	sort.Slice(segs, func(i, j int) bool { return segs[i].base < segs[j].base })
	var out []byte
	for _, s := range segs {
		out = append(out, s.body...)
	}
	return out, nil
}

func TestVF_C02_Offsets(t *testing.T) {
	st := vfkit.NewStats("C02", "offsets")
	defer st.Flush()
	knownLOD := vfkit.Known("C02-header-count-trusted")
	knownConcat := vfkit.Known("C02-concatenated-batches")
	rapid.Check(t, func(t *rapid.T) {
		st.Eval()
		store := vfStoreWithTopics(map[string]int32{"orders": 1})
		obj := vfkit.NewObjStore()
		opts := vfHandlerOpts{SegmentBytes: rapid.SampledFrom([]int{0, 200, 1000}).Draw(t, "segbytes"), ReadAhead: -1}
		h := vfNewHandler(store, obj, opts)
		var acked []c02Acked
		expectNext := int64(0) // -1 = unknown after an acked batch without a defensible count
		nontrivial := false
		var trace []string
		restartedSinceAck := false
		steps := rapid.IntRange(1, 12).Draw(t, "steps")
		for i := 0; i < steps; i++ {
			if rapid.IntRange(0, 5).Draw(t, "restartdie") == 0 {
				h = vfNewHandler(store, obj, opts)
				trace = append(trace, "restart")
				restartedSinceAck = true
				continue
			}
			b := c02DrawBatch(t)
			span, kind, known := c02Span(b.Bytes)
			// the listed finding is about a header pair that is self-consistent (the broker's
			// own validation accepts it) but disagrees with the body; an inconsistent pair
			// (e.g. the int32-overflow pair MaxInt32 / MinInt32) is NOT part of it
			hdr, herr := vfkit.DecodeBatchHeader(b.Bytes)
			selfConsistent := herr == nil && hdr.LastOffsetDelta >= 0 && int64(hdr.NumRecords) == int64(hdr.LastOffsetDelta)+1
			if knownLOD && kind == "header-disagrees" && selfConsistent {
				st.ExcludedCase("C02-header-count-trusted")
				b = c02Batch{"wellformed", vfkit.SimpleBatch(0, 1_700_000_000_000, 2, fmt.Sprintf("sub%d", i))}
				span, kind, known = c02Span(b.Bytes)
			}
			if knownConcat && kind == "valid-concat" {
				st.ExcludedCase("C02-concatenated-batches")
				b = c02Batch{"wellformed", vfkit.SimpleBatch(0, 1_700_000_000_000, 3, fmt.Sprintf("sub%d", i))}
				span, kind, known = c02Span(b.Bytes)
			}
			version := int16(rapid.IntRange(3, 9).Draw(t, "version"))
			acks := rapid.SampledFrom([]int16{1, -1}).Draw(t, "acks")
			res, err := vfProduce(h, version, acks, "vf", []vfProducePart{{"orders", 0, b.Bytes}})
			if err != nil {
				t.Fatalf("produce returned a transport-level error for class %s: %v", b.Class, err)
			}
			if len(res) != 1 {
				t.Fatalf("produce response has %d partitions", len(res))
			}
			st.Class("sent-" + b.Class)
			if res[0].ErrorCode != 0 {
				st.Class("rejected-" + b.Class)
				trace = append(trace, fmt.Sprintf("%s->err%d", b.Class, res[0].ErrorCode))
				continue
			}
			st.Class("acked-" + b.Class + "/" + kind)
			base := res[0].Base
			trace = append(trace, fmt.Sprintf("%s->%d", b.Class, base))
			if len(acked) > 0 {
				prev := acked[len(acked)-1]
				if base <= prev.Base {
					t.Fatalf("base offset not strictly increasing: batch %d acked at %d after a batch acked at %d (prev class %s/%s)\ntrace %v", i, base, prev.Base, prev.Class, prev.Kind, trace)
				}
			}
			if expectNext >= 0 && base != expectNext {
				why := "gap"
				if base < expectNext {
					why = "overlap: offsets reused"
				}
				prevDesc := "start of log"
				if len(acked) > 0 {
					p := acked[len(acked)-1]
					prevDesc = fmt.Sprintf("previous acked batch class %s/%s base %d holding %d records", p.Class, p.Kind, p.Base, p.Span)
				}
				t.Fatalf("%s: batch acked at base offset %d but the next free offset is %d (%s)\ntrace %v", why, base, expectNext, prevDesc, trace)
			}
			patched := append([]byte(nil), b.Bytes...)
			binary.BigEndian.PutUint64(patched[0:8], uint64(base))
			acked = append(acked, c02Acked{Base: base, Bytes: patched, Span: span, Known: known, Kind: kind, Class: b.Class})
			if known {
				expectNext = base + span
			} else {
				expectNext = -1
			}
			if b.Class != "wellformed" && b.Class != "wellformed-large" {
				nontrivial = true
			}
			if restartedSinceAck && len(acked) > 1 {
				nontrivial = true
				st.Class("ack-after-restart")
			}
			restartedSinceAck = false
			// stored log == concatenation of the acknowledged batches, each starting with its base offset
			body, err := c02StoredBody(obj, "default/orders/0/")
			if err != nil {
				t.Fatalf("stored log unreadable after ack: %v", err)
			}
			var want []byte
			for _, a := range acked {
				want = append(want, a.Bytes...)
			}
			if !bytes.Equal(body, want) {
				t.Fatalf("stored log (%d bytes) is not the concatenation of the %d acknowledged batches with their assigned base offsets (%d bytes)\ntrace %v", len(body), len(acked), len(want), trace)
			}
		}
		if nontrivial {
			if st.NonTrivial(trace) {
				st.Sample(trace)
			}
		}
	})
}

// c02WitnessGap sends batch a then a well-formed 1-record batch and reports whether the
// second ack's base offset differs from the number of records a really holds.
func c02WitnessGap(a []byte) (bool, string) {
	store := vfStoreWithTopics(map[string]int32{"orders": 1})
	obj := vfkit.NewObjStore()
	h := vfNewHandler(store, obj, vfHandlerOpts{ReadAhead: -1})
	span, _, ok := c02Span(a)
	if !ok {
		return false, "witness has no defensible record count"
	}
	r1, err := vfProduce(h, 7, -1, "vf", []vfProducePart{{"orders", 0, a}})
	if err != nil || len(r1) != 1 {
		return false, fmt.Sprintf("witness produce failed: %v", err)
	}
	if r1[0].ErrorCode != 0 {
		return false, fmt.Sprintf("witness batch is now rejected with code %d", r1[0].ErrorCode)
	}
	r2, err := vfProduce(h, 7, -1, "vf", []vfProducePart{{"orders", 0, vfkit.SimpleBatch(0, 1, 1, "next")}})
	if err != nil || len(r2) != 1 || r2[0].ErrorCode != 0 {
		return false, fmt.Sprintf("follow-up produce failed: %v %v", err, r2)
	}
	if r2[0].Base != r1[0].Base+span {
		return true, fmt.Sprintf("batch holding %d records acked at %d, next batch acked at %d", span, r1[0].Base, r2[0].Base)
	}
	return false, "offsets contiguous"
}

func TestVF_C02_Witness(t *testing.T) {
	st := vfkit.NewStats("C02", "witness")
	defer st.Flush()
	one := []vfkit.Record{{Value: []byte("v")}}
	// fixed: lastOffsetDelta alone inflated / negative
	for _, lod := range []int32{1, -1} {
		b := vfkit.NewBatch(0, 1, one)
		b.LastOffsetDelta = lod
		fails, msg := c02WitnessGap(b.Encode())
		st.Eval()
		st.KnownResult("C02-lod-unvalidated", fails, fmt.Sprintf("lastOffsetDelta=%d with 1 record: %s", lod, msg))
		if fails {
			st.NonTrivial("lod", lod)
		}
	}
	b := vfkit.NewBatch(0, 1, one)
	b.NumRecords, b.LastOffsetDelta = 2, 1
	fails, msg := c02WitnessGap(b.Encode())
	st.Eval()
	st.KnownResult("C02-header-count-trusted", fails, msg)
	st.NonTrivial("header-count", fails)
	st.Sample(map[string]any{"witness": "1 record, numRecords=2, lastOffsetDelta=1", "fails": fails, "detail": msg})
	cc := append(vfkit.SimpleBatch(0, 1, 2, "a"), vfkit.SimpleBatch(0, 1, 3, "b")...)
	fails, msg = c02WitnessGap(cc)
	st.Eval()
	st.KnownResult("C02-concatenated-batches", fails, msg)
	st.NonTrivial("concat", fails)
	st.Sample(map[string]any{"witness": "[2 records][3 records] concatenated", "fails": fails, "detail": msg})
}
