//go:build verif

package main

import (
	"bytes"
	"context"
	"fmt"
	"sort"
	"strings"
	"testing"
	"time"

	"pgregory.net/rapid"
	"verif.local/vfkit"

	"github.com/KafScale/platform/pkg/storage"
)

// C22, restore leg: storage.RecoverTopicToTimestamp (the engine of `kafscale-cli restore`)
// copies a source topic into a new target topic next to sibling topics whose names are
// related to the source / target name (leading dots stripped or added, trailing '.', '-',
// '_', digits, case variants). The CLI only lets valid topic names through (the source must
// exist in metadata, the target is created with CreateTopic first), so names stay inside
// the Kafka legal set [a-zA-Z0-9._-] - which includes names such as ".audit" and "..a".
//
// Oracle: after the restore (successful or not) every object that was added, changed or
// removed lies under the target topic's own prefix <ns>/<target>/; source and sibling
// objects are byte-identical; on success the target holds exactly the source's records (own
// marker values, decoded with vfkit's codec), i.e. nothing was read from a sibling either.

const c22RestoreNS = "default"

func c22RestoreSeg(topic string, part int32, base int64, n int, tag string) (string, string, *storage.SegmentArtifact, error) {
	recs := make([]vfkit.Record, n)
	for i := range recs {
		recs[i] = vfkit.Record{TsDelta: int64(i), Key: []byte(fmt.Sprintf("k%d", base+int64(i))), Value: []byte(fmt.Sprintf("%s|p%d|%d", tag, part, base+int64(i)))}
	}
	rb, err := storage.NewRecordBatchFromBytes(vfkit.NewBatch(base, 1_700_000_000_000, recs).Encode())
	if err != nil {
		return "", "", nil, err
	}
	art, err := storage.BuildSegment(storage.SegmentWriterConfig{IndexIntervalMessages: 1}, []storage.RecordBatch{rb}, time.UnixMilli(1_700_000_000_500))
	if err != nil {
		return "", "", nil, err
	}
	dir := fmt.Sprintf("%s/%s/%d/", c22RestoreNS, topic, part)
	return dir + fmt.Sprintf("segment-%020d.kfs", base), dir + fmt.Sprintf("segment-%020d.index", base), art, nil
}

// c22LegalName reports membership in the Kafka legal set (own definition).
func c22LegalName(n string) bool {
	if n == "" || len(n) > 249 || n == "." || n == ".." {
		return false
	}
	for i := 0; i < len(n); i++ {
		c := n[i]
		if !(c >= 'a' && c <= 'z' || c >= 'A' && c <= 'Z' || c >= '0' && c <= '9' || c == '.' || c == '_' || c == '-') {
			return false
		}
	}
	return true
}

var c22SiblingTransforms = []string{"strip-leading-dots", "strip-leading-dots", "add-dot", "add-dotdot", "add-dash", "add-underscore", "trailing-dot", "trailing-dash", "trailing-digit",
	"strip-trailing", "upper", "lower", "dots-to-underscore", "independent"}

func c22Sibling(t *rapid.T, n, tr string) string {
	switch tr {
	case "strip-leading-dots":
		return strings.TrimLeft(n, ".")
	case "add-dot":
		return "." + n
	case "add-dotdot":
		return ".." + n
	case "add-dash":
		return "-" + n
	case "add-underscore":
		return "_" + n
	case "trailing-dot":
		return n + "."
	case "trailing-dash":
		return n + "-"
	case "trailing-digit":
		return n + rapid.SampledFrom([]string{"0", "1", "-0", ".0"}).Draw(t, "digit")
	case "strip-trailing":
		return strings.TrimRight(n, ".-_0123456789")
	case "upper":
		return strings.ToUpper(n)
	case "lower":
		return strings.ToLower(n)
	case "dots-to-underscore":
		return strings.ReplaceAll(n, ".", "_")
	}
	return c22GenLegalName(t, "sib")
}

func c22RestoreName(t *rapid.T, label string) string {
	n := c22GenLegalName(t, label)
	switch rapid.IntRange(0, 5).Draw(t, label+"-lead") {
	case 0, 1:
		n = "." + n
	case 2:
		n = ".." + n
	case 3:
		n = rapid.SampledFrom([]string{"_", "-", "...", "._", ".-"}).Draw(t, label+"-leadc") + n
	}
	if len(n) > 200 {
		n = n[:200]
	}
	return n
}

func TestVF_C22_Restore(t *testing.T) {
	st := vfkit.NewStats("C22", "restore")
	defer st.Flush()
	rapid.Check(t, func(t *rapid.T) {
		src := c22RestoreName(t, "src")
		dst := c22RestoreName(t, "dst")
		if rapid.IntRange(0, 3).Draw(t, "dst-from-src") == 0 {
			dst = c22Sibling(t, src, rapid.SampledFrom(c22SiblingTransforms).Draw(t, "dst-tr"))
		}
		if !c22LegalName(src) {
			src = "orders"
		}
		if !c22LegalName(dst) || src == dst {
			dst = "restored-" + strings.TrimLeft(src, ".")
			if len(dst) > 249 {
				dst = dst[:249]
			}
		}
		// siblings: related to the source and to the target
		type sib struct {
			name string
			tr   string
			data bool
		}
		var sibs []sib
		seen := map[string]bool{src: true, dst: true}
		for i, base := range []string{src, dst, dst} {
			tr := rapid.SampledFrom(c22SiblingTransforms).Draw(t, fmt.Sprintf("sib%d-tr", i))
			n := c22Sibling(t, base, tr)
			if !c22LegalName(n) || seen[n] {
				continue
			}
			seen[n] = true
			sibs = append(sibs, sib{name: n, tr: tr, data: rapid.IntRange(0, 3).Draw(t, fmt.Sprintf("sib%d-data", i)) > 0})
		}
		obj := vfkit.NewObjStore()
		put := func(topic string, part int32, base int64, n int, tag string) {
			ks, ki, art, err := c22RestoreSeg(topic, part, base, n, tag)
			if err != nil {
				t.Fatalf("harness: %v", err)
			}
			obj.PokeRaw(ks, art.SegmentBytes)
			obj.PokeRaw(ki, art.IndexBytes)
		}
		nparts := rapid.IntRange(1, 2).Draw(t, "nparts")
		var want []string
		for p := 0; p < nparts; p++ {
			off := int64(0)
			for sgi := 0; sgi < rapid.IntRange(1, 2).Draw(t, "nseg"); sgi++ {
				n := rapid.IntRange(1, 3).Draw(t, "nrec")
				put(src, int32(p), off, n, "SRC")
				for i := 0; i < n; i++ {
					want = append(want, fmt.Sprintf("SRC|p%d|%d", p, off+int64(i)))
				}
				off += int64(n)
			}
		}
		for i, sb := range sibs {
			if sb.data {
				put(sb.name, 0, 0, 2, fmt.Sprintf("SIB%d", i))
				if rapid.Bool().Draw(t, "sib-p1") {
					put(sb.name, 1, 0, 1, fmt.Sprintf("SIB%d", i))
				}
			}
		}
		before := obj.Snapshot()
		st.Eval()
		res, err := storage.RecoverTopicToTimestamp(context.Background(), &c22S3{o: obj}, storage.TopicRecoveryConfig{
			SourceNamespace: c22RestoreNS, SourceTopic: src, TargetNamespace: c22RestoreNS, TargetTopic: dst,
			RestoreTo: time.UnixMilli(1_700_000_100_000)})
		after := obj.Snapshot()

		desc := fmt.Sprintf("restore %s -> %s, siblings %v", c22Q(src), c22Q(dst), sibs)
		ownPrefix := c22RestoreNS + "/" + dst + "/"
		var changed []string
		for k, v := range after {
			if old, ok := before[k]; !ok || !bytes.Equal(old, v) {
				changed = append(changed, k)
			}
		}
		for k := range before {
			if _, ok := after[k]; !ok {
				changed = append(changed, k)
			}
		}
		sort.Strings(changed)
		for _, k := range changed {
			if !strings.HasPrefix(k, ownPrefix) {
				t.Fatalf("%s (err=%v): object %q was added / changed / removed; it is not under the target topic's prefix %q", desc, err, k, ownPrefix)
			}
		}
		related := false
		for _, sb := range sibs {
			if sb.tr != "independent" && sb.data {
				related = true
			}
		}
		cls := "rejected"
		if err == nil {
			cls = "restored"
			// the target holds exactly the source's records
			var got []string
			var keys []string
			for k := range after {
				if strings.HasPrefix(k, ownPrefix) && strings.HasSuffix(k, ".kfs") {
					keys = append(keys, k)
				}
			}
			sort.Strings(keys)
			for _, k := range keys {
				si, derr := vfkit.DecodeSegment(after[k])
				if derr != nil {
					t.Fatalf("%s: restored object %q does not decode: %v", desc, k, derr)
				}
				for _, b := range si.Batches {
					for _, r := range b.Records {
						got = append(got, string(r.Value))
					}
				}
			}
			sort.Strings(got)
			w := append([]string(nil), want...)
			sort.Strings(w)
			if strings.Join(got, ",") != strings.Join(w, ",") {
				t.Fatalf("%s: the target topic holds records %v, the source topic holds %v (result: %d segments copied)", desc, c22Head(got), c22Head(w), res.SegmentsCopied)
			}
		}
		st.Class(cls)
		if strings.HasPrefix(src, ".") {
			st.Class("source-leading-dot")
		}
		if strings.HasPrefix(dst, ".") {
			st.Class("target-leading-dot")
		}
		for _, sb := range sibs {
			st.Class("sibling:" + sb.tr)
		}
		if related {
			if st.NonTrivial(src, dst, fmt.Sprint(sibs)) {
				st.Sample(map[string]any{"source": src, "target": dst, "siblings": fmt.Sprint(sibs), "outcome": cls})
			}
		}
	})
}
