//go:build verif

package main

import (
	"bytes"
	"context"
	"errors"
	"fmt"
	"sort"
	"strings"
	"testing"
	"testing/synctest"
	"time"

	"pgregory.net/rapid"
	"verif.local/vfkit"

	"github.com/KafScale/platform/pkg/storage"
)

// C44: reads through dualS3Client (read replica + primary) return what the primary
// bucket alone would return, whatever the replica holds for the key (identical copy,
// nothing, a failing endpoint, an older version of an overwritten key, a copy of a key
// the primary has since deleted). Writes, deletes, listings and EnsureBucket go to the
// primary only.
//
// Oracle: a third, private copy of the primary's content ("what the primary would
// return") queried with the same call. Independent of dualS3Client.

const c44StaleID = "C44-stale-replica-served"

// c44S3 adapts vfkit.ObjStore to storage.S3Client (one key space per bucket). Like a real
// network client it refuses to start a request on a context that is already done, and a
// GET can be made to stall (stall hook) for a while or until the request context ends.
type c44S3 struct {
	o       *vfkit.ObjStore
	ensures int
	stall   func(key string) c44Stall
	// mem, when set, is the repo's own MemoryS3Client doing the actual GET (its range
	// handling included); the ObjStore stays the source of truth, op log and fault plan.
	mem *storage.MemoryS3Client
}

// viaMem performs the GET on the MemoryS3Client after logging / faulting it on the model.
func (s *c44S3) viaMem(ctx context.Context, kind, key string, rng *storage.ByteRange, index bool) ([]byte, error) {
	if _, err := s.o.Get(kind, key, nil); err != nil && errors.Is(err, vfkit.ErrInjected) {
		return nil, err
	}
	if b, ok := s.o.Peek(key); ok {
		_ = s.mem.UploadSegment(ctx, key, b)
		_ = s.mem.UploadIndex(ctx, key, b)
	} else {
		_ = s.mem.DeleteSegment(ctx, key)
		_ = s.mem.DeleteIndex(ctx, key)
	}
	if index {
		return s.mem.DownloadIndex(ctx, key)
	}
	return s.mem.DownloadSegment(ctx, key, rng)
}

// c44Stall: how a GET on the replica endpoint misbehaves in time.
type c44Stall struct {
	Dur   time.Duration // 0 = no stall
	Serve bool          // after Dur: true = answer normally (slow), false = 503
	Hang  bool          // never answers; returns only when the request context ends
}

func (c c44Stall) String() string {
	switch {
	case c.Hang:
		return "hang"
	case c.Dur == 0:
		return "none"
	case c.Serve:
		return fmt.Sprintf("slow-%s-serve", c.Dur)
	}
	return fmt.Sprintf("stall-%s-error", c.Dur)
}

var errC44SlowDown = errors.New("replica: 503 SlowDown after stalling")

func (s *c44S3) mapErr(err error) error {
	if errors.Is(err, vfkit.ErrObjNotFound) {
		return fmt.Errorf("object: %w", storage.ErrNotFound)
	}
	return err
}

// wait applies the stall of a GET; returns a non-nil error when the call ends here.
func (s *c44S3) wait(ctx context.Context, key string) error {
	if err := ctx.Err(); err != nil {
		return err
	}
	if s.stall == nil {
		return nil
	}
	sl := s.stall(key)
	if sl.Hang {
		<-ctx.Done()
		return ctx.Err()
	}
	if sl.Dur == 0 {
		return nil
	}
	tm := time.NewTimer(sl.Dur)
	defer tm.Stop()
	select {
	case <-ctx.Done():
		return ctx.Err()
	case <-tm.C:
	}
	if !sl.Serve {
		return errC44SlowDown
	}
	return nil
}
func (s *c44S3) UploadSegment(ctx context.Context, key string, body []byte) error {
	if err := ctx.Err(); err != nil {
		return err
	}
	return s.o.Put("put-segment", key, body)
}
func (s *c44S3) UploadIndex(ctx context.Context, key string, body []byte) error {
	if err := ctx.Err(); err != nil {
		return err
	}
	return s.o.Put("put-index", key, body)
}
func (s *c44S3) DeleteSegment(ctx context.Context, key string) error {
	if err := ctx.Err(); err != nil {
		return err
	}
	return s.o.Delete("delete-segment", key)
}
func (s *c44S3) DeleteIndex(ctx context.Context, key string) error {
	if err := ctx.Err(); err != nil {
		return err
	}
	return s.o.Delete("delete-index", key)
}
func (s *c44S3) DownloadSegment(ctx context.Context, key string, rng *storage.ByteRange) ([]byte, error) {
	if err := s.wait(ctx, key); err != nil {
		return nil, err
	}
	if s.mem != nil {
		return s.viaMem(ctx, "get-segment", key, rng, false)
	}
	var r *[2]int64
	if rng != nil {
		r = &[2]int64{rng.Start, rng.End}
	}
	b, err := s.o.Get("get-segment", key, r)
	return b, s.mapErr(err)
}
func (s *c44S3) DownloadIndex(ctx context.Context, key string) ([]byte, error) {
	if err := s.wait(ctx, key); err != nil {
		return nil, err
	}
	if s.mem != nil {
		return s.viaMem(ctx, "get-index", key, nil, true)
	}
	b, err := s.o.Get("get-index", key, nil)
	return b, s.mapErr(err)
}
func (s *c44S3) ListSegments(ctx context.Context, prefix string) ([]storage.S3Object, error) {
	if err := ctx.Err(); err != nil {
		return nil, err
	}
	objs, err := s.o.List("list", prefix)
	if err != nil {
		return nil, err
	}
	out := make([]storage.S3Object, 0, len(objs))
	for _, o := range objs {
		out = append(out, storage.S3Object{Key: o.Key, Size: o.Size})
	}
	return out, nil
}
func (s *c44S3) EnsureBucket(ctx context.Context) error {
	if err := ctx.Err(); err != nil {
		return err
	}
	s.ensures++
	return nil
}

// c44World is one primary bucket, one replica bucket and the dual client over them.
type c44World struct {
	p, r      *vfkit.ObjStore
	pc, rc    *c44S3
	dual      storage.S3Client
	failP     map[string]bool // primary GETs of this key fail (endpoint trouble)
	failR     map[string]bool // replica GETs of this key fail
	stallR    map[string]c44Stall
	failRAll  bool
	failPList bool // the primary's LIST fails (throttling / 5xx)
	memory    bool // GETs are served by storage.MemoryS3Client instances
}

// c44CallerDeadline: the caller's own context is live for the whole read (1 h of the
// bubble's virtual clock); the data path of the broker uses contexts without deadline.
const c44CallerDeadline = time.Hour

func c44NewWorld() *c44World { return c44NewWorldKind(false) }

func c44NewWorldKind(memory bool) *c44World {
	w := &c44World{p: vfkit.NewObjStore(), r: vfkit.NewObjStore(), failP: map[string]bool{}, failR: map[string]bool{}, stallR: map[string]c44Stall{}, memory: memory}
	w.pc, w.rc = &c44S3{o: w.p}, &c44S3{o: w.r}
	if memory {
		w.pc.mem, w.rc.mem = storage.NewMemoryS3Client(), storage.NewMemoryS3Client()
	}
	w.rc.stall = func(key string) c44Stall { return w.stallR[key] }
	w.p.Fault = func(op vfkit.ObjOp) vfkit.FaultKind {
		if strings.HasPrefix(op.Kind, "get") && w.failP[op.Key] {
			return vfkit.FaultBefore
		}
		if op.Kind == "list" && w.failPList {
			return vfkit.FaultBefore
		}
		return vfkit.FaultNone
	}
	w.r.Fault = func(op vfkit.ObjOp) vfkit.FaultKind {
		if w.failRAll || (strings.HasPrefix(op.Kind, "get") && w.failR[op.Key]) {
			return vfkit.FaultBefore
		}
		return vfkit.FaultNone
	}
	w.dual = newDualS3Client(w.pc, w.rc)
	return w
}

// stale reports whether the replica holds, for key, something the primary does not
// currently hold (older version of an overwritten key, or a key deleted on the primary).
func (w *c44World) stale(key string) bool {
	rb, rok := w.r.Peek(key)
	if !rok {
		return false
	}
	pb, pok := w.p.Peek(key)
	return !pok || !bytes.Equal(pb, rb)
}

// staleServed: the replica would answer a GET of key with content the primary does not
// hold (the predicate of the known finding).
func (w *c44World) staleServed(key string) bool {
	sl := w.stallR[key]
	if w.failR[key] || w.failRAll || sl.Hang || (sl.Dur > 0 && !sl.Serve) {
		return false
	}
	return w.stale(key)
}

// c44Alone builds a healthy private bucket holding only key as found in o, of the same
// kind (model / MemoryS3Client) as the world: "what that bucket alone would return".
func (w *c44World) alone(o *vfkit.ObjStore, key string) *c44S3 {
	ref := &c44S3{o: vfkit.NewObjStore()}
	if w.memory {
		ref.mem = storage.NewMemoryS3Client()
	}
	if b, ok := o.Peek(key); ok {
		ref.o.PokeRaw(key, b)
	}
	return ref
}

// staleServedFor is the exact predicate of the known finding C44-stale-replica-served for
// one read: the replica answers this read itself (no error, so no fallback) with something
// the primary would not return for it.
func (w *c44World) staleServedFor(key string, rd c44Read) bool {
	if !w.staleServed(key) {
		return false
	}
	rgot, rerr := c44DoRead(context.Background(), w.alone(w.r, key), key, rd)
	if rerr != nil {
		return false // the replica refuses (not found / range outside its copy): fallback
	}
	pgot, perr := c44DoRead(context.Background(), w.alone(w.p, key), key, rd)
	return perr != nil || !bytes.Equal(rgot, pgot)
}

type c44Read struct {
	Index bool
	Rng   *storage.ByteRange
}

func (rd c44Read) String() string {
	if rd.Index {
		return "index"
	}
	if rd.Rng == nil {
		return "segment[full]"
	}
	return fmt.Sprintf("segment[%d-%d]", rd.Rng.Start, rd.Rng.End)
}

func c44DoRead(ctx context.Context, c storage.S3Client, key string, rd c44Read) ([]byte, error) {
	if rd.Index {
		return c.DownloadIndex(ctx, key)
	}
	if rd.Rng == nil {
		return c.DownloadSegment(ctx, key, nil)
	}
	r := *rd.Rng // every top-level call gets its own ByteRange, as the broker's callers build one per read
	return c.DownloadSegment(ctx, key, &r)
}

// c44CheckRead performs one read through the dual client and compares it with what the
// primary's content alone yields. Returns a violation description or "".
func c44CheckRead(w *c44World, key string, rd c44Read) string {
	// what the primary would return: a healthy private copy of its content
	ref := w.alone(w.p, key)
	// the caller's context is live before, during and after the read
	ctx, cancel := context.WithTimeout(context.Background(), c44CallerDeadline)
	defer cancel()
	want, wantErr := c44DoRead(ctx, ref, key, rd)
	got, gotErr := c44DoRead(ctx, w.dual, key, rd)
	if ctx.Err() != nil {
		// only possible when the replica hangs until the caller's own deadline: by then the
		// caller has given up and the primary alone would refuse that context as well
		if gotErr == nil && (wantErr != nil || !bytes.Equal(got, want)) {
			return fmt.Sprintf("read %s of %q (replica hung until the caller's deadline) returned %d bytes %q; primary content gives (%q, err=%v)", rd, key, len(got), c44Short(got), c44Short(want), wantErr)
		}
		return ""
	}
	if w.failP[key] {
		// primary unreachable for this key: the statement fixes the bytes, not availability
		if gotErr == nil && (wantErr != nil || !bytes.Equal(got, want)) {
			return fmt.Sprintf("read %s of %q (primary failing) returned %d bytes %q; primary content gives (%q, err=%v)", rd, key, len(got), c44Short(got), c44Short(want), wantErr)
		}
		// the primary alone reports its own failure; a replica "not found" must not replace it
		// (RestoreFromS3 treats a not-found index as an orphan to skip, a failure as retry)
		if gotErr != nil && errors.Is(gotErr, storage.ErrNotFound) {
			return fmt.Sprintf("read %s of %q: the primary is failing (not 'not found'), the dual client reports %v", rd, key, gotErr)
		}
		return ""
	}
	if (gotErr == nil) != (wantErr == nil) {
		return fmt.Sprintf("read %s of %q: dual err=%v but primary alone err=%v (dual bytes %q, primary bytes %q)", rd, key, gotErr, wantErr, c44Short(got), c44Short(want))
	}
	if gotErr != nil {
		if errors.Is(gotErr, storage.ErrNotFound) != errors.Is(wantErr, storage.ErrNotFound) {
			return fmt.Sprintf("read %s of %q: error class differs: dual %v, primary alone %v", rd, key, gotErr, wantErr)
		}
		return ""
	}
	if !bytes.Equal(got, want) {
		return fmt.Sprintf("read %s of %q returned %d bytes %q, the primary holds %d bytes %q", rd, key, len(got), c44Short(got), len(want), c44Short(want))
	}
	return ""
}

func c44Short(b []byte) string {
	if len(b) > 24 {
		return string(b[:24]) + "..."
	}
	return string(b)
}

// c44ReplicaClean verifies the replica bucket never saw a write, delete or listing.
func c44ReplicaClean(w *c44World) string {
	for _, op := range w.r.Ops {
		if !strings.HasPrefix(op.Kind, "get") {
			return fmt.Sprintf("replica bucket received %s %q", op.Kind, op.Key)
		}
	}
	if w.rc.ensures != 0 {
		return "EnsureBucket was sent to the replica"
	}
	return ""
}

func c44Body(tag string, n int) []byte {
	b := make([]byte, n)
	for i := range b {
		b[i] = tag[i%len(tag)]
	}
	if n >= 4 {
		copy(b, fmt.Sprintf("%s|%d|", tag, n))
	}
	return b
}

// replica states of the exhaustive core
var c44States = []string{"identical", "missing", "failing", "older-same-len", "older-shorter", "older-longer", "primary-deleted", "both-absent",
	"stall-1s-error", "stall-3s-error", "stall-10m-error", "slow-3s-serve", "hang"}

func c44Apply(w *c44World, key, state string, isIndex bool) {
	cur := c44Body("NEW-"+key, 96)
	if isIndex {
		cur = c44Body("NIX-"+key, 40)
	}
	w.p.PokeRaw(key, cur)
	switch state {
	case "identical":
		w.r.PokeRaw(key, cur)
	case "missing":
	case "failing":
		w.r.PokeRaw(key, cur)
		w.failR[key] = true
	case "stall-1s-error":
		w.r.PokeRaw(key, cur)
		w.stallR[key] = c44Stall{Dur: time.Second}
	case "stall-3s-error":
		w.r.PokeRaw(key, cur)
		w.stallR[key] = c44Stall{Dur: 3 * time.Second}
	case "stall-10m-error":
		w.stallR[key] = c44Stall{Dur: 10 * time.Minute}
	case "slow-3s-serve":
		w.r.PokeRaw(key, cur)
		w.stallR[key] = c44Stall{Dur: 3 * time.Second, Serve: true}
	case "hang":
		w.r.PokeRaw(key, cur)
		w.stallR[key] = c44Stall{Hang: true}
	case "older-same-len":
		w.r.PokeRaw(key, c44Body("OLD-"+key, len(cur)))
	case "older-shorter":
		w.r.PokeRaw(key, c44Body("OLD-"+key, len(cur)-37))
	case "older-longer":
		w.r.PokeRaw(key, c44Body("OLD-"+key, len(cur)+29))
	case "primary-deleted":
		w.r.PokeRaw(key, cur)
		c44Remove(w.p, key)
	case "both-absent":
		c44Remove(w.p, key)
	}
}

// c44Remove deletes without going through the logged API (set-up only).
func c44Remove(o *vfkit.ObjStore, key string) {
	f, on := o.Fault, o.OnOp
	o.Fault, o.OnOp = nil, nil
	n := len(o.Ops)
	_ = o.Delete("setup-delete", key)
	o.Ops = o.Ops[:n]
	o.Fault, o.OnOp = f, on
}

// c44Reads lists the read shapes the broker and the restore tool issue, relative to the
// size the *primary* listing reports (RestoreFromS3 / inspectSourceSegment compute the
// footer range from the listed size).
func c44Reads(size int64) []c44Read {
	rs := []c44Read{{Rng: nil}, {Index: true}}
	add := func(s, e int64) { rs = append(rs, c44Read{Rng: &storage.ByteRange{Start: s, End: e}}) }
	add(0, 31)            // segment header
	add(size-16, size-1)  // footer by listed size
	add(32, size-17)      // body
	add(40, 59)           // middle slice (index-driven range read)
	add(size-8, size+100) // end clamped
	add(size, size+10)    // starts at the end: invalid on the primary
	add(size+29, size+40) // beyond the primary, inside a longer stale copy
	add(size-37, size-30) // inside the primary, at the end of a shorter stale copy
	add(0, 0)             // single byte
	return rs
}

// Exhaustive core (runs inside a testing/synctest bubble): every replica state of one key x every read shape, and every pair of
// states over two keys (segment + its index sibling, and two segments), plus the write /
// list routing for each state.
func TestVF_C44_Core(t *testing.T) {
	st := vfkit.NewStats("C44", "core")
	defer st.Flush()
	st.SetExhaustive(true)
	known := vfkit.Known(c44StaleID)
	keys := []string{"default/t/0/segment-00000000000000000000.kfs", "default/t/0/segment-00000000000000000007.kfs"}
	// one bubble for the whole enumeration: stalls and the caller's deadline run on the
	// bubble's virtual clock
	synctest.Test(t, func(t *testing.T) {
		c44CoreBody(t, st, known, keys)
	})
}

func c44CoreBody(t *testing.T, st *vfkit.Stats, known bool, keys []string) {
	c44CoreConcurrent(t, st, known, keys[0])
	c44CoreRestore(t, st, known)
	for _, s0 := range c44States {
		for _, s1 := range c44States {
			for ki, key := range keys {
				state := []string{s0, s1}[ki]
				for _, asIndex := range []bool{false, true} {
					for ri, rd := range c44Reads(map[bool]int64{false: 96, true: 40}[asIndex]) {
						if rd.Index != asIndex {
							continue
						}
						for _, memory := range []bool{false, true} {
							backend := map[bool]string{false: "model", true: "MemoryS3Client"}[memory]
							for _, pfail := range []bool{false, true} {
								w := c44NewWorldKind(memory)
								c44Apply(w, keys[0], s0, asIndex)
								c44Apply(w, keys[1], s1, asIndex)
								w.failP[key] = pfail
								if known && w.staleServedFor(key, rd) {
									st.ExcludedCase(c44StaleID)
									continue
								}
								st.Eval()
								cls := "state:" + state
								if pfail {
									cls = "primary-failing:" + state
								}
								st.Class(cls)
								st.Class("backend:" + backend)
								if state != "identical" || pfail {
									if st.NonTrivial(s0, s1, ki, asIndex, ri, memory, pfail) && !pfail {
										st.Sample(map[string]any{"states": []string{s0, s1}, "read_key": ki, "read": rd.String(), "backend": backend})
									}
								}
								if msg := c44CheckRead(w, key, rd); msg != "" {
									t.Fatalf("replica states (%s,%s), backend %s, primary failing=%v: %s", s0, s1, backend, pfail, msg)
								}
								if msg := c44ReplicaClean(w); msg != "" {
									t.Fatalf("replica states (%s,%s) read %s: %s", s0, s1, rd, msg)
								}
							}
						}
					}
				}
			}
			// routing of writes / deletes / listings / EnsureBucket for this state pair
			w := c44NewWorld()
			c44Apply(w, keys[0], s0, false)
			c44Apply(w, keys[1], s1, false)
			st.Eval()
			st.Class("routing")
			if msg := c44CheckRouting(w, keys); msg != "" {
				t.Fatalf("replica states (%s,%s): %s", s0, s1, msg)
			}
			// the same with a replica endpoint that is down entirely
			w = c44NewWorld()
			c44Apply(w, keys[0], s0, false)
			c44Apply(w, keys[1], s1, false)
			w.failRAll = true
			st.Eval()
			st.Class("routing-replica-down")
			st.NonTrivial("routing-down", s0, s1)
			if msg := c44CheckRouting(w, keys); msg != "" {
				t.Fatalf("replica down, states (%s,%s): %s", s0, s1, msg)
			}
			// the primary's LIST fails: the failure must surface, whatever the replica could list
			for _, variant := range []string{"as-is", "replica-extra-key", "replica-empty", "replica-down"} {
				w = c44NewWorld()
				c44Apply(w, keys[0], s0, false)
				c44Apply(w, keys[1], s1, false)
				switch variant {
				case "replica-extra-key":
					w.r.PokeRaw("default/t/0/segment-00000000000000000099.kfs", []byte("only-on-replica"))
				case "replica-empty":
					for k := range w.r.Snapshot() {
						c44Remove(w.r, k)
					}
				case "replica-down":
					w.failRAll = true
				}
				w.failPList = true
				st.Eval()
				st.Class("list-primary-fails:" + variant)
				st.NonTrivial("list-pfail", s0, s1, variant)
				got, err := w.dual.ListSegments(context.Background(), "default/t/")
				if err == nil {
					t.Fatalf("replica states (%s,%s), %s: the primary's LIST fails but ListSegments returned %s (primary holds %s)", s0, s1, variant, c44FmtList(got), c44ListOf(w.p, "default/t/"))
				}
				if msg := c44ReplicaClean(w); msg != "" {
					t.Fatalf("replica states (%s,%s), %s, primary LIST failing: %s", s0, s1, variant, msg)
				}
			}
		}
	}
}

// c44ConcurrentReads issues two reads of one key through the dual client so that they
// overlap on the primary: the primary's GET of that key is gated (ObjStore.OnOp) until both
// callers are durably blocked (synctest.Wait). Each caller must get what the primary alone
// returns for ITS read. Must run inside a synctest bubble.
func c44ConcurrentReads(w *c44World, key string, a, b c44Read) string {
	type result struct {
		b   []byte
		err error
	}
	reads := []c44Read{a, b}
	var want [2]result
	for i, rd := range reads {
		want[i].b, want[i].err = c44DoRead(context.Background(), w.alone(w.p, key), key, rd)
	}
	gate := make(chan struct{})
	w.p.OnOp = func(op vfkit.ObjOp) {
		if strings.HasPrefix(op.Kind, "get") && op.Key == key {
			<-gate
		}
	}
	defer func() { w.p.OnOp = nil }()
	ctx, cancel := context.WithTimeout(context.Background(), c44CallerDeadline)
	defer cancel()
	var got [2]result
	done := make(chan int, 2)
	for i := range reads {
		go func(i int) {
			got[i].b, got[i].err = c44DoRead(ctx, w.dual, key, reads[i])
			done <- i
		}(i)
		synctest.Wait() // the caller is parked (at the primary's gate, or waiting for the other's flight) or done
	}
	close(gate)
	<-done
	<-done
	for i, rd := range reads {
		g, wnt := got[i], want[i]
		if w.failP[key] {
			if g.err == nil && (wnt.err != nil || !bytes.Equal(g.b, wnt.b)) {
				return fmt.Sprintf("concurrent reads %s || %s of %q (primary failing): read %s returned %d bytes %q, primary content gives %q", a, b, key, rd, len(g.b), c44Short(g.b), c44Short(wnt.b))
			}
			continue
		}
		if (g.err == nil) != (wnt.err == nil) {
			return fmt.Sprintf("concurrent reads %s || %s of %q: read %s: dual err=%v, primary alone err=%v", a, b, key, rd, g.err, wnt.err)
		}
		if g.err == nil && !bytes.Equal(g.b, wnt.b) {
			return fmt.Sprintf("concurrent reads %s || %s of %q: read %s returned %d bytes %q, the primary alone returns %d bytes %q", a, b, key, rd, len(g.b), c44Short(g.b), len(wnt.b), c44Short(wnt.b))
		}
	}
	return ""
}

// c44CoreConcurrent: every ordered pair of read shapes of one segment key, overlapping on
// the primary, for the replica states that send both callers to the primary (and controls).
func c44CoreConcurrent(t *testing.T, st *vfkit.Stats, known bool, key string) {
	var shapes []c44Read
	for _, r := range c44Reads(96) {
		if !r.Index && (r.Rng == nil || r.Rng.End >= r.Rng.Start) {
			shapes = append(shapes, r)
		}
	}
	for _, state := range []string{"missing", "failing", "both-absent", "identical", "older-shorter", "older-longer"} {
		for ai, a := range shapes {
			for bi, b := range shapes {
				w := c44NewWorld()
				c44Apply(w, key, state, false)
				if known && (w.staleServedFor(key, a) || w.staleServedFor(key, b)) {
					st.ExcludedCase(c44StaleID)
					continue
				}
				st.Eval()
				st.Class("concurrent:" + state)
				if ai != bi {
					st.NonTrivial("concurrent", state, ai, bi)
				}
				if msg := c44ConcurrentReads(w, key, a, b); msg != "" {
					t.Fatalf("replica state %s: %s", state, msg)
				}
			}
		}
	}
}

// c44CoreRestore: PartitionLog.RestoreFromS3 through the dual client equals the restore from
// the primary alone, for the replica states a re-uploaded segment leaves behind: the key of
// base offset 0 was first written with one batch (v1, its index upload failed) and then
// re-flushed with two batches (v2); the replica may hold v1, v2, a longer v3, or nothing.
func c44CoreRestore(t *testing.T, st *vfkit.Stats, known bool) {
	build := func(base int64, counts ...int) *storage.SegmentArtifact {
		var bs []storage.RecordBatch
		off := base
		for _, n := range counts {
			rb, err := storage.NewRecordBatchFromBytes(vfkit.SimpleBatch(off, 1_700_000_000_000, n, "r"))
			if err != nil {
				t.Fatalf("harness: %v", err)
			}
			bs = append(bs, rb)
			off += int64(n)
		}
		art, err := storage.BuildSegment(storage.SegmentWriterConfig{IndexIntervalMessages: 1}, bs, time.UnixMilli(1_700_000_000_000))
		if err != nil {
			t.Fatalf("harness: %v", err)
		}
		return art
	}
	v1, v2, v3, next := build(0, 2), build(0, 2, 3), build(0, 2, 3, 4), build(9, 1)
	segKey := func(base int64) string { return fmt.Sprintf("default/t/0/segment-%020d.kfs", base) }
	idxKey := func(base int64) string { return fmt.Sprintf("default/t/0/segment-%020d.index", base) }
	type variant struct {
		name string
		seg  *storage.SegmentArtifact // replica copy of segment 0 (nil = none)
		idx  *storage.SegmentArtifact // replica copy of index 0 (nil = none)
		fail bool
	}
	variants := []variant{{"identical", v2, v2, false}, {"missing", nil, nil, false}, {"older-shorter-segment,no-index", v1, nil, false},
		{"older-shorter-segment,current-index", v1, v2, false}, {"older-shorter-segment,older-index", v1, v1, false},
		{"longer-segment,no-index", v3, nil, false}, {"current-segment,no-index", v2, nil, false}, {"no-segment,older-index", nil, v1, false},
		{"failing", v2, v2, true}}
	restore := func(c storage.S3Client) (int64, int64, error) {
		pl := storage.NewPartitionLog("default", "t", 0, 0, c, nil, storage.PartitionLogConfig{}, nil, nil, nil)
		last, err := pl.RestoreFromS3(context.Background())
		return last, pl.EarliestOffset(), err
	}
	for _, v := range variants {
		for _, memory := range []bool{false, true} {
			backend := map[bool]string{false: "model", true: "MemoryS3Client"}[memory]
			w := c44NewWorldKind(memory)
			w.p.PokeRaw(segKey(0), v2.SegmentBytes)
			w.p.PokeRaw(idxKey(0), v2.IndexBytes)
			w.p.PokeRaw(segKey(9), next.SegmentBytes)
			w.p.PokeRaw(idxKey(9), next.IndexBytes)
			w.r.PokeRaw(segKey(9), next.SegmentBytes)
			w.r.PokeRaw(idxKey(9), next.IndexBytes)
			if v.seg != nil {
				w.r.PokeRaw(segKey(0), v.seg.SegmentBytes)
			}
			if v.idx != nil {
				w.r.PokeRaw(idxKey(0), v.idx.IndexBytes)
			}
			if v.fail {
				w.failR[segKey(0)], w.failR[idxKey(0)] = true, true
			}
			// the reads RestoreFromS3 issues for segment 0: footer by the primary's listed size, index
			sz := int64(len(v2.SegmentBytes))
			footer := c44Read{Rng: &storage.ByteRange{Start: sz - 16, End: sz - 1}}
			if known && (w.staleServedFor(segKey(0), footer) || w.staleServedFor(idxKey(0), c44Read{Index: true})) {
				st.ExcludedCase(c44StaleID)
				continue
			}
			// the primary alone: same kind of client over a private copy of the primary's content
			alone := &c44S3{o: vfkit.NewObjStore()}
			if memory {
				alone.mem = storage.NewMemoryS3Client()
			}
			for k, b := range w.p.Snapshot() {
				alone.o.PokeRaw(k, b)
			}
			wantLast, wantFirst, wantErr := restore(alone)
			if wantErr != nil || wantLast != 9 {
				t.Fatalf("harness: restore from the primary alone: last=%d err=%v", wantLast, wantErr)
			}
			st.Eval()
			st.Class("restore:" + v.name)
			st.Class("backend:" + backend)
			if st.NonTrivial("restore", v.name, memory) {
				st.Sample(map[string]any{"restore_from_s3": v.name, "backend": backend})
			}
			gotLast, gotFirst, gotErr := restore(w.dual)
			if (gotErr == nil) != (wantErr == nil) || gotLast != wantLast || gotFirst != wantFirst {
				t.Fatalf("RestoreFromS3 through the dual client (replica: %s, backend %s): last=%d earliest=%d err=%v; from the primary alone: last=%d earliest=%d err=%v",
					v.name, backend, gotLast, gotFirst, gotErr, wantLast, wantFirst, wantErr)
			}
			if msg := c44ReplicaClean(w); msg != "" {
				t.Fatalf("RestoreFromS3 (replica: %s): %s", v.name, msg)
			}
		}
	}
}

// c44CheckRouting: list == primary's listing; upload / delete change the primary exactly
// like a direct call and never reach the replica.
func c44CheckRouting(w *c44World, keys []string) string {
	ctx := context.Background()
	wantList := c44ListOf(w.p, "default/t/")
	got, err := w.dual.ListSegments(ctx, "default/t/")
	if err != nil {
		return fmt.Sprintf("ListSegments failed although the primary is healthy: %v", err)
	}
	if g := c44FmtList(got); g != wantList {
		return fmt.Sprintf("ListSegments returned %s, primary holds %s", g, wantList)
	}
	rBefore := w.r.Snapshot()
	nk := "default/t/0/segment-00000000000000000042.kfs"
	ni := "default/t/0/segment-00000000000000000042.index"
	if err := w.dual.UploadSegment(ctx, nk, []byte("seg42")); err != nil {
		return fmt.Sprintf("UploadSegment failed: %v", err)
	}
	if err := w.dual.UploadIndex(ctx, ni, []byte("idx42")); err != nil {
		return fmt.Sprintf("UploadIndex failed: %v", err)
	}
	if err := w.dual.UploadSegment(ctx, keys[0], []byte("overwritten")); err != nil {
		return fmt.Sprintf("UploadSegment (overwrite) failed: %v", err)
	}
	for k, v := range map[string]string{nk: "seg42", ni: "idx42", keys[0]: "overwritten"} {
		if b, ok := w.p.Peek(k); !ok || string(b) != v {
			return fmt.Sprintf("upload of %q did not land in the primary (have %q, present=%v)", k, b, ok)
		}
	}
	if err := w.dual.DeleteSegment(ctx, keys[1]); err != nil {
		return fmt.Sprintf("DeleteSegment failed: %v", err)
	}
	if err := w.dual.DeleteIndex(ctx, ni); err != nil {
		return fmt.Sprintf("DeleteIndex failed: %v", err)
	}
	for _, k := range []string{keys[1], ni} {
		if _, ok := w.p.Peek(k); ok {
			return fmt.Sprintf("delete of %q did not remove it from the primary", k)
		}
	}
	if err := w.dual.EnsureBucket(ctx); err != nil {
		return fmt.Sprintf("EnsureBucket failed: %v", err)
	}
	if w.pc.ensures != 1 {
		return fmt.Sprintf("EnsureBucket reached the primary %d times", w.pc.ensures)
	}
	rAfter := w.r.Snapshot()
	if len(rAfter) != len(rBefore) {
		return "replica bucket content changed by writes through the dual client"
	}
	for k, v := range rBefore {
		if !bytes.Equal(rAfter[k], v) {
			return fmt.Sprintf("replica object %q changed by writes through the dual client", k)
		}
	}
	return c44ReplicaClean(w)
}

func c44ListOf(o *vfkit.ObjStore, prefix string) string {
	var out []storage.S3Object
	snap := o.Snapshot()
	for k, v := range snap {
		if strings.HasPrefix(k, prefix) {
			out = append(out, storage.S3Object{Key: k, Size: int64(len(v))})
		}
	}
	return c44FmtList(out)
}

func c44FmtList(l []storage.S3Object) string {
	s := make([]string, 0, len(l))
	for _, o := range l {
		s = append(s, fmt.Sprintf("%s(%d)", o.Key, o.Size))
	}
	sort.Strings(s)
	return strings.Join(s, ",")
}

// Histories: uploads / overwrites / deletes through the dual client interleaved with
// replication events (the replica catches up on one key, loses a key, its endpoint
// starts or stops failing or stalling for a key) and reads of every shape. The history is
// drawn up front (plain data) and executed inside a testing/synctest bubble, so stalls and
// the caller's deadline cost no real time; the verdict is reported after the bubble ends.
type c44Op struct {
	Kind  string
	Key   int
	Size  int
	On    bool
	Shape int
	Pfx   int
	Stall int
}

var c44OpKinds = []string{"upload", "upload", "replicate", "replicate", "read", "read", "read", "read", "delete", "replica-fail", "primary-fail", "replica-stall", "replica-stall", "list", "list", "primary-list-fail", "concurrent-reads", "concurrent-reads"}

var c44Stalls = []c44Stall{{}, {Dur: time.Second}, {Dur: 1999 * time.Millisecond}, {Dur: 2 * time.Second}, {Dur: 3 * time.Second}, {Dur: 45 * time.Second},
	{Dur: 10 * time.Minute}, {Dur: 3 * time.Second, Serve: true}, {Dur: 30 * time.Second, Serve: true}, {Hang: true}}

var c44Prefixes = []string{"default/t/", "default/t/0/", "default/t/1/", "default/x/"}

func TestVF_C44_History(t *testing.T) {
	st := vfkit.NewStats("C44", "history")
	defer st.Flush()
	known := vfkit.Known(c44StaleID)
	opGen := rapid.Custom(func(t *rapid.T) c44Op {
		return c44Op{Kind: rapid.SampledFrom(c44OpKinds).Draw(t, "kind"), Key: rapid.IntRange(0, 3).Draw(t, "key"),
			Size: rapid.SampledFrom([]int{48, 64, 96, 130}).Draw(t, "size"), On: rapid.Bool().Draw(t, "on"),
			Shape: rapid.IntRange(0, 15).Draw(t, "shape"), Pfx: rapid.IntRange(0, len(c44Prefixes)-1).Draw(t, "prefix"),
			Stall: rapid.IntRange(0, len(c44Stalls)-1).Draw(t, "stall")}
	})
	rapid.Check(t, func(rt *rapid.T) {
		inits := rapid.SliceOfN(rapid.SampledFrom([]string{"absent", "primary", "both", "both"}), 4, 4).Draw(rt, "init")
		ops := rapid.SliceOfN(opGen, 20, 80).Draw(rt, "ops")
		memory := rapid.Bool().Draw(rt, "memory-clients")
		st.Eval()
		verdict := ""
		synctest.Test(t, func(*testing.T) {
			verdict = c44RunHistory(st, known, memory, inits, ops)
		})
		if verdict != "" {
			rt.Fatalf("%s", verdict)
		}
	})
}

// c44RunHistory executes one pre-drawn history; returns "" or the violation.
func c44RunHistory(st *vfkit.Stats, known bool, memory bool, inits []string, ops []c44Op) string {
	w := c44NewWorldKind(memory)
	st.Class(map[bool]string{false: "backend:model", true: "backend:MemoryS3Client"}[memory])
	ctx := context.Background()
	keys := []string{
		"default/t/0/segment-00000000000000000000.kfs", "default/t/0/segment-00000000000000000000.index",
		"default/t/0/segment-00000000000000000005.kfs", "default/t/1/segment-00000000000000000000.kfs",
	}
	version := 0
	var trace []string
	sawNonIdentical := false
	// initial bucket contents: per key absent / primary only / replicated
	for i, k := range keys {
		switch inits[i] {
		case "primary":
			w.p.PokeRaw(k, c44Body(fmt.Sprintf("i%d", i), 96))
			trace = append(trace, fmt.Sprintf("init(%d,primary)", i))
		case "both":
			w.p.PokeRaw(k, c44Body(fmt.Sprintf("i%d", i), 96))
			w.r.PokeRaw(k, c44Body(fmt.Sprintf("i%d", i), 96))
			trace = append(trace, fmt.Sprintf("init(%d,both)", i))
		}
	}
	for _, op := range ops {
		k := keys[op.Key]
		switch op.Kind {
		case "upload":
			version++
			body := c44Body(fmt.Sprintf("v%d", version), op.Size)
			var err error
			if strings.HasSuffix(k, ".index") {
				err = w.dual.UploadIndex(ctx, k, body)
			} else {
				err = w.dual.UploadSegment(ctx, k, body)
			}
			if err != nil {
				return fmt.Sprintf("upload %q failed on a healthy primary: %v\nhistory: %v", k, err, trace)
			}
			if pb, ok := w.p.Peek(k); !ok || !bytes.Equal(pb, body) {
				return fmt.Sprintf("upload %q did not land in the primary\nhistory: %v", k, trace)
			}
			trace = append(trace, fmt.Sprintf("up(%d,%d)", op.Key, op.Size))
		case "replicate": // cross-region replication catches up on one key
			if pb, ok := w.p.Peek(k); ok {
				w.r.PokeRaw(k, pb)
			} else {
				c44Remove(w.r, k)
			}
			trace = append(trace, fmt.Sprintf("rep(%d)", op.Key))
		case "delete":
			var err error
			if strings.HasSuffix(k, ".index") {
				err = w.dual.DeleteIndex(ctx, k)
			} else {
				err = w.dual.DeleteSegment(ctx, k)
			}
			if err != nil {
				return fmt.Sprintf("delete %q failed on a healthy primary: %v\nhistory: %v", k, err, trace)
			}
			if _, ok := w.p.Peek(k); ok {
				return fmt.Sprintf("delete %q did not remove the primary object\nhistory: %v", k, trace)
			}
			trace = append(trace, fmt.Sprintf("del(%d)", op.Key))
		case "replica-fail":
			w.failR[k] = op.On
			trace = append(trace, fmt.Sprintf("rfail(%d,%v)", op.Key, op.On))
		case "primary-fail":
			w.failP[k] = op.On
			trace = append(trace, fmt.Sprintf("pfail(%d,%v)", op.Key, op.On))
		case "replica-stall":
			w.stallR[k] = c44Stalls[op.Stall]
			trace = append(trace, fmt.Sprintf("rstall(%d,%s)", op.Key, c44Stalls[op.Stall]))
		case "primary-list-fail":
			w.failPList = op.On
			trace = append(trace, fmt.Sprintf("plistfail(%v)", op.On))
		case "list":
			prefix := c44Prefixes[op.Pfx]
			got, err := w.dual.ListSegments(ctx, prefix)
			if w.failPList {
				st.Class("list+primary-list-failing")
				sawNonIdentical = true
				trace = append(trace, "list(primary failing)")
				if err == nil {
					return fmt.Sprintf("ListSegments(%q) returned %s although the primary's LIST fails (primary holds %s)\nhistory: %v", prefix, c44FmtList(got), c44ListOf(w.p, prefix), trace)
				}
				break
			}
			if err != nil {
				return fmt.Sprintf("ListSegments(%q) failed on a healthy primary: %v\nhistory: %v", prefix, err, trace)
			}
			if g, want := c44FmtList(got), c44ListOf(w.p, prefix); g != want {
				return fmt.Sprintf("ListSegments(%q) = %s, the primary holds %s\nhistory: %v", prefix, g, want, trace)
			}
			st.Class("list")
			trace = append(trace, "list")
		case "read":
			if msg := c44HistoryRead(st, w, op, k, known, &trace, &sawNonIdentical); msg != "" {
				return msg
			}
		case "concurrent-reads":
			if strings.HasSuffix(k, ".index") || w.stallR[k].Dur > 0 || w.stallR[k].Hang {
				break // two index reads are the same read; stalled replicas do not overlap on the primary
			}
			size := int64(64)
			if pb, ok := w.p.Peek(k); ok {
				size = int64(len(pb))
			}
			var shapes []c44Read
			for _, r := range c44Reads(size) {
				if !r.Index && (r.Rng == nil || (r.Rng.Start >= 0 && r.Rng.End >= r.Rng.Start)) {
					shapes = append(shapes, r)
				}
			}
			a, b := shapes[op.Shape%len(shapes)], shapes[(op.Shape/4+op.Size)%len(shapes)]
			if known && (w.staleServedFor(k, a) || w.staleServedFor(k, b)) {
				st.ExcludedCase(c44StaleID)
				trace = append(trace, "skip-stale-concurrent")
				break
			}
			st.Class("concurrent-reads")
			sawNonIdentical = true
			trace = append(trace, fmt.Sprintf("crd(%d,%s||%s)", op.Key, a, b))
			if msg := c44ConcurrentReads(w, k, a, b); msg != "" {
				return fmt.Sprintf("%s\nhistory: %v", msg, trace)
			}
		}
		if msg := c44ReplicaClean(w); msg != "" {
			return fmt.Sprintf("%s\nhistory: %v", msg, trace)
		}
	}
	if sawNonIdentical {
		st.NonTrivial(trace)
		st.Sample(map[string]any{"history": trace})
	}
	return ""
}

func c44HistoryRead(st *vfkit.Stats, w *c44World, op c44Op, k string, known bool, tracep *[]string, sawp *bool) string {
	trace := *tracep
	defer func() { *tracep = trace }()
	size := int64(64)
	if pb, ok := w.p.Peek(k); ok {
		size = int64(len(pb))
	}
	var rd c44Read
	if strings.HasSuffix(k, ".index") {
		rd = c44Read{Index: true}
	} else {
		var segReads []c44Read
		for _, r := range c44Reads(size) {
			if !r.Index && (r.Rng == nil || (r.Rng.Start >= 0 && r.Rng.End >= r.Rng.Start)) {
				segReads = append(segReads, r)
			}
		}
		rd = segReads[op.Shape%len(segReads)]
	}
	_, rok := w.r.Peek(k)
	_, pok := w.p.Peek(k)
	sl := w.stallR[k]
	cls := "replica-identical"
	switch {
	case w.staleServedFor(k, rd):
		cls = "replica-stale"
	case w.staleServed(k):
		cls = "replica-stale-but-refuses-this-read"
	case w.failR[k]:
		cls = "replica-failing"
	case sl.Hang:
		cls = "replica-hangs"
	case sl.Dur > 0 && !sl.Serve:
		cls = "replica-stalls-then-errors"
	case !rok && pok:
		cls = "replica-missing"
	case !rok && !pok:
		cls = "both-absent"
	}
	if sl.Dur > 0 && sl.Serve && cls != "replica-failing" {
		cls += "+slow"
	}
	if w.failP[k] {
		cls += "+primary-failing"
	}
	if strings.HasPrefix(cls, "replica-stale") && known {
		st.ExcludedCase(c44StaleID)
		trace = append(trace, "skip-stale-read")
		return ""
	}
	st.Class(cls)
	if cls != "replica-identical" {
		*sawp = true
	}
	trace = append(trace, fmt.Sprintf("rd(%d,%s,%s)", op.Key, rd, cls))
	if msg := c44CheckRead(w, k, rd); msg != "" {
		return fmt.Sprintf("%s [replica state: %s, stall %s]\nhistory: %v", msg, cls, sl, trace)
	}
	return ""
}

func c44Idx(keys []string, k string) int {
	for i, x := range keys {
		if x == k {
			return i
		}
	}
	return -1
}

// Witness of C44-stale-replica-served: a segment key is overwritten on the primary (the
// broker re-uses a base offset after a flush whose index upload failed, see
// PartitionLog.uploadFlush / RestoreFromS3 "skipping orphaned segment") while the replica
// still holds the previous version: the dual client serves the previous version.
func TestVF_C44_Witness(t *testing.T) {
	st := vfkit.NewStats("C44", "witness")
	defer st.Flush()
	st.Eval()
	ctx := context.Background()
	w := c44NewWorld()
	key := "default/orders/0/segment-00000000000000000010.kfs"
	v1 := c44Body("first-attempt", 80)
	v2 := c44Body("retried-flush", 120)
	if err := w.dual.UploadSegment(ctx, key, v1); err != nil {
		t.Fatalf("upload v1: %v", err)
	}
	w.r.PokeRaw(key, v1) // replication caught up with v1
	if err := w.dual.UploadSegment(ctx, key, v2); err != nil {
		t.Fatalf("upload v2: %v", err)
	}
	msgFull := c44CheckRead(w, key, c44Read{})
	msgFooter := c44CheckRead(w, key, c44Read{Rng: &storage.ByteRange{Start: int64(len(v2)) - 16, End: int64(len(v2)) - 1}})
	// deleted on the primary, still on the replica
	if err := w.dual.DeleteSegment(ctx, key); err != nil {
		t.Fatalf("delete: %v", err)
	}
	msgDeleted := c44CheckRead(w, key, c44Read{})
	still := msgFull != "" || msgDeleted != ""
	what := "dualS3Client falls back to the primary only on a replica error; a replica that still holds the previous version of an overwritten (or deleted) key is served as-is"
	if still {
		what += ": " + msgFull
		if msgFull == "" {
			what += msgDeleted
		}
	}
	st.Note("witness_full", msgFull)
	st.Note("witness_footer_range", msgFooter)
	st.Note("witness_deleted", msgDeleted)
	st.KnownResult(c44StaleID, still, what)
	st.NonTrivial("witness")
	st.Sample(map[string]any{"witness": "upload v1; replicate; upload v2 (same key); read via dual", "result": msgFull})
}
