//go:build verif

package main

import (
	"bytes"
	"context"
	"errors"
	"fmt"
	"sort"
	"strings"
	"testing"

	"pgregory.net/rapid"
	"verif.local/vfkit"

	"github.com/KafScale/platform/pkg/storage"
)

// C44: reads through dualS3Client (read replica + primary) return what the primary
// bucket alone would return, whatever the replica holds for the key (identical copy,
// nothing, a failing endpoint, an older version of an overwritten key, a copy of a key
// the primary has since deleted). Writes, deletes, listings and EnsureBucket go to the
// primary only.
//
// Oracle: a third, private copy of the primary's content ("what the primary would
// return") queried with the same call. Independent of dualS3Client.

const c44StaleID = "C44-stale-replica-served"

// c44S3 adapts vfkit.ObjStore to storage.S3Client (one key space per bucket).
type c44S3 struct {
	o       *vfkit.ObjStore
	ensures int
}

func (s *c44S3) mapErr(err error) error {
	if errors.Is(err, vfkit.ErrObjNotFound) {
		return fmt.Errorf("object: %w", storage.ErrNotFound)
	}
	return err
}
func (s *c44S3) UploadSegment(ctx context.Context, key string, body []byte) error {
	return s.o.Put("put-segment", key, body)
}
func (s *c44S3) UploadIndex(ctx context.Context, key string, body []byte) error {
	return s.o.Put("put-index", key, body)
}
func (s *c44S3) DeleteSegment(ctx context.Context, key string) error {
	return s.o.Delete("delete-segment", key)
}
func (s *c44S3) DeleteIndex(ctx context.Context, key string) error {
	return s.o.Delete("delete-index", key)
}
func (s *c44S3) DownloadSegment(ctx context.Context, key string, rng *storage.ByteRange) ([]byte, error) {
	var r *[2]int64
	if rng != nil {
		r = &[2]int64{rng.Start, rng.End}
	}
	b, err := s.o.Get("get-segment", key, r)
	return b, s.mapErr(err)
}
func (s *c44S3) DownloadIndex(ctx context.Context, key string) ([]byte, error) {
	b, err := s.o.Get("get-index", key, nil)
	return b, s.mapErr(err)
}
func (s *c44S3) ListSegments(ctx context.Context, prefix string) ([]storage.S3Object, error) {
	objs, err := s.o.List("list", prefix)
	if err != nil {
		return nil, err
	}
	out := make([]storage.S3Object, 0, len(objs))
	for _, o := range objs {
		out = append(out, storage.S3Object{Key: o.Key, Size: o.Size})
	}
	return out, nil
}
func (s *c44S3) EnsureBucket(ctx context.Context) error { s.ensures++; return nil }

// c44World is one primary bucket, one replica bucket and the dual client over them.
type c44World struct {
	p, r     *vfkit.ObjStore
	pc, rc   *c44S3
	dual     storage.S3Client
	failP    map[string]bool // primary GETs of this key fail (endpoint trouble)
	failR    map[string]bool // replica GETs of this key fail
	failRAll bool
}

func c44NewWorld() *c44World {
	w := &c44World{p: vfkit.NewObjStore(), r: vfkit.NewObjStore(), failP: map[string]bool{}, failR: map[string]bool{}}
	w.pc, w.rc = &c44S3{o: w.p}, &c44S3{o: w.r}
	w.p.Fault = func(op vfkit.ObjOp) vfkit.FaultKind {
		if strings.HasPrefix(op.Kind, "get") && w.failP[op.Key] {
			return vfkit.FaultBefore
		}
		return vfkit.FaultNone
	}
	w.r.Fault = func(op vfkit.ObjOp) vfkit.FaultKind {
		if w.failRAll || (strings.HasPrefix(op.Kind, "get") && w.failR[op.Key]) {
			return vfkit.FaultBefore
		}
		return vfkit.FaultNone
	}
	w.dual = newDualS3Client(w.pc, w.rc)
	return w
}

// stale reports whether the replica holds, for key, something the primary does not
// currently hold (older version of an overwritten key, or a key deleted on the primary).
func (w *c44World) stale(key string) bool {
	rb, rok := w.r.Peek(key)
	if !rok {
		return false
	}
	pb, pok := w.p.Peek(key)
	return !pok || !bytes.Equal(pb, rb)
}

type c44Read struct {
	Index bool
	Rng   *storage.ByteRange
}

func (rd c44Read) String() string {
	if rd.Index {
		return "index"
	}
	if rd.Rng == nil {
		return "segment[full]"
	}
	return fmt.Sprintf("segment[%d-%d]", rd.Rng.Start, rd.Rng.End)
}

func c44DoRead(c storage.S3Client, key string, rd c44Read) ([]byte, error) {
	if rd.Index {
		return c.DownloadIndex(context.Background(), key)
	}
	return c.DownloadSegment(context.Background(), key, rd.Rng)
}

// c44CheckRead performs one read through the dual client and compares it with what the
// primary's content alone yields. Returns a violation description or "".
func c44CheckRead(w *c44World, key string, rd c44Read) string {
	// what the primary would return: a healthy private copy of its content
	ref := &c44S3{o: vfkit.NewObjStore()}
	if pb, ok := w.p.Peek(key); ok {
		ref.o.PokeRaw(key, pb)
	}
	want, wantErr := c44DoRead(ref, key, rd)
	got, gotErr := c44DoRead(w.dual, key, rd)
	if w.failP[key] {
		// primary unreachable for this key: the statement fixes the bytes, not availability
		if gotErr == nil && (wantErr != nil || !bytes.Equal(got, want)) {
			return fmt.Sprintf("read %s of %q (primary failing) returned %d bytes %q; primary content gives (%q, err=%v)", rd, key, len(got), c44Short(got), c44Short(want), wantErr)
		}
		return ""
	}
	if (gotErr == nil) != (wantErr == nil) {
		return fmt.Sprintf("read %s of %q: dual err=%v but primary alone err=%v (dual bytes %q, primary bytes %q)", rd, key, gotErr, wantErr, c44Short(got), c44Short(want))
	}
	if gotErr != nil {
		if errors.Is(gotErr, storage.ErrNotFound) != errors.Is(wantErr, storage.ErrNotFound) {
			return fmt.Sprintf("read %s of %q: error class differs: dual %v, primary alone %v", rd, key, gotErr, wantErr)
		}
		return ""
	}
	if !bytes.Equal(got, want) {
		return fmt.Sprintf("read %s of %q returned %d bytes %q, the primary holds %d bytes %q", rd, key, len(got), c44Short(got), len(want), c44Short(want))
	}
	return ""
}

func c44Short(b []byte) string {
	if len(b) > 24 {
		return string(b[:24]) + "..."
	}
	return string(b)
}

// c44ReplicaClean verifies the replica bucket never saw a write, delete or listing.
func c44ReplicaClean(w *c44World) string {
	for _, op := range w.r.Ops {
		if !strings.HasPrefix(op.Kind, "get") {
			return fmt.Sprintf("replica bucket received %s %q", op.Kind, op.Key)
		}
	}
	if w.rc.ensures != 0 {
		return "EnsureBucket was sent to the replica"
	}
	return ""
}

func c44Body(tag string, n int) []byte {
	b := make([]byte, n)
	for i := range b {
		b[i] = tag[i%len(tag)]
	}
	if n >= 4 {
		copy(b, fmt.Sprintf("%s|%d|", tag, n))
	}
	return b
}

// replica states of the exhaustive core
var c44States = []string{"identical", "missing", "failing", "older-same-len", "older-shorter", "older-longer", "primary-deleted", "both-absent"}

func c44StateStale(s string) bool {
	return strings.HasPrefix(s, "older") || s == "primary-deleted"
}

func c44Apply(w *c44World, key, state string, isIndex bool) {
	cur := c44Body("NEW-"+key, 96)
	if isIndex {
		cur = c44Body("NIX-"+key, 40)
	}
	w.p.PokeRaw(key, cur)
	switch state {
	case "identical":
		w.r.PokeRaw(key, cur)
	case "missing":
	case "failing":
		w.r.PokeRaw(key, cur)
		w.failR[key] = true
	case "older-same-len":
		w.r.PokeRaw(key, c44Body("OLD-"+key, len(cur)))
	case "older-shorter":
		w.r.PokeRaw(key, c44Body("OLD-"+key, len(cur)-37))
	case "older-longer":
		w.r.PokeRaw(key, c44Body("OLD-"+key, len(cur)+29))
	case "primary-deleted":
		w.r.PokeRaw(key, cur)
		c44Remove(w.p, key)
	case "both-absent":
		c44Remove(w.p, key)
	}
}

// c44Remove deletes without going through the logged API (set-up only).
func c44Remove(o *vfkit.ObjStore, key string) {
	f, on := o.Fault, o.OnOp
	o.Fault, o.OnOp = nil, nil
	n := len(o.Ops)
	_ = o.Delete("setup-delete", key)
	o.Ops = o.Ops[:n]
	o.Fault, o.OnOp = f, on
}

// c44Reads lists the read shapes the broker and the restore tool issue, relative to the
// size the *primary* listing reports (RestoreFromS3 / inspectSourceSegment compute the
// footer range from the listed size).
func c44Reads(size int64) []c44Read {
	rs := []c44Read{{Rng: nil}, {Index: true}}
	add := func(s, e int64) { rs = append(rs, c44Read{Rng: &storage.ByteRange{Start: s, End: e}}) }
	add(0, 31)            // segment header
	add(size-16, size-1)  // footer by listed size
	add(32, size-17)      // body
	add(40, 59)           // middle slice (index-driven range read)
	add(size-8, size+100) // end clamped
	add(size, size+10)    // starts at the end: invalid on the primary
	add(size+29, size+40) // beyond the primary, inside a longer stale copy
	add(size-37, size-30) // inside the primary, at the end of a shorter stale copy
	add(0, 0)             // single byte
	return rs
}

// Exhaustive core: every replica state of one key x every read shape, and every pair of
// states over two keys (segment + its index sibling, and two segments), plus the write /
// list routing for each state.
func TestVF_C44_Core(t *testing.T) {
	st := vfkit.NewStats("C44", "core")
	defer st.Flush()
	st.SetExhaustive(true)
	known := vfkit.Known(c44StaleID)
	keys := []string{"default/t/0/segment-00000000000000000000.kfs", "default/t/0/segment-00000000000000000007.kfs"}
	for _, s0 := range c44States {
		for _, s1 := range c44States {
			for ki, key := range keys {
				state := []string{s0, s1}[ki]
				for _, asIndex := range []bool{false, true} {
					for ri, rd := range c44Reads(map[bool]int64{false: 96, true: 40}[asIndex]) {
						if rd.Index != asIndex {
							continue
						}
						if known && c44StateStale(state) {
							st.ExcludedCase(c44StaleID)
							continue
						}
						w := c44NewWorld()
						c44Apply(w, keys[0], s0, asIndex)
						c44Apply(w, keys[1], s1, asIndex)
						st.Eval()
						st.Class("state:" + state)
						if state != "identical" {
							st.NonTrivial(s0, s1, ki, asIndex, ri)
							st.Sample(map[string]any{"states": []string{s0, s1}, "read_key": ki, "read": rd.String()})
						}
						if msg := c44CheckRead(w, key, rd); msg != "" {
							t.Fatalf("replica states (%s,%s): %s", s0, s1, msg)
						}
						if msg := c44ReplicaClean(w); msg != "" {
							t.Fatalf("replica states (%s,%s) read %s: %s", s0, s1, rd, msg)
						}
					}
				}
			}
			// routing of writes / deletes / listings / EnsureBucket for this state pair
			w := c44NewWorld()
			c44Apply(w, keys[0], s0, false)
			c44Apply(w, keys[1], s1, false)
			st.Eval()
			st.Class("routing")
			if msg := c44CheckRouting(w, keys); msg != "" {
				t.Fatalf("replica states (%s,%s): %s", s0, s1, msg)
			}
			// the same with a replica endpoint that is down entirely
			w = c44NewWorld()
			c44Apply(w, keys[0], s0, false)
			c44Apply(w, keys[1], s1, false)
			w.failRAll = true
			st.Eval()
			st.Class("routing-replica-down")
			st.NonTrivial("routing-down", s0, s1)
			if msg := c44CheckRouting(w, keys); msg != "" {
				t.Fatalf("replica down, states (%s,%s): %s", s0, s1, msg)
			}
		}
	}
}

// c44CheckRouting: list == primary's listing; upload / delete change the primary exactly
// like a direct call and never reach the replica.
func c44CheckRouting(w *c44World, keys []string) string {
	ctx := context.Background()
	wantList := c44ListOf(w.p, "default/t/")
	got, err := w.dual.ListSegments(ctx, "default/t/")
	if err != nil {
		return fmt.Sprintf("ListSegments failed although the primary is healthy: %v", err)
	}
	if g := c44FmtList(got); g != wantList {
		return fmt.Sprintf("ListSegments returned %s, primary holds %s", g, wantList)
	}
	rBefore := w.r.Snapshot()
	nk := "default/t/0/segment-00000000000000000042.kfs"
	ni := "default/t/0/segment-00000000000000000042.index"
	if err := w.dual.UploadSegment(ctx, nk, []byte("seg42")); err != nil {
		return fmt.Sprintf("UploadSegment failed: %v", err)
	}
	if err := w.dual.UploadIndex(ctx, ni, []byte("idx42")); err != nil {
		return fmt.Sprintf("UploadIndex failed: %v", err)
	}
	if err := w.dual.UploadSegment(ctx, keys[0], []byte("overwritten")); err != nil {
		return fmt.Sprintf("UploadSegment (overwrite) failed: %v", err)
	}
	for k, v := range map[string]string{nk: "seg42", ni: "idx42", keys[0]: "overwritten"} {
		if b, ok := w.p.Peek(k); !ok || string(b) != v {
			return fmt.Sprintf("upload of %q did not land in the primary (have %q, present=%v)", k, b, ok)
		}
	}
	if err := w.dual.DeleteSegment(ctx, keys[1]); err != nil {
		return fmt.Sprintf("DeleteSegment failed: %v", err)
	}
	if err := w.dual.DeleteIndex(ctx, ni); err != nil {
		return fmt.Sprintf("DeleteIndex failed: %v", err)
	}
	for _, k := range []string{keys[1], ni} {
		if _, ok := w.p.Peek(k); ok {
			return fmt.Sprintf("delete of %q did not remove it from the primary", k)
		}
	}
	if err := w.dual.EnsureBucket(ctx); err != nil {
		return fmt.Sprintf("EnsureBucket failed: %v", err)
	}
	if w.pc.ensures != 1 {
		return fmt.Sprintf("EnsureBucket reached the primary %d times", w.pc.ensures)
	}
	rAfter := w.r.Snapshot()
	if len(rAfter) != len(rBefore) {
		return "replica bucket content changed by writes through the dual client"
	}
	for k, v := range rBefore {
		if !bytes.Equal(rAfter[k], v) {
			return fmt.Sprintf("replica object %q changed by writes through the dual client", k)
		}
	}
	return c44ReplicaClean(w)
}

func c44ListOf(o *vfkit.ObjStore, prefix string) string {
	var out []storage.S3Object
	snap := o.Snapshot()
	for k, v := range snap {
		if strings.HasPrefix(k, prefix) {
			out = append(out, storage.S3Object{Key: k, Size: int64(len(v))})
		}
	}
	return c44FmtList(out)
}

func c44FmtList(l []storage.S3Object) string {
	s := make([]string, 0, len(l))
	for _, o := range l {
		s = append(s, fmt.Sprintf("%s(%d)", o.Key, o.Size))
	}
	sort.Strings(s)
	return strings.Join(s, ",")
}

// Histories: uploads / overwrites / deletes through the dual client interleaved with
// replication events (the replica catches up on one key, loses a key, its endpoint
// starts or stops failing for a key) and reads of every shape.
func TestVF_C44_History(t *testing.T) {
	st := vfkit.NewStats("C44", "history")
	defer st.Flush()
	known := vfkit.Known(c44StaleID)
	rapid.Check(t, func(t *rapid.T) {
		st.Eval()
		w := c44NewWorld()
		ctx := context.Background()
		keys := []string{
			"default/t/0/segment-00000000000000000000.kfs", "default/t/0/segment-00000000000000000000.index",
			"default/t/0/segment-00000000000000000005.kfs", "default/t/1/segment-00000000000000000000.kfs",
		}
		version := 0
		var trace []string
		sawNonIdentical := false
		keyGen := rapid.SampledFrom(keys)
		// initial bucket contents: per key absent / primary only / replicated
		for i, k := range keys {
			switch rapid.SampledFrom([]string{"absent", "primary", "both", "both"}).Draw(t, fmt.Sprintf("init%d", i)) {
			case "primary":
				w.p.PokeRaw(k, c44Body(fmt.Sprintf("i%d", i), 96))
				trace = append(trace, fmt.Sprintf("init(%d,primary)", i))
			case "both":
				w.p.PokeRaw(k, c44Body(fmt.Sprintf("i%d", i), 96))
				w.r.PokeRaw(k, c44Body(fmt.Sprintf("i%d", i), 96))
				trace = append(trace, fmt.Sprintf("init(%d,both)", i))
			}
		}
		upload := func(t *rapid.T) {
			k := keyGen.Draw(t, "key")
			version++
			n := rapid.SampledFrom([]int{48, 64, 96, 130}).Draw(t, "size")
			body := c44Body(fmt.Sprintf("v%d", version), n)
			var err error
			if strings.HasSuffix(k, ".index") {
				err = w.dual.UploadIndex(ctx, k, body)
			} else {
				err = w.dual.UploadSegment(ctx, k, body)
			}
			if err != nil {
				t.Fatalf("upload %q failed on a healthy primary: %v", k, err)
			}
			if pb, ok := w.p.Peek(k); !ok || !bytes.Equal(pb, body) {
				t.Fatalf("upload %q did not land in the primary", k)
			}
			trace = append(trace, fmt.Sprintf("up(%d,%d)", c44Idx(keys, k), n))
		}
		replicate := func(t *rapid.T) { // cross-region replication catches up on one key
			k := keyGen.Draw(t, "key")
			if pb, ok := w.p.Peek(k); ok {
				w.r.PokeRaw(k, pb)
			} else {
				c44Remove(w.r, k)
			}
			trace = append(trace, fmt.Sprintf("rep(%d)", c44Idx(keys, k)))
		}
		read := func(t *rapid.T) {
			c44HistoryRead(t, st, w, keys, keyGen, known, &trace, &sawNonIdentical)
		}
		t.Repeat(map[string]func(*rapid.T){
			"upload":     upload,
			"upload2":    upload,
			"replicate":  replicate,
			"replicate2": replicate,
			"read":       read,
			"read2":      read,
			"read3":      read,
			"delete": func(t *rapid.T) {
				k := keyGen.Draw(t, "key")
				var err error
				if strings.HasSuffix(k, ".index") {
					err = w.dual.DeleteIndex(ctx, k)
				} else {
					err = w.dual.DeleteSegment(ctx, k)
				}
				if err != nil {
					t.Fatalf("delete %q failed on a healthy primary: %v", k, err)
				}
				if _, ok := w.p.Peek(k); ok {
					t.Fatalf("delete %q did not remove the primary object", k)
				}
				trace = append(trace, fmt.Sprintf("del(%d)", c44Idx(keys, k)))
			},
			"replica-fail": func(t *rapid.T) {
				k := keyGen.Draw(t, "key")
				w.failR[k] = rapid.Bool().Draw(t, "on")
				trace = append(trace, fmt.Sprintf("rfail(%d,%v)", c44Idx(keys, k), w.failR[k]))
			},
			"primary-fail": func(t *rapid.T) {
				k := keyGen.Draw(t, "key")
				w.failP[k] = rapid.Bool().Draw(t, "on")
				trace = append(trace, fmt.Sprintf("pfail(%d,%v)", c44Idx(keys, k), w.failP[k]))
			},
			"list": func(t *rapid.T) {
				prefix := rapid.SampledFrom([]string{"default/t/", "default/t/0/", "default/t/1/", "default/x/"}).Draw(t, "prefix")
				got, err := w.dual.ListSegments(ctx, prefix)
				if err != nil {
					t.Fatalf("ListSegments(%q) failed on a healthy primary: %v", prefix, err)
				}
				if g, want := c44FmtList(got), c44ListOf(w.p, prefix); g != want {
					t.Fatalf("ListSegments(%q) = %s, the primary holds %s\nhistory: %v", prefix, g, want, trace)
				}
				st.Class("list")
				trace = append(trace, "list")
			},
			"": func(t *rapid.T) {
				if msg := c44ReplicaClean(w); msg != "" {
					t.Fatalf("%s\nhistory: %v", msg, trace)
				}
			},
		})
		if sawNonIdentical {
			st.NonTrivial(trace)
			st.Sample(map[string]any{"history": trace})
		}
	})
}

func c44HistoryRead(t *rapid.T, st *vfkit.Stats, w *c44World, keys []string, keyGen *rapid.Generator[string], known bool, tracep *[]string, sawp *bool) {
	trace := *tracep
	defer func() { *tracep = trace }()
	sawNonIdentical := false
	defer func() {
		if sawNonIdentical {
			*sawp = true
		}
	}()
	k := keyGen.Draw(t, "key")
	size := int64(0)
	if pb, ok := w.p.Peek(k); ok {
		size = int64(len(pb))
	} else {
		size = 64
	}
	var rd c44Read
	if strings.HasSuffix(k, ".index") {
		rd = c44Read{Index: true}
	} else {
		all := c44Reads(size)
		var segReads []c44Read
		for _, r := range all {
			if !r.Index && (r.Rng == nil || (r.Rng.Start >= 0 && r.Rng.End >= r.Rng.Start)) {
				segReads = append(segReads, r)
			}
		}
		rd = segReads[rapid.IntRange(0, len(segReads)-1).Draw(t, "shape")]
	}
	_, rok := w.r.Peek(k)
	pb, pok := w.p.Peek(k)
	rb, _ := w.r.Peek(k)
	cls := "replica-identical"
	switch {
	case w.stale(k):
		cls = "replica-stale"
	case w.failR[k]:
		cls = "replica-failing"
	case !rok && pok:
		cls = "replica-missing"
	case !rok && !pok:
		cls = "both-absent"
	case !bytes.Equal(pb, rb):
		cls = "replica-stale"
	}
	if w.failP[k] {
		cls += "+primary-failing"
	}
	if cls == "replica-stale" || cls == "replica-stale+primary-failing" {
		if known {
			st.ExcludedCase(c44StaleID)
			trace = append(trace, "skip-stale-read")
			return
		}
	}
	st.Class(cls)
	if cls != "replica-identical" {
		sawNonIdentical = true
	}
	trace = append(trace, fmt.Sprintf("rd(%d,%s,%s)", c44Idx(keys, k), rd, cls))
	if msg := c44CheckRead(w, k, rd); msg != "" {
		t.Fatalf("%s [replica state: %s]\nhistory: %v", msg, cls, trace)
	}
}

func c44Idx(keys []string, k string) int {
	for i, x := range keys {
		if x == k {
			return i
		}
	}
	return -1
}

// Witness of C44-stale-replica-served: a segment key is overwritten on the primary (the
// broker re-uses a base offset after a flush whose index upload failed, see
// PartitionLog.uploadFlush / RestoreFromS3 "skipping orphaned segment") while the replica
// still holds the previous version: the dual client serves the previous version.
func TestVF_C44_Witness(t *testing.T) {
	st := vfkit.NewStats("C44", "witness")
	defer st.Flush()
	st.Eval()
	ctx := context.Background()
	w := c44NewWorld()
	key := "default/orders/0/segment-00000000000000000010.kfs"
	v1 := c44Body("first-attempt", 80)
	v2 := c44Body("retried-flush", 120)
	if err := w.dual.UploadSegment(ctx, key, v1); err != nil {
		t.Fatalf("upload v1: %v", err)
	}
	w.r.PokeRaw(key, v1) // replication caught up with v1
	if err := w.dual.UploadSegment(ctx, key, v2); err != nil {
		t.Fatalf("upload v2: %v", err)
	}
	msgFull := c44CheckRead(w, key, c44Read{})
	msgFooter := c44CheckRead(w, key, c44Read{Rng: &storage.ByteRange{Start: int64(len(v2)) - 16, End: int64(len(v2)) - 1}})
	// deleted on the primary, still on the replica
	if err := w.dual.DeleteSegment(ctx, key); err != nil {
		t.Fatalf("delete: %v", err)
	}
	msgDeleted := c44CheckRead(w, key, c44Read{})
	still := msgFull != "" || msgDeleted != ""
	what := "dualS3Client falls back to the primary only on a replica error; a replica that still holds the previous version of an overwritten (or deleted) key is served as-is"
	if still {
		what += ": " + msgFull
		if msgFull == "" {
			what += msgDeleted
		}
	}
	st.Note("witness_full", msgFull)
	st.Note("witness_footer_range", msgFooter)
	st.Note("witness_deleted", msgDeleted)
	st.KnownResult(c44StaleID, still, what)
	st.NonTrivial("witness")
	st.Sample(map[string]any{"witness": "upload v1; replicate; upload v2 (same key); read via dual", "result": msgFull})
}
