//go:build verif

package main

import (
	"bytes"
	"context"
	"errors"
	"fmt"
	"sort"
	"strings"
	"testing"
	"testing/synctest"
	"time"

	"pgregory.net/rapid"
	"verif.local/vfkit"

	"github.com/KafScale/platform/pkg/storage"
)

// C44: reads through dualS3Client (read replica + primary) return what the primary
// bucket alone would return, whatever the replica holds for the key (identical copy,
// nothing, a failing endpoint, an older version of an overwritten key, a copy of a key
// the primary has since deleted). Writes, deletes, listings and EnsureBucket go to the
// primary only.
//
// Oracle: a third, private copy of the primary's content ("what the primary would
// return") queried with the same call. Independent of dualS3Client.

const c44StaleID = "C44-stale-replica-served"

// c44S3 adapts vfkit.ObjStore to storage.S3Client (one key space per bucket). Like a real
// network client it refuses to start a request on a context that is already done, and a
// GET can be made to stall (stall hook) for a while or until the request context ends.
type c44S3 struct {
	o       *vfkit.ObjStore
	ensures int
	stall   func(key string) c44Stall
}

// c44Stall: how a GET on the replica endpoint misbehaves in time.
type c44Stall struct {
	Dur   time.Duration // 0 = no stall
	Serve bool          // after Dur: true = answer normally (slow), false = 503
	Hang  bool          // never answers; returns only when the request context ends
}

func (c c44Stall) String() string {
	switch {
	case c.Hang:
		return "hang"
	case c.Dur == 0:
		return "none"
	case c.Serve:
		return fmt.Sprintf("slow-%s-serve", c.Dur)
	}
	return fmt.Sprintf("stall-%s-error", c.Dur)
}

var errC44SlowDown = errors.New("replica: 503 SlowDown after stalling")

func (s *c44S3) mapErr(err error) error {
	if errors.Is(err, vfkit.ErrObjNotFound) {
		return fmt.Errorf("object: %w", storage.ErrNotFound)
	}
	return err
}

// wait applies the stall of a GET; returns a non-nil error when the call ends here.
func (s *c44S3) wait(ctx context.Context, key string) error {
	if err := ctx.Err(); err != nil {
		return err
	}
	if s.stall == nil {
		return nil
	}
	sl := s.stall(key)
	if sl.Hang {
		<-ctx.Done()
		return ctx.Err()
	}
	if sl.Dur == 0 {
		return nil
	}
	tm := time.NewTimer(sl.Dur)
	defer tm.Stop()
	select {
	case <-ctx.Done():
		return ctx.Err()
	case <-tm.C:
	}
	if !sl.Serve {
		return errC44SlowDown
	}
	return nil
}
func (s *c44S3) UploadSegment(ctx context.Context, key string, body []byte) error {
	if err := ctx.Err(); err != nil {
		return err
	}
	return s.o.Put("put-segment", key, body)
}
func (s *c44S3) UploadIndex(ctx context.Context, key string, body []byte) error {
	if err := ctx.Err(); err != nil {
		return err
	}
	return s.o.Put("put-index", key, body)
}
func (s *c44S3) DeleteSegment(ctx context.Context, key string) error {
	if err := ctx.Err(); err != nil {
		return err
	}
	return s.o.Delete("delete-segment", key)
}
func (s *c44S3) DeleteIndex(ctx context.Context, key string) error {
	if err := ctx.Err(); err != nil {
		return err
	}
	return s.o.Delete("delete-index", key)
}
func (s *c44S3) DownloadSegment(ctx context.Context, key string, rng *storage.ByteRange) ([]byte, error) {
	if err := s.wait(ctx, key); err != nil {
		return nil, err
	}
	var r *[2]int64
	if rng != nil {
		r = &[2]int64{rng.Start, rng.End}
	}
	b, err := s.o.Get("get-segment", key, r)
	return b, s.mapErr(err)
}
func (s *c44S3) DownloadIndex(ctx context.Context, key string) ([]byte, error) {
	if err := s.wait(ctx, key); err != nil {
		return nil, err
	}
	b, err := s.o.Get("get-index", key, nil)
	return b, s.mapErr(err)
}
func (s *c44S3) ListSegments(ctx context.Context, prefix string) ([]storage.S3Object, error) {
	if err := ctx.Err(); err != nil {
		return nil, err
	}
	objs, err := s.o.List("list", prefix)
	if err != nil {
		return nil, err
	}
	out := make([]storage.S3Object, 0, len(objs))
	for _, o := range objs {
		out = append(out, storage.S3Object{Key: o.Key, Size: o.Size})
	}
	return out, nil
}
func (s *c44S3) EnsureBucket(ctx context.Context) error {
	if err := ctx.Err(); err != nil {
		return err
	}
	s.ensures++
	return nil
}

// c44World is one primary bucket, one replica bucket and the dual client over them.
type c44World struct {
	p, r      *vfkit.ObjStore
	pc, rc    *c44S3
	dual      storage.S3Client
	failP     map[string]bool // primary GETs of this key fail (endpoint trouble)
	failR     map[string]bool // replica GETs of this key fail
	stallR    map[string]c44Stall
	failRAll  bool
	failPList bool // the primary's LIST fails (throttling / 5xx)
}

// c44CallerDeadline: the caller's own context is live for the whole read (1 h of the
// bubble's virtual clock); the data path of the broker uses contexts without deadline.
const c44CallerDeadline = time.Hour

func c44NewWorld() *c44World {
	w := &c44World{p: vfkit.NewObjStore(), r: vfkit.NewObjStore(), failP: map[string]bool{}, failR: map[string]bool{}, stallR: map[string]c44Stall{}}
	w.pc, w.rc = &c44S3{o: w.p}, &c44S3{o: w.r}
	w.rc.stall = func(key string) c44Stall { return w.stallR[key] }
	w.p.Fault = func(op vfkit.ObjOp) vfkit.FaultKind {
		if strings.HasPrefix(op.Kind, "get") && w.failP[op.Key] {
			return vfkit.FaultBefore
		}
		if op.Kind == "list" && w.failPList {
			return vfkit.FaultBefore
		}
		return vfkit.FaultNone
	}
	w.r.Fault = func(op vfkit.ObjOp) vfkit.FaultKind {
		if w.failRAll || (strings.HasPrefix(op.Kind, "get") && w.failR[op.Key]) {
			return vfkit.FaultBefore
		}
		return vfkit.FaultNone
	}
	w.dual = newDualS3Client(w.pc, w.rc)
	return w
}

// stale reports whether the replica holds, for key, something the primary does not
// currently hold (older version of an overwritten key, or a key deleted on the primary).
func (w *c44World) stale(key string) bool {
	rb, rok := w.r.Peek(key)
	if !rok {
		return false
	}
	pb, pok := w.p.Peek(key)
	return !pok || !bytes.Equal(pb, rb)
}

// staleServed: the replica would answer a GET of key with content the primary does not
// hold (the predicate of the known finding).
func (w *c44World) staleServed(key string) bool {
	sl := w.stallR[key]
	if w.failR[key] || w.failRAll || sl.Hang || (sl.Dur > 0 && !sl.Serve) {
		return false
	}
	return w.stale(key)
}

type c44Read struct {
	Index bool
	Rng   *storage.ByteRange
}

func (rd c44Read) String() string {
	if rd.Index {
		return "index"
	}
	if rd.Rng == nil {
		return "segment[full]"
	}
	return fmt.Sprintf("segment[%d-%d]", rd.Rng.Start, rd.Rng.End)
}

func c44DoRead(ctx context.Context, c storage.S3Client, key string, rd c44Read) ([]byte, error) {
	if rd.Index {
		return c.DownloadIndex(ctx, key)
	}
	return c.DownloadSegment(ctx, key, rd.Rng)
}

// c44CheckRead performs one read through the dual client and compares it with what the
// primary's content alone yields. Returns a violation description or "".
func c44CheckRead(w *c44World, key string, rd c44Read) string {
	// what the primary would return: a healthy private copy of its content
	ref := &c44S3{o: vfkit.NewObjStore()}
	if pb, ok := w.p.Peek(key); ok {
		ref.o.PokeRaw(key, pb)
	}
	// the caller's context is live before, during and after the read
	ctx, cancel := context.WithTimeout(context.Background(), c44CallerDeadline)
	defer cancel()
	want, wantErr := c44DoRead(ctx, ref, key, rd)
	got, gotErr := c44DoRead(ctx, w.dual, key, rd)
	if ctx.Err() != nil {
		// only possible when the replica hangs until the caller's own deadline: by then the
		// caller has given up and the primary alone would refuse that context as well
		if gotErr == nil && (wantErr != nil || !bytes.Equal(got, want)) {
			return fmt.Sprintf("read %s of %q (replica hung until the caller's deadline) returned %d bytes %q; primary content gives (%q, err=%v)", rd, key, len(got), c44Short(got), c44Short(want), wantErr)
		}
		return ""
	}
	if w.failP[key] {
		// primary unreachable for this key: the statement fixes the bytes, not availability
		if gotErr == nil && (wantErr != nil || !bytes.Equal(got, want)) {
			return fmt.Sprintf("read %s of %q (primary failing) returned %d bytes %q; primary content gives (%q, err=%v)", rd, key, len(got), c44Short(got), c44Short(want), wantErr)
		}
		// the primary alone reports its own failure; a replica "not found" must not replace it
		// (RestoreFromS3 treats a not-found index as an orphan to skip, a failure as retry)
		if gotErr != nil && errors.Is(gotErr, storage.ErrNotFound) {
			return fmt.Sprintf("read %s of %q: the primary is failing (not 'not found'), the dual client reports %v", rd, key, gotErr)
		}
		return ""
	}
	if (gotErr == nil) != (wantErr == nil) {
		return fmt.Sprintf("read %s of %q: dual err=%v but primary alone err=%v (dual bytes %q, primary bytes %q)", rd, key, gotErr, wantErr, c44Short(got), c44Short(want))
	}
	if gotErr != nil {
		if errors.Is(gotErr, storage.ErrNotFound) != errors.Is(wantErr, storage.ErrNotFound) {
			return fmt.Sprintf("read %s of %q: error class differs: dual %v, primary alone %v", rd, key, gotErr, wantErr)
		}
		return ""
	}
	if !bytes.Equal(got, want) {
		return fmt.Sprintf("read %s of %q returned %d bytes %q, the primary holds %d bytes %q", rd, key, len(got), c44Short(got), len(want), c44Short(want))
	}
	return ""
}

func c44Short(b []byte) string {
	if len(b) > 24 {
		return string(b[:24]) + "..."
	}
	return string(b)
}

// c44ReplicaClean verifies the replica bucket never saw a write, delete or listing.
func c44ReplicaClean(w *c44World) string {
	for _, op := range w.r.Ops {
		if !strings.HasPrefix(op.Kind, "get") {
			return fmt.Sprintf("replica bucket received %s %q", op.Kind, op.Key)
		}
	}
	if w.rc.ensures != 0 {
		return "EnsureBucket was sent to the replica"
	}
	return ""
}

func c44Body(tag string, n int) []byte {
	b := make([]byte, n)
	for i := range b {
		b[i] = tag[i%len(tag)]
	}
	if n >= 4 {
		copy(b, fmt.Sprintf("%s|%d|", tag, n))
	}
	return b
}

// replica states of the exhaustive core
var c44States = []string{"identical", "missing", "failing", "older-same-len", "older-shorter", "older-longer", "primary-deleted", "both-absent",
	"stall-1s-error", "stall-3s-error", "stall-10m-error", "slow-3s-serve", "hang"}

func c44StateStale(s string) bool {
	return strings.HasPrefix(s, "older") || s == "primary-deleted"
}

func c44Apply(w *c44World, key, state string, isIndex bool) {
	cur := c44Body("NEW-"+key, 96)
	if isIndex {
		cur = c44Body("NIX-"+key, 40)
	}
	w.p.PokeRaw(key, cur)
	switch state {
	case "identical":
		w.r.PokeRaw(key, cur)
	case "missing":
	case "failing":
		w.r.PokeRaw(key, cur)
		w.failR[key] = true
	case "stall-1s-error":
		w.r.PokeRaw(key, cur)
		w.stallR[key] = c44Stall{Dur: time.Second}
	case "stall-3s-error":
		w.r.PokeRaw(key, cur)
		w.stallR[key] = c44Stall{Dur: 3 * time.Second}
	case "stall-10m-error":
		w.stallR[key] = c44Stall{Dur: 10 * time.Minute}
	case "slow-3s-serve":
		w.r.PokeRaw(key, cur)
		w.stallR[key] = c44Stall{Dur: 3 * time.Second, Serve: true}
	case "hang":
		w.r.PokeRaw(key, cur)
		w.stallR[key] = c44Stall{Hang: true}
	case "older-same-len":
		w.r.PokeRaw(key, c44Body("OLD-"+key, len(cur)))
	case "older-shorter":
		w.r.PokeRaw(key, c44Body("OLD-"+key, len(cur)-37))
	case "older-longer":
		w.r.PokeRaw(key, c44Body("OLD-"+key, len(cur)+29))
	case "primary-deleted":
		w.r.PokeRaw(key, cur)
		c44Remove(w.p, key)
	case "both-absent":
		c44Remove(w.p, key)
	}
}

// c44Remove deletes without going through the logged API (set-up only).
func c44Remove(o *vfkit.ObjStore, key string) {
	f, on := o.Fault, o.OnOp
	o.Fault, o.OnOp = nil, nil
	n := len(o.Ops)
	_ = o.Delete("setup-delete", key)
	o.Ops = o.Ops[:n]
	o.Fault, o.OnOp = f, on
}

// c44Reads lists the read shapes the broker and the restore tool issue, relative to the
// size the *primary* listing reports (RestoreFromS3 / inspectSourceSegment compute the
// footer range from the listed size).
func c44Reads(size int64) []c44Read {
	rs := []c44Read{{Rng: nil}, {Index: true}}
	add := func(s, e int64) { rs = append(rs, c44Read{Rng: &storage.ByteRange{Start: s, End: e}}) }
	add(0, 31)            // segment header
	add(size-16, size-1)  // footer by listed size
	add(32, size-17)      // body
	add(40, 59)           // middle slice (index-driven range read)
	add(size-8, size+100) // end clamped
	add(size, size+10)    // starts at the end: invalid on the primary
	add(size+29, size+40) // beyond the primary, inside a longer stale copy
	add(size-37, size-30) // inside the primary, at the end of a shorter stale copy
	add(0, 0)             // single byte
	return rs
}

// Exhaustive core (runs inside a testing/synctest bubble): every replica state of one key x every read shape, and every pair of
// states over two keys (segment + its index sibling, and two segments), plus the write /
// list routing for each state.
func TestVF_C44_Core(t *testing.T) {
	st := vfkit.NewStats("C44", "core")
	defer st.Flush()
	st.SetExhaustive(true)
	known := vfkit.Known(c44StaleID)
	keys := []string{"default/t/0/segment-00000000000000000000.kfs", "default/t/0/segment-00000000000000000007.kfs"}
	// one bubble for the whole enumeration: stalls and the caller's deadline run on the
	// bubble's virtual clock
	synctest.Test(t, func(t *testing.T) {
		c44CoreBody(t, st, known, keys)
	})
}

func c44CoreBody(t *testing.T, st *vfkit.Stats, known bool, keys []string) {
	for _, s0 := range c44States {
		for _, s1 := range c44States {
			for ki, key := range keys {
				state := []string{s0, s1}[ki]
				for _, asIndex := range []bool{false, true} {
					for ri, rd := range c44Reads(map[bool]int64{false: 96, true: 40}[asIndex]) {
						if rd.Index != asIndex {
							continue
						}
						if known && c44StateStale(state) {
							st.ExcludedCase(c44StaleID)
							continue
						}
						w := c44NewWorld()
						c44Apply(w, keys[0], s0, asIndex)
						c44Apply(w, keys[1], s1, asIndex)
						st.Eval()
						st.Class("state:" + state)
						if state != "identical" {
							st.NonTrivial(s0, s1, ki, asIndex, ri)
							st.Sample(map[string]any{"states": []string{s0, s1}, "read_key": ki, "read": rd.String()})
						}
						if msg := c44CheckRead(w, key, rd); msg != "" {
							t.Fatalf("replica states (%s,%s): %s", s0, s1, msg)
						}
						if msg := c44ReplicaClean(w); msg != "" {
							t.Fatalf("replica states (%s,%s) read %s: %s", s0, s1, rd, msg)
						}
						// the same read while the primary endpoint fails for that key
						w = c44NewWorld()
						c44Apply(w, keys[0], s0, asIndex)
						c44Apply(w, keys[1], s1, asIndex)
						w.failP[key] = true
						st.Eval()
						st.Class("primary-failing:" + state)
						st.NonTrivial("pfail", s0, s1, ki, asIndex, ri)
						if msg := c44CheckRead(w, key, rd); msg != "" {
							t.Fatalf("replica states (%s,%s), primary failing: %s", s0, s1, msg)
						}
					}
				}
			}
			// routing of writes / deletes / listings / EnsureBucket for this state pair
			w := c44NewWorld()
			c44Apply(w, keys[0], s0, false)
			c44Apply(w, keys[1], s1, false)
			st.Eval()
			st.Class("routing")
			if msg := c44CheckRouting(w, keys); msg != "" {
				t.Fatalf("replica states (%s,%s): %s", s0, s1, msg)
			}
			// the same with a replica endpoint that is down entirely
			w = c44NewWorld()
			c44Apply(w, keys[0], s0, false)
			c44Apply(w, keys[1], s1, false)
			w.failRAll = true
			st.Eval()
			st.Class("routing-replica-down")
			st.NonTrivial("routing-down", s0, s1)
			if msg := c44CheckRouting(w, keys); msg != "" {
				t.Fatalf("replica down, states (%s,%s): %s", s0, s1, msg)
			}
			// the primary's LIST fails: the failure must surface, whatever the replica could list
			for _, variant := range []string{"as-is", "replica-extra-key", "replica-empty", "replica-down"} {
				w = c44NewWorld()
				c44Apply(w, keys[0], s0, false)
				c44Apply(w, keys[1], s1, false)
				switch variant {
				case "replica-extra-key":
					w.r.PokeRaw("default/t/0/segment-00000000000000000099.kfs", []byte("only-on-replica"))
				case "replica-empty":
					for k := range w.r.Snapshot() {
						c44Remove(w.r, k)
					}
				case "replica-down":
					w.failRAll = true
				}
				w.failPList = true
				st.Eval()
				st.Class("list-primary-fails:" + variant)
				st.NonTrivial("list-pfail", s0, s1, variant)
				got, err := w.dual.ListSegments(context.Background(), "default/t/")
				if err == nil {
					t.Fatalf("replica states (%s,%s), %s: the primary's LIST fails but ListSegments returned %s (primary holds %s)", s0, s1, variant, c44FmtList(got), c44ListOf(w.p, "default/t/"))
				}
				if msg := c44ReplicaClean(w); msg != "" {
					t.Fatalf("replica states (%s,%s), %s, primary LIST failing: %s", s0, s1, variant, msg)
				}
			}
		}
	}
}

// c44CheckRouting: list == primary's listing; upload / delete change the primary exactly
// like a direct call and never reach the replica.
func c44CheckRouting(w *c44World, keys []string) string {
	ctx := context.Background()
	wantList := c44ListOf(w.p, "default/t/")
	got, err := w.dual.ListSegments(ctx, "default/t/")
	if err != nil {
		return fmt.Sprintf("ListSegments failed although the primary is healthy: %v", err)
	}
	if g := c44FmtList(got); g != wantList {
		return fmt.Sprintf("ListSegments returned %s, primary holds %s", g, wantList)
	}
	rBefore := w.r.Snapshot()
	nk := "default/t/0/segment-00000000000000000042.kfs"
	ni := "default/t/0/segment-00000000000000000042.index"
	if err := w.dual.UploadSegment(ctx, nk, []byte("seg42")); err != nil {
		return fmt.Sprintf("UploadSegment failed: %v", err)
	}
	if err := w.dual.UploadIndex(ctx, ni, []byte("idx42")); err != nil {
		return fmt.Sprintf("UploadIndex failed: %v", err)
	}
	if err := w.dual.UploadSegment(ctx, keys[0], []byte("overwritten")); err != nil {
		return fmt.Sprintf("UploadSegment (overwrite) failed: %v", err)
	}
	for k, v := range map[string]string{nk: "seg42", ni: "idx42", keys[0]: "overwritten"} {
		if b, ok := w.p.Peek(k); !ok || string(b) != v {
			return fmt.Sprintf("upload of %q did not land in the primary (have %q, present=%v)", k, b, ok)
		}
	}
	if err := w.dual.DeleteSegment(ctx, keys[1]); err != nil {
		return fmt.Sprintf("DeleteSegment failed: %v", err)
	}
	if err := w.dual.DeleteIndex(ctx, ni); err != nil {
		return fmt.Sprintf("DeleteIndex failed: %v", err)
	}
	for _, k := range []string{keys[1], ni} {
		if _, ok := w.p.Peek(k); ok {
			return fmt.Sprintf("delete of %q did not remove it from the primary", k)
		}
	}
	if err := w.dual.EnsureBucket(ctx); err != nil {
		return fmt.Sprintf("EnsureBucket failed: %v", err)
	}
	if w.pc.ensures != 1 {
		return fmt.Sprintf("EnsureBucket reached the primary %d times", w.pc.ensures)
	}
	rAfter := w.r.Snapshot()
	if len(rAfter) != len(rBefore) {
		return "replica bucket content changed by writes through the dual client"
	}
	for k, v := range rBefore {
		if !bytes.Equal(rAfter[k], v) {
			return fmt.Sprintf("replica object %q changed by writes through the dual client", k)
		}
	}
	return c44ReplicaClean(w)
}

func c44ListOf(o *vfkit.ObjStore, prefix string) string {
	var out []storage.S3Object
	snap := o.Snapshot()
	for k, v := range snap {
		if strings.HasPrefix(k, prefix) {
			out = append(out, storage.S3Object{Key: k, Size: int64(len(v))})
		}
	}
	return c44FmtList(out)
}

func c44FmtList(l []storage.S3Object) string {
	s := make([]string, 0, len(l))
	for _, o := range l {
		s = append(s, fmt.Sprintf("%s(%d)", o.Key, o.Size))
	}
	sort.Strings(s)
	return strings.Join(s, ",")
}

// Histories: uploads / overwrites / deletes through the dual client interleaved with
// replication events (the replica catches up on one key, loses a key, its endpoint
// starts or stops failing or stalling for a key) and reads of every shape. The history is
// drawn up front (plain data) and executed inside a testing/synctest bubble, so stalls and
// the caller's deadline cost no real time; the verdict is reported after the bubble ends.
type c44Op struct {
	Kind  string
	Key   int
	Size  int
	On    bool
	Shape int
	Pfx   int
	Stall int
}

var c44OpKinds = []string{"upload", "upload", "replicate", "replicate", "read", "read", "read", "read", "delete", "replica-fail", "primary-fail", "replica-stall", "replica-stall", "list", "list", "primary-list-fail"}

var c44Stalls = []c44Stall{{}, {Dur: time.Second}, {Dur: 1999 * time.Millisecond}, {Dur: 2 * time.Second}, {Dur: 3 * time.Second}, {Dur: 45 * time.Second},
	{Dur: 10 * time.Minute}, {Dur: 3 * time.Second, Serve: true}, {Dur: 30 * time.Second, Serve: true}, {Hang: true}}

var c44Prefixes = []string{"default/t/", "default/t/0/", "default/t/1/", "default/x/"}

func TestVF_C44_History(t *testing.T) {
	st := vfkit.NewStats("C44", "history")
	defer st.Flush()
	known := vfkit.Known(c44StaleID)
	opGen := rapid.Custom(func(t *rapid.T) c44Op {
		return c44Op{Kind: rapid.SampledFrom(c44OpKinds).Draw(t, "kind"), Key: rapid.IntRange(0, 3).Draw(t, "key"),
			Size: rapid.SampledFrom([]int{48, 64, 96, 130}).Draw(t, "size"), On: rapid.Bool().Draw(t, "on"),
			Shape: rapid.IntRange(0, 15).Draw(t, "shape"), Pfx: rapid.IntRange(0, len(c44Prefixes)-1).Draw(t, "prefix"),
			Stall: rapid.IntRange(0, len(c44Stalls)-1).Draw(t, "stall")}
	})
	rapid.Check(t, func(rt *rapid.T) {
		inits := rapid.SliceOfN(rapid.SampledFrom([]string{"absent", "primary", "both", "both"}), 4, 4).Draw(rt, "init")
		ops := rapid.SliceOfN(opGen, 20, 80).Draw(rt, "ops")
		st.Eval()
		verdict := ""
		synctest.Test(t, func(*testing.T) {
			verdict = c44RunHistory(st, known, inits, ops)
		})
		if verdict != "" {
			rt.Fatalf("%s", verdict)
		}
	})
}

// c44RunHistory executes one pre-drawn history; returns "" or the violation.
func c44RunHistory(st *vfkit.Stats, known bool, inits []string, ops []c44Op) string {
	w := c44NewWorld()
	ctx := context.Background()
	keys := []string{
		"default/t/0/segment-00000000000000000000.kfs", "default/t/0/segment-00000000000000000000.index",
		"default/t/0/segment-00000000000000000005.kfs", "default/t/1/segment-00000000000000000000.kfs",
	}
	version := 0
	var trace []string
	sawNonIdentical := false
	// initial bucket contents: per key absent / primary only / replicated
	for i, k := range keys {
		switch inits[i] {
		case "primary":
			w.p.PokeRaw(k, c44Body(fmt.Sprintf("i%d", i), 96))
			trace = append(trace, fmt.Sprintf("init(%d,primary)", i))
		case "both":
			w.p.PokeRaw(k, c44Body(fmt.Sprintf("i%d", i), 96))
			w.r.PokeRaw(k, c44Body(fmt.Sprintf("i%d", i), 96))
			trace = append(trace, fmt.Sprintf("init(%d,both)", i))
		}
	}
	for _, op := range ops {
		k := keys[op.Key]
		switch op.Kind {
		case "upload":
			version++
			body := c44Body(fmt.Sprintf("v%d", version), op.Size)
			var err error
			if strings.HasSuffix(k, ".index") {
				err = w.dual.UploadIndex(ctx, k, body)
			} else {
				err = w.dual.UploadSegment(ctx, k, body)
			}
			if err != nil {
				return fmt.Sprintf("upload %q failed on a healthy primary: %v\nhistory: %v", k, err, trace)
			}
			if pb, ok := w.p.Peek(k); !ok || !bytes.Equal(pb, body) {
				return fmt.Sprintf("upload %q did not land in the primary\nhistory: %v", k, trace)
			}
			trace = append(trace, fmt.Sprintf("up(%d,%d)", op.Key, op.Size))
		case "replicate": // cross-region replication catches up on one key
			if pb, ok := w.p.Peek(k); ok {
				w.r.PokeRaw(k, pb)
			} else {
				c44Remove(w.r, k)
			}
			trace = append(trace, fmt.Sprintf("rep(%d)", op.Key))
		case "delete":
			var err error
			if strings.HasSuffix(k, ".index") {
				err = w.dual.DeleteIndex(ctx, k)
			} else {
				err = w.dual.DeleteSegment(ctx, k)
			}
			if err != nil {
				return fmt.Sprintf("delete %q failed on a healthy primary: %v\nhistory: %v", k, err, trace)
			}
			if _, ok := w.p.Peek(k); ok {
				return fmt.Sprintf("delete %q did not remove the primary object\nhistory: %v", k, trace)
			}
			trace = append(trace, fmt.Sprintf("del(%d)", op.Key))
		case "replica-fail":
			w.failR[k] = op.On
			trace = append(trace, fmt.Sprintf("rfail(%d,%v)", op.Key, op.On))
		case "primary-fail":
			w.failP[k] = op.On
			trace = append(trace, fmt.Sprintf("pfail(%d,%v)", op.Key, op.On))
		case "replica-stall":
			w.stallR[k] = c44Stalls[op.Stall]
			trace = append(trace, fmt.Sprintf("rstall(%d,%s)", op.Key, c44Stalls[op.Stall]))
		case "primary-list-fail":
			w.failPList = op.On
			trace = append(trace, fmt.Sprintf("plistfail(%v)", op.On))
		case "list":
			prefix := c44Prefixes[op.Pfx]
			got, err := w.dual.ListSegments(ctx, prefix)
			if w.failPList {
				st.Class("list+primary-list-failing")
				sawNonIdentical = true
				trace = append(trace, "list(primary failing)")
				if err == nil {
					return fmt.Sprintf("ListSegments(%q) returned %s although the primary's LIST fails (primary holds %s)\nhistory: %v", prefix, c44FmtList(got), c44ListOf(w.p, prefix), trace)
				}
				break
			}
			if err != nil {
				return fmt.Sprintf("ListSegments(%q) failed on a healthy primary: %v\nhistory: %v", prefix, err, trace)
			}
			if g, want := c44FmtList(got), c44ListOf(w.p, prefix); g != want {
				return fmt.Sprintf("ListSegments(%q) = %s, the primary holds %s\nhistory: %v", prefix, g, want, trace)
			}
			st.Class("list")
			trace = append(trace, "list")
		case "read":
			if msg := c44HistoryRead(st, w, op, k, known, &trace, &sawNonIdentical); msg != "" {
				return msg
			}
		}
		if msg := c44ReplicaClean(w); msg != "" {
			return fmt.Sprintf("%s\nhistory: %v", msg, trace)
		}
	}
	if sawNonIdentical {
		st.NonTrivial(trace)
		st.Sample(map[string]any{"history": trace})
	}
	return ""
}

func c44HistoryRead(st *vfkit.Stats, w *c44World, op c44Op, k string, known bool, tracep *[]string, sawp *bool) string {
	trace := *tracep
	defer func() { *tracep = trace }()
	size := int64(64)
	if pb, ok := w.p.Peek(k); ok {
		size = int64(len(pb))
	}
	var rd c44Read
	if strings.HasSuffix(k, ".index") {
		rd = c44Read{Index: true}
	} else {
		var segReads []c44Read
		for _, r := range c44Reads(size) {
			if !r.Index && (r.Rng == nil || (r.Rng.Start >= 0 && r.Rng.End >= r.Rng.Start)) {
				segReads = append(segReads, r)
			}
		}
		rd = segReads[op.Shape%len(segReads)]
	}
	_, rok := w.r.Peek(k)
	_, pok := w.p.Peek(k)
	sl := w.stallR[k]
	cls := "replica-identical"
	switch {
	case w.staleServed(k):
		cls = "replica-stale"
	case w.failR[k]:
		cls = "replica-failing"
	case sl.Hang:
		cls = "replica-hangs"
	case sl.Dur > 0 && !sl.Serve:
		cls = "replica-stalls-then-errors"
	case !rok && pok:
		cls = "replica-missing"
	case !rok && !pok:
		cls = "both-absent"
	}
	if sl.Dur > 0 && sl.Serve && cls != "replica-failing" {
		cls += "+slow"
	}
	if w.failP[k] {
		cls += "+primary-failing"
	}
	if strings.HasPrefix(cls, "replica-stale") && known {
		st.ExcludedCase(c44StaleID)
		trace = append(trace, "skip-stale-read")
		return ""
	}
	st.Class(cls)
	if cls != "replica-identical" {
		*sawp = true
	}
	trace = append(trace, fmt.Sprintf("rd(%d,%s,%s)", op.Key, rd, cls))
	if msg := c44CheckRead(w, k, rd); msg != "" {
		return fmt.Sprintf("%s [replica state: %s, stall %s]\nhistory: %v", msg, cls, sl, trace)
	}
	return ""
}

func c44Idx(keys []string, k string) int {
	for i, x := range keys {
		if x == k {
			return i
		}
	}
	return -1
}

// Witness of C44-stale-replica-served: a segment key is overwritten on the primary (the
// broker re-uses a base offset after a flush whose index upload failed, see
// PartitionLog.uploadFlush / RestoreFromS3 "skipping orphaned segment") while the replica
// still holds the previous version: the dual client serves the previous version.
func TestVF_C44_Witness(t *testing.T) {
	st := vfkit.NewStats("C44", "witness")
	defer st.Flush()
	st.Eval()
	ctx := context.Background()
	w := c44NewWorld()
	key := "default/orders/0/segment-00000000000000000010.kfs"
	v1 := c44Body("first-attempt", 80)
	v2 := c44Body("retried-flush", 120)
	if err := w.dual.UploadSegment(ctx, key, v1); err != nil {
		t.Fatalf("upload v1: %v", err)
	}
	w.r.PokeRaw(key, v1) // replication caught up with v1
	if err := w.dual.UploadSegment(ctx, key, v2); err != nil {
		t.Fatalf("upload v2: %v", err)
	}
	msgFull := c44CheckRead(w, key, c44Read{})
	msgFooter := c44CheckRead(w, key, c44Read{Rng: &storage.ByteRange{Start: int64(len(v2)) - 16, End: int64(len(v2)) - 1}})
	// deleted on the primary, still on the replica
	if err := w.dual.DeleteSegment(ctx, key); err != nil {
		t.Fatalf("delete: %v", err)
	}
	msgDeleted := c44CheckRead(w, key, c44Read{})
	still := msgFull != "" || msgDeleted != ""
	what := "dualS3Client falls back to the primary only on a replica error; a replica that still holds the previous version of an overwritten (or deleted) key is served as-is"
	if still {
		what += ": " + msgFull
		if msgFull == "" {
			what += msgDeleted
		}
	}
	st.Note("witness_full", msgFull)
	st.Note("witness_footer_range", msgFooter)
	st.Note("witness_deleted", msgDeleted)
	st.KnownResult(c44StaleID, still, what)
	st.NonTrivial("witness")
	st.Sample(map[string]any{"witness": "upload v1; replicate; upload v2 (same key); read via dual", "result": msgFull})
}
