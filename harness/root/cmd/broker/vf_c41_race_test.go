//go:build verif

package main

import (
	"bytes"
	"context"
	"fmt"
	"sync"
	"sync/atomic"
	"testing"

	"pgregory.net/rapid"
	"verif.local/vfkit"
)

// C41: generated concurrent workloads (producers, fetchers at moving offsets, explicit
// flushers, small cache + read-ahead so prefetch goroutines and re-downloads collide) on
// one real handler, run under the race detector. The race detector is the primary
// oracle; every fetched batch is also compared byte for byte with what was produced.

type c41Prog struct {
	Partitions int
	Producers  int
	Batches    int
	Fetchers   int
	Flushers   int
	CacheBytes int
	SegBytes   int
	ReadAhead  int
	ValSize    int
	// Restart: after the workload a new handler is started on the same store and S3 and
	// ColdReaders fetchers per partition plus one producer hit the cold partitions at once
	Restart     bool
	ColdReaders int
}

func TestVF_C41_RaceStress(t *testing.T) {
	st := vfkit.NewStats("C41", "stress")
	defer st.Flush()
	rapid.Check(t, func(t *rapid.T) {
		p := c41Prog{
			Partitions: rapid.IntRange(1, 3).Draw(t, "partitions"),
			Producers:  rapid.IntRange(2, 4).Draw(t, "producers"),
			Batches:    rapid.IntRange(10, 40).Draw(t, "batches"),
			Fetchers:   rapid.IntRange(1, 3).Draw(t, "fetchers"),
			Flushers:   rapid.IntRange(0, 2).Draw(t, "flushers"),
			CacheBytes: rapid.SampledFrom([]int{300, 1500, 6000}).Draw(t, "cache"),
			SegBytes:   rapid.SampledFrom([]int{200, 600, 0}).Draw(t, "segbytes"),
			ReadAhead:  rapid.SampledFrom([]int{0, 2}).Draw(t, "readahead"),
			ValSize:    rapid.SampledFrom([]int{8, 64}).Draw(t, "valsize"),
			Restart:    rapid.Bool().Draw(t, "restart"),
			ColdReaders: rapid.IntRange(2, 4).Draw(t, "coldreaders"),
		}
		st.Eval()
		const topic = "orders"
		store := vfStoreWithTopics(map[string]int32{topic: int32(p.Partitions)})
		obj := vfkit.NewObjStore()
		h := vfNewHandler(store, obj, vfHandlerOpts{SegmentBytes: p.SegBytes, CacheBytes: p.CacheBytes, ReadAhead: p.ReadAhead, NoS3Backpressure: true})
		var topicID [16]byte
		if meta, err := store.Metadata(context.Background(), []string{topic}); err == nil && len(meta.Topics) == 1 {
			topicID = meta.Topics[0].TopicID
		}
		type sent struct {
			raw  []byte
			base int64
			ok   bool
		}
		var mu sync.Mutex
		sentBy := map[string]*sent{} // tag -> batch
		var wg, wgProd sync.WaitGroup
		var done atomic.Bool
		var ops [3]atomic.Int64
		var errs []string
		addErr := func(s string) {
			mu.Lock()
			if len(errs) < 5 {
				errs = append(errs, s)
			}
			mu.Unlock()
		}
		for w := 0; w < p.Producers; w++ {
			wgProd.Add(1)
			go func(w int) {
				defer wgProd.Done()
				for i := 0; i < p.Batches; i++ {
					part := int32((w + i) % p.Partitions)
					tag := fmt.Sprintf("p%d-%d-%d", part, w, i)
					n := 1 + (w+i)%3
					raw := c06Batch(tag, n, p.ValSize)
					s := &sent{raw: raw}
					mu.Lock()
					sentBy[tag] = s
					mu.Unlock()
					res, err := vfProduce(h, 7, -1, "vf", []vfProducePart{{topic, part, raw}})
					ops[part].Add(1)
					if err != nil || len(res) != 1 {
						addErr(fmt.Sprintf("produce transport error: %v", err))
						return
					}
					if res[0].ErrorCode == 0 {
						mu.Lock()
						s.base, s.ok = res[0].Base, true
						mu.Unlock()
					}
				}
			}(w)
		}
		for f := 0; f < p.Fetchers; f++ {
			wg.Add(1)
			go func(f int) {
				defer wg.Done()
				part := int32(f % p.Partitions)
				off := int64(0)
				for it := 0; it < 400 && !(done.Load() && it > 50); it++ {
					m := []int32{64, 300, 4000}[it%3]
					var fr vfFetchResult
					var err error
					if it%4 == 3 {
						// Fetch v13 names the topic by id
						fr, _, err = c03hFetchByID(h, topicID, part, off, m)
					} else {
						fr, err = vfFetch(h, 11, topic, part, off, m)
					}
					ops[part].Add(1)
					if err != nil {
						addErr(fmt.Sprintf("fetch transport error: %v", err))
						return
					}
					if fr.ErrorCode != 0 {
						continue
					}
					bs, _ := vfkit.DecodeBatchesLenient(fr.Records)
					for _, b := range bs {
						if len(b.Records) == 0 {
							continue
						}
						// value starts with the tag, padded with 'x'
						v := b.Records[0].Value
						key := string(b.Records[0].Key)
						tag := key[:len(key)-2] // strip "/0"
						mu.Lock()
						s := sentBy[tag]
						mu.Unlock()
						if s == nil {
							addErr(fmt.Sprintf("fetch(%s/%d,%d) returned a batch tagged %q that nobody produced (value %q)", topic, part, off, tag, v))
							continue
						}
						if !bytes.Equal(b.Raw[8:], s.raw[8:]) {
							addErr(fmt.Sprintf("fetch(%s/%d,%d) returned batch %s with bytes that differ from what was produced", topic, part, off, tag))
						}
						if want := fmt.Sprintf("p%d-", part); tag[:len(want)] != want {
							addErr(fmt.Sprintf("fetch of partition %d returned batch %s of another partition", part, tag))
						}
						if last := b.BaseOffset + int64(len(b.Records)); last > off {
							off = last
						}
					}
				}
			}(f)
		}
		for x := 0; x < p.Flushers; x++ {
			wg.Add(1)
			go func(x int) {
				defer wg.Done()
				for it := 0; it < 60 && !done.Load(); it++ {
					part := int32((x + it) % p.Partitions)
					if plog, err := h.getPartitionLog(context.Background(), topic, part); err == nil {
						_ = plog.Flush(context.Background())
						ops[part].Add(1)
					}
				}
			}(x)
		}
		// producers finish first; then fetchers and flushers wind down
		wgProd.Wait()
		done.Store(true)
		wg.Wait()
		if p.Restart {
			// cold start: every partition log is created and restored by whoever touches it
			// first; several fetchers and a producer do so at the same moment
			h.coordinator.Stop()
			h2 := vfNewHandler(store, obj, vfHandlerOpts{SegmentBytes: p.SegBytes, CacheBytes: p.CacheBytes, ReadAhead: p.ReadAhead, NoS3Backpressure: true})
			start := make(chan struct{})
			var wg2 sync.WaitGroup
			for part := int32(0); part < int32(p.Partitions); part++ {
				for r := 0; r < p.ColdReaders; r++ {
					wg2.Add(1)
					go func(part int32, r int) {
						defer wg2.Done()
						<-start
						off := int64(r) // different offsets of the same first segment
						for it := 0; it < 30; it++ {
							fr, err := vfFetch(h2, 11, topic, part, off, []int32{64, 300, 4000}[(it+r)%3])
							ops[part].Add(1)
							if err != nil {
								addErr(fmt.Sprintf("cold fetch transport error: %v", err))
								return
							}
							if fr.ErrorCode != 0 {
								continue
							}
							bs, _ := vfkit.DecodeBatchesLenient(fr.Records)
							for _, b := range bs {
								if len(b.Records) == 0 {
									continue
								}
								key := string(b.Records[0].Key)
								tag := key[:len(key)-2]
								mu.Lock()
								s := sentBy[tag]
								mu.Unlock()
								if s == nil || !bytes.Equal(b.Raw[8:], s.raw[8:]) {
									addErr(fmt.Sprintf("after restart fetch(%s/%d,%d) returned batch %q that differs from what was produced", topic, part, off, tag))
								}
								if last := b.BaseOffset + int64(len(b.Records)); last > off {
									off = last
								}
							}
						}
					}(part, r)
				}
				wg2.Add(1)
				go func(part int32) {
					defer wg2.Done()
					<-start
					for i := 0; i < 5; i++ {
						tag := fmt.Sprintf("p%d-cold-%d", part, i)
						raw := c06Batch(tag, 1+i%3, p.ValSize)
						s := &sent{raw: raw}
						mu.Lock()
						sentBy[tag] = s
						mu.Unlock()
						res, err := vfProduce(h2, 7, -1, "vf", []vfProducePart{{topic, part, raw}})
						ops[part].Add(1)
						if err == nil && len(res) == 1 && res[0].ErrorCode == 0 {
							mu.Lock()
							s.base, s.ok = res[0].Base, true
							mu.Unlock()
						}
					}
				}(part)
			}
			close(start)
			wg2.Wait()
			h2.coordinator.Stop()
			st.Class("cold-start-with-concurrent-first-touch")
		}
		// acked base offsets must be unique per partition
		seen := map[string]string{}
		for tag, s := range sentBy {
			if !s.ok {
				continue
			}
			k := fmt.Sprintf("%s@%d", tag[:3], s.base)
			if other, dup := seen[k]; dup {
				addErr(fmt.Sprintf("batches %s and %s acked at the same base offset %d", tag, other, s.base))
			}
			seen[k] = tag
		}
		if len(errs) > 0 {
			t.Fatalf("semantic oracle failed under concurrency: %v", errs)
		}
		contended := false
		for i := 0; i < p.Partitions; i++ {
			if ops[i].Load() >= 100 {
				contended = true
			}
		}
		if contended {
			if st.NonTrivial(p) {
				st.Sample(p)
			}
		}
	})
}
