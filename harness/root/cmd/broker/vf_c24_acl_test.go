//go:build verif

package main

import (
	"context"
	"encoding/binary"
	"encoding/hex"
	"fmt"
	"io"
	"log/slog"
	"net"
	"sort"
	"strings"
	"sync"
	"testing"
	"time"

	"github.com/KafScale/platform/pkg/acl"
	"github.com/KafScale/platform/pkg/broker"
	"github.com/KafScale/platform/pkg/metadata"
	"github.com/KafScale/platform/pkg/protocol"
	"github.com/KafScale/platform/pkg/storage"
	"github.com/twmb/franz-go/pkg/kmsg"
	"google.golang.org/protobuf/proto"
	"pgregory.net/rapid"
	"verif.local/vfkit"
)

// C24: with ACLs on, a request from a principal lacking the required permission changes
// nothing (topics, partitions, end offsets, configs, committed offsets, groups, S3 objects,
// buffered records), returns no record bytes and is answered with an authorization error.
//
// "Lacks the required permission" is decided WITHOUT the broker's authorizer, from the
// structure of the generated ACL, in three tiers of decreasing independence from any
// assumed API->action table (see DESIGN.md C24): T1 no permission at all, T2 only rules
// for other (exactly named) topics/groups, T3 no rule for the one action the API needs.
// Everything else (authorized or undecided) is executed without assertion so the world
// keeps moving.

const c24FindingMeta = "C24-metadata-autocreate-no-acl"

// ---------------------------------------------------------------- world

type c24S3 struct {
	*storage.MemoryS3Client
	mu     sync.Mutex
	writes []string
}

func (s *c24S3) note(op, key string) {
	s.mu.Lock()
	s.writes = append(s.writes, op+" "+key)
	s.mu.Unlock()
}
func (s *c24S3) UploadSegment(ctx context.Context, key string, body []byte) error {
	s.note("put-segment", key)
	return s.MemoryS3Client.UploadSegment(ctx, key, body)
}
func (s *c24S3) UploadIndex(ctx context.Context, key string, body []byte) error {
	s.note("put-index", key)
	return s.MemoryS3Client.UploadIndex(ctx, key, body)
}
func (s *c24S3) DeleteSegment(ctx context.Context, key string) error {
	s.note("del-segment", key)
	return s.MemoryS3Client.DeleteSegment(ctx, key)
}
func (s *c24S3) DeleteIndex(ctx context.Context, key string) error {
	s.note("del-index", key)
	return s.MemoryS3Client.DeleteIndex(ctx, key)
}

type c24World struct {
	h        *handler
	store    *metadata.InMemoryStore
	s3       *c24S3
	memberID string
	gen      int32
	member2  string // group g2
	gen2     int32
	corr     int32
	ctx      context.Context // the connection's context (nil = no connection info)
}

var (
	c24Topics = []string{"orders", "payments", "newtopic", "ord"} // the last two do not exist initially
	c24Groups = []string{"g1", "g2", "newgroup"}                  // g1 and g2 exist initially
)

func c24Subscription(topics ...string) []byte {
	buf := []byte{0, 0}
	buf = binary.BigEndian.AppendUint32(buf, uint32(len(topics)))
	for _, t := range topics {
		buf = binary.BigEndian.AppendUint16(buf, uint16(len(t)))
		buf = append(buf, t...)
	}
	return binary.BigEndian.AppendUint32(buf, 0)
}

func c24Decode[T kmsg.Response](version int16, payload []byte, resp T) error {
	body, ok := protocol.SkipResponseHeader(resp.Key(), version, payload)
	if !ok {
		return fmt.Errorf("cannot skip response header (api key %d v%d, %d bytes)", resp.Key(), version, len(payload))
	}
	resp.SetVersion(version)
	return resp.ReadFrom(body)
}

func (w *c24World) call(principal *string, key, version int16, req kmsg.Request) ([]byte, error) {
	w.corr++
	req.SetVersion(version)
	ctx := w.ctx
	if ctx == nil {
		ctx = context.Background()
	}
	return w.h.Handle(ctx, &protocol.RequestHeader{APIKey: key, APIVersion: version, CorrelationID: w.corr, ClientID: principal}, req)
}

// c24ConnMode: how the server builds the connection info that all requests of ONE
// connection share (broker.Server attaches one *ConnContext per connection).
type c24ConnMode struct {
	name   string
	fn     broker.ConnContextFunc
	header []byte
}

// c24ConnModes builds the real buildConnContextFunc for the principal-source modes in which
// the identity is the Kafka client.id of each request: no connection info at all (default),
// an unrecognised KAFSCALE_PRINCIPAL_SOURCE (falls back to client_id but attaches a
// ConnContext), and PROXY protocol on with source client_id.
func c24ConnModes(t *testing.T) []c24ConnMode {
	logger := slog.New(slog.NewTextHandler(io.Discard, &slog.HandlerOptions{}))
	modes := []c24ConnMode{{name: "no-conn-info"}}
	t.Setenv("KAFSCALE_PRINCIPAL_SOURCE", "sasl_user")
	t.Setenv("KAFSCALE_PROXY_PROTOCOL", "false")
	modes = append(modes, c24ConnMode{name: "conn-info:unrecognised-source", fn: buildConnContextFunc(logger)})
	t.Setenv("KAFSCALE_PRINCIPAL_SOURCE", "client_id")
	t.Setenv("KAFSCALE_PROXY_PROTOCOL", "true")
	modes = append(modes, c24ConnMode{name: "conn-info:proxy-protocol+client_id", fn: buildConnContextFunc(logger), header: []byte("PROXY TCP4 10.0.0.9 10.0.0.1 40000 9092\r\n")})
	t.Setenv("KAFSCALE_PRINCIPAL_SOURCE", "")
	t.Setenv("KAFSCALE_PROXY_PROTOCOL", "false")
	return modes
}

// c24Connect runs the mode's ConnContextFunc over a pipe and returns the context every
// request of that connection is served with.
func c24Connect(m c24ConnMode) (context.Context, error) {
	if m.fn == nil {
		return context.Background(), nil
	}
	client, server := net.Pipe()
	defer client.Close()
	defer server.Close()
	_ = server.SetDeadline(time.Now().Add(30 * time.Second))
	go func() { _, _ = client.Write(append(append([]byte(nil), m.header...), 0, 0, 0, 8, 0, 18, 0, 0, 0, 0, 0, 1)) }()
	_, info, err := m.fn(server)
	if err != nil {
		return nil, err
	}
	return broker.ContextWithConnInfo(context.Background(), info), nil
}

func c24NewWorld() (*c24World, error) {
	ctx := context.Background()
	brokerInfo := protocol.MetadataBroker{NodeID: 1, Host: "localhost", Port: 19092}
	store := metadata.NewInMemoryStore(metadataForBroker(brokerInfo)) // "orders", 1 partition
	if _, err := store.CreateTopic(ctx, metadata.TopicSpec{Name: "payments", NumPartitions: 2, ReplicationFactor: 1}); err != nil {
		return nil, err
	}
	s3 := &c24S3{MemoryS3Client: storage.NewMemoryS3Client()}
	logger := slog.New(slog.NewTextHandler(io.Discard, &slog.HandlerOptions{}))
	h := newHandler(store, s3, brokerInfo, logger)
	// no background expiry during a case: the coordinator's cleanup must not race the snapshots
	h.coordinator.Stop()
	h.coordinator = broker.NewGroupCoordinator(store, brokerInfo, &broker.CoordinatorConfig{CleanupInterval: time.Hour})
	h.authorizer = acl.NewAuthorizer(acl.Config{Enabled: false})
	h.allowAdminAPIs = true
	w := &c24World{h: h, store: store, s3: s3}
	root := "setup"
	// records
	preq := kmsg.NewPtrProduceRequest()
	preq.Acks = -1
	preq.TimeoutMillis = 1000
	for _, tp := range []struct {
		t string
		p int32
		n int
	}{{"orders", 0, 3}, {"payments", 1, 2}} {
		rt := kmsg.NewProduceRequestTopic()
		rt.Topic = tp.t
		rp := kmsg.NewProduceRequestTopicPartition()
		rp.Partition = tp.p
		rp.Records = vfkit.SimpleBatch(0, 1700000000000, tp.n, "pre")
		rt.Partitions = append(rt.Partitions, rp)
		preq.Topics = append(preq.Topics, rt)
	}
	payload, err := w.call(&root, protocol.APIKeyProduce, 9, preq)
	if err != nil {
		return nil, fmt.Errorf("setup produce: %w", err)
	}
	presp := kmsg.NewPtrProduceResponse()
	if err := c24Decode(9, payload, presp); err != nil {
		return nil, err
	}
	for _, t := range presp.Topics {
		for _, p := range t.Partitions {
			if p.ErrorCode != 0 {
				return nil, fmt.Errorf("setup produce %s-%d: code %d", t.Topic, p.Partition, p.ErrorCode)
			}
		}
	}
	// topic config
	cfg, err := store.FetchTopicConfig(ctx, "orders")
	if err != nil {
		return nil, err
	}
	cfg.RetentionMs = 12345
	if err := store.UpdateTopicConfig(ctx, cfg); err != nil {
		return nil, err
	}
	// live groups g1 and g2: one stable member each
	for _, g := range []string{"g1", "g2"} {
		jreq := kmsg.NewPtrJoinGroupRequest()
		jreq.Group = g
		jreq.SessionTimeoutMillis = 3600000
		jreq.RebalanceTimeoutMillis = 3600000
		jreq.ProtocolType = "consumer"
		jreq.Protocols = []kmsg.JoinGroupRequestProtocol{{Name: "range", Metadata: c24Subscription("orders")}}
		payload, err = w.call(&root, protocol.APIKeyJoinGroup, 4, jreq)
		if err != nil {
			return nil, fmt.Errorf("setup join: %w", err)
		}
		jresp := kmsg.NewPtrJoinGroupResponse()
		if err := c24Decode(4, payload, jresp); err != nil {
			return nil, err
		}
		if jresp.ErrorCode != 0 || jresp.MemberID == "" {
			return nil, fmt.Errorf("setup join %s: code %d member %q", g, jresp.ErrorCode, jresp.MemberID)
		}
		if g == "g1" {
			w.memberID, w.gen = jresp.MemberID, jresp.Generation
		} else {
			w.member2, w.gen2 = jresp.MemberID, jresp.Generation
		}
		sreq := kmsg.NewPtrSyncGroupRequest()
		sreq.Group, sreq.Generation, sreq.MemberID = g, jresp.Generation, jresp.MemberID
		payload, err = w.call(&root, protocol.APIKeySyncGroup, 4, sreq)
		if err != nil {
			return nil, fmt.Errorf("setup sync: %w", err)
		}
		sresp := kmsg.NewPtrSyncGroupResponse()
		if err := c24Decode(4, payload, sresp); err != nil {
			return nil, err
		}
		if sresp.ErrorCode != 0 {
			return nil, fmt.Errorf("setup sync %s: code %d", g, sresp.ErrorCode)
		}
	}
	creq := kmsg.NewPtrOffsetCommitRequest()
	creq.Group, creq.Generation, creq.MemberID = "g1", w.gen, w.memberID
	ct := kmsg.NewOffsetCommitRequestTopic()
	ct.Topic = "orders"
	cp := kmsg.NewOffsetCommitRequestTopicPartition()
	cp.Partition, cp.Offset, cp.Metadata = 0, 2, kmsg.StringPtr("pre")
	ct.Partitions = append(ct.Partitions, cp)
	creq.Topics = append(creq.Topics, ct)
	payload, err = w.call(&root, protocol.APIKeyOffsetCommit, 3, creq)
	if err != nil {
		return nil, fmt.Errorf("setup commit: %w", err)
	}
	cresp := kmsg.NewPtrOffsetCommitResponse()
	if err := c24Decode(3, payload, cresp); err != nil {
		return nil, err
	}
	if len(cresp.Topics) != 1 || len(cresp.Topics[0].Partitions) != 1 || cresp.Topics[0].Partitions[0].ErrorCode != 0 {
		return nil, fmt.Errorf("setup commit failed: %+v", cresp.Topics)
	}
	return w, nil
}

func (w *c24World) close() { w.h.coordinator.Stop() }

// snapshot renders everything the statement says must not change.
func (w *c24World) snapshot() (map[string]string, error) {
	ctx := context.Background()
	out := map[string]string{}
	meta, err := w.store.Metadata(ctx, nil)
	if err != nil {
		return nil, err
	}
	var names []string
	for _, t := range meta.Topics {
		name := ""
		if t.Topic != nil {
			name = *t.Topic
		}
		names = append(names, name)
		out["topic/"+name] = fmt.Sprintf("partitions=%d err=%d", len(t.Partitions), t.ErrorCode)
		for _, p := range t.Partitions {
			off, err := w.store.NextOffset(ctx, name, p.Partition)
			out[fmt.Sprintf("endoffset/%s/%d", name, p.Partition)] = fmt.Sprintf("%d %v", off, err)
		}
		if cfg, err := w.store.FetchTopicConfig(ctx, name); err == nil {
			// a config that was never stored is synthesised on every read with
			// CreatedAt = now (second resolution): not state, must not reach the snapshot
			cfg.CreatedAt = ""
			b, _ := proto.MarshalOptions{Deterministic: true}.Marshal(cfg)
			out["config/"+name] = hex.EncodeToString(b)
		} else {
			out["config/"+name] = "err " + err.Error()
		}
	}
	sort.Strings(names)
	out["topics"] = strings.Join(names, ",")
	offs, err := w.store.ListConsumerOffsets(ctx)
	if err != nil {
		return nil, err
	}
	for _, o := range offs {
		_, m, _ := w.store.FetchConsumerOffset(ctx, o.Group, o.Topic, o.Partition)
		out[fmt.Sprintf("committed/%s/%s/%d", o.Group, o.Topic, o.Partition)] = fmt.Sprintf("%d %q", o.Offset, m)
	}
	groups, err := w.store.ListConsumerGroups(ctx)
	if err != nil {
		return nil, err
	}
	for _, g := range groups {
		b, _ := proto.MarshalOptions{Deterministic: true}.Marshal(g)
		out["group/"+g.GetGroupId()] = hex.EncodeToString(b)
	}
	w.s3.mu.Lock()
	out["s3-mutations"] = fmt.Sprint(len(w.s3.writes))
	w.s3.mu.Unlock()
	objs, _ := w.s3.ListSegments(ctx, "")
	for _, o := range objs {
		out["s3/"+o.Key] = fmt.Sprint(o.Size)
	}
	w.h.logMu.RLock()
	for topic, parts := range w.h.logs {
		for p, plog := range parts {
			// records accepted into the write buffer but not yet flushed (acks=0 path)
			hw := plog.BufferedHighWatermark()
			if end, err := w.store.NextOffset(ctx, topic, p); err != nil || end != hw {
				out[fmt.Sprintf("unflushed/%s/%d", topic, p)] = fmt.Sprintf("log end %d, published end %d (%v)", hw, end, err)
			}
		}
	}
	w.h.logMu.RUnlock()
	return out, nil
}

func c24Diff(a, b map[string]string) []string {
	var d []string
	for k, v := range a {
		if w, ok := b[k]; !ok {
			d = append(d, fmt.Sprintf("%s: %q -> (gone)", k, v))
		} else if w != v {
			d = append(d, fmt.Sprintf("%s: %q -> %q", k, v, w))
		}
	}
	for k, v := range b {
		if _, ok := a[k]; !ok {
			d = append(d, fmt.Sprintf("%s: (absent) -> %q", k, v))
		}
	}
	sort.Strings(d)
	return d
}

// ---------------------------------------------------------------- requests

type c24Req struct {
	Key       int16    `json:"api_key"`
	Version   int16    `json:"version"`
	Principal string   `json:"principal"` // "" = no client id (anonymous)
	Topics    []string `json:"topics,omitempty"`
	Groups    []string `json:"groups,omitempty"`
	Part      int32    `json:"partition"`
	Acks      int16    `json:"acks,omitempty"`
	ByID      bool     `json:"by_topic_id,omitempty"`
	Earliest  bool     `json:"earliest,omitempty"`
	AllTopics bool     `json:"all_topics,omitempty"`
	ValidMem  bool     `json:"valid_member,omitempty"`
	BrokerRes bool     `json:"broker_resource,omitempty"`
	Validate  bool     `json:"validate_only,omitempty"`
}

type c24API struct {
	key        int16
	name       string
	minV, maxV int16 // clipped to what the harness can build
	action     acl.Action
	exempt     bool // answered without a permission by design
	usesTopics bool
	usesGroups bool
	mutating   bool
}

var c24APIs = []c24API{
	{key: protocol.APIKeyProduce, name: "Produce", minV: 3, maxV: 9, action: acl.ActionProduce, usesTopics: true, mutating: true},
	{key: protocol.APIKeyFetch, name: "Fetch", minV: 11, maxV: 13, action: acl.ActionFetch, usesTopics: true},
	{key: protocol.APIKeyListOffsets, name: "ListOffsets", minV: 0, maxV: 4, action: acl.ActionFetch, usesTopics: true},
	{key: protocol.APIKeyMetadata, name: "Metadata", minV: 0, maxV: 12, exempt: true, usesTopics: true},
	{key: protocol.APIKeyOffsetCommit, name: "OffsetCommit", minV: 3, maxV: 3, action: acl.ActionGroupWrite, usesTopics: true, usesGroups: true, mutating: true},
	{key: protocol.APIKeyOffsetFetch, name: "OffsetFetch", minV: 5, maxV: 5, action: acl.ActionGroupRead, usesTopics: true, usesGroups: true},
	{key: protocol.APIKeyFindCoordinator, name: "FindCoordinator", minV: 3, maxV: 3, exempt: true, usesGroups: true},
	{key: protocol.APIKeyJoinGroup, name: "JoinGroup", minV: 4, maxV: 4, action: acl.ActionGroupWrite, usesGroups: true, mutating: true},
	{key: protocol.APIKeyHeartbeat, name: "Heartbeat", minV: 4, maxV: 4, action: acl.ActionGroupWrite, usesGroups: true, mutating: true},
	{key: protocol.APIKeyLeaveGroup, name: "LeaveGroup", minV: 4, maxV: 4, action: acl.ActionGroupWrite, usesGroups: true, mutating: true},
	{key: protocol.APIKeySyncGroup, name: "SyncGroup", minV: 4, maxV: 4, action: acl.ActionGroupWrite, usesGroups: true, mutating: true},
	{key: protocol.APIKeyDescribeGroups, name: "DescribeGroups", minV: 5, maxV: 5, action: acl.ActionGroupRead, usesGroups: true},
	{key: protocol.APIKeyListGroups, name: "ListGroups", minV: 0, maxV: 5, action: acl.ActionGroupRead},
	{key: protocol.APIKeyApiVersion, name: "ApiVersions", minV: 0, maxV: 4, exempt: true},
	{key: protocol.APIKeyCreateTopics, name: "CreateTopics", minV: 0, maxV: 2, action: acl.ActionAdmin, usesTopics: true, mutating: true},
	{key: protocol.APIKeyDeleteTopics, name: "DeleteTopics", minV: 0, maxV: 2, action: acl.ActionAdmin, usesTopics: true, mutating: true},
	{key: protocol.APIKeyOffsetForLeaderEpoch, name: "OffsetForLeaderEpoch", minV: 3, maxV: 3, action: acl.ActionFetch, usesTopics: true},
	{key: protocol.APIKeyDescribeConfigs, name: "DescribeConfigs", minV: 4, maxV: 4, usesTopics: true},
	{key: protocol.APIKeyAlterConfigs, name: "AlterConfigs", minV: 1, maxV: 1, action: acl.ActionAdmin, usesTopics: true, mutating: true},
	{key: protocol.APIKeyCreatePartitions, name: "CreatePartitions", minV: 0, maxV: 3, action: acl.ActionAdmin, usesTopics: true, mutating: true},
	{key: protocol.APIKeyDeleteGroups, name: "DeleteGroups", minV: 0, maxV: 2, action: acl.ActionGroupAdmin, usesGroups: true, mutating: true},
}

func c24APIByKey(k int16) *c24API {
	for i := range c24APIs {
		if c24APIs[i].key == k {
			return &c24APIs[i]
		}
	}
	return nil
}

// partFor keeps a request off partitions that do not exist in an existing topic while
// auto-creation is on: getPartitionLog then spins forever (ensureTopic reports "exists",
// the loop retries) -- a liveness defect outside this property that would only turn
// every run into a timeout.
func (w *c24World) partFor(topic string, want int32) int32 {
	m, err := w.store.Metadata(context.Background(), []string{topic})
	if err != nil || len(m.Topics) != 1 || m.Topics[0].ErrorCode != 0 {
		return want % 2 // unknown topic: auto-create makes partition+1 partitions
	}
	n := int32(len(m.Topics[0].Partitions))
	if !w.h.autoCreateTopics || n == 0 {
		return want
	}
	return want % n
}

func (w *c24World) build(r c24Req) kmsg.Request {
	member, gen := "bogus-member", int32(99)
	if r.ValidMem {
		member, gen = w.memberID, w.gen
	}
	group := ""
	if len(r.Groups) > 0 {
		group = r.Groups[0]
	}
	if r.ValidMem && group == "g2" {
		member, gen = w.member2, w.gen2
	}
	switch r.Key {
	case protocol.APIKeyProduce:
		req := kmsg.NewPtrProduceRequest()
		req.Acks = r.Acks
		req.TimeoutMillis = 1000
		for _, t := range r.Topics {
			rt := kmsg.NewProduceRequestTopic()
			rt.Topic = t
			rp := kmsg.NewProduceRequestTopicPartition()
			rp.Partition = w.partFor(t, r.Part)
			rp.Records = vfkit.SimpleBatch(0, 1700000000000, 2, "intruder")
			rt.Partitions = append(rt.Partitions, rp)
			req.Topics = append(req.Topics, rt)
		}
		return req
	case protocol.APIKeyFetch:
		req := kmsg.NewPtrFetchRequest()
		req.ReplicaID = -1
		req.MaxWaitMillis = 0
		req.MinBytes = 1
		req.MaxBytes = 1 << 20
		for _, t := range r.Topics {
			rt := kmsg.NewFetchRequestTopic()
			if r.Version >= 13 { // v13 addresses topics by id only (the name is not on the wire)
				rt.TopicID = metadata.TopicIDForName(t)
			} else {
				rt.Topic = t
			}
			rp := kmsg.NewFetchRequestTopicPartition()
			rp.Partition = w.partFor(t, r.Part)
			rp.FetchOffset = 0
			rp.PartitionMaxBytes = 1 << 20
			rt.Partitions = append(rt.Partitions, rp)
			req.Topics = append(req.Topics, rt)
		}
		return req
	case protocol.APIKeyListOffsets:
		req := kmsg.NewPtrListOffsetsRequest()
		req.ReplicaID = -1
		for _, t := range r.Topics {
			rt := kmsg.NewListOffsetsRequestTopic()
			rt.Topic = t
			rp := kmsg.NewListOffsetsRequestTopicPartition()
			rp.Partition = w.partFor(t, r.Part)
			rp.Timestamp = -1
			if r.Earliest {
				rp.Timestamp = -2
			}
			rp.MaxNumOffsets = 1
			rt.Partitions = append(rt.Partitions, rp)
			req.Topics = append(req.Topics, rt)
		}
		return req
	case protocol.APIKeyMetadata:
		req := kmsg.NewPtrMetadataRequest()
		req.AllowAutoTopicCreation = true
		if !r.AllTopics {
			req.Topics = []kmsg.MetadataRequestTopic{}
			for _, t := range r.Topics {
				rt := kmsg.NewMetadataRequestTopic()
				rt.Topic = kmsg.StringPtr(t)
				req.Topics = append(req.Topics, rt)
			}
		}
		return req
	case protocol.APIKeyOffsetCommit:
		req := kmsg.NewPtrOffsetCommitRequest()
		req.Group, req.Generation, req.MemberID = group, gen, member
		for _, t := range r.Topics {
			rt := kmsg.NewOffsetCommitRequestTopic()
			rt.Topic = t
			rp := kmsg.NewOffsetCommitRequestTopicPartition()
			rp.Partition, rp.Offset, rp.Metadata = w.partFor(t, r.Part), 1, kmsg.StringPtr("intruder")
			rt.Partitions = append(rt.Partitions, rp)
			req.Topics = append(req.Topics, rt)
		}
		return req
	case protocol.APIKeyOffsetFetch:
		req := kmsg.NewPtrOffsetFetchRequest()
		req.Group = group
		for _, t := range r.Topics {
			rt := kmsg.NewOffsetFetchRequestTopic()
			rt.Topic = t
			rt.Partitions = []int32{r.Part}
			req.Topics = append(req.Topics, rt)
		}
		return req
	case protocol.APIKeyFindCoordinator:
		req := kmsg.NewPtrFindCoordinatorRequest()
		req.CoordinatorKey = group
		return req
	case protocol.APIKeyJoinGroup:
		req := kmsg.NewPtrJoinGroupRequest()
		req.Group = group
		req.SessionTimeoutMillis = 3600000
		req.RebalanceTimeoutMillis = 3600000
		req.ProtocolType = "consumer"
		if r.ValidMem {
			req.MemberID = member
		}
		req.Protocols = []kmsg.JoinGroupRequestProtocol{{Name: "range", Metadata: c24Subscription("payments")}}
		return req
	case protocol.APIKeyHeartbeat:
		req := kmsg.NewPtrHeartbeatRequest()
		req.Group, req.Generation, req.MemberID = group, gen, member
		return req
	case protocol.APIKeyLeaveGroup:
		req := kmsg.NewPtrLeaveGroupRequest()
		req.Group, req.MemberID = group, member
		m := kmsg.NewLeaveGroupRequestMember()
		m.MemberID = member
		req.Members = append(req.Members, m)
		return req
	case protocol.APIKeySyncGroup:
		req := kmsg.NewPtrSyncGroupRequest()
		req.Group, req.Generation, req.MemberID = group, gen, member
		return req
	case protocol.APIKeyDescribeGroups:
		req := kmsg.NewPtrDescribeGroupsRequest()
		req.Groups = append([]string(nil), r.Groups...)
		return req
	case protocol.APIKeyListGroups:
		return kmsg.NewPtrListGroupsRequest()
	case protocol.APIKeyApiVersion:
		return kmsg.NewPtrApiVersionsRequest()
	case protocol.APIKeyCreateTopics:
		req := kmsg.NewPtrCreateTopicsRequest()
		req.TimeoutMillis = 1000
		req.ValidateOnly = r.Validate && r.Version >= 1
		for _, t := range r.Topics {
			rt := kmsg.NewCreateTopicsRequestTopic()
			rt.Topic, rt.NumPartitions, rt.ReplicationFactor = t, 2, 1
			req.Topics = append(req.Topics, rt)
		}
		return req
	case protocol.APIKeyDeleteTopics:
		req := kmsg.NewPtrDeleteTopicsRequest()
		req.TimeoutMillis = 1000
		req.TopicNames = append([]string(nil), r.Topics...)
		return req
	case protocol.APIKeyOffsetForLeaderEpoch:
		req := kmsg.NewPtrOffsetForLeaderEpochRequest()
		req.ReplicaID = -1
		for _, t := range r.Topics {
			rt := kmsg.NewOffsetForLeaderEpochRequestTopic()
			rt.Topic = t
			rp := kmsg.NewOffsetForLeaderEpochRequestTopicPartition()
			rp.Partition = w.partFor(t, r.Part)
			rt.Partitions = append(rt.Partitions, rp)
			req.Topics = append(req.Topics, rt)
		}
		return req
	case protocol.APIKeyDescribeConfigs:
		req := kmsg.NewPtrDescribeConfigsRequest()
		for _, t := range r.Topics {
			rr := kmsg.NewDescribeConfigsRequestResource()
			rr.ResourceType, rr.ResourceName = kmsg.ConfigResourceTypeTopic, t
			req.Resources = append(req.Resources, rr)
		}
		if r.BrokerRes {
			rr := kmsg.NewDescribeConfigsRequestResource()
			rr.ResourceType, rr.ResourceName = kmsg.ConfigResourceTypeBroker, "1"
			req.Resources = append(req.Resources, rr)
		}
		return req
	case protocol.APIKeyAlterConfigs:
		req := kmsg.NewPtrAlterConfigsRequest()
		req.ValidateOnly = r.Validate
		for _, t := range r.Topics {
			rr := kmsg.NewAlterConfigsRequestResource()
			rr.ResourceType, rr.ResourceName = kmsg.ConfigResourceTypeTopic, t
			rc := kmsg.NewAlterConfigsRequestResourceConfig()
			rc.Name, rc.Value = "retention.ms", kmsg.StringPtr("777")
			rr.Configs = append(rr.Configs, rc)
			req.Resources = append(req.Resources, rr)
		}
		return req
	case protocol.APIKeyCreatePartitions:
		req := kmsg.NewPtrCreatePartitionsRequest()
		req.TimeoutMillis = 1000
		req.ValidateOnly = r.Validate && r.Version >= 1
		for _, t := range r.Topics {
			rt := kmsg.NewCreatePartitionsRequestTopic()
			rt.Topic, rt.Count = t, 4
			req.Topics = append(req.Topics, rt)
		}
		return req
	case protocol.APIKeyDeleteGroups:
		req := kmsg.NewPtrDeleteGroupsRequest()
		req.Groups = append([]string(nil), r.Groups...)
		return req
	}
	return nil
}

// c24ResultCodes decodes the response and returns the error code of every per-resource
// result (or the top-level code where the API has only that) and the number of record bytes.
func c24ResultCodes(key, v int16, payload []byte) (codes []int16, recordBytes int, err error) {
	switch key {
	case protocol.APIKeyProduce:
		resp := kmsg.NewPtrProduceResponse()
		if err = c24Decode(v, payload, resp); err != nil {
			return
		}
		for _, t := range resp.Topics {
			for _, p := range t.Partitions {
				codes = append(codes, p.ErrorCode)
			}
		}
	case protocol.APIKeyFetch:
		resp := kmsg.NewPtrFetchResponse()
		if err = c24Decode(v, payload, resp); err != nil {
			return
		}
		for _, t := range resp.Topics {
			for _, p := range t.Partitions {
				codes = append(codes, p.ErrorCode)
				recordBytes += len(p.RecordBatches)
			}
		}
	case protocol.APIKeyListOffsets:
		resp := kmsg.NewPtrListOffsetsResponse()
		if err = c24Decode(v, payload, resp); err != nil {
			return
		}
		for _, t := range resp.Topics {
			for _, p := range t.Partitions {
				codes = append(codes, p.ErrorCode)
			}
		}
	case protocol.APIKeyOffsetCommit:
		resp := kmsg.NewPtrOffsetCommitResponse()
		if err = c24Decode(v, payload, resp); err != nil {
			return
		}
		for _, t := range resp.Topics {
			for _, p := range t.Partitions {
				codes = append(codes, p.ErrorCode)
			}
		}
	case protocol.APIKeyOffsetFetch:
		resp := kmsg.NewPtrOffsetFetchResponse()
		if err = c24Decode(v, payload, resp); err != nil {
			return
		}
		codes = append(codes, resp.ErrorCode)
		for _, t := range resp.Topics {
			for _, p := range t.Partitions {
				codes = append(codes, p.ErrorCode)
			}
		}
	case protocol.APIKeyJoinGroup:
		resp := kmsg.NewPtrJoinGroupResponse()
		if err = c24Decode(v, payload, resp); err != nil {
			return
		}
		codes = append(codes, resp.ErrorCode)
	case protocol.APIKeyHeartbeat:
		resp := kmsg.NewPtrHeartbeatResponse()
		if err = c24Decode(v, payload, resp); err != nil {
			return
		}
		codes = append(codes, resp.ErrorCode)
	case protocol.APIKeyLeaveGroup:
		resp := kmsg.NewPtrLeaveGroupResponse()
		if err = c24Decode(v, payload, resp); err != nil {
			return
		}
		codes = append(codes, resp.ErrorCode)
	case protocol.APIKeySyncGroup:
		resp := kmsg.NewPtrSyncGroupResponse()
		if err = c24Decode(v, payload, resp); err != nil {
			return
		}
		codes = append(codes, resp.ErrorCode)
	case protocol.APIKeyListGroups:
		resp := kmsg.NewPtrListGroupsResponse()
		if err = c24Decode(v, payload, resp); err != nil {
			return
		}
		codes = append(codes, resp.ErrorCode)
	case protocol.APIKeyDescribeGroups:
		resp := kmsg.NewPtrDescribeGroupsResponse()
		if err = c24Decode(v, payload, resp); err != nil {
			return
		}
		for _, g := range resp.Groups {
			codes = append(codes, g.ErrorCode)
		}
	case protocol.APIKeyDeleteGroups:
		resp := kmsg.NewPtrDeleteGroupsResponse()
		if err = c24Decode(v, payload, resp); err != nil {
			return
		}
		for _, g := range resp.Groups {
			codes = append(codes, g.ErrorCode)
		}
	case protocol.APIKeyCreateTopics:
		resp := kmsg.NewPtrCreateTopicsResponse()
		if err = c24Decode(v, payload, resp); err != nil {
			return
		}
		for _, t := range resp.Topics {
			codes = append(codes, t.ErrorCode)
		}
	case protocol.APIKeyDeleteTopics:
		resp := kmsg.NewPtrDeleteTopicsResponse()
		if err = c24Decode(v, payload, resp); err != nil {
			return
		}
		for _, t := range resp.Topics {
			codes = append(codes, t.ErrorCode)
		}
	case protocol.APIKeyCreatePartitions:
		resp := kmsg.NewPtrCreatePartitionsResponse()
		if err = c24Decode(v, payload, resp); err != nil {
			return
		}
		for _, t := range resp.Topics {
			codes = append(codes, t.ErrorCode)
		}
	case protocol.APIKeyOffsetForLeaderEpoch:
		resp := kmsg.NewPtrOffsetForLeaderEpochResponse()
		if err = c24Decode(v, payload, resp); err != nil {
			return
		}
		for _, t := range resp.Topics {
			for _, p := range t.Partitions {
				codes = append(codes, p.ErrorCode)
			}
		}
	case protocol.APIKeyDescribeConfigs:
		resp := kmsg.NewPtrDescribeConfigsResponse()
		if err = c24Decode(v, payload, resp); err != nil {
			return
		}
		for _, r := range resp.Resources {
			codes = append(codes, r.ErrorCode)
		}
	case protocol.APIKeyAlterConfigs:
		resp := kmsg.NewPtrAlterConfigsResponse()
		if err = c24Decode(v, payload, resp); err != nil {
			return
		}
		for _, r := range resp.Resources {
			codes = append(codes, r.ErrorCode)
		}
	}
	return
}

func c24IsAuthCode(c int16) bool {
	return c == protocol.TOPIC_AUTHORIZATION_FAILED || c == protocol.GROUP_AUTHORIZATION_FAILED || c == protocol.CLUSTER_AUTHORIZATION_FAILED
}

// ---------------------------------------------------------------- ACL generation + tiers

var c24Actions = []acl.Action{acl.ActionProduce, acl.ActionFetch, acl.ActionGroupRead, acl.ActionGroupWrite, acl.ActionGroupAdmin, acl.ActionAdmin}

func c24RuleGen() *rapid.Generator[acl.Rule] {
	return rapid.Custom(func(t *rapid.T) acl.Rule {
		r := acl.Rule{}
		r.Action = rapid.SampledFrom([]acl.Action{acl.ActionProduce, acl.ActionFetch, acl.ActionGroupRead, acl.ActionGroupWrite, acl.ActionGroupAdmin, acl.ActionAdmin, acl.ActionAny}).Draw(t, "action")
		r.Resource = rapid.SampledFrom([]acl.Resource{acl.ResourceTopic, acl.ResourceTopic, acl.ResourceGroup, acl.ResourceGroup, acl.ResourceCluster, acl.ResourceAny}).Draw(t, "resource")
		r.Name = rapid.SampledFrom([]string{"orders", "payments", "newtopic", "ord", "g1", "g2", "newgroup", "other", "cluster", "*", "ord*", "g*"}).Draw(t, "name")
		return r
	})
}

func c24ConfigGen() *rapid.Generator[acl.Config] {
	return rapid.Custom(func(t *rapid.T) acl.Config {
		cfg := acl.Config{Enabled: true, DefaultPolicy: "deny"}
		if rapid.IntRange(0, 3).Draw(t, "defaultAllow") == 0 {
			cfg.DefaultPolicy = "allow"
		}
		for _, name := range []string{"alice", "bob", "carol", "anonymous"} {
			switch rapid.IntRange(-3, 7).Draw(t, "entry-"+name) {
			case -2: // broad allow, specific denies (also the natural shape under default allow)
				e := acl.PrincipalRules{Name: name}
				if rapid.IntRange(0, 3).Draw(t, "broadAllow") > 0 {
					e.Allow = []acl.Rule{{Action: rapid.SampledFrom([]acl.Action{acl.ActionAny, acl.ActionFetch, acl.ActionProduce, acl.ActionGroupWrite, acl.ActionGroupRead}).Draw(t, "broadAction"), Resource: acl.ResourceAny, Name: "*"}}
				}
				for i, n := 0, rapid.IntRange(1, 2).Draw(t, "nDeny"); i < n; i++ {
					d := acl.Rule{}
					d.Action = rapid.SampledFrom([]acl.Action{acl.ActionFetch, acl.ActionFetch, acl.ActionProduce, acl.ActionGroupWrite, acl.ActionGroupRead, acl.ActionGroupAdmin, acl.ActionAny}).Draw(t, "denyAction")
					if rapid.Bool().Draw(t, "denyTopic") {
						d.Resource, d.Name = acl.ResourceTopic, rapid.SampledFrom([]string{"orders", "orders", "payments", "newtopic"}).Draw(t, "denyTopicName")
					} else {
						d.Resource, d.Name = acl.ResourceGroup, rapid.SampledFrom([]string{"g1", "g1", "g2"}).Draw(t, "denyGroupName")
					}
					if rapid.IntRange(0, 4).Draw(t, "denyAnyResource") == 0 {
						d.Resource = acl.ResourceAny
					}
					e.Deny = append(e.Deny, d)
				}
				cfg.Principals = append(cfg.Principals, e)
			case -3: // allowed on exactly one existing group
				cfg.Principals = append(cfg.Principals, acl.PrincipalRules{Name: name, Allow: []acl.Rule{{
					Action:   rapid.SampledFrom([]acl.Action{acl.ActionGroupAdmin, acl.ActionGroupAdmin, acl.ActionGroupRead, acl.ActionGroupWrite, acl.ActionAny}).Draw(t, "oneGroupAction"),
					Resource: acl.ResourceGroup,
					Name:     rapid.SampledFrom([]string{"g1", "g2"}).Draw(t, "oneGroupName")}}})
			case -1: // allowed on exactly one existing topic
				cfg.Principals = append(cfg.Principals, acl.PrincipalRules{Name: name, Allow: []acl.Rule{{
					Action:   rapid.SampledFrom([]acl.Action{acl.ActionProduce, acl.ActionFetch, acl.ActionAny}).Draw(t, "oneTopicAction"),
					Resource: acl.ResourceTopic,
					Name:     rapid.SampledFrom([]string{"orders", "payments"}).Draw(t, "oneTopicName")}}})
			case 0: // not listed
			case 1: // listed, no permission
				cfg.Principals = append(cfg.Principals, acl.PrincipalRules{Name: name, Deny: rapid.SliceOfN(c24RuleGen(), 0, 1).Draw(t, "deny")})
			case 2: // deny everything
				cfg.Principals = append(cfg.Principals, acl.PrincipalRules{Name: name,
					Allow: rapid.SliceOfN(c24RuleGen(), 0, 2).Draw(t, "allow"),
					Deny:  []acl.Rule{{Action: acl.ActionAny, Resource: acl.ResourceAny, Name: "*"}}})
			case 3: // every action but one, on everything: lacks exactly one permission
				missing := rapid.SampledFrom(c24Actions).Draw(t, "missingAction")
				e := acl.PrincipalRules{Name: name}
				for _, a := range c24Actions {
					if a != missing {
						e.Allow = append(e.Allow, acl.Rule{Action: a, Resource: acl.ResourceAny, Name: "*"})
					}
				}
				cfg.Principals = append(cfg.Principals, e)
			case 4: // exactly one action, on everything
				only := rapid.SampledFrom(c24Actions).Draw(t, "onlyAction")
				cfg.Principals = append(cfg.Principals, acl.PrincipalRules{Name: name, Allow: []acl.Rule{{Action: only, Resource: acl.ResourceAny, Name: "*"}}})
			default:
				cfg.Principals = append(cfg.Principals, acl.PrincipalRules{Name: name,
					Allow: rapid.SliceOfN(c24RuleGen(), 1, 3).Draw(t, "allow"),
					Deny:  rapid.SliceOfN(c24RuleGen(), 0, 1).Draw(t, "deny")})
			}
		}
		return cfg
	})
}

// c24SplitDoc renders the logical ACL as a principals[] document in which the same
// principal may appear in several entries (the list is JSON: names can repeat; "the rules
// for its principal" are all of them): allows first and the denies in a later entry
// ("revocation" appended at the end of the file), denies first, or one entry per rule, with
// the later entries placed after the other principals. The rule SET per principal is
// unchanged, so every verdict computed on the logical ACL holds for the document.
func c24SplitDoc(t *rapid.T, cfg acl.Config) (acl.Config, string) {
	doc := acl.Config{Enabled: cfg.Enabled, DefaultPolicy: cfg.DefaultPolicy}
	var tail []acl.PrincipalRules
	split := false
	for _, p := range cfg.Principals {
		if len(p.Allow)+len(p.Deny) < 2 && !(len(p.Deny) == 1) {
			doc.Principals = append(doc.Principals, p)
			continue
		}
		switch rapid.IntRange(0, 5).Draw(t, "split-"+p.Name) {
		case 0, 1: // single entry
			doc.Principals = append(doc.Principals, p)
		case 2, 3: // grants first, the denies in a later entry
			doc.Principals = append(doc.Principals, acl.PrincipalRules{Name: p.Name, Allow: p.Allow})
			tail = append(tail, acl.PrincipalRules{Name: p.Name, Deny: p.Deny})
			split = true
		case 4: // denies first, the grants later
			doc.Principals = append(doc.Principals, acl.PrincipalRules{Name: p.Name, Deny: p.Deny})
			tail = append(tail, acl.PrincipalRules{Name: p.Name, Allow: p.Allow})
			split = true
		default: // one entry per rule
			first := true
			for _, a := range p.Allow {
				e := acl.PrincipalRules{Name: p.Name, Allow: []acl.Rule{a}}
				if first {
					doc.Principals, first = append(doc.Principals, e), false
				} else {
					tail = append(tail, e)
				}
			}
			for _, d := range p.Deny {
				e := acl.PrincipalRules{Name: p.Name, Deny: []acl.Rule{d}}
				if first {
					doc.Principals, first = append(doc.Principals, e), false
				} else {
					tail = append(tail, e)
				}
			}
			split = true
		}
	}
	doc.Principals = append(doc.Principals, tail...)
	if split {
		return doc, "principal-listed-in-several-entries"
	}
	return doc, "one-entry-per-principal"
}

func c24Entry(cfg acl.Config, principal string) *acl.PrincipalRules {
	for i := range cfg.Principals {
		if cfg.Principals[i].Name == principal {
			return &cfg.Principals[i]
		}
	}
	return nil
}

// c24Tier decides from the ACL's structure alone whether the principal lacks the permission
// for the request: "T1", "T2", "T3" or "" (authorized or undecided).
func c24Tier(cfg acl.Config, principal string, api *c24API, r c24Req) string {
	if principal == "" {
		principal = "anonymous"
	}
	e := c24Entry(cfg, principal)
	denyAll := false
	if e != nil {
		for _, d := range e.Deny {
			if d.Action == acl.ActionAny && d.Resource == acl.ResourceAny && d.Name == "*" {
				denyAll = true
			}
		}
	}
	if denyAll {
		return "T1"
	}
	if cfg.DefaultPolicy == "deny" && (e == nil || len(e.Allow) == 0) {
		return "T1"
	}
	// T3d: every topic (group) the request touches is covered by an explicit deny rule for
	// the action the API needs -- deny overrides whatever else is allowed (C23)
	if kind := c24Kind(api.key); kind != "" && e != nil {
		names := r.Topics
		if kind == acl.ResourceGroup {
			names = r.Groups
		}
		all := len(names) > 0
		for _, n := range names {
			if !c24DeniedBy(e.Deny, api.action, kind, n) {
				all = false
			}
		}
		if all {
			return "T3d"
		}
	}
	if cfg.DefaultPolicy == "deny" {
		// T2: only exactly-named topic/group rules, none naming what the request touches
		touched := map[string]bool{}
		if api.usesTopics {
			for _, t := range r.Topics {
				touched[t] = true
			}
		}
		if api.usesGroups {
			for _, g := range r.Groups {
				touched[g] = true
			}
		}
		if len(touched) > 0 && !api.exempt {
			t2 := true
			for _, a := range e.Allow {
				if (a.Resource != acl.ResourceTopic && a.Resource != acl.ResourceGroup) || strings.Contains(a.Name, "*") || a.Name == "" || touched[a.Name] {
					t2 = false
				}
			}
			if t2 {
				return "T2"
			}
		}
		if api.action != "" {
			has := false
			for _, a := range e.Allow {
				if a.Action == api.action || a.Action == acl.ActionAny {
					has = true
				}
			}
			if !has {
				return "T3"
			}
		}
		return ""
	}
	// default allow: lacking a permission needs a deny rule covering the whole action
	if e != nil && api.action != "" {
		for _, d := range e.Deny {
			if (d.Action == api.action || d.Action == acl.ActionAny) && d.Resource == acl.ResourceAny && d.Name == "*" {
				return "T3"
			}
		}
	}
	return ""
}

// c24Kind: the resource kind an API is unambiguously authorized on ("" = not used for T3d).
func c24Kind(key int16) acl.Resource {
	switch key {
	case protocol.APIKeyProduce, protocol.APIKeyFetch, protocol.APIKeyListOffsets, protocol.APIKeyOffsetForLeaderEpoch:
		return acl.ResourceTopic
	case protocol.APIKeyOffsetCommit, protocol.APIKeyOffsetFetch, protocol.APIKeyJoinGroup, protocol.APIKeyHeartbeat,
		protocol.APIKeyLeaveGroup, protocol.APIKeySyncGroup, protocol.APIKeyDescribeGroups, protocol.APIKeyDeleteGroups:
		return acl.ResourceGroup
	}
	return ""
}

func c24NameCovers(ruleName, name string) bool {
	if ruleName == "*" || ruleName == name {
		return ruleName != ""
	}
	if strings.Count(ruleName, "*") == 1 && strings.HasSuffix(ruleName, "*") {
		return strings.HasPrefix(name, strings.TrimSuffix(ruleName, "*"))
	}
	return false
}

func c24DeniedBy(deny []acl.Rule, action acl.Action, kind acl.Resource, name string) bool {
	for _, d := range deny {
		if (d.Action == action || d.Action == acl.ActionAny) && (d.Resource == kind || d.Resource == acl.ResourceAny) && c24NameCovers(d.Name, name) {
			return true
		}
	}
	return false
}

// c24NoClaimOn: under default deny, could ANY reading of the principal's allow rules concern
// topic `name`? false only when every rule is an exactly-named topic/group rule for another
// name (per-name T2) or the principal has no permission at all.
func c24NoClaimOn(cfg acl.Config, principal, name string) bool {
	if principal == "" {
		principal = "anonymous"
	}
	if cfg.DefaultPolicy != "deny" {
		return false
	}
	e := c24Entry(cfg, principal)
	if e == nil || len(e.Allow) == 0 {
		return true
	}
	for _, a := range e.Allow {
		if (a.Resource != acl.ResourceTopic && a.Resource != acl.ResourceGroup) || strings.Contains(a.Name, "*") || a.Name == "" || a.Name == name {
			return false
		}
	}
	return true
}

// c24PerResource: for APIs that take a LIST of topics/groups, the kind of the listed
// resources ("" = not a list API / not judged per resource).
func c24PerResource(key int16) acl.Resource {
	switch key {
	case protocol.APIKeyProduce, protocol.APIKeyFetch, protocol.APIKeyListOffsets, protocol.APIKeyOffsetForLeaderEpoch,
		protocol.APIKeyCreateTopics, protocol.APIKeyDeleteTopics, protocol.APIKeyAlterConfigs, protocol.APIKeyCreatePartitions,
		protocol.APIKeyDescribeConfigs:
		return acl.ResourceTopic
	case protocol.APIKeyDescribeGroups, protocol.APIKeyDeleteGroups:
		return acl.ResourceGroup
	}
	return ""
}

// c24ResourceUnauthorized: the principal provably lacks the permission for THIS listed
// resource: no rule of it can concern the name under any reading (default deny), or an
// explicit deny rule for the API's action covers the name.
func c24ResourceUnauthorized(cfg acl.Config, principal string, api *c24API, kind acl.Resource, name string) bool {
	if c24NoClaimOn(cfg, principal, name) {
		return true
	}
	if principal == "" {
		principal = "anonymous"
	}
	e := c24Entry(cfg, principal)
	return e != nil && api.action != "" && c24Kind(api.key) == kind && c24DeniedBy(e.Deny, api.action, kind, name)
}

// c24KeyBelongs: does a snapshot key describe state of topic/group `name`?
func c24KeyBelongs(key string, kind acl.Resource, name string) bool {
	parts := strings.Split(key, "/")
	if kind == acl.ResourceGroup {
		return (parts[0] == "group" && len(parts) == 2 && parts[1] == name) || (parts[0] == "committed" && len(parts) >= 2 && parts[1] == name)
	}
	switch parts[0] {
	case "topic", "config":
		return len(parts) == 2 && parts[1] == name
	case "endoffset", "unflushed":
		return len(parts) >= 2 && parts[1] == name
	case "committed":
		return len(parts) >= 3 && parts[2] == name
	case "s3":
		return len(parts) >= 3 && parts[2] == name // s3/<namespace>/<topic>/<partition>/...
	}
	return false
}

func c24ChangedKeys(a, b map[string]string) []string {
	var d []string
	for k, v := range a {
		if w, ok := b[k]; !ok || w != v {
			d = append(d, k)
		}
	}
	for k := range b {
		if _, ok := a[k]; !ok {
			d = append(d, k)
		}
	}
	sort.Strings(d)
	return d
}

// c24ResultByName decodes a list API's response into per-resource codes and record bytes.
func c24ResultByName(key, v int16, payload []byte) (codes map[string][]int16, recordBytes map[string]int, err error) {
	codes, recordBytes = map[string][]int16{}, map[string]int{}
	idName := map[[16]byte]string{}
	for _, t := range c24Topics {
		idName[metadata.TopicIDForName(t)] = t
	}
	switch key {
	case protocol.APIKeyProduce:
		resp := kmsg.NewPtrProduceResponse()
		if err = c24Decode(v, payload, resp); err != nil {
			return
		}
		for _, t := range resp.Topics {
			for _, p := range t.Partitions {
				codes[t.Topic] = append(codes[t.Topic], p.ErrorCode)
			}
		}
	case protocol.APIKeyFetch:
		resp := kmsg.NewPtrFetchResponse()
		if err = c24Decode(v, payload, resp); err != nil {
			return
		}
		for _, t := range resp.Topics {
			name := t.Topic
			if name == "" {
				name = idName[t.TopicID]
			}
			for _, p := range t.Partitions {
				codes[name] = append(codes[name], p.ErrorCode)
				recordBytes[name] += len(p.RecordBatches)
			}
		}
	case protocol.APIKeyListOffsets:
		resp := kmsg.NewPtrListOffsetsResponse()
		if err = c24Decode(v, payload, resp); err != nil {
			return
		}
		for _, t := range resp.Topics {
			for _, p := range t.Partitions {
				codes[t.Topic] = append(codes[t.Topic], p.ErrorCode)
			}
		}
	case protocol.APIKeyOffsetForLeaderEpoch:
		resp := kmsg.NewPtrOffsetForLeaderEpochResponse()
		if err = c24Decode(v, payload, resp); err != nil {
			return
		}
		for _, t := range resp.Topics {
			for _, p := range t.Partitions {
				codes[t.Topic] = append(codes[t.Topic], p.ErrorCode)
			}
		}
	case protocol.APIKeyCreateTopics:
		resp := kmsg.NewPtrCreateTopicsResponse()
		if err = c24Decode(v, payload, resp); err != nil {
			return
		}
		for _, t := range resp.Topics {
			codes[t.Topic] = append(codes[t.Topic], t.ErrorCode)
		}
	case protocol.APIKeyDeleteTopics:
		resp := kmsg.NewPtrDeleteTopicsResponse()
		if err = c24Decode(v, payload, resp); err != nil {
			return
		}
		for _, t := range resp.Topics {
			if t.Topic != nil {
				codes[*t.Topic] = append(codes[*t.Topic], t.ErrorCode)
			}
		}
	case protocol.APIKeyCreatePartitions:
		resp := kmsg.NewPtrCreatePartitionsResponse()
		if err = c24Decode(v, payload, resp); err != nil {
			return
		}
		for _, t := range resp.Topics {
			codes[t.Topic] = append(codes[t.Topic], t.ErrorCode)
		}
	case protocol.APIKeyDescribeConfigs:
		resp := kmsg.NewPtrDescribeConfigsResponse()
		if err = c24Decode(v, payload, resp); err != nil {
			return
		}
		for _, r := range resp.Resources {
			if r.ResourceType == kmsg.ConfigResourceTypeTopic {
				codes[r.ResourceName] = append(codes[r.ResourceName], r.ErrorCode)
			}
		}
	case protocol.APIKeyAlterConfigs:
		resp := kmsg.NewPtrAlterConfigsResponse()
		if err = c24Decode(v, payload, resp); err != nil {
			return
		}
		for _, r := range resp.Resources {
			codes[r.ResourceName] = append(codes[r.ResourceName], r.ErrorCode)
		}
	case protocol.APIKeyDescribeGroups:
		resp := kmsg.NewPtrDescribeGroupsResponse()
		if err = c24Decode(v, payload, resp); err != nil {
			return
		}
		for _, g := range resp.Groups {
			codes[g.Group] = append(codes[g.Group], g.ErrorCode)
		}
	case protocol.APIKeyDeleteGroups:
		resp := kmsg.NewPtrDeleteGroupsResponse()
		if err = c24Decode(v, payload, resp); err != nil {
			return
		}
		for _, g := range resp.Groups {
			codes[g.Group] = append(codes[g.Group], g.ErrorCode)
		}
	}
	return
}

type c24Aim struct {
	principal string
	key       int16
	topics    []string
	groups    []string
	byID      bool
}

// c24Aims derives requests that go straight at a rule of the generated ACL: an API whose
// action/kind an explicit deny rule covers, naming exactly the denied topic/group; and
// Metadata requests mixing a topic the principal is allowed on with missing topics it has
// no claim on, in both orders.
func c24Aims(cfg acl.Config) []c24Aim {
	var aims []c24Aim
	inTopics := func(n string) bool { return n == "orders" || n == "payments" || n == "newtopic" || n == "ord" }
	inGroups := func(n string) bool { return n == "g1" || n == "g2" || n == "newgroup" }
	for _, e := range cfg.Principals {
		principal := e.Name
		if principal == "anonymous" {
			principal = ""
		}
		for _, d := range e.Deny {
			for _, api := range c24APIs {
				kind := c24Kind(api.key)
				if kind == "" || (d.Action != api.action && d.Action != acl.ActionAny) || (d.Resource != kind && d.Resource != acl.ResourceAny) {
					continue
				}
				if kind == acl.ResourceTopic && inTopics(d.Name) {
					aims = append(aims, c24Aim{principal: principal, key: api.key, topics: []string{d.Name}, byID: api.key == protocol.APIKeyFetch})
					other := map[bool]string{true: "payments", false: "orders"}[d.Name == "orders"]
					aims = append(aims, c24Aim{principal: principal, key: api.key, topics: []string{other, d.Name}, byID: api.key == protocol.APIKeyFetch})
					aims = append(aims, c24Aim{principal: principal, key: api.key, topics: []string{d.Name, other}})
				}
				if kind == acl.ResourceGroup && inGroups(d.Name) {
					aims = append(aims, c24Aim{principal: principal, key: api.key, groups: []string{d.Name}})
					if api.key == protocol.APIKeyDescribeGroups || api.key == protocol.APIKeyDeleteGroups {
						other := map[bool]string{true: "g2", false: "g1"}[d.Name == "g1"]
						aims = append(aims, c24Aim{principal: principal, key: api.key, groups: []string{other, d.Name}})
						aims = append(aims, c24Aim{principal: principal, key: api.key, groups: []string{d.Name, other}})
					}
				}
			}
		}
		// list requests mixing a resource the principal is allowed on with one it has no claim on
		for _, a := range e.Allow {
			for _, api := range c24APIs {
				per := c24PerResource(api.key)
				if per == "" || a.Resource != per || (api.action != "" && a.Action != api.action && a.Action != acl.ActionAny) {
					continue
				}
				pool, ok := c24Topics, inTopics(a.Name)
				if per == acl.ResourceGroup {
					pool, ok = c24Groups, inGroups(a.Name)
				}
				if !ok {
					continue
				}
				for _, other := range pool {
					if other == a.Name || !c24NoClaimOn(cfg, e.Name, other) {
						continue
					}
					if per == acl.ResourceTopic {
						aims = append(aims, c24Aim{principal: principal, key: api.key, topics: []string{a.Name, other}}, c24Aim{principal: principal, key: api.key, topics: []string{other, a.Name}})
					} else {
						aims = append(aims, c24Aim{principal: principal, key: api.key, groups: []string{a.Name, other}}, c24Aim{principal: principal, key: api.key, groups: []string{other, a.Name}})
					}
				}
			}
		}
		for _, a := range e.Allow {
			if a.Resource != acl.ResourceTopic || !inTopics(a.Name) {
				continue
			}
			for _, other := range c24Topics {
				if other != a.Name && c24NoClaimOn(cfg, e.Name, other) {
					aims = append(aims, c24Aim{principal: principal, key: protocol.APIKeyMetadata, topics: []string{a.Name, other}})
					aims = append(aims, c24Aim{principal: principal, key: protocol.APIKeyMetadata, topics: []string{other, a.Name}})
				}
			}
		}
	}
	return aims
}

func c24ReqGen(w *c24World, cfg acl.Config, advertised map[int16][2]int16) *rapid.Generator[c24Req] {
	var apis []c24API
	for _, a := range c24APIs {
		if _, ok := advertised[a.key]; ok {
			apis = append(apis, a)
		}
	}
	var aims []c24Aim
	for _, am := range c24Aims(cfg) {
		if _, ok := advertised[am.key]; ok {
			aims = append(aims, am)
		}
	}
	return rapid.Custom(func(t *rapid.T) c24Req {
		var aim *c24Aim
		if len(aims) > 0 && rapid.IntRange(0, 2).Draw(t, "aimed") == 0 {
			aim = &aims[rapid.IntRange(0, len(aims)-1).Draw(t, "aim")]
		}
		a := rapid.SampledFrom(apis).Draw(t, "api")
		if aim != nil {
			a = *c24APIByKey(aim.key)
		}
		lo, hi := a.minV, a.maxV
		if adv := advertised[a.key]; true {
			if adv[0] > lo {
				lo = adv[0]
			}
			if adv[1] < hi {
				hi = adv[1]
			}
		}
		r := c24Req{Key: a.key}
		r.Version = int16(rapid.IntRange(int(lo), int(hi)).Draw(t, "version"))
		r.Principal = rapid.SampledFrom([]string{"alice", "bob", "carol", "ghost", ""}).Draw(t, "principal")
		if a.usesTopics {
			r.Topics = rapid.SliceOfNDistinct(rapid.SampledFrom(c24Topics), 1, 2, rapid.ID[string]).Draw(t, "topics")
		}
		if a.usesGroups {
			max := 1
			if a.key == protocol.APIKeyDescribeGroups || a.key == protocol.APIKeyDeleteGroups {
				max = 2
			}
			r.Groups = rapid.SliceOfNDistinct(rapid.SampledFrom([]string{"g1", "g1", "g2", "newgroup"}), 1, max, rapid.ID[string]).Draw(t, "groups")
		}
		r.Part = int32(rapid.SampledFrom([]int{0, 0, 1, 3}).Draw(t, "partition"))
		r.Acks = rapid.SampledFrom([]int16{-1, 1, 0}).Draw(t, "acks")
		r.ByID = rapid.Bool().Draw(t, "byID")
		r.Earliest = rapid.Bool().Draw(t, "earliest")
		r.AllTopics = a.key == protocol.APIKeyMetadata && rapid.IntRange(0, 4).Draw(t, "allTopics") == 0
		r.ValidMem = rapid.IntRange(0, 3).Draw(t, "validMember") > 0
		r.BrokerRes = rapid.IntRange(0, 3).Draw(t, "brokerResource") == 0
		r.Validate = rapid.IntRange(0, 4).Draw(t, "validateOnly") == 0
		if a.key != protocol.APIKeyProduce {
			r.Acks = 0
		}
		if aim != nil {
			r.Principal = aim.principal
			if aim.topics != nil {
				r.Topics = append([]string(nil), aim.topics...)
			}
			if aim.groups != nil {
				r.Groups = append([]string(nil), aim.groups...)
			}
			r.AllTopics = false
			if aim.byID && rapid.Bool().Draw(t, "aimByTopicID") {
				r.Version, r.ByID = hi, true // highest advertised fetch version addresses topics by id
			}
		}
		return r
	})
}

// c24Exec runs one request; when the principal is unauthorized by tier it applies the
// oracle and returns a failure description.
func c24Exec(w *c24World, cfg acl.Config, r c24Req, st *vfkit.Stats, known bool) (fail string, tier string, nontrivial bool) {
	api := c24APIByKey(r.Key)
	tier = c24Tier(cfg, r.Principal, api, r)
	exists := func(topic string) bool {
		m, err := w.store.Metadata(context.Background(), []string{topic})
		return err == nil && len(m.Topics) == 1 && m.Topics[0].ErrorCode == 0
	}
	if tier != "" && api.key == protocol.APIKeyMetadata && w.h.autoCreateTopics && !r.AllTopics {
		missing := false
		for _, t := range r.Topics {
			if !exists(t) {
				missing = true
			}
		}
		if missing && known {
			// exclusion by construction of exactly the recorded finding: the unauthorized
			// Metadata request names only existing topics
			st.ExcludedCase(c24FindingMeta)
			var keep []string
			for _, t := range r.Topics {
				if exists(t) {
					keep = append(keep, t)
				}
			}
			if len(keep) == 0 {
				keep = []string{"orders"}
				if !exists("orders") {
					r.AllTopics = true
				}
			}
			r.Topics = keep
		}
	}
	var principal *string
	if r.Principal != "" {
		p := r.Principal
		principal = &p
	}
	req := w.build(r)
	if req == nil {
		return fmt.Sprintf("harness cannot build api key %d", r.Key), tier, false
	}
	if tier == "" {
		st.Class("authorized-or-undecided:" + api.name)
		// Metadata naming several topics: whatever the principal may do with the others, a
		// missing topic it has no claim on at all must not come into existence
		var noClaim []string
		if api.key == protocol.APIKeyMetadata && !r.AllTopics {
			for _, t := range r.Topics {
				if !exists(t) && c24NoClaimOn(cfg, r.Principal, t) {
					noClaim = append(noClaim, t)
				}
			}
		}
		// list APIs: judge every listed resource on its own
		if per := c24PerResource(api.key); per != "" {
			names := r.Topics
			if per == acl.ResourceGroup {
				names = r.Groups
			}
			var unauth []string
			for _, n := range names {
				if c24ResourceUnauthorized(cfg, r.Principal, api, per, n) {
					unauth = append(unauth, n)
				}
			}
			if len(unauth) > 0 {
				st.Class("mixed-list:" + api.name)
				before, err := w.snapshot()
				if err != nil {
					return "harness snapshot: " + err.Error(), "", false
				}
				payload, herr := w.call(principal, r.Key, r.Version, req)
				after, err := w.snapshot()
				if err != nil {
					return "harness snapshot: " + err.Error(), "", false
				}
				for _, k := range c24ChangedKeys(before, after) {
					for _, n := range unauth {
						if c24KeyBelongs(k, per, n) {
							return fmt.Sprintf("%s %v from %q: the principal lacks the permission for %s %q, yet its state changed: %s: %q -> %q", api.name, names, r.Principal, per, n, k, before[k], after[k]), "mixed", true
						}
					}
				}
				if herr != nil || payload == nil {
					return "", "mixed", true // nothing was answered for anybody (acks=0 / connection error)
				}
				codes, recBytes, derr := c24ResultByName(r.Key, r.Version, payload)
				if derr != nil {
					return fmt.Sprintf("%s v%d response undecodable: %v", api.name, r.Version, derr), "mixed", true
				}
				for _, n := range unauth {
					if recBytes[n] > 0 {
						return fmt.Sprintf("%s %v from %q returned %d record bytes of %q, for which the principal lacks the permission", api.name, names, r.Principal, recBytes[n], n), "mixed", true
					}
					if len(codes[n]) == 0 {
						if api.key == protocol.APIKeyFetch && r.Version >= 13 {
							continue // unknown topic id: answered without a name
						}
						return fmt.Sprintf("%s %v from %q: no result for %q in the response", api.name, names, r.Principal, n), "mixed", true
					}
					for _, c := range codes[n] {
						if !c24IsAuthCode(c) && !(api.key == protocol.APIKeyFetch && c == protocol.UNKNOWN_TOPIC_ID) {
							return fmt.Sprintf("%s %v from %q: %s %q (no permission) answered with codes %v, not an authorization error", api.name, names, r.Principal, per, n, codes[n]), "mixed", true
						}
					}
				}
				return "", "mixed", len(unauth) < len(names)
			}
		}
		_, _ = w.call(principal, r.Key, r.Version, req)
		for _, t := range noClaim {
			if exists(t) {
				return fmt.Sprintf("Metadata %v from %q CREATED topic %q although no rule of the principal concerns it (default deny)", r.Topics, r.Principal, t), "T2-name", true
			}
		}
		if len(noClaim) > 0 {
			st.Class("metadata-mixing-claimed-and-unclaimed-missing-topics")
			if w.h.autoCreateTopics {
				return "", "T2-name", true
			}
		}
		return "", tier, false
	}
	st.Class("unauthorized-" + tier + ":" + api.name)
	namesMissing := false
	for _, t := range r.Topics {
		if !exists(t) {
			namesMissing = true
		}
	}
	nontrivial = (namesMissing && w.h.autoCreateTopics && api.usesTopics) || api.mutating
	before, err := w.snapshot()
	if err != nil {
		return "harness snapshot: " + err.Error(), tier, false
	}
	payload, herr := w.call(principal, r.Key, r.Version, req)
	after, err := w.snapshot()
	if err != nil {
		return "harness snapshot: " + err.Error(), tier, false
	}
	if d := c24Diff(before, after); len(d) > 0 {
		return fmt.Sprintf("unauthorized (%s) %s from %q CHANGED state: %s", tier, api.name, r.Principal, strings.Join(d, "; ")), tier, nontrivial
	}
	if herr != nil {
		if api.exempt {
			return "", tier, nontrivial
		}
		return fmt.Sprintf("unauthorized (%s) %s from %q: connection-level error instead of an authorization error: %v", tier, api.name, r.Principal, herr), tier, nontrivial
	}
	if payload == nil {
		if api.key == protocol.APIKeyProduce && r.Acks == 0 {
			return "", tier, nontrivial
		}
		return fmt.Sprintf("unauthorized (%s) %s from %q: no response", tier, api.name, r.Principal), tier, nontrivial
	}
	codes, recordBytes, derr := c24ResultCodes(r.Key, r.Version, payload)
	if derr != nil {
		return fmt.Sprintf("%s v%d response undecodable: %v", api.name, r.Version, derr), tier, nontrivial
	}
	if recordBytes > 0 {
		return fmt.Sprintf("unauthorized (%s) %s from %q returned %d record bytes", tier, api.name, r.Principal, recordBytes), tier, nontrivial
	}
	if api.exempt {
		return "", tier, nontrivial
	}
	if len(codes) == 0 {
		return fmt.Sprintf("unauthorized (%s) %s from %q: response carries no result to hold an authorization error", tier, api.name, r.Principal), tier, nontrivial
	}
	for _, c := range codes {
		if c24IsAuthCode(c) {
			continue
		}
		if api.key == protocol.APIKeyFetch && r.Version >= 13 && c == protocol.UNKNOWN_TOPIC_ID {
			st.Class("unauthorized-fetch-unknown-topic-id")
			continue // no topic could be resolved, nothing to authorize against
		}
		return fmt.Sprintf("unauthorized (%s) %s v%d from %q answered with codes %v, not an authorization error", tier, api.name, r.Version, r.Principal, codes), tier, nontrivial
	}
	return "", tier, nontrivial
}

func c24Env(t *testing.T) {
	t.Setenv("KAFSCALE_ACL_ENABLED", "false") // the generated authorizer is installed per case
	t.Setenv("KAFSCALE_READAHEAD_SEGMENTS", "0")
	t.Setenv("KAFSCALE_PRODUCE_SYNC_FLUSH", "true")
	t.Setenv("KAFSCALE_AUTO_CREATE_TOPICS", "true")
	t.Setenv("KAFSCALE_ALLOW_ADMIN_APIS", "true")
	t.Setenv("KAFSCALE_TRACE_KAFKA", "false")
}

func c24Advertised(h *handler) map[int16][2]int16 {
	out := map[int16][2]int16{}
	for _, k := range h.apiVersions {
		if k.MinVersion >= 0 && k.MaxVersion >= k.MinVersion {
			out[k.ApiKey] = [2]int16{k.MinVersion, k.MaxVersion}
		}
	}
	return out
}

func TestVF_C24_Sequences(t *testing.T) {
	st := vfkit.NewStats("C24", "sequences")
	defer st.Flush()
	c24Env(t)
	known := vfkit.Known(c24FindingMeta)
	connModes := c24ConnModes(t)
	{
		w, err := c24NewWorld()
		if err != nil {
			fmt.Println("VF-INCONCLUSIVE: harness cannot set up the broker handler:", err)
			t.Fatalf("setup: %v", err)
		}
		var unbuilt []int16
		for k := range c24Advertised(w.h) {
			if c24APIByKey(k) == nil {
				unbuilt = append(unbuilt, k)
			}
		}
		sort.Slice(unbuilt, func(i, j int) bool { return unbuilt[i] < unbuilt[j] })
		st.Note("advertised_api_keys_without_request_builder", unbuilt)
		w.close()
	}
	rapid.Check(t, func(rt *rapid.T) {
		st.Eval()
		w, err := c24NewWorld()
		if err != nil {
			fmt.Println("VF-INCONCLUSIVE: harness cannot set up the broker handler:", err)
			rt.Fatalf("setup: %v", err)
		}
		defer w.close()
		cfg := c24ConfigGen().Draw(rt, "acl")
		// cfg is the LOGICAL ACL (one rule set per principal; all tiers are decided on it).
		// The DOCUMENT installed in the broker may list a principal in several entries.
		doc, shape := c24SplitDoc(rt, cfg)
		st.Class("acl-document:" + shape)
		w.h.authorizer = acl.NewAuthorizer(doc)
		// all requests of the case arrive on ONE connection (one shared connection info), with
		// changing client.ids
		mode := connModes[rapid.IntRange(0, len(connModes)-1).Draw(rt, "connMode")]
		ctx, cerr := c24Connect(mode)
		if cerr != nil {
			fmt.Println("VF-INCONCLUSIVE: harness could not establish the connection context:", cerr)
			rt.Fatalf("connection context (%s): %v", mode.name, cerr)
		}
		w.ctx = ctx
		st.Class(mode.name)
		w.h.autoCreateTopics = rapid.IntRange(0, 2).Draw(rt, "autoCreate") > 0
		adv := c24Advertised(w.h)
		n := rapid.IntRange(2, 6).Draw(rt, "n")
		gen := c24ReqGen(w, cfg, adv)
		for i := 0; i < n; i++ {
			r := gen.Draw(rt, "req")
			fail, tier, nt := c24Exec(w, cfg, r, st, known)
			if fail != "" {
				rt.Fatalf("%s\nrequest %+v (step %d, autoCreate=%v)\nconnection %s\nacl (logical) %+v\nacl document (%s) %+v", fail, r, i, w.h.autoCreateTopics, mode.name, cfg, shape, doc.Principals)
			}
			if tier != "" && nt {
				e := c24Entry(cfg, map[bool]string{true: "anonymous", false: r.Principal}[r.Principal == ""])
				if st.NonTrivial(tier, r.Key, r.Version, fmt.Sprint(r.Topics), fmt.Sprint(r.Groups), r.Principal, w.h.autoCreateTopics, cfg.DefaultPolicy, fmt.Sprint(e)) {
					st.Sample(map[string]any{"tier": tier, "request": r, "auto_create": w.h.autoCreateTopics, "default_policy": cfg.DefaultPolicy, "principal_rules": e})
				}
			}
		}
	})
}

// TestVF_C24_Witness: a principal without any permission (default deny, not listed) sends
// Metadata for a topic that does not exist while auto-creation is on.
func TestVF_C24_Witness(t *testing.T) {
	st := vfkit.NewStats("C24", "witness")
	defer st.Flush()
	c24Env(t)
	st.Eval()
	w, err := c24NewWorld()
	if err != nil {
		fmt.Println("VF-INCONCLUSIVE: harness cannot set up the broker handler:", err)
		t.Fatalf("setup: %v", err)
	}
	defer w.close()
	cfg := acl.Config{Enabled: true, DefaultPolicy: "deny"}
	w.h.authorizer = acl.NewAuthorizer(cfg)
	w.h.autoCreateTopics = true
	r := c24Req{Key: protocol.APIKeyMetadata, Version: 9, Principal: "ghost", Topics: []string{"newtopic"}}
	fail, tier, _ := c24Exec(w, cfg, r, st, false)
	if tier != "T1" {
		t.Fatalf("harness: witness principal classified %q", tier)
	}
	if fail != "" && !strings.Contains(fail, "CHANGED state: ") {
		t.Fatalf("%s", fail)
	}
	st.KnownResult(c24FindingMeta, fail != "", fail)
	st.NonTrivial("witness", fail != "")
	st.Sample(map[string]any{"request": r, "acl": cfg, "oracle": fail})
}
