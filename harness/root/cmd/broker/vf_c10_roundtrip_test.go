//go:build verif

package main

// C10 (round-trip half): every supported request — every (key, version) of the broker's
// advertised table — encoded by a standard client codec parses back to the same API key,
// version, correlation id, client id and body.
//
// Two encoders are used for the header: kmsg's RequestFormatter (what franz-go sends) and
// an independent encoder written from the protocol definition (vfc10gen.EncodeHeader)
// with its own flexible-version table, null / empty / long client ids and non-empty header
// tagged fields. The body is encoded by kmsg; "same body" = re-encoding the parsed
// request yields the very same bytes.

import (
	"bytes"
	"fmt"
	"testing"

	"github.com/KafScale/platform/internal/vfc10gen"
	"github.com/KafScale/platform/pkg/protocol"
	"github.com/twmb/franz-go/pkg/kmsg"
	"pgregory.net/rapid"
	"verif.local/vfkit"
)

type c10KV struct{ Key, Version int16 }

func c10Advertised() []c10KV {
	var out []c10KV
	for _, e := range generateApiVersions() {
		if e.MinVersion < 0 || e.MaxVersion < e.MinVersion {
			continue
		}
		for v := e.MinVersion; v <= e.MaxVersion; v++ {
			out = append(out, c10KV{e.ApiKey, v})
		}
	}
	return out
}

func TestVF_C10_RoundTrip(t *testing.T) {
	st := vfkit.NewStats("C10", "roundtrip")
	defer st.Flush()
	pairs := c10Advertised()
	if len(pairs) < 20 {
		t.Fatalf("HARNESS: advertised table has only %d (key,version) pairs", len(pairs))
	}
	st.Note("advertised_pairs", len(pairs))
	rapid.Check(t, func(t *rapid.T) {
		st.Eval()
		kv := pairs[vfc10gen.Pick(t, "kv", len(pairs))]
		req := vfc10gen.NewRequest(kv.Key, kv.Version)
		if req == nil {
			t.Fatalf("advertised api key %d is unknown to the client codec", kv.Key)
		}
		env := &vfc10gen.Env{Bounded: rapid.Bool().Draw(t, "bounded"), Topics: []string{"orders", "payments"}, Groups: []string{"g1"}, Members: []string{"m1", ""}}
		sh := vfc10gen.Fill(t, req, env)
		if pr, ok := req.(*kmsg.ProduceRequest); ok && rapid.IntRange(0, 7).Draw(t, "big-produce") == 0 {
			// a Produce request of more than 1 MiB (2 MiB, ...) is legal and routine
			n := rapid.SampledFrom([]int{1<<20 + 100, 2<<20 + 5, 3 << 20}).Draw(t, "records-bytes")
			rec := make([]byte, n)
			for j := range rec {
				rec[j] = byte(j*31) + byte(j>>8)*7 + byte(j>>16)*13 + byte(j>>20)*101
			}
			tp := kmsg.NewProduceRequestTopic()
			tp.Topic = "orders"
			pp := kmsg.NewProduceRequestTopicPartition()
			pp.Records = rec
			tp.Partitions = append(tp.Partitions, pp)
			pr.Topics = append(pr.Topics, tp)
			sh.NonEmptyArrays++
			st.Class("request>1MiB")
		}
		body := req.AppendTo(nil)
		corr := rapid.Int32().Draw(t, "corr")

		var payload []byte
		var wantClient *string
		mode := rapid.SampledFrom([]string{"kmsg-formatter", "own-header"}).Draw(t, "encoder")
		tagged := 0
		switch mode {
		case "kmsg-formatter":
			var opts []kmsg.RequestFormatterOpt
			if rapid.IntRange(0, 4).Draw(t, "client?") != 0 {
				cid := rapid.OneOf(rapid.SampledFrom([]string{"", "kgo", "consumer-1", "ünï"}), rapid.StringN(0, 20, 80)).Draw(t, "client")
				wantClient = &cid
				opts = append(opts, kmsg.FormatterClientID(cid))
			}
			frame := kmsg.NewRequestFormatter(opts...).AppendRequest(nil, req, corr)
			f, err := protocol.ReadFrame(bytes.NewReader(frame))
			if err != nil {
				t.Fatalf("ReadFrame of a client-encoded %s v%d request: %v", kmsg.NameForKey(kv.Key), kv.Version, err)
			}
			payload = f.Payload
		default:
			flexible, ok := vfc10gen.IsFlexible(kv.Key, kv.Version)
			if !ok {
				t.Fatalf("HARNESS: no flexible-version entry for advertised key %d", kv.Key)
			}
			switch rapid.IntRange(0, 3).Draw(t, "client?") {
			case 0:
			case 1:
				s := ""
				wantClient = &s
			case 2:
				s := rapid.StringN(1, 30, 90).Draw(t, "client")
				wantClient = &s
			default:
				n := rapid.SampledFrom([]int{255, 256, 4096, 32767}).Draw(t, "client-len")
				s := string(bytes.Repeat([]byte{'c'}, n))
				wantClient = &s
			}
			var tags []byte
			if flexible && rapid.Bool().Draw(t, "header-tags") {
				n := rapid.IntRange(1, 3).Draw(t, "ntags")
				var pairs [][2][]byte
				for i := 0; i < n; i++ {
					l := rapid.SampledFrom([]int{0, 1, 2, 127, 128, 300}).Draw(t, "taglen")
					pairs = append(pairs, [2][]byte{nil, bytes.Repeat([]byte{byte(0xb0 + i)}, l)})
				}
				tags = vfc10gen.EncodeTags(pairs)
				tagged = n
			}
			payload = append(vfc10gen.EncodeHeader(kv.Key, kv.Version, corr, wantClient, flexible, tags), body...)
		}

		hdr, got, err := protocol.ParseRequest(payload)
		if err != nil {
			t.Fatalf("%s v%d request encoded by %s does not parse: %v\nshape=%s payload=%x", kmsg.NameForKey(kv.Key), kv.Version, mode, err, sh, c10Clip(payload))
		}
		if hdr.APIKey != kv.Key || hdr.APIVersion != kv.Version || hdr.CorrelationID != corr {
			t.Fatalf("header mismatch: sent key=%d v=%d corr=%d, parsed %+v", kv.Key, kv.Version, corr, *hdr)
		}
		if (hdr.ClientID == nil) != (wantClient == nil) || (wantClient != nil && *hdr.ClientID != *wantClient) {
			t.Fatalf("client id mismatch: sent %s parsed %s (%s v%d via %s)", c10StrPtr(wantClient), c10StrPtr(hdr.ClientID), kmsg.NameForKey(kv.Key), kv.Version, mode)
		}
		if got.Key() != kv.Key || got.GetVersion() != kv.Version {
			t.Fatalf("parsed request is key %d v%d, sent key %d v%d", got.Key(), got.GetVersion(), kv.Key, kv.Version)
		}
		if re := got.AppendTo(nil); !bytes.Equal(re, body) {
			t.Fatalf("%s v%d body changed in the round trip (via %s, %d header tags):\n sent   %x\n parsed %x\nshape=%s", kmsg.NameForKey(kv.Key), kv.Version, mode, tagged, c10Clip(body), c10Clip(re), sh)
		}
		// the header-only entry point used by the proxy must agree
		h2, rest, err := protocol.ParseRequestHeader(payload)
		if err != nil || h2.APIKey != kv.Key || h2.APIVersion != kv.Version || h2.CorrelationID != corr || !bytes.Equal(rest, body) {
			t.Fatalf("ParseRequestHeader disagrees: err=%v header=%+v body-equal=%v", err, h2, bytes.Equal(rest, body))
		}

		st.Class(mode)
		if fl, _ := vfc10gen.IsFlexible(kv.Key, kv.Version); fl {
			st.Class("flexible")
		} else {
			st.Class("non-flexible")
		}
		if tagged > 0 {
			st.Class("header-tags")
		}
		if wantClient == nil {
			st.Class("null-client-id")
		}
		st.Class(fmt.Sprintf("key-%02d", kv.Key))
		if sh.NonEmptyArrays > 0 {
			st.Class("nonempty-array")
			if st.NonTrivial(kv.Key, kv.Version, mode, tagged, sh.String(), len(body)) {
				st.Sample(map[string]any{"api": kmsg.NameForKey(kv.Key), "version": kv.Version, "encoder": mode, "shape": sh.String(), "body_len": len(body)})
			}
		}
	})
}

func c10StrPtr(s *string) string {
	if s == nil {
		return "<null>"
	}
	if len(*s) > 40 {
		return fmt.Sprintf("%q...(%d)", (*s)[:40], len(*s))
	}
	return fmt.Sprintf("%q", *s)
}

func c10Clip(b []byte) []byte {
	if len(b) > 240 {
		return b[:240]
	}
	return b
}
