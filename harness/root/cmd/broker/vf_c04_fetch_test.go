//go:build verif

package main

import (
	"encoding/binary"
	"fmt"
	"testing"

	"pgregory.net/rapid"
	"verif.local/vfkit"
)

// C04 at handler level: the broker writes one index entry per 100 messages; a consumer
// Fetch (v11) below the high watermark with a positive PartitionMaxBytes must get bytes
// that reach the start of the batch holding its offset.
func TestVF_C04_HandlerFetch(t *testing.T) {
	st := vfkit.NewStats("C04", "handlerfetch")
	defer st.Flush()
	rapid.Check(t, func(t *rapid.T) {
		st.Eval()
		store := vfStoreWithTopics(map[string]int32{"orders": 1})
		obj := vfkit.NewObjStore()
		opts := vfHandlerOpts{SegmentBytes: rapid.SampledFrom([]int{0, 3000, 20000}).Draw(t, "segbytes"),
			CacheBytes: rapid.SampledFrom([]int{0, 2000}).Draw(t, "cache"), ReadAhead: 0, NoS3Backpressure: true}
		h := vfNewHandler(store, obj, opts)
		defer func() { h.coordinator.Stop() }()
		nb := rapid.IntRange(4, 40).Draw(t, "batches")
		type rb struct {
			base, last int64
			pos, size  int
		}
		var ref []rb
		pos := 0
		for i := 0; i < nb; i++ {
			n := rapid.IntRange(1, 20).Draw(t, "records")
			raw := c06Batch(fmt.Sprintf("b%d", i), n, rapid.SampledFrom([]int{8, 8, 120}).Draw(t, "valsize"))
			// acks=0 batches stay in the write buffer (no flush), so the next acknowledged
			// produce flushes several batches into ONE segment: that is where the sparse
			// index (one entry per 100 messages) matters.
			acks := int16(0)
			if i == nb-1 || rapid.IntRange(0, 3).Draw(t, "ackdie") == 0 {
				acks = -1
			}
			res, err := vfProduce(h, 7, acks, "vf", []vfProducePart{{"orders", 0, raw}})
			if err != nil {
				t.Fatalf("harness: produce failed: %v", err)
			}
			next := int64(0)
			if len(ref) > 0 {
				next = ref[len(ref)-1].last + 1
			}
			if acks != 0 {
				if len(res) != 1 || res[0].ErrorCode != 0 {
					t.Fatalf("harness: produce failed: %+v", res)
				}
				if res[0].Base != next {
					t.Fatalf("harness/C02: batch %d acked at %d, expected %d", i, res[0].Base, next)
				}
			}
			ref = append(ref, rb{next, next + int64(n) - 1, pos, len(raw)})
			pos += len(raw)
		}
		if rapid.Bool().Draw(t, "restart") {
			h.coordinator.Stop()
			h = vfNewHandler(store, obj, opts)
			st.Class("after-restart")
		}
		nreads := rapid.IntRange(4, 12).Draw(t, "reads")
		var sample []string
		for k := 0; k < nreads; k++ {
			hi := rapid.IntRange(0, nb-1).Draw(t, "holder")
			o := ref[hi].base + int64(rapid.IntRange(0, int(ref[hi].last-ref[hi].base)).Draw(t, "within"))
			m := int32(rapid.SampledFrom([]int{1, 60, 90, 200, 1000}).Draw(t, "maxbytes"))
			// request-level limit (fetch.max.bytes): independent of the per-partition limit; a
			// client may set it below max.partition.fetch.bytes (KIP-74: the first batch is
			// returned anyway)
			reqMax := rapid.SampledFrom([]int32{1 << 30, 1 << 30, 0, 1, 50, 512}).Draw(t, "reqmax")
			if reqMax < m {
				st.Class("request-limit-below-partition-limit")
			}
			fr, err := vfFetchMax(h, 11, "orders", 0, o, m, reqMax)
			if err != nil {
				t.Fatalf("fetch: %v", err)
			}
			if fr.ErrorCode != 0 {
				t.Fatalf("C04 violated: fetch(offset=%d,maxBytes=%d) below the high watermark %d answered error %d", o, m, fr.HighWatermark, fr.ErrorCode)
			}
			got := fr.Records
			if len(got) == 0 {
				t.Fatalf("C04 violated: fetch(offset=%d,maxBytes=%d) below the high watermark %d returned no bytes", o, m, fr.HighWatermark)
			}
			if len(got) < 8 {
				continue // cannot attribute; storage-level leg covers the short case
			}
			first := int64(binary.BigEndian.Uint64(got))
			si := -1
			for i := range ref {
				if ref[i].base == first {
					si = i
				}
			}
			if si < 0 || si > hi {
				t.Fatalf("fetch(offset=%d) starts at base %d which is not a batch boundary at or before the batch holding the offset", o, first)
			}
			if ref[si].pos+len(got) <= ref[hi].pos {
				t.Fatalf("C04 violated: fetch(offset=%d,maxBytes=%d) returned %d bytes covering only batches %d..%d, all before the batch holding the offset (base %d)", o, m, len(got), ref[si].base, o-1, ref[hi].base)
			}
			if si < hi {
				st.Class("started-before-holder")
				sample = append(sample, fmt.Sprintf("o=%d m=%d start=%d got=%d", o, m, first, len(got)))
			}
		}
		if len(sample) > 0 {
			if st.NonTrivial(nb, opts.SegmentBytes, sample) {
				st.Sample(map[string]any{"batches": nb, "segbytes": opts.SegmentBytes, "reads": sample})
			}
		}
	})
}
