//go:build verif

package main

import (
	"context"
	"errors"
	"fmt"
	"io"
	"log/slog"
	"net"
	"net/url"
	"os"
	"strings"
	"sync"
	"testing"
	"time"

	"github.com/KafScale/platform/pkg/broker"
	"github.com/KafScale/platform/pkg/metadata"
	"github.com/KafScale/platform/pkg/protocol"
	"github.com/KafScale/platform/pkg/storage"
	"github.com/twmb/franz-go/pkg/kerr"
	"github.com/twmb/franz-go/pkg/kmsg"
	"pgregory.net/rapid"
	"verif.local/vfkit"
)

// C25, handler leg: while the broker's own S3 health rating is degraded or unavailable,
// no produce partition is acknowledged, no fetch partition returns record bytes, nothing is
// written to S3, and every affected partition carries a retriable error code.

const c25FindingCode = "C25-unavailable-code-not-retriable"

// c25S3 wraps the repo's in-memory S3 client and counts mutating calls.
type c25Attempt struct {
	Op    string
	Key   string
	State broker.S3HealthState // the broker's own rating when the call started
}

type c25S3 struct {
	*storage.MemoryS3Client
	mu       sync.Mutex
	writes   []string
	state    func() broker.S3HealthState // optional
	attempts []c25Attempt
	failSeg  map[string]bool // "/topic/partition/" whose segment uploads fail
	failIdx  map[string]bool // ... whose index uploads fail
}

func (s *c25S3) note(op, key string) {
	var st broker.S3HealthState
	if s.state != nil {
		st = s.state()
	}
	s.mu.Lock()
	s.writes = append(s.writes, op+" "+key)
	s.attempts = append(s.attempts, c25Attempt{op, key, st})
	s.mu.Unlock()
}

func c25KeyHits(set map[string]bool, key string) bool {
	for frag := range set {
		if strings.Contains(key, frag) {
			return true
		}
	}
	return false
}
func (s *c25S3) writeCount() int { s.mu.Lock(); defer s.mu.Unlock(); return len(s.writes) }
func (s *c25S3) UploadSegment(ctx context.Context, key string, body []byte) error {
	s.note("put-segment", key)
	if c25KeyHits(s.failSeg, key) {
		return errors.New("503 SlowDown (injected)")
	}
	return s.MemoryS3Client.UploadSegment(ctx, key, body)
}
func (s *c25S3) UploadIndex(ctx context.Context, key string, body []byte) error {
	s.note("put-index", key)
	if c25KeyHits(s.failIdx, key) {
		return errors.New("503 SlowDown (injected)")
	}
	return s.MemoryS3Client.UploadIndex(ctx, key, body)
}
func (s *c25S3) DeleteSegment(ctx context.Context, key string) error {
	s.note("del-segment", key)
	return s.MemoryS3Client.DeleteSegment(ctx, key)
}
func (s *c25S3) DeleteIndex(ctx context.Context, key string) error {
	s.note("del-index", key)
	return s.MemoryS3Client.DeleteIndex(ctx, key)
}

func c25Decode[T kmsg.Response](version int16, payload []byte, resp T) error {
	body, ok := protocol.SkipResponseHeader(resp.Key(), version, payload)
	if !ok {
		return fmt.Errorf("cannot skip response header (api key %d v%d, %d bytes)", resp.Key(), version, len(payload))
	}
	resp.SetVersion(version)
	return resp.ReadFrom(body)
}

type c25Part struct {
	Topic string
	Part  int32
}

type c25World struct {
	h     *handler
	store *metadata.InMemoryStore
	s3    *c25S3
}

func c25NewWorld() (*c25World, error) {
	brokerInfo := protocol.MetadataBroker{NodeID: 1, Host: "localhost", Port: 19092}
	store := metadata.NewInMemoryStore(metadataForBroker(brokerInfo)) // topic "orders", 1 partition
	if _, err := store.CreateTopic(context.Background(), metadata.TopicSpec{Name: "payments", NumPartitions: 2, ReplicationFactor: 1}); err != nil {
		return nil, err
	}
	s3 := &c25S3{MemoryS3Client: storage.NewMemoryS3Client()}
	logger := slog.New(slog.NewTextHandler(io.Discard, &slog.HandlerOptions{}))
	h := newHandler(store, s3, brokerInfo, logger)
	return &c25World{h: h, store: store, s3: s3}, nil
}

func (w *c25World) bufferedEnds() map[string]int64 {
	out := map[string]int64{}
	w.h.logMu.RLock()
	defer w.h.logMu.RUnlock()
	for topic, parts := range w.h.logs {
		for p, plog := range parts {
			out[fmt.Sprintf("%s-%d", topic, p)] = plog.BufferedHighWatermark()
		}
	}
	return out
}

func (w *c25World) close() { w.h.coordinator.Stop() }

func (w *c25World) produce(version int16, acks int16, parts []c25Part, tag string) ([]byte, error) {
	req := kmsg.NewPtrProduceRequest()
	req.Version = version
	req.Acks = acks
	req.TimeoutMillis = 1000
	byTopic := map[string]int{}
	for _, p := range parts {
		i, ok := byTopic[p.Topic]
		if !ok {
			rt := kmsg.NewProduceRequestTopic()
			rt.Topic = p.Topic
			req.Topics = append(req.Topics, rt)
			i = len(req.Topics) - 1
			byTopic[p.Topic] = i
		}
		rp := kmsg.NewProduceRequestTopicPartition()
		rp.Partition = p.Part
		rp.Records = vfkit.SimpleBatch(0, 1700000000000, 2, tag)
		req.Topics[i].Partitions = append(req.Topics[i].Partitions, rp)
	}
	cid := "c25-client"
	return w.h.Handle(context.Background(), &protocol.RequestHeader{APIKey: protocol.APIKeyProduce, APIVersion: version, CorrelationID: 7, ClientID: &cid}, req)
}

func (w *c25World) fetch(version int16, parts []c25Part) ([]byte, error) {
	req := kmsg.NewPtrFetchRequest()
	req.Version = version
	req.ReplicaID = -1
	req.MaxWaitMillis = 0
	req.MinBytes = 1
	req.MaxBytes = 1 << 20
	byTopic := map[string]int{}
	for _, p := range parts {
		i, ok := byTopic[p.Topic]
		if !ok {
			rt := kmsg.NewFetchRequestTopic()
			if version >= 13 {
				rt.TopicID = metadata.TopicIDForName(p.Topic)
			} else {
				rt.Topic = p.Topic
			}
			req.Topics = append(req.Topics, rt)
			i = len(req.Topics) - 1
			byTopic[p.Topic] = i
		}
		rp := kmsg.NewFetchRequestTopicPartition()
		rp.Partition = p.Part
		rp.FetchOffset = 0
		rp.PartitionMaxBytes = 1 << 20
		req.Topics[i].Partitions = append(req.Topics[i].Partitions, rp)
	}
	cid := "c25-client"
	return w.h.Handle(context.Background(), &protocol.RequestHeader{APIKey: protocol.APIKeyFetch, APIVersion: version, CorrelationID: 8, ClientID: &cid}, req)
}

type c25Feed struct {
	LatMs int64  `json:"lat_ms"`
	Err   bool   `json:"err"`
	Kind  string `json:"err_kind,omitempty"`
}

// c25ErrKinds: the ways an S3 call fails. The timeout-style ones are what a black-holed or
// overloaded S3 produces (the call ends by the client's own deadline, after a LONG wait).
var c25ErrKinds = []string{"plain-503", "wrapped-deadline-exceeded", "wrapped-canceled", "http-client-timeout", "net-io-timeout"}

func c25MakeErr(kind string) error {
	switch kind {
	case "wrapped-deadline-exceeded":
		return fmt.Errorf("upload segment: operation error S3: PutObject, %w", context.DeadlineExceeded)
	case "wrapped-canceled":
		return fmt.Errorf("upload segment: operation error S3: PutObject, %w", context.Canceled)
	case "http-client-timeout":
		return &url.Error{Op: "Put", URL: "https://s3.example/bucket/key", Err: fmt.Errorf("%w (Client.Timeout exceeded while awaiting headers)", context.DeadlineExceeded)}
	case "net-io-timeout":
		return &net.OpError{Op: "read", Net: "tcp", Err: os.ErrDeadlineExceeded}
	}
	return errors.New("503 SlowDown (injected)")
}

// c25CheckUnhealthy issues one produce and one fetch and applies the oracle for a
// non-healthy rating. retriableExempt reports codes that were exempted as known finding.
func c25CheckUnhealthy(w *c25World, state broker.S3HealthState, pv, fv, acks int16, pparts, fparts []c25Part, known bool) (fail string, exempted int, codes map[int16]int) {
	codes = map[int16]int{}
	retriable := func(code int16) bool {
		if kerr.IsRetriable(kerr.ErrorForCode(code)) {
			return true
		}
		if known && state == broker.S3StateUnavailable && code == protocol.UNKNOWN_SERVER_ERROR {
			exempted++
			return true
		}
		return false
	}
	writesBefore := w.s3.writeCount()
	offBefore := map[c25Part]int64{}
	for _, p := range []c25Part{{"orders", 0}, {"payments", 0}, {"payments", 1}} {
		offBefore[p], _ = w.store.NextOffset(context.Background(), p.Topic, p.Part)
	}
	bufBefore := w.bufferedEnds()
	payload, err := w.produce(pv, acks, pparts, "unhealthy")
	if err != nil {
		return fmt.Sprintf("produce returned a connection-level error while %s: %v", state, err), exempted, codes
	}
	if acks == 0 {
		if payload != nil {
			return "acks=0 produce got a response", exempted, codes
		}
	} else {
		resp := kmsg.NewPtrProduceResponse()
		if err := c25Decode(pv, payload, resp); err != nil {
			return "produce response undecodable: " + err.Error(), exempted, codes
		}
		seen := 0
		for _, t := range resp.Topics {
			for _, p := range t.Partitions {
				seen++
				codes[p.ErrorCode]++
				if p.ErrorCode == 0 {
					return fmt.Sprintf("produce to %s-%d ACKNOWLEDGED (base offset %d) while S3 is rated %s", t.Topic, p.Partition, p.BaseOffset, state), exempted, codes
				}
				if !retriable(p.ErrorCode) {
					return fmt.Sprintf("produce to %s-%d rejected with code %d (%v) while S3 is rated %s: not a retriable error", t.Topic, p.Partition, p.ErrorCode, kerr.ErrorForCode(p.ErrorCode), state), exempted, codes
				}
			}
		}
		if seen != len(pparts) {
			return fmt.Sprintf("produce response carries %d partition results for %d requested partitions", seen, len(pparts)), exempted, codes
		}
	}
	if n := w.s3.writeCount(); n != writesBefore {
		return fmt.Sprintf("S3 was written while rated %s: %v", state, w.s3.writes[writesBefore:]), exempted, codes
	}
	if acks != 0 {
		// an acknowledged-mode produce must not be taken into the write buffer either
		for k, v := range w.bufferedEnds() {
			if old, ok := bufBefore[k]; ok && old != v {
				return fmt.Sprintf("records were accepted into the write buffer of %s (log end %d -> %d) while S3 is rated %s", k, old, v, state), exempted, codes
			}
		}
	}
	for p, o := range offBefore {
		if now, _ := w.store.NextOffset(context.Background(), p.Topic, p.Part); now != o {
			return fmt.Sprintf("end offset of %s-%d moved %d -> %d while rated %s", p.Topic, p.Part, o, now, state), exempted, codes
		}
	}
	payload, err = w.fetch(fv, fparts)
	if err != nil {
		return fmt.Sprintf("fetch returned a connection-level error while %s: %v", state, err), exempted, codes
	}
	fresp := kmsg.NewPtrFetchResponse()
	if err := c25Decode(fv, payload, fresp); err != nil {
		return "fetch response undecodable: " + err.Error(), exempted, codes
	}
	seen := 0
	for _, t := range fresp.Topics {
		for _, p := range t.Partitions {
			seen++
			codes[p.ErrorCode]++
			if len(p.RecordBatches) > 0 {
				return fmt.Sprintf("fetch of %s-%d returned %d record bytes while S3 is rated %s", t.Topic, p.Partition, len(p.RecordBatches), state), exempted, codes
			}
			if p.ErrorCode == 0 {
				return fmt.Sprintf("fetch of %s-%d carries no error while S3 is rated %s", t.Topic, p.Partition, state), exempted, codes
			}
			if !retriable(p.ErrorCode) {
				return fmt.Sprintf("fetch of %s-%d rejected with code %d (%v) while S3 is rated %s: not a retriable error", t.Topic, p.Partition, p.ErrorCode, kerr.ErrorForCode(p.ErrorCode), state), exempted, codes
			}
		}
	}
	if seen != len(fparts) {
		return fmt.Sprintf("fetch response carries %d partition results for %d requested partitions", seen, len(fparts)), exempted, codes
	}
	return "", exempted, codes
}

func c25Env(t *testing.T) {
	t.Setenv("KAFSCALE_ACL_ENABLED", "false")
	t.Setenv("KAFSCALE_READAHEAD_SEGMENTS", "0")
	t.Setenv("KAFSCALE_PRODUCE_SYNC_FLUSH", "true")
	t.Setenv("KAFSCALE_AUTO_CREATE_TOPICS", "true")
	t.Setenv("KAFSCALE_TRACE_KAFKA", "false")
}

func c25DedupParts(in []c25Part) []c25Part {
	seen := map[c25Part]bool{}
	var out []c25Part
	for _, p := range in {
		if !seen[p] {
			seen[p] = true
			out = append(out, p)
		}
	}
	return out
}

func TestVF_C25_Handler(t *testing.T) {
	st := vfkit.NewStats("C25", "handler")
	defer st.Flush()
	c25Env(t)
	known := vfkit.Known(c25FindingCode)
	rapid.Check(t, func(rt *rapid.T) {
		st.Eval()
		w, err := c25NewWorld()
		if err != nil {
			rt.Fatalf("harness setup: %v", err)
		}
		defer w.close()
		w.h.autoCreateTopics = rapid.Bool().Draw(rt, "autoCreate")
		// stored data, written while healthy
		if payload, err := w.produce(9, -1, []c25Part{{"orders", 0}, {"payments", 1}}, "pre"); err != nil || payload == nil {
			rt.Fatalf("harness setup produce failed: %v", err)
		} else {
			resp := kmsg.NewPtrProduceResponse()
			if err := c25Decode(9, payload, resp); err != nil {
				rt.Fatalf("harness setup produce decode: %v", err)
			}
			for _, tp := range resp.Topics {
				for _, p := range tp.Partitions {
					if p.ErrorCode != 0 {
						rt.Fatalf("harness setup produce to %s-%d failed with %d", tp.Topic, p.Partition, p.ErrorCode)
					}
				}
			}
		}
		// configuration dimension: KAFSCALE_PRODUCE_SYNC_FLUSH on/off (set after the stored
		// data was flushed); the backpressure rule is not limited to sync-flush mode
		w.h.flushOnAck = rapid.IntRange(0, 2).Draw(rt, "syncFlush") > 0
		if !w.h.flushOnAck {
			st.Class("sync-flush-off")
		}
		latWarn := rapid.SampledFrom([]int64{1, 10, 100, 500}).Draw(rt, "latWarnMs")
		latCrit := latWarn * rapid.SampledFrom([]int64{2, 3, 6}).Draw(rt, "latCritFactor")
		errWarn := rapid.IntRange(1, 10).Draw(rt, "errWarn/20")
		errCrit := errWarn + rapid.IntRange(1, 20-errWarn).Draw(rt, "errCritExtra")
		hcfg := broker.S3HealthConfig{
			Window:      time.Hour, // wall time cannot matter
			LatencyWarn: time.Duration(latWarn) * time.Millisecond, LatencyCrit: time.Duration(latCrit) * time.Millisecond,
			ErrorWarn: float64(errWarn) / 20, ErrorCrit: float64(errCrit) / 20,
		}
		w.h.s3Health = broker.NewS3HealthMonitor(hcfg)
		// the rating depends only on error rate and latency: two reference monitors get the
		// same outcomes directly -- "same": every failure as a plain error with the same
		// latency; "better": every failure as an instant plain error (pointwise lower latency)
		same, better := broker.NewS3HealthMonitor(hcfg), broker.NewS3HealthMonitor(hcfg)
		kindBias := rapid.SampledFrom(c25ErrKinds).Draw(rt, "errKindBias")
		lats := []int64{0, 1, latWarn - 1, latWarn, latWarn + 1, latCrit - 1, latCrit, latCrit + 1, 5 * latCrit}
		errBias := rapid.SampledFrom([]int{0, 0, 2, 5, 8, 10}).Draw(rt, "errBias")
		latBias := rapid.IntRange(0, len(lats)-1).Draw(rt, "latBias")
		n := rapid.IntRange(0, 25).Draw(rt, "n")
		feed := make([]c25Feed, n)
		timeouts := 0
		injected := errors.New("injected s3 failure")
		for i := range feed {
			f := c25Feed{Err: rapid.IntRange(0, 9).Draw(rt, "errRoll") < errBias}
			if rapid.Bool().Draw(rt, "latKind") {
				f.LatMs = lats[latBias]
			} else {
				f.LatMs = rapid.SampledFrom(lats).Draw(rt, "lat")
			}
			if f.LatMs < 0 {
				f.LatMs = 0
			}
			var e, plain error
			betterLat := f.LatMs
			if f.Err {
				f.Kind = kindBias
				if rapid.IntRange(0, 2).Draw(rt, "otherKind") == 0 {
					f.Kind = rapid.SampledFrom(c25ErrKinds).Draw(rt, "errKind")
				}
				if f.Kind != "plain-503" {
					timeouts++
					if rapid.Bool().Draw(rt, "timeoutIsSlow") {
						f.LatMs = 5 * latCrit // gave up after the client deadline
					}
				}
				e, plain = c25MakeErr(f.Kind), injected
				betterLat = 0
			}
			feed[i] = f
			op := []string{"upload", "download", "list"}[i%3]
			w.h.recordS3Op(op, time.Duration(f.LatMs)*time.Millisecond, e)
			same.RecordOperation(op, time.Duration(f.LatMs)*time.Millisecond, plain)
			better.RecordOperation(op, time.Duration(betterLat)*time.Millisecond, plain)
		}
		state := w.h.s3Health.State()
		if timeouts > 0 {
			st.Class("history-with-timeout-style-failures")
		}
		rank := map[broker.S3HealthState]int{broker.S3StateHealthy: 0, broker.S3StateDegraded: 1, broker.S3StateUnavailable: 2}
		if s := same.State(); s != state {
			rt.Fatalf("outcomes fed through handler.recordS3Op rate S3 %q, the same (latency, ok|error) outcomes rate %q: the rating depends on something else than error rate and latency (the KIND of failure)\nthresholds lat %d/%d ms err %d/20 %d/20, fed %+v", state, s, latWarn, latCrit, errWarn, errCrit, feed)
		}
		if b := better.State(); rank[state] < rank[b] {
			rt.Fatalf("failures that took LONGER (timeouts) rate S3 %q, better than %q for the same failures answered instantly\nthresholds lat %d/%d ms err %d/20 %d/20, fed %+v", state, b, latWarn, latCrit, errWarn, errCrit, feed)
		}
		partAlphabet := []c25Part{{"orders", 0}, {"payments", 0}, {"payments", 1}, {"nope", 0}}
		if !w.h.autoCreateTopics {
			// a missing partition of an existing topic + auto-create makes getPartitionLog spin
			// forever (liveness defect outside this property); only reachable if the gate is gone
			partAlphabet = append(partAlphabet, c25Part{"orders", 5})
		}
		pparts := c25DedupParts(rapid.SliceOfN(rapid.SampledFrom(partAlphabet), 1, 4).Draw(rt, "produceParts"))
		fparts := c25DedupParts(rapid.SliceOfN(rapid.SampledFrom(partAlphabet), 1, 4).Draw(rt, "fetchParts"))
		pv := int16(rapid.IntRange(3, 9).Draw(rt, "produceVersion"))
		fv := int16(rapid.IntRange(11, 13).Draw(rt, "fetchVersion"))
		acks := rapid.SampledFrom([]int16{-1, 1, 0}).Draw(rt, "acks")
		st.Class("state-" + string(state))
		if state == broker.S3StateHealthy {
			// not the subject of the property; record that the same requests are served
			payload, err := w.produce(pv, -1, []c25Part{{"orders", 0}}, "healthy")
			if err == nil && payload != nil {
				resp := kmsg.NewPtrProduceResponse()
				if c25Decode(pv, payload, resp) == nil && len(resp.Topics) == 1 && len(resp.Topics[0].Partitions) == 1 && resp.Topics[0].Partitions[0].ErrorCode == 0 {
					st.Class("healthy-produce-acked")
				}
			}
			if payload, err := w.fetch(fv, []c25Part{{"orders", 0}}); err == nil {
				resp := kmsg.NewPtrFetchResponse()
				if c25Decode(fv, payload, resp) == nil && len(resp.Topics) == 1 && len(resp.Topics[0].Partitions) == 1 && len(resp.Topics[0].Partitions[0].RecordBatches) > 0 {
					st.Class("healthy-fetch-returned-records")
				}
			}
			return
		}
		fail, exempted, codes := c25CheckUnhealthy(w, state, pv, fv, acks, pparts, fparts, known)
		for i := 0; i < exempted; i++ {
			st.ExcludedCase(c25FindingCode)
		}
		for c, k := range codes {
			st.ClassN(fmt.Sprintf("code-%d-while-%s", c, state), k)
		}
		if fail != "" {
			rt.Fatalf("%s\nthresholds lat %d/%d ms err %d/20 %d/20, fed %+v\nproduce v%d acks=%d %v, fetch v%d %v", fail, latWarn, latCrit, errWarn, errCrit, feed, pv, acks, pparts, fv, fparts)
		}
		if st.NonTrivial(string(state), w.h.flushOnAck, latWarn, latCrit, errWarn, errCrit, fmt.Sprint(feed), pv, fv, acks, fmt.Sprint(pparts), fmt.Sprint(fparts)) {
			st.Sample(map[string]any{"state": state, "sync_flush": w.h.flushOnAck, "fed": feed, "produce": map[string]any{"v": pv, "acks": acks, "parts": pparts}, "fetch": map[string]any{"v": fv, "parts": fparts}})
		}
	})
}

// TestVF_C25_Witness: error-only history => unavailable => produce/fetch get UNKNOWN_SERVER_ERROR.
func TestVF_C25_Witness(t *testing.T) {
	st := vfkit.NewStats("C25", "witness")
	defer st.Flush()
	c25Env(t)
	st.Eval()
	w, err := c25NewWorld()
	if err != nil {
		fmt.Println("VF-INCONCLUSIVE: harness setup:", err)
		t.Fatalf("setup: %v", err)
	}
	defer w.close()
	if _, err := w.produce(9, -1, []c25Part{{"orders", 0}}, "pre"); err != nil {
		t.Fatalf("setup produce: %v", err)
	}
	w.h.s3Health = broker.NewS3HealthMonitor(broker.S3HealthConfig{Window: time.Hour})
	for i := 0; i < 5; i++ {
		w.h.recordS3Op("upload", time.Millisecond, errors.New("injected s3 failure"))
	}
	state := w.h.s3Health.State()
	fail, _, codes := c25CheckUnhealthy(w, state, 9, 12, -1, []c25Part{{"orders", 0}}, []c25Part{{"orders", 0}}, false)
	if state != broker.S3StateUnavailable {
		t.Fatalf("five failed uploads out of five rate S3 %q, not unavailable", state)
	}
	if fail != "" && !strings.Contains(fail, "not a retriable error") {
		t.Fatalf("%s", fail) // a different violation than the recorded finding
	}
	still := fail != ""
	st.KnownResult(c25FindingCode, still, fmt.Sprintf("state=%s codes=%v: %s", state, codes, fail))
	st.NonTrivial("witness", still)
	st.Sample(map[string]any{"state": state, "codes": fmt.Sprint(codes), "oracle": fail})
}

// TestVF_C25_MidRequest: the rating turns not-healthy WHILE a multi-partition produce request
// is being served (an earlier partition's upload fails in S3 and few samples are in the
// window). From then on no later partition of that request may be written or acknowledged.
// Oracle: the S3 wrapper notes the broker's own rating at the start of every upload; an
// upload for a partition that comes after the first faulted one, started while the rating
// was not healthy, is a violation. Partitions with a fault of their own are not judged (their
// segment and index uploads run concurrently and may flip the rating between each other).
func TestVF_C25_MidRequest(t *testing.T) {
	st := vfkit.NewStats("C25", "midrequest")
	defer st.Flush()
	c25Env(t)
	rapid.Check(t, func(rt *rapid.T) {
		st.Eval()
		w, err := c25NewWorld()
		if err != nil {
			rt.Fatalf("harness setup: %v", err)
		}
		defer w.close()
		w.h.autoCreateTopics = false
		errWarn := rapid.IntRange(1, 10).Draw(rt, "errWarn/20")
		errCrit := errWarn + rapid.IntRange(1, 20-errWarn).Draw(rt, "errCritExtra")
		w.h.s3Health = broker.NewS3HealthMonitor(broker.S3HealthConfig{
			Window: time.Hour, LatencyWarn: 10 * time.Minute, LatencyCrit: 20 * time.Minute, // real latencies cannot matter
			ErrorWarn: float64(errWarn) / 20, ErrorCrit: float64(errCrit) / 20,
		})
		w.s3.state = w.h.s3Health.State
		okBefore := rapid.IntRange(0, 4).Draw(rt, "okSamplesBefore")
		for i := 0; i < okBefore; i++ {
			w.h.recordS3Op("upload", time.Millisecond, nil)
		}
		all := []c25Part{{"orders", 0}, {"payments", 0}, {"payments", 1}}
		perm := rapid.Permutation(all).Draw(rt, "order")
		parts := perm[:rapid.IntRange(2, 3).Draw(rt, "nparts")]
		// processing order = topics in first-seen order, partitions in order within a topic
		var order []c25Part
		seenTopic := map[string]bool{}
		for _, p := range parts {
			if seenTopic[p.Topic] {
				continue
			}
			seenTopic[p.Topic] = true
			for _, q := range parts {
				if q.Topic == p.Topic {
					order = append(order, q)
				}
			}
		}
		frag := func(p c25Part) string { return fmt.Sprintf("/%s/%d/", p.Topic, p.Part) }
		w.s3.failSeg, w.s3.failIdx = map[string]bool{}, map[string]bool{}
		firstFault := -1
		faultDesc := []string{}
		for i, p := range order {
			roll := rapid.IntRange(0, 5).Draw(rt, "fault")
			if i == 0 && roll > 3 {
				roll = 1 // mostly fault the first partition: that is the interesting shape
			}
			if i > 0 && roll > 0 && roll < 4 && rapid.IntRange(0, 3).Draw(rt, "keepLaterFault") > 0 {
				roll = 5 // later partitions are mostly fault-free so that they can be judged
			}
			switch roll {
			case 0, 1:
				w.s3.failSeg[frag(p)] = true
				w.s3.failIdx[frag(p)] = true
			case 2:
				w.s3.failSeg[frag(p)] = true
			case 3:
				w.s3.failIdx[frag(p)] = true
			default:
				continue
			}
			if firstFault < 0 {
				firstFault = i
			}
			faultDesc = append(faultDesc, fmt.Sprintf("%s-%d:%d", p.Topic, p.Part, roll))
		}
		pv := int16(rapid.IntRange(3, 9).Draw(rt, "produceVersion"))
		acks := rapid.SampledFrom([]int16{-1, 1}).Draw(rt, "acks")
		if w.h.s3Health.State() != broker.S3StateHealthy {
			rt.Fatalf("harness: rating not healthy before the request")
		}
		w.s3.mu.Lock()
		w.s3.attempts = nil
		w.s3.mu.Unlock()
		payload, err := w.produce(pv, acks, parts, "mid")
		if err != nil {
			rt.Fatalf("produce returned a connection-level error: %v", err)
		}
		resp := kmsg.NewPtrProduceResponse()
		if err := c25Decode(pv, payload, resp); err != nil {
			rt.Fatalf("produce response undecodable: %v", err)
		}
		codes := map[c25Part]int16{}
		for _, tp := range resp.Topics {
			for _, p := range tp.Partitions {
				codes[c25Part{tp.Topic, p.Partition}] = p.ErrorCode
			}
		}
		final := w.h.s3Health.State()
		st.Class("final-state-" + string(final))
		if firstFault < 0 {
			st.Class("no-fault")
			return
		}
		if firstFault == len(order)-1 {
			st.Class("fault-only-on-last-partition")
		}
		w.s3.mu.Lock()
		attempts := append([]c25Attempt(nil), w.s3.attempts...)
		w.s3.mu.Unlock()
		gatedLater := 0
		for i := firstFault + 1; i < len(order); i++ {
			p := order[i]
			if w.s3.failSeg[frag(p)] || w.s3.failIdx[frag(p)] {
				// its own segment and index uploads run concurrently: one may fail and flip the
				// rating while the other is starting. Only partitions without a fault of their
				// own are judged (their uploads cannot worsen the rating).
				st.Class("later-partition-faulted-itself(not-judged)")
				continue
			}
			wroteUnhealthy := ""
			for _, a := range attempts {
				if strings.Contains(a.Key, frag(p)) && a.State != broker.S3StateHealthy {
					wroteUnhealthy = fmt.Sprintf("%s %s started while the broker rated S3 %q", a.Op, a.Key, a.State)
					break
				}
			}
			code, answered := codes[p]
			if wroteUnhealthy != "" {
				rt.Fatalf("partition %s-%d comes after %s-%d whose upload failed and turned the rating not healthy, yet it was still written (%s) and answered with code %d\nthresholds err %d/20 %d/20, %d ok samples before, request order %v, faults %v, acks %d v%d",
					p.Topic, p.Part, order[firstFault].Topic, order[firstFault].Part, wroteUnhealthy, code, errWarn, errCrit, okBefore, order, faultDesc, acks, pv)
			}
			if !answered {
				rt.Fatalf("partition %s-%d missing from the produce response", p.Topic, p.Part)
			}
			if code != 0 {
				gatedLater++
				if !kerr.IsRetriable(kerr.ErrorForCode(code)) && !(vfkit.Known(c25FindingCode) && code == protocol.UNKNOWN_SERVER_ERROR) {
					rt.Fatalf("later partition %s-%d rejected with non-retriable code %d", p.Topic, p.Part, code)
				}
			}
		}
		if gatedLater > 0 {
			st.Class("later-partition-gated-after-mid-request-flip")
		}
		if final != broker.S3StateHealthy && firstFault < len(order)-1 {
			st.Class("rating-flipped-mid-request")
			if st.NonTrivial(errWarn, errCrit, okBefore, fmt.Sprint(order), fmt.Sprint(faultDesc), acks, pv) {
				st.Sample(map[string]any{"order": order, "faults": faultDesc, "ok_samples_before": okBefore, "err_warn_20ths": errWarn, "final_state": final, "codes": fmt.Sprint(codes)})
			}
		}
	})
}
