//go:build verif

package main

import (
	"bytes"
	"context"
	"fmt"
	"sort"
	"strings"
	"sync"
	"testing"
	"testing/synctest"

	"github.com/KafScale/platform/pkg/metadata"
	"pgregory.net/rapid"
	"verif.local/vfkit"
)

// C01 / C05 at handler level: 2-4 concurrent producers send real Produce requests
// (acks 1/-1/0, 1-2 partitions each) to ONE real broker handler; every S3 upload and
// every metadata-store end-offset update is a scheduling point owned by the harness
// (deterministic scheduler on testing/synctest); uploads fail per a generated plan.
//
// C01: a partition answered with code 0 (acks != 0) must at that moment be in an S3
// segment that has its index (own codec), and be fetchable from a new handler afterwards.
// C05: after every scheduling step the store's NextOffset per partition never decreases
// and never exceeds 1 + the last offset in complete S3 segments.

type c01hReq struct {
	Acks  int16
	Parts []c01hPart
}
type c01hPart struct {
	Partition int32
	Records   int
}

type c01hPlan struct {
	Workers   [][]c01hReq
	SegBytes  int
	SegFaults []vfkit.FaultKind
	IdxFaults []vfkit.FaultKind
	Picks     []int
}

func c01hDraw(t *rapid.T) c01hPlan {
	var p c01hPlan
	nw := rapid.IntRange(2, 4).Draw(t, "workers")
	for w := 0; w < nw; w++ {
		n := rapid.IntRange(1, 3).Draw(t, "nreq")
		var reqs []c01hReq
		for i := 0; i < n; i++ {
			r := c01hReq{Acks: rapid.SampledFrom([]int16{1, -1, -1, 1, 0}).Draw(t, "acks")}
			np := rapid.IntRange(1, 2).Draw(t, "nparts")
			first := int32(rapid.IntRange(0, 1).Draw(t, "part"))
			for k := 0; k < np; k++ {
				r.Parts = append(r.Parts, c01hPart{Partition: (first + int32(k)) % 2, Records: rapid.IntRange(1, 4).Draw(t, "records")})
			}
			reqs = append(reqs, r)
		}
		p.Workers = append(p.Workers, reqs)
	}
	p.SegBytes = rapid.SampledFrom([]int{0, 0, 150, 400}).Draw(t, "segbytes")
	fk := rapid.SampledFrom([]vfkit.FaultKind{vfkit.FaultNone, vfkit.FaultNone, vfkit.FaultNone, vfkit.FaultBefore, vfkit.FaultAfter})
	p.SegFaults = rapid.SliceOfN(fk, 0, 8).Draw(t, "segfaults")
	p.IdxFaults = rapid.SliceOfN(fk, 0, 8).Draw(t, "idxfaults")
	p.Picks = rapid.SliceOfN(rapid.IntRange(0, 5), 0, 50).Draw(t, "picks")
	return p
}

// c01hStore gates UpdateOffsets (the end-offset publish) on the scheduler.
type c01hStore struct {
	metadata.Store
	sched *vfkit.Sched
	gated *bool
}

func (s *c01hStore) UpdateOffsets(ctx context.Context, topic string, partition int32, lastOffset int64) error {
	if *s.gated {
		s.sched.Gate("store", fmt.Sprintf("update-offsets %s/%d %020d", topic, partition, lastOffset))
	}
	return s.Store.UpdateOffsets(ctx, topic, partition, lastOffset)
}

type c01hAck struct {
	Tag       string
	Partition int32
	Base      int64
	Records   int
	Raw       []byte
}

type c01hOut struct {
	V01, V05    []string
	Trace       []string
	Acks        []c01hAck
	Failed      bool
	Concurrent  bool
	PubParked   bool
	Published   map[int32][]int64
	EmptyFlushF bool
}

func c01hSegHas(obj *vfkit.ObjStore, a c01hAck) string {
	prefix := fmt.Sprintf("default/orders/%d/", a.Partition)
	snap := obj.Snapshot()
	keys := make([]string, 0, len(snap))
	for k := range snap {
		keys = append(keys, k)
	}
	sort.Strings(keys)
	for _, k := range keys {
		if !strings.HasPrefix(k, prefix) || !strings.HasSuffix(k, ".kfs") {
			continue
		}
		if _, ok := snap[strings.TrimSuffix(k, ".kfs")+".index"]; !ok {
			continue
		}
		si, err := vfkit.DecodeSegment(snap[k])
		if err != nil {
			return fmt.Sprintf("segment %s with index does not decode: %v", k, err)
		}
		for _, b := range si.Batches {
			if b.BaseOffset == a.Base && bytes.Equal(b.Raw[8:], a.Raw[8:]) {
				return ""
			}
		}
	}
	return fmt.Sprintf("partition %d batch %s acked at base offset %d (%d records) is in no S3 segment that has its index; keys %v", a.Partition, a.Tag, a.Base, a.Records, keys)
}

func c01hDurableEnd(obj *vfkit.ObjStore, partition int32) int64 {
	prefix := fmt.Sprintf("default/orders/%d/", partition)
	snap := obj.Snapshot()
	var end int64
	for k, v := range snap {
		if !strings.HasPrefix(k, prefix) || !strings.HasSuffix(k, ".kfs") {
			continue
		}
		if _, ok := snap[strings.TrimSuffix(k, ".kfs")+".index"]; !ok {
			continue
		}
		if si, err := vfkit.DecodeSegment(v); err == nil && si.LastOffset+1 > end {
			end = si.LastOffset + 1
		}
	}
	return end
}

func c01hRun(t *testing.T, p c01hPlan) (out c01hOut) {
	out.Published = map[int32][]int64{}
	synctest.Test(t, func(t *testing.T) {
		ctx := context.Background()
		obj := vfkit.NewObjStore()
		sched := vfkit.NewSched()
		gated := true
		var mu sync.Mutex
		segN, idxN := 0, 0
		inFlight := 0
		obj.Fault = func(op vfkit.ObjOp) vfkit.FaultKind {
			switch op.Kind {
			case "put-segment":
				segN++
				if segN-1 < len(p.SegFaults) {
					return p.SegFaults[segN-1]
				}
			case "put-index":
				idxN++
				if idxN-1 < len(p.IdxFaults) {
					return p.IdxFaults[idxN-1]
				}
			}
			return vfkit.FaultNone
		}
		obj.OnOp = func(op vfkit.ObjOp) {
			if gated && strings.HasPrefix(op.Kind, "put-") {
				if op.Fault != vfkit.FaultNone {
					mu.Lock()
					out.Failed = true
					if inFlight >= 2 {
						out.Concurrent = true
					}
					mu.Unlock()
				}
				sched.Gate("s3", op.Kind+" "+op.Key)
			}
		}
		inner := vfStoreWithTopics(map[string]int32{"orders": 2})
		store := &c01hStore{Store: inner, sched: sched, gated: &gated}
		h := vfNewHandler(store, obj, vfHandlerOpts{SegmentBytes: p.SegBytes, ReadAhead: 0, NoS3Backpressure: true})
		defer h.coordinator.Stop()

		for w, reqs := range p.Workers {
			w, reqs := w, reqs
			sched.Go(fmt.Sprintf("w%d", w), func() {
				for i, r := range reqs {
					var parts []vfProducePart
					var tags []string
					for k, pp := range r.Parts {
						tag := fmt.Sprintf("w%d-%d-%d", w, i, k)
						tags = append(tags, tag)
						parts = append(parts, vfProducePart{Topic: "orders", Partition: pp.Partition, Records: c06Batch(tag, pp.Records, 6)})
					}
					sched.Gate(fmt.Sprintf("w%d", w), fmt.Sprintf("produce %d acks=%d", i, r.Acks))
					mu.Lock()
					inFlight++
					mu.Unlock()
					res, err := vfProduce(h, 7, r.Acks, "vf", parts)
					mu.Lock()
					inFlight--
					mu.Unlock()
					if err != nil {
						mu.Lock()
						out.V01 = append(out.V01, "harness: produce transport error: "+err.Error())
						mu.Unlock()
						return
					}
					if r.Acks == 0 {
						continue
					}
					if len(res) != len(parts) {
						mu.Lock()
						out.V01 = append(out.V01, fmt.Sprintf("harness: %d partition responses for %d partitions", len(res), len(parts)))
						mu.Unlock()
						return
					}
					for k, pr := range res {
						if pr.ErrorCode != 0 {
							continue
						}
						a := c01hAck{Tag: tags[k], Partition: pr.Partition, Base: pr.Base, Records: r.Parts[k].Records, Raw: parts[k].Records}
						msg := c01hSegHas(obj, a)
						mu.Lock()
						out.Acks = append(out.Acks, a)
						if msg != "" {
							out.V01 = append(out.V01, "at ack time: "+msg)
						}
						mu.Unlock()
					}
				}
			})
		}
		prev := map[int32]int64{}
		check05 := func(step string) {
			for part := int32(0); part < 2; part++ {
				pub, err := inner.NextOffset(ctx, "orders", part)
				if err != nil {
					continue
				}
				if n := len(out.Published[part]); n == 0 || out.Published[part][n-1] != pub {
					out.Published[part] = append(out.Published[part], pub)
				}
				if pub < prev[part] {
					out.V05 = append(out.V05, fmt.Sprintf("after %s: end offset of partition %d in the metadata store went down %d -> %d", step, part, prev[part], pub))
				}
				prev[part] = pub
				if end := c01hDurableEnd(obj, part); pub > end {
					out.V05 = append(out.V05, fmt.Sprintf("after %s: end offset %d of partition %d in the metadata store exceeds 1+last offset in complete S3 segments (%d)", step, pub, part, end))
				}
			}
		}
		pi := 0
		for {
			ps := sched.ParkedNow()
			if len(ps) == 0 {
				break
			}
			mu.Lock()
			for _, q := range ps {
				if q.Worker == "store" && inFlight >= 2 {
					out.PubParked = true
				}
			}
			mu.Unlock()
			k := 0
			if pi < len(p.Picks) {
				k = p.Picks[pi] % len(ps)
			}
			pi++
			lbl := ps[k].Worker + ":" + ps[k].Label
			sched.Release(ps[k].ID)
			check05(lbl)
		}
		out.Trace = sched.Trace
		if sched.Running() != 0 {
			out.V01 = append(out.V01, fmt.Sprintf("harness: %d workers still running with nothing parked", sched.Running()))
			return
		}
		// restart: new handler on the same store and S3 model, no faults, no gates
		gated = false
		obj.Fault = nil
		h2 := vfNewHandler(store, obj, vfHandlerOpts{SegmentBytes: p.SegBytes, ReadAhead: 0, NoS3Backpressure: true})
		defer h2.coordinator.Stop()
		for _, a := range out.Acks {
			fr, err := vfFetch(h2, 11, "orders", a.Partition, a.Base, 1<<22)
			if err != nil || fr.ErrorCode != 0 {
				out.V01 = append(out.V01, fmt.Sprintf("after restart: fetch(partition %d, offset %d) for acked batch %s failed: err=%v code=%d hw=%d", a.Partition, a.Base, a.Tag, err, fr.ErrorCode, fr.HighWatermark))
				continue
			}
			bs, _ := vfkit.DecodeBatchesLenient(fr.Records)
			found := false
			for _, b := range bs {
				if b.BaseOffset == a.Base && bytes.Equal(b.Raw[8:], a.Raw[8:]) {
					found = true
				}
			}
			if !found {
				out.V01 = append(out.V01, fmt.Sprintf("after restart: fetch(partition %d, offset %d) does not return acked batch %s", a.Partition, a.Base, a.Tag))
			}
		}
	})
	return out
}

func c01hCheck(t *testing.T, focus string) {
	st := vfkit.NewStats(focus, "handlersched")
	defer st.Flush()
	rapid.Check(t, func(rt *rapid.T) {
		p := c01hDraw(rt)
		st.Eval()
		r := c01hRun(t, p)
		if r.Failed {
			st.Class("upload-failed")
		}
		if r.Concurrent {
			st.Class("failure-with-2+-requests-in-flight")
		}
		if r.PubParked {
			st.Class("end-offset-update-parked-with-concurrent-request")
		}
		if len(r.Acks) > 0 {
			st.Class("has-acks")
		}
		nt := (focus == "C01" && r.Failed && r.Concurrent) || (focus == "C05" && (r.PubParked || r.Failed))
		if nt {
			if st.NonTrivial(fmt.Sprintf("%+v", p)) {
				st.Sample(map[string]any{"plan": p, "trace": r.Trace, "acks": len(r.Acks), "published": r.Published})
			}
		}
		for _, v := range append(append([]string{}, r.V01...), r.V05...) {
			if strings.HasPrefix(v, "harness:") {
				rt.Fatalf("%s\ntrace %v", v, r.Trace)
			}
		}
		if focus == "C01" && len(r.V01) > 0 {
			rt.Fatalf("C01 violated: %s\ntrace: %v", strings.Join(r.V01, "\n"), r.Trace)
		}
		if focus == "C05" && len(r.V05) > 0 {
			rt.Fatalf("C05 violated: %s\ntrace: %v\npublished: %v", strings.Join(r.V05, "\n"), r.Trace, r.Published)
		}
	})
}

func TestVF_C01_HandlerSched(t *testing.T) { c01hCheck(t, "C01") }
func TestVF_C05_HandlerSched(t *testing.T) { c01hCheck(t, "C05") }
