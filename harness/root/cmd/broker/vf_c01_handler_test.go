//go:build verif

package main

import (
	"bytes"
	"context"
	"fmt"
	"os"
	"sort"
	"strings"
	"sync"
	"testing"
	"testing/synctest"

	"github.com/KafScale/platform/pkg/metadata"
	"github.com/KafScale/platform/pkg/protocol"
	"pgregory.net/rapid"
	"verif.local/vfkit"
)

// C01 / C03 / C05 at handler level, two phases on ONE store and ONE S3 model:
//
// phase 1: 2-4 concurrent clients send real Produce requests (acks 1/-1/0, 1-2 partitions
//          each) to a real broker handler; optionally the topic does not exist yet
//          (auto-create). The process may die at a drawn scheduling step (every later S3 /
//          store call fails without effect, replies are not delivered).
// phase 2: a NEW handler on the same store and S3 model (cold partitions: each is restored
//          from S3 on first touch); 0-3 concurrent clients produce and fetch.
// Every S3 upload, every S3 listing (the restore of a cold partition), every
// store.UpdateOffsets (end-offset publish) and store.CreateTopic is a scheduling point
// owned by the harness (deterministic scheduler on testing/synctest); uploads fail per a
// generated plan.
//
// C01: a partition answered with code 0 (acks != 0) must at that moment be in an S3
//      segment of THAT partition that has its index (own codec), and be fetchable from a
//      fresh handler at the end.
// C03: every batch a Fetch returns must be byte-identical to a batch produced to THAT
//      partition.
// C05: after every scheduling step the store's NextOffset per partition never decreases
//      and never exceeds 1 + the last offset in complete S3 segments of that partition.

type c01hReq struct {
	Fetch bool // phase 2 only: Fetch(partition of Parts[0], offset FetchOff)
	FetchOff int64
	Acks  int16
	Parts []c01hPart
}
type c01hPart struct {
	Partition int32
	Records   int
}

type c01hPlan struct {
	Workers    [][]c01hReq
	Workers2   [][]c01hReq
	AutoCreate bool
	CrashAt    int // phase 1 dies before this scheduling step (-1: never)
	// CrashOnPublish k>0: the process dies the k-th time an end-offset update is parked,
	// i.e. after the upload and before the metadata write: S3 ends up ahead of the store
	CrashOnPublish int
	// Policy 1 ("delay publishes"): an end-offset update is released only when nothing else
	// is parked, newest first — the schedule in which a slow metadata write is overtaken
	// by everything that can overtake it. Policy 0: picks decide.
	Policy    int
	SegBytes  int
	// PartIDs are the two partitions the clients use: {0,1} or {1,10} (the decimal number of
	// one is a prefix of the other's, so their S3 key prefixes are string prefixes too)
	PartIDs   [2]int32
	SegFaults []vfkit.FaultKind
	IdxFaults []vfkit.FaultKind
	// PubFaults: the k-th end-offset update of phase 1 fails without effect (metadata store
	// write error); the broker only logs it
	PubFaults []bool
	Picks     []int
}

func c01hDrawReqs(t *rapid.T, maxReq int, withFetch bool) []c01hReq {
	n := rapid.IntRange(1, maxReq).Draw(t, "nreq")
	var reqs []c01hReq
	for i := 0; i < n; i++ {
		// acks: the broker does not validate the field; every non-zero value is answered and,
		// in flush-on-ack mode, has to be durable before the answer
		r := c01hReq{Acks: rapid.SampledFrom([]int16{1, -1, -1, 1, 0, 2, -2, 32767}).Draw(t, "acks")}
		np := rapid.IntRange(1, 2).Draw(t, "nparts")
		first := int32(rapid.IntRange(0, 1).Draw(t, "part"))
		for k := 0; k < np; k++ {
			r.Parts = append(r.Parts, c01hPart{Partition: (first + int32(k)) % 2, Records: rapid.IntRange(1, 4).Draw(t, "records")})
		}
		if withFetch && rapid.IntRange(0, 2).Draw(t, "fetchdie") == 0 {
			r.Fetch = true
			r.FetchOff = int64(rapid.SampledFrom([]int{0, 0, 0, 1, 2, 3, 5, 8}).Draw(t, "fetchoff"))
		}
		reqs = append(reqs, r)
	}
	return reqs
}

func c01hDraw(t *rapid.T) c01hPlan {
	var p c01hPlan
	nw := rapid.IntRange(2, 4).Draw(t, "workers")
	for w := 0; w < nw; w++ {
		p.Workers = append(p.Workers, c01hDrawReqs(t, 3, false))
	}
	nw2 := rapid.SampledFrom([]int{0, 1, 2, 2, 3}).Draw(t, "workers2")
	// half of the time every phase-2 client works on partition 0 only, so that the cold
	// open of that partition overlaps with other clients' requests for it
	samePart := rapid.Bool().Draw(t, "samepart2")
	for w := 0; w < nw2; w++ {
		reqs := c01hDrawReqs(t, 2, true)
		if samePart {
			for i := range reqs {
				reqs[i].Parts = []c01hPart{{Partition: 0, Records: reqs[i].Parts[0].Records}}
			}
		}
		p.Workers2 = append(p.Workers2, reqs)
	}
	p.AutoCreate = rapid.IntRange(0, 3).Draw(t, "autocreate") == 0
	p.CrashAt = rapid.SampledFrom([]int{-1, -1, 2, 4, 6, 9, 13}).Draw(t, "crashat")
	p.CrashOnPublish = rapid.SampledFrom([]int{0, 0, 0, 1, 2, 3}).Draw(t, "crashonpublish")
	p.Policy = rapid.SampledFrom([]int{0, 0, 1}).Draw(t, "policy")
	p.SegBytes = rapid.SampledFrom([]int{0, 0, 150, 400}).Draw(t, "segbytes")
	fk := rapid.SampledFrom([]vfkit.FaultKind{vfkit.FaultNone, vfkit.FaultNone, vfkit.FaultNone, vfkit.FaultBefore, vfkit.FaultAfter})
	p.SegFaults = rapid.SliceOfN(fk, 0, 8).Draw(t, "segfaults")
	p.IdxFaults = rapid.SliceOfN(fk, 0, 8).Draw(t, "idxfaults")
	p.Picks = rapid.SliceOfN(rapid.IntRange(0, 5), 0, 70).Draw(t, "picks")
	switch rapid.IntRange(0, 5).Draw(t, "pubfaultmode") {
	case 0:
		p.PubFaults = rapid.SliceOfN(rapid.Bool(), 1, 8).Draw(t, "pubfaults")
	case 1:
		p.PubFaults = []bool{true, true, true, true, true, true, true, true, true, true, true, true} // the store is down for the whole phase
	}
	p.PartIDs = [2]int32{0, 1}
	if rapid.IntRange(0, 2).Draw(t, "prefixparts") == 0 {
		p.PartIDs = [2]int32{1, 10}
	}
	for _, ws := range [][][]c01hReq{p.Workers, p.Workers2} {
		for _, reqs := range ws {
			for i := range reqs {
				for k := range reqs[i].Parts {
					reqs[i].Parts[k].Partition = p.PartIDs[reqs[i].Parts[k].Partition]
				}
			}
		}
	}
	return p
}

// c01hStore gates UpdateOffsets (the end-offset publish) and CreateTopic on the scheduler
// and fails every call once the process is dead.
type c01hStore struct {
	metadata.Store
	sched *vfkit.Sched
	gated *bool
	dead  *bool
	mu    *sync.Mutex
	// pubFault, if set, decides whether this end-offset update fails without effect
	pubFault func() bool
}

func (s *c01hStore) isDead() bool { s.mu.Lock(); defer s.mu.Unlock(); return *s.dead }

func (s *c01hStore) UpdateOffsets(ctx context.Context, topic string, partition int32, lastOffset int64) error {
	if *s.gated {
		s.sched.Gate("store", fmt.Sprintf("update-offsets %s/%d %020d", topic, partition, lastOffset))
	}
	if s.isDead() {
		return fmt.Errorf("vf: process is dead")
	}
	if s.pubFault != nil && s.pubFault() {
		return fmt.Errorf("vf: injected metadata store write failure")
	}
	return s.Store.UpdateOffsets(ctx, topic, partition, lastOffset)
}

func (s *c01hStore) CreateTopic(ctx context.Context, spec metadata.TopicSpec) (*protocol.MetadataTopic, error) {
	if *s.gated {
		s.sched.Gate("store", "create-topic "+spec.Name)
	}
	if s.isDead() {
		return nil, fmt.Errorf("vf: process is dead")
	}
	return s.Store.CreateTopic(ctx, spec)
}

type c01hAck struct {
	Tag       string
	Partition int32
	Base      int64
	Records   int
	Raw       []byte
}

type c01hOut struct {
	V01, V02, V03, V05 []string
	Trace         []string
	Acks          []c01hAck
	Failed        bool
	Concurrent    bool
	PubParked     bool
	Crashed       bool
	PubFailed     bool // an end-offset update failed in phase 1
	ColdConc      bool // two requests in flight while a cold partition's S3 listing was parked
	AutoRace      bool // create-topic parked with another request in flight
	Fetches       int
	Published     map[int32][]int64
}

func c01hSegHas(obj *vfkit.ObjStore, a c01hAck) string {
	prefix := fmt.Sprintf("default/orders/%d/", a.Partition)
	snap := obj.Snapshot()
	keys := make([]string, 0, len(snap))
	for k := range snap {
		keys = append(keys, k)
	}
	sort.Strings(keys)
	for _, k := range keys {
		if !strings.HasPrefix(k, prefix) || !strings.HasSuffix(k, ".kfs") {
			continue
		}
		if _, ok := snap[strings.TrimSuffix(k, ".kfs")+".index"]; !ok {
			continue
		}
		si, err := vfkit.DecodeSegment(snap[k])
		if err != nil {
			return fmt.Sprintf("segment %s with index does not decode: %v", k, err)
		}
		for _, b := range si.Batches {
			if b.BaseOffset == a.Base && bytes.Equal(b.Raw[8:], a.Raw[8:]) {
				return ""
			}
		}
	}
	return fmt.Sprintf("partition %d batch %s acked at base offset %d (%d records) is in no S3 segment of that partition that has its index; keys %v", a.Partition, a.Tag, a.Base, a.Records, keys)
}

func c01hDurableEnd(obj *vfkit.ObjStore, partition int32) int64 {
	prefix := fmt.Sprintf("default/orders/%d/", partition)
	snap := obj.Snapshot()
	var end int64
	for k, v := range snap {
		if !strings.HasPrefix(k, prefix) || !strings.HasSuffix(k, ".kfs") {
			continue
		}
		if _, ok := snap[strings.TrimSuffix(k, ".kfs")+".index"]; !ok {
			continue
		}
		if si, err := vfkit.DecodeSegment(v); err == nil && si.LastOffset+1 > end {
			end = si.LastOffset + 1
		}
	}
	return end
}

func c01hRun(t *testing.T, p c01hPlan) (out c01hOut) {
	out.Published = map[int32][]int64{}
	synctest.Test(t, func(t *testing.T) {
		ctx := context.Background()
		obj := vfkit.NewObjStore()
		sched := vfkit.NewSched()
		gated := true
		dead := false
		var mu sync.Mutex
		segN, idxN := 0, 0
		inFlight := 0
		faultsOn := true
		obj.Fault = func(op vfkit.ObjOp) vfkit.FaultKind {
			if !faultsOn {
				return vfkit.FaultNone
			}
			switch op.Kind {
			case "put-segment":
				segN++
				if segN-1 < len(p.SegFaults) {
					return p.SegFaults[segN-1]
				}
			case "put-index":
				idxN++
				if idxN-1 < len(p.IdxFaults) {
					return p.IdxFaults[idxN-1]
				}
			}
			return vfkit.FaultNone
		}
		obj.OnOp = func(op vfkit.ObjOp) {
			if !gated {
				return
			}
			if strings.HasPrefix(op.Kind, "put-") {
				if op.Fault != vfkit.FaultNone {
					mu.Lock()
					out.Failed = true
					if inFlight >= 2 {
						out.Concurrent = true
					}
					mu.Unlock()
				}
				sched.Gate("s3", op.Kind+" "+op.Key)
			} else if op.Kind == "list" {
				mu.Lock()
				if inFlight >= 2 {
					out.ColdConc = true
				}
				mu.Unlock()
				sched.Gate("s3", "list "+op.Key)
			}
			mu.Lock()
			d := dead
			mu.Unlock()
			if d {
				obj.SetCrashed(true) // the call that was parked when the process died has no effect
			}
		}
		var inner *metadata.InMemoryStore
		if p.AutoCreate {
			inner = vfStoreWithTopics(map[string]int32{"other": 1})
		} else {
			inner = vfStoreWithTopics(map[string]int32{"orders": p.PartIDs[1] + 1})
		}
		pubN := 0
		store := &c01hStore{Store: inner, sched: sched, gated: &gated, dead: &dead, mu: &mu}
		store.pubFault = func() bool {
			mu.Lock()
			defer mu.Unlock()
			if !faultsOn {
				return false
			}
			pubN++
			if pubN-1 < len(p.PubFaults) && p.PubFaults[pubN-1] {
				out.PubFailed = true
				return true
			}
			return false
		}
		opts := vfHandlerOpts{SegmentBytes: p.SegBytes, ReadAhead: 0, NoS3Backpressure: true}
		if p.AutoCreate {
			os.Setenv("KAFSCALE_AUTO_CREATE_PARTITIONS", fmt.Sprint(p.PartIDs[1]+1))
		} else {
			os.Unsetenv("KAFSCALE_AUTO_CREATE_PARTITIONS")
		}
		defer os.Unsetenv("KAFSCALE_AUTO_CREATE_PARTITIONS")
		h := vfNewHandler(store, obj, opts)
		defer func() { h.coordinator.Stop() }()

		sentBy := map[string]int32{} // raw[8:] of every batch ever sent -> partition
		runWorkers := func(h *handler, phase string, workers [][]c01hReq) {
			for w, reqs := range workers {
				w, reqs := w, reqs
				name := fmt.Sprintf("%s-w%d", phase, w)
				sched.Go(name, func() {
					for i, r := range reqs {
						if r.Fetch {
							part := r.Parts[0].Partition
							sched.Gate(name, fmt.Sprintf("fetch %d @%d", i, r.FetchOff))
							mu.Lock()
							inFlight++
							mu.Unlock()
							fr, err := vfFetch(h, 11, "orders", part, r.FetchOff, 1<<22)
							mu.Lock()
							inFlight--
							out.Fetches++
							isDead := dead
							mu.Unlock()
							if err != nil || isDead || fr.ErrorCode != 0 {
								continue
							}
							bs, used := vfkit.DecodeBatchesLenient(fr.Records)
							if rest := fr.Records[used:]; len(rest) > 8 {
								// the limit (4 MiB) is far above the log size, so nothing is cut off: what
								// follows the last whole batch must still be the beginning of a produced batch
								mu.Lock()
								ok := false
								for raw, owner := range sentBy {
									if owner == part && strings.HasPrefix(raw, string(rest[8:])) {
										ok = true
									}
								}
								if !ok {
									out.V03 = append(out.V03, fmt.Sprintf("fetch(partition %d, offset %d) returned %d trailing bytes after the last whole batch that are not the beginning of any batch produced to that partition: %x", part, r.FetchOff, len(rest), rest))
								}
								mu.Unlock()
							}
							for _, b := range bs {
								mu.Lock()
								owner, known := sentBy[string(b.Raw[8:])]
								mu.Unlock()
								if !known {
									mu.Lock()
									out.V03 = append(out.V03, fmt.Sprintf("fetch(partition %d) returned a batch at base offset %d that no client produced", part, b.BaseOffset))
									mu.Unlock()
								} else if owner != part {
									mu.Lock()
									out.V03 = append(out.V03, fmt.Sprintf("fetch(partition %d) returned a batch (base offset %d) that was produced to partition %d", part, b.BaseOffset, owner))
									mu.Unlock()
								}
							}
							continue
						}
						var parts []vfProducePart
						var tags []string
						for k, pp := range r.Parts {
							tag := fmt.Sprintf("%s%d-%d-%d", phase, w, i, k)
							tags = append(tags, tag)
							raw := c06Batch(tag, pp.Records, 6)
							mu.Lock()
							sentBy[string(raw[8:])] = pp.Partition
							mu.Unlock()
							parts = append(parts, vfProducePart{Topic: "orders", Partition: pp.Partition, Records: raw})
						}
						sched.Gate(name, fmt.Sprintf("produce %d acks=%d", i, r.Acks))
						mu.Lock()
						inFlight++
						mu.Unlock()
						res, err := vfProduce(h, 7, r.Acks, "vf", parts)
						mu.Lock()
						inFlight--
						isDead := dead
						mu.Unlock()
						if isDead {
							return // the reply of a dead process is never delivered
						}
						if err != nil {
							mu.Lock()
							out.V01 = append(out.V01, "harness: produce transport error: "+err.Error())
							mu.Unlock()
							return
						}
						if r.Acks == 0 {
							continue
						}
						if len(res) != len(parts) {
							mu.Lock()
							out.V01 = append(out.V01, fmt.Sprintf("harness: %d partition responses for %d partitions", len(res), len(parts)))
							mu.Unlock()
							return
						}
						for k, pr := range res {
							if pr.ErrorCode != 0 {
								continue
							}
							a := c01hAck{Tag: tags[k], Partition: pr.Partition, Base: pr.Base, Records: r.Parts[k].Records, Raw: parts[k].Records}
							msg := c01hSegHas(obj, a)
							mu.Lock()
							for _, o := range out.Acks {
								if o.Partition == a.Partition && a.Base < o.Base+int64(o.Records) && o.Base < a.Base+int64(a.Records) {
									out.V01 = append(out.V01, fmt.Sprintf("batches %s and %s of partition %d were both acknowledged at overlapping offsets (%d and %d): one of them cannot be in the log", o.Tag, a.Tag, a.Partition, o.Base, a.Base))
									out.V02 = append(out.V02, fmt.Sprintf("offsets not unique: batches %s (%d records) and %s (%d records) of partition %d were acknowledged at base offsets %d and %d", o.Tag, o.Records, a.Tag, a.Records, a.Partition, o.Base, a.Base))
								}
							}
							out.Acks = append(out.Acks, a)
							if msg != "" {
								out.V01 = append(out.V01, "at ack time: "+msg)
							}
							mu.Unlock()
						}
					}
				})
			}
		}
		prev := map[int32]int64{}
		check05 := func(step string) {
			for part := int32(0); part < 2; part++ {
				pub, err := inner.NextOffset(ctx, "orders", part)
				if err != nil {
					continue
				}
				if n := len(out.Published[part]); n == 0 || out.Published[part][n-1] != pub {
					out.Published[part] = append(out.Published[part], pub)
				}
				if pub < prev[part] {
					out.V05 = append(out.V05, fmt.Sprintf("after %s: end offset of partition %d in the metadata store went down %d -> %d", step, part, prev[part], pub))
				}
				prev[part] = pub
				if end := c01hDurableEnd(obj, part); pub > end {
					out.V05 = append(out.V05, fmt.Sprintf("after %s: end offset %d of partition %d in the metadata store exceeds 1+last offset in complete S3 segments (%d)", step, pub, part, end))
				}
			}
		}
		pi := 0
		drive := func(crashAt, crashOnPublish int) {
			step := 0
			pubSeen := map[int]bool{}
			for {
				ps := sched.ParkedNow()
				if len(ps) == 0 {
					return
				}
				if crashOnPublish > 0 {
					for _, q := range ps {
						if q.Worker == "store" && strings.HasPrefix(q.Label, "update-offsets") {
							pubSeen[q.ID] = true
						}
					}
					if len(pubSeen) >= crashOnPublish {
						crashAt, crashOnPublish = step, 0
					}
				}
				if crashAt >= 0 && step == crashAt {
					mu.Lock()
					if !dead {
						dead = true
						out.Crashed = true
						sched.Trace = append(sched.Trace, "PROCESS-DIES")
					}
					mu.Unlock()
				}
				mu.Lock()
				for _, q := range ps {
					if q.Worker == "store" && inFlight >= 2 {
						if strings.HasPrefix(q.Label, "update-offsets") {
							out.PubParked = true
						} else {
							out.AutoRace = true
						}
					}
				}
				mu.Unlock()
				k := 0
				if pi < len(p.Picks) {
					k = p.Picks[pi] % len(ps)
				}
				if p.Policy == 1 {
					var others []int
					newest := -1
					for i, q := range ps {
						if q.Worker == "store" && strings.HasPrefix(q.Label, "update-offsets") {
							if newest < 0 || q.ID > ps[newest].ID {
								newest = i
							}
						} else {
							others = append(others, i)
						}
					}
					if len(others) > 0 {
						k = others[k%len(others)]
					} else if newest >= 0 {
						k = newest
					}
				}
				pi++
				step++
				lbl := ps[k].Worker + ":" + ps[k].Label
				sched.Release(ps[k].ID)
				check05(lbl)
			}
		}
		runWorkers(h, "a", p.Workers)
		drive(p.CrashAt, p.CrashOnPublish)
		if sched.Running() != 0 {
			out.V01 = append(out.V01, fmt.Sprintf("harness: %d workers still running with nothing parked", sched.Running()))
			out.Trace = sched.Trace
			return
		}
		// phase 2: new process on the same store and S3 model, concurrent clients on cold partitions
		mu.Lock()
		dead = false
		mu.Unlock()
		obj.SetCrashed(false)
		faultsOn = false
		h.coordinator.Stop()
		h = vfNewHandler(store, obj, opts)
		sched.Trace = append(sched.Trace, "NEW-HANDLER")
		runWorkers(h, "b", p.Workers2)
		drive(-1, 0)
		out.Trace = sched.Trace
		if sched.Running() != 0 {
			out.V01 = append(out.V01, fmt.Sprintf("harness: %d workers still running with nothing parked (phase 2)", sched.Running()))
			return
		}
		// final: fresh handler, no gates: every acknowledged batch must be fetchable
		gated = false
		h3 := vfNewHandler(store, obj, opts)
		defer h3.coordinator.Stop()
		for _, a := range out.Acks {
			fr, err := vfFetch(h3, 11, "orders", a.Partition, a.Base, 1<<22)
			if err != nil || fr.ErrorCode != 0 {
				out.V01 = append(out.V01, fmt.Sprintf("after restart: fetch(partition %d, offset %d) for acked batch %s failed: err=%v code=%d hw=%d", a.Partition, a.Base, a.Tag, err, fr.ErrorCode, fr.HighWatermark))
				continue
			}
			bs, _ := vfkit.DecodeBatchesLenient(fr.Records)
			found := false
			for _, b := range bs {
				if b.BaseOffset == a.Base && bytes.Equal(b.Raw[8:], a.Raw[8:]) {
					found = true
				}
			}
			if !found {
				out.V01 = append(out.V01, fmt.Sprintf("after restart: fetch(partition %d, offset %d) does not return acked batch %s", a.Partition, a.Base, a.Tag))
			}
		}
		// C02: a consumer reading the partition from offset 0 to the high watermark sees
		// strictly increasing, non-overlapping, gap-free offsets
		for _, part := range p.PartIDs {
			next := int64(0)
			for guard := 0; guard < 200; guard++ {
				fr, err := vfFetch(h3, 11, "orders", part, next, 1<<22)
				if err != nil || fr.ErrorCode != 0 || next >= fr.HighWatermark {
					break
				}
				bs, _ := vfkit.DecodeBatchesLenient(fr.Records)
				if len(bs) == 0 {
					break
				}
				for _, b := range bs {
					last := b.BaseOffset + int64(b.LastOffsetDelta)
					if last < next {
						continue // the batches before the fetch offset that share its index entry
					}
					if b.BaseOffset > next {
						out.V02 = append(out.V02, fmt.Sprintf("partition %d log read back after the run has a gap: offsets %d..%d are missing below the high watermark %d", part, next, b.BaseOffset-1, fr.HighWatermark))
					} else if b.BaseOffset < next {
						out.V02 = append(out.V02, fmt.Sprintf("partition %d log read back after the run has overlapping batches: batch %d..%d follows offset %d", part, b.BaseOffset, last, next-1))
					}
					next = last + 1
				}
			}
		}
	})
	return out
}

func c01hCheck(t *testing.T, focus string) {
	st := vfkit.NewStats(focus, "handlersched")
	defer st.Flush()
	rapid.Check(t, func(rt *rapid.T) {
		p := c01hDraw(rt)
		st.Eval()
		r := c01hRun(t, p)
		for name, on := range map[string]bool{"upload-failed": r.Failed, "failure-with-2+-requests-in-flight": r.Concurrent,
			"end-offset-update-parked-with-concurrent-request": r.PubParked, "has-acks": len(r.Acks) > 0, "process-died-in-phase-1": r.Crashed,
			"cold-partition-listing-parked-with-concurrent-request": r.ColdConc, "auto-create-parked-with-concurrent-request": r.AutoRace,
			"phase-2-fetches": r.Fetches > 0, "end-offset-update-failed": r.PubFailed} {
			if on {
				st.Class(name)
			}
		}
		nt := false
		switch focus {
		case "C01":
			nt = (r.Failed && r.Concurrent) || r.AutoRace || (r.Crashed && len(r.Acks) > 0) || (r.PubFailed && len(r.Acks) > 0)
		case "C05":
			nt = r.PubParked || r.Failed || r.Crashed
		case "C03":
			nt = r.Fetches > 0 && r.ColdConc
		case "C06":
			nt = r.Crashed && len(r.Acks) > 0
		case "C02":
			nt = len(r.Acks) > 1 && (r.ColdConc || r.AutoRace || (r.Failed && r.Concurrent) || r.Crashed)
		}
		if nt {
			if st.NonTrivial(fmt.Sprintf("%+v", p)) {
				st.Sample(map[string]any{"plan": p, "trace": r.Trace, "acks": len(r.Acks), "published": r.Published})
			}
		}
		for _, v := range append(append(append(append([]string{}, r.V01...), r.V05...), r.V03...), r.V02...) {
			if strings.HasPrefix(v, "harness:") {
				rt.Fatalf("%s\ntrace %v", v, r.Trace)
			}
		}
		if focus == "C06" && len(r.V01) > 0 {
			rt.Fatalf("C06 violated (concurrent producers, process death, restart): %s\ntrace: %v", strings.Join(r.V01, "\n"), r.Trace)
		}
		if focus == "C01" && len(r.V01) > 0 {
			rt.Fatalf("C01 violated: %s\ntrace: %v", strings.Join(r.V01, "\n"), r.Trace)
		}
		if focus == "C05" && len(r.V05) > 0 {
			rt.Fatalf("C05 violated: %s\ntrace: %v\npublished: %v", strings.Join(r.V05, "\n"), r.Trace, r.Published)
		}
		if focus == "C02" && len(r.V02) > 0 {
			rt.Fatalf("C02 violated: %s\ntrace: %v", strings.Join(r.V02, "\n"), r.Trace)
		}
		if focus == "C03" && len(r.V03) > 0 {
			rt.Fatalf("C03 violated: %s\ntrace: %v", strings.Join(r.V03, "\n"), r.Trace)
		}
	})
}

func TestVF_C01_HandlerSched(t *testing.T) { c01hCheck(t, "C01") }
func TestVF_C05_HandlerSched(t *testing.T) { c01hCheck(t, "C05") }
func TestVF_C02_HandlerSched(t *testing.T) { c01hCheck(t, "C02") }
func TestVF_C03_HandlerSched(t *testing.T) { c01hCheck(t, "C03") }
func TestVF_C06_HandlerSched(t *testing.T) { c01hCheck(t, "C06") }
