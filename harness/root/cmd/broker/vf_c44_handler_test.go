//go:build verif

package main

import (
	"context"
	"fmt"
	"io"
	"log/slog"
	"os"
	"strings"
	"testing"
	"testing/synctest"
	"time"

	"github.com/twmb/franz-go/pkg/kmsg"
	"pgregory.net/rapid"
	"verif.local/vfkit"

	"github.com/KafScale/platform/pkg/metadata"
	"github.com/KafScale/platform/pkg/protocol"
	"github.com/KafScale/platform/pkg/storage"
)

// C44, handler leg: the same request sequence (produces, fetches at many offsets, broker
// restarts = partition restores from S3, pauses) is run against two real handlers built by
// newHandler with the DEFAULT configuration (S3 health monitor and backpressure included):
// one over the primary bucket alone, one over dualS3Client(primary, replica) where the
// replica is in sync, empty, lagging behind by k segments, failing, or lacks the index
// objects. Every response of the replica-configured broker must equal the response of the
// primary-only broker (error code, high watermark, records). Both run inside their own
// testing/synctest bubble, so clocks, latencies and health windows are identical and
// deterministic. No stale replica copies are generated here (known finding untouched).

type c44HOp struct {
	Kind      string // fetch | produce | restart | sleep
	Part      int
	N         int // records of a produce / offset selector of a fetch
	Replicate bool
	Sleep     int
}

type c44HCase struct {
	Parts   int
	Writes  []c44HOp // initial produces
	Mode    string   // replica mode after the initial writes
	LagKeep int      // lagging: number of oldest segments (per partition) the replica has
	Ops     []c44HOp
}

var c44HModes = []string{"in-sync", "empty", "empty", "lagging", "lagging", "failing", "no-index", "index-only"}
var c44HSleeps = []time.Duration{time.Second, 20 * time.Second, 61 * time.Second, 10 * time.Minute}

func c44HLogger() *slog.Logger {
	return slog.New(slog.NewTextHandler(io.Discard, &slog.HandlerOptions{}))
}

func c44HDecode[T kmsg.Response](version int16, payload []byte, resp T) (T, error) {
	body, ok := protocol.SkipResponseHeader(resp.Key(), version, payload)
	if !ok {
		return resp, fmt.Errorf("cannot skip response header")
	}
	resp.SetVersion(version)
	return resp, resp.ReadFrom(body)
}

// c44HRun executes the case in one world and returns a transcript (one line per request).
func c44HRun(c *c44HCase, withReplica bool) (lines []string, replicaMisuse string) {
	ctx := context.Background()
	clusterID := "c44"
	brokerInfo := protocol.MetadataBroker{NodeID: 1, Host: "localhost", Port: 19092}
	store := metadata.NewInMemoryStore(metadata.ClusterMetadata{ControllerID: 1, ClusterID: &clusterID, Brokers: []protocol.MetadataBroker{brokerInfo}})
	if _, err := store.CreateTopic(ctx, metadata.TopicSpec{Name: "orders", NumPartitions: int32(c.Parts), ReplicationFactor: 1}); err != nil {
		return []string{"harness: create topic: " + err.Error()}, ""
	}
	prim, repl := vfkit.NewObjStore(), vfkit.NewObjStore()
	replFailing := false
	repl.Fault = func(op vfkit.ObjOp) vfkit.FaultKind {
		if replFailing {
			return vfkit.FaultBefore
		}
		return vfkit.FaultNone
	}
	mkClient := func() storage.S3Client {
		if withReplica {
			return newDualS3Client(&c44S3{o: prim}, &c44S3{o: repl})
		}
		return &c44S3{o: prim}
	}
	h := newHandler(store, mkClient(), brokerInfo, c44HLogger())
	defer func() { h.coordinator.Stop() }() // the group coordinator's cleanup loop must end with the bubble
	produced := make([]int, c.Parts)
	seq := 0
	produce := func(op c44HOp) {
		p := op.Part % c.Parts
		recs := make([]vfkit.Record, op.N)
		for i := range recs {
			recs[i] = vfkit.Record{TsDelta: int64(i), Key: []byte(fmt.Sprintf("k%d", seq)), Value: []byte(fmt.Sprintf("p%d#%d", p, produced[p]+i))}
			seq++
		}
		before := map[string]bool{}
		for _, k := range prim.Keys() {
			before[k] = true
		}
		req := &kmsg.ProduceRequest{Acks: -1, TimeoutMillis: 1000, Topics: []kmsg.ProduceRequestTopic{{Topic: "orders",
			Partitions: []kmsg.ProduceRequestTopicPartition{{Partition: int32(p), Records: vfkit.NewBatch(0, 1_700_000_000_000, recs).Encode()}}}}}
		out, err := h.handleProduce(ctx, &protocol.RequestHeader{CorrelationID: 7, APIVersion: 3}, req)
		line := fmt.Sprintf("produce p%d n=%d -> ", p, op.N)
		if err != nil {
			lines = append(lines, line+"error "+err.Error())
			return
		}
		resp, derr := c44HDecode(3, out, kmsg.NewPtrProduceResponse())
		if derr != nil || len(resp.Topics) != 1 || len(resp.Topics[0].Partitions) != 1 {
			lines = append(lines, line+"undecodable response")
			return
		}
		pr := resp.Topics[0].Partitions[0]
		lines = append(lines, fmt.Sprintf("%scode=%d base=%d", line, pr.ErrorCode, pr.BaseOffset))
		if pr.ErrorCode == 0 {
			produced[p] += op.N
		}
		if withReplica && op.Replicate { // cross-region replication delivers the new objects at once
			for _, k := range prim.Keys() {
				if !before[k] {
					b, _ := prim.Peek(k)
					repl.PokeRaw(k, b)
				}
			}
		}
	}
	for _, w := range c.Writes {
		w.Replicate = false
		produce(w)
	}
	synctest.Wait()
	if withReplica {
		// state of the replica after the initial writes
		perPart := map[string]int{}
		for _, k := range prim.Keys() { // sorted: oldest segment first within a partition
			b, _ := prim.Peek(k)
			dir := k[:strings.LastIndex(k, "/")+1]
			isIndex := strings.HasSuffix(k, ".index")
			switch c.Mode {
			case "in-sync", "failing":
				repl.PokeRaw(k, b)
			case "no-index":
				if !isIndex {
					repl.PokeRaw(k, b)
				}
			case "index-only":
				if isIndex {
					repl.PokeRaw(k, b)
				}
			case "lagging":
				if !isIndex {
					perPart[dir]++
				}
				// .index sorts before .kfs of the same base: count by segment ordinal
				ord := perPart[dir]
				if isIndex {
					ord++
				}
				if ord <= c.LagKeep {
					repl.PokeRaw(k, b)
				}
			}
		}
		replFailing = c.Mode == "failing"
	}
	fetch := func(op c44HOp) {
		p := op.Part % c.Parts
		hw := produced[p]
		off := int64(op.N % (hw + 2)) // up to one past the end
		req := &kmsg.FetchRequest{MaxWaitMillis: 0, Topics: []kmsg.FetchRequestTopic{{Topic: "orders",
			Partitions: []kmsg.FetchRequestTopicPartition{{Partition: int32(p), FetchOffset: off, PartitionMaxBytes: 1 << 20}}}}}
		line := fmt.Sprintf("fetch p%d@%d -> ", p, off)
		raw, err := h.handleFetch(ctx, &protocol.RequestHeader{CorrelationID: 9, APIVersion: 11}, req)
		if err != nil {
			lines = append(lines, line+"error "+err.Error())
			return
		}
		resp, derr := c44HDecode(11, raw, kmsg.NewPtrFetchResponse())
		if derr != nil || len(resp.Topics) != 1 || len(resp.Topics[0].Partitions) != 1 {
			lines = append(lines, line+"undecodable response")
			return
		}
		fp := resp.Topics[0].Partitions[0]
		var recs []string
		batches, used := vfkit.DecodeBatchesLenient(fp.RecordBatches)
		for _, b := range batches {
			for _, r := range b.Records {
				recs = append(recs, fmt.Sprintf("%d:%s", b.BaseOffset+int64(r.OffsetDelta), r.Value))
			}
		}
		lines = append(lines, fmt.Sprintf("%scode=%d hw=%d bytes=%d decoded=%d records=%v", line, fp.ErrorCode, fp.HighWatermark, len(fp.RecordBatches), used, recs))
	}
	for _, op := range c.Ops {
		switch op.Kind {
		case "fetch":
			fetch(op)
		case "produce":
			produce(op)
		case "restart":
			h.coordinator.Stop()
			h = newHandler(store, mkClient(), brokerInfo, c44HLogger())
			lines = append(lines, "restart")
		case "sleep":
			time.Sleep(c44HSleeps[op.Sleep%len(c44HSleeps)])
			lines = append(lines, "sleep "+c44HSleeps[op.Sleep%len(c44HSleeps)].String())
		}
		synctest.Wait() // read-ahead goroutines finish before the next request
	}
	if withReplica {
		for _, op := range repl.Ops {
			if !strings.HasPrefix(op.Kind, "get") {
				replicaMisuse = fmt.Sprintf("the replica bucket received %s %q", op.Kind, op.Key)
			}
		}
	}
	return lines, replicaMisuse
}

func TestVF_C44_Handler(t *testing.T) {
	st := vfkit.NewStats("C44", "handler")
	defer st.Flush()
	// the broker's defaults: no KAFSCALE_* overrides may leak in from the environment
	for _, k := range []string{"KAFSCALE_S3_HEALTH_WINDOW_SEC", "KAFSCALE_S3_LATENCY_WARN_MS", "KAFSCALE_S3_LATENCY_CRIT_MS", "KAFSCALE_S3_ERROR_RATE_WARN",
		"KAFSCALE_S3_ERROR_RATE_CRIT", "KAFSCALE_PRODUCE_SYNC_FLUSH", "KAFSCALE_CACHE_BYTES", "KAFSCALE_CACHE_SIZE", "KAFSCALE_READAHEAD_SEGMENTS", "KAFSCALE_SEGMENT_BYTES",
		"KAFSCALE_FLUSH_INTERVAL_MS", "KAFSCALE_S3_CONCURRENCY", "KAFSCALE_AUTO_CREATE_TOPICS", "KAFSCALE_S3_NAMESPACE", "KAFSCALE_ACL_ENABLED"} {
		if v, ok := os.LookupEnv(k); ok {
			st.Note("env_override_"+k, v)
		}
	}
	opGen := rapid.Custom(func(t *rapid.T) c44HOp {
		return c44HOp{Kind: rapid.SampledFrom([]string{"fetch", "fetch", "fetch", "fetch", "fetch", "restart", "produce", "sleep"}).Draw(t, "kind"),
			Part: rapid.IntRange(0, 1).Draw(t, "part"), N: rapid.IntRange(1, 40).Draw(t, "n"), Replicate: rapid.Bool().Draw(t, "replicate"), Sleep: rapid.IntRange(0, 3).Draw(t, "sleep")}
	})
	writeGen := rapid.Custom(func(t *rapid.T) c44HOp {
		return c44HOp{Kind: "produce", Part: rapid.IntRange(0, 1).Draw(t, "part"), N: rapid.IntRange(1, 3).Draw(t, "n")}
	})
	rapid.Check(t, func(rt *rapid.T) {
		c := &c44HCase{Parts: rapid.IntRange(1, 2).Draw(rt, "parts"), Writes: rapid.SliceOfN(writeGen, 2, 8).Draw(rt, "writes"),
			Mode: rapid.SampledFrom(c44HModes).Draw(rt, "mode"), LagKeep: rapid.IntRange(0, 3).Draw(rt, "lagkeep"), Ops: rapid.SliceOfN(opGen, 4, 14).Draw(rt, "ops")}
		for i := range c.Ops {
			if c.Ops[i].Kind == "produce" {
				c.Ops[i].N = 1 + c.Ops[i].N%3
			}
		}
		st.Eval()
		var want, got []string
		misuse := ""
		synctest.Test(t, func(*testing.T) { want, _ = c44HRun(c, false) })
		synctest.Test(t, func(*testing.T) { got, misuse = c44HRun(c, true) })
		st.Class("replica:" + c.Mode)
		nfetch := 0
		for _, l := range want {
			if strings.HasPrefix(l, "fetch") {
				nfetch++
				if strings.Contains(l, "code=0") && !strings.Contains(l, "records=[]") {
					st.Class("fetch-with-records")
				} else {
					st.Class("fetch-empty-or-error")
				}
			}
		}
		if c.Mode != "in-sync" && nfetch >= 2 {
			if st.NonTrivial(c.Mode, c.LagKeep, c.Parts, fmt.Sprint(c.Writes), fmt.Sprint(c.Ops)) {
				st.Sample(map[string]any{"replica": c.Mode, "lag_keep": c.LagKeep, "transcript_primary_only": want})
			}
		}
		if misuse != "" {
			rt.Fatalf("%s (replica %s)", misuse, c.Mode)
		}
		if len(want) != len(got) {
			rt.Fatalf("replica %s: %d responses with the replica configured, %d from the primary-only broker\nwith replica: %v\nprimary only: %v", c.Mode, len(got), len(want), got, want)
		}
		for i := range want {
			if want[i] != got[i] {
				rt.Fatalf("request %d differs with a read replica configured (replica: %s, lag keep %d)\n  with replica: %s\n  primary only: %s\nfull transcript (primary only): %v", i, c.Mode, c.LagKeep, got[i], want[i], want)
			}
		}
	})
}
