//go:build verif

package main

// C05 / C06 / C02 with TWO live brokers and lease hand-overs.
//
// Two real handlers (broker ids 1 and 2, each built by newHandler over its own EtcdStore, so
// each has its real PartitionLeaseManager) share one embedded etcd and one S3 model. A
// generated history of 4-14 steps sends produce (acks=-1) / fetch / ListOffsets requests
// through either broker, moves leases (the owner releases one partition, a broker shuts down
// gracefully = ReleaseAll and is restarted when it is needed again, a broker's etcd session
// expires) and can hold the first store.UpdateOffsets call of a request for some steps (a slow
// metadata write that lands after later writes of the other broker; only delayed, never
// changed). The harness of C19 supplies the embedded etcd environment and the access to the
// lease manager's session (c19NewEnv, c19Peek).
//
// Oracles, after every step and after every released write:
//   C05  the published end offset of a partition (etcd key next_offset) never decreases and
//        never exceeds 1 + last offset of the S3 segments that have their index;
//   C02/C06  no two acknowledged batches of a partition overlap, whichever broker acked them;
//   at the end a fresh broker (id 3) must return every acknowledged batch byte-for-byte at its
//   base offset, and (C02) the acknowledged ranges tile the log from 0 without gaps.
// Rejections (NOT_LEADER_OR_FOLLOWER, OFFSET_OUT_OF_RANGE ...) are always fine.

import (
	"bytes"
	"context"
	"fmt"
	"sort"
	"strconv"
	"strings"
	"sync"
	"testing"
	"time"

	"github.com/twmb/franz-go/pkg/kmsg"
	clientv3 "go.etcd.io/etcd/client/v3"
	"pgregory.net/rapid"
	"verif.local/vfkit"

	"github.com/KafScale/platform/pkg/metadata"
	"github.com/KafScale/platform/pkg/protocol"
	"github.com/KafScale/platform/pkg/storage"
)

const (
	c05tTopic = "orders"
	// the three listed predicates (ids of property C05; C06 and C02 list the first one under
	// their own property id, see c05tD1ID)
	c05tD1Slug = "stale-log-after-ownership-move"
	c05tD2     = "C05-open-sync-regresses-end-offset"
	c05tD3     = "C05-inflight-publish-lands-after-lease-loss"
)

// c05tD1ID: the driver hands a check only the findings of its own property, so the finding
// "stale cached log" is listed once per property whose oracle it breaks.
func c05tD1ID(focus string) string { return focus + "-" + c05tD1Slug }

// second review pass (all need a stalled segment upload or a reader with an old log):
//
//	r1 <focus>-reopen-discards-inflight-flush: a broker whose produce is still uploading loses the
//	   lease, re-acquires it under a new revision and opens a NEW log at the published end
//	   offset: the next produce and the stalled one are acknowledged at the same offset
//	r2 <focus>-ack-after-lease-release-during-upload: the stalled upload lands (and is answered
//	   with success) after the broker gave the lease away; the new owner used the same offset
//	r3 C04-non-owner-stale-log-out-of-range: a broker whose cached log ends below the published
//	   end offset answers a fetch below the high watermark with OFFSET_OUT_OF_RANGE
func c05tR1ID(focus string) string { return focus + "-reopen-discards-inflight-flush" }
func c05tR2ID(focus string) string { return focus + "-ack-after-lease-release-during-upload" }

const c05tR3 = "C04-non-owner-stale-log-out-of-range"

type c05tStep struct {
	Op   string `json:"op"`            // produce fetch list-earliest list-latest release shutdown expire
	B    int    `json:"b"`             // broker index 0/1 (release: the current owner of P, whoever it is)
	Who  string `json:"who,omitempty"` // "owner" / "other": B is resolved when the step runs (the partition's lease holder, else the broker that last appended to it, else broker 1 - or its peer)
	P    int32  `json:"p"`
	N    int    `json:"n,omitempty"`    // records of the produced batch
	Off  int64  `json:"off,omitempty"`  // fetch offset
	Hold int    `json:"hold,omitempty"` // >0: the request's first UpdateOffsets is held for this many further steps
	Tx   int    `json:"tx,omitempty"`   // >0: like hold, but the write is held between the read and the transaction inside the store's UpdateOffsets
	Ls   int    `json:"ls,omitempty"`   // >0: the S3 listing of the partition open this request triggers is stalled for this many further steps
	Up   int    `json:"up,omitempty"`   // >0: the request's first segment upload is stalled (lands late) for this many further steps
}

func (s c05tStep) String() string {
	b := fmt.Sprintf("b%d", s.B+1)
	h := ""
	if s.Hold > 0 {
		h = fmt.Sprintf(" hold-UpdateOffsets=%d", s.Hold)
	}
	if s.Up > 0 {
		h = fmt.Sprintf(" stall-segment-upload=%d", s.Up)
	}
	if s.Ls > 0 {
		h = fmt.Sprintf(" stall-s3-listing=%d", s.Ls)
	}
	if s.Tx > 0 {
		h = fmt.Sprintf(" hold-end-offset-txn=%d", s.Tx)
	}
	switch s.Op {
	case "produce":
		return fmt.Sprintf("%s.produce(p%d,%d rec)%s", b, s.P, s.N, h)
	case "fetch":
		return fmt.Sprintf("%s.fetch(p%d,@%d)%s", b, s.P, s.Off, h)
	case "list-earliest", "list-latest":
		return fmt.Sprintf("%s.%s(p%d)%s", b, s.Op, s.P, h)
	case "release":
		return fmt.Sprintf("owner.release(p%d)", s.P)
	}
	return fmt.Sprintf("%s.%s", b, s.Op)
}

// c05tGate delays (never alters) the next UpdateOffsets call when armed.
type c05tGate struct {
	metadata.Store
	mu      sync.Mutex
	armed   bool
	parked  chan c05tHeld
	release chan struct{}
}

type c05tHeld struct {
	P    int32
	Last int64
}

func (g *c05tGate) arm() (chan c05tHeld, chan struct{}) {
	g.mu.Lock()
	defer g.mu.Unlock()
	g.armed = true
	g.parked = make(chan c05tHeld, 1)
	g.release = make(chan struct{})
	return g.parked, g.release
}

func (g *c05tGate) disarm() { g.mu.Lock(); g.armed = false; g.mu.Unlock() }

func (g *c05tGate) UpdateOffsets(ctx context.Context, topic string, partition int32, lastOffset int64) error {
	g.mu.Lock()
	if g.armed {
		g.armed = false
		pc, rc := g.parked, g.release
		g.mu.Unlock()
		pc <- c05tHeld{P: partition, Last: lastOffset}
		<-rc
	} else {
		g.mu.Unlock()
	}
	return g.Store.UpdateOffsets(ctx, topic, partition, lastOffset)
}

func (g *c05tGate) Available() bool {
	if c, ok := g.Store.(interface{ Available() bool }); ok {
		return c.Available()
	}
	return true
}

// c05tKV wraps the etcd KV of one broker's store client: the next transaction that writes a
// next_offset key can be held at Commit (after the store has read the key), never altered.
type c05tKV struct {
	clientv3.KV
	mu      sync.Mutex
	armed   bool
	parked  chan c05tHeld
	release chan struct{}
}

func (k *c05tKV) arm() (chan c05tHeld, chan struct{}) {
	k.mu.Lock()
	defer k.mu.Unlock()
	k.armed = true
	k.parked = make(chan c05tHeld, 1)
	k.release = make(chan struct{})
	return k.parked, k.release
}

func (k *c05tKV) disarm() { k.mu.Lock(); k.armed = false; k.mu.Unlock() }

func (k *c05tKV) Txn(ctx context.Context) clientv3.Txn {
	return &c05tTxn{Txn: k.KV.Txn(ctx), k: k, p: -1}
}

type c05tTxn struct {
	clientv3.Txn
	k *c05tKV
	p int32
}

func (t *c05tTxn) If(cs ...clientv3.Cmp) clientv3.Txn { t.Txn = t.Txn.If(cs...); return t }
func (t *c05tTxn) Then(ops ...clientv3.Op) clientv3.Txn {
	for _, op := range ops {
		key := string(op.KeyBytes())
		if op.IsPut() && strings.HasSuffix(key, "/next_offset") {
			f := strings.Split(key, "/")
			if len(f) >= 2 {
				if n, err := strconv.Atoi(f[len(f)-2]); err == nil {
					t.p = int32(n)
				}
			}
		}
	}
	t.Txn = t.Txn.Then(ops...)
	return t
}
func (t *c05tTxn) Else(ops ...clientv3.Op) clientv3.Txn { t.Txn = t.Txn.Else(ops...); return t }
func (t *c05tTxn) Commit() (*clientv3.TxnResponse, error) {
	if t.p >= 0 {
		t.k.mu.Lock()
		if t.k.armed {
			t.k.armed = false
			pc, rc := t.k.parked, t.k.release
			t.k.mu.Unlock()
			pc <- c05tHeld{P: t.p, Last: -2}
			<-rc
		} else {
			t.k.mu.Unlock()
		}
	}
	return t.Txn.Commit()
}

// c05tS3 is one broker's S3 client: it can stall (never alter) the next segment upload and notes
// whether the broker held the partition lease when an upload went out.
type c05tS3 struct {
	*vfS3
	w         *c05tWorld
	h         *handler
	id        int32
	mu        sync.Mutex
	armed     bool
	armedList bool
	parked    chan c05tHeld
	release   chan struct{}
}

func (g *c05tS3) arm() (chan c05tHeld, chan struct{}) {
	g.mu.Lock()
	defer g.mu.Unlock()
	g.armed = true
	g.parked = make(chan c05tHeld, 1)
	g.release = make(chan struct{})
	return g.parked, g.release
}

func (g *c05tS3) disarm() { g.mu.Lock(); g.armed, g.armedList = false, false; g.mu.Unlock() }

func (g *c05tS3) armList() (chan c05tHeld, chan struct{}) {
	g.mu.Lock()
	defer g.mu.Unlock()
	g.armedList = true
	g.parked = make(chan c05tHeld, 1)
	g.release = make(chan struct{})
	return g.parked, g.release
}

// ListSegments: the listing of RestoreFromS3 (a partition open) can be stalled: S3 answers
// with the listing as of the moment of the call, the answer reaches the broker late.
func (g *c05tS3) ListSegments(ctx context.Context, prefix string) ([]storage.S3Object, error) {
	part, ok := c19PartOfKey(prefix + "x")
	objs, err := g.vfS3.ListSegments(ctx, prefix)
	g.mu.Lock()
	if g.armedList && ok {
		// the listing is taken now, its answer arrives late
		g.armedList = false
		pc, rc := g.parked, g.release
		g.mu.Unlock()
		pc <- c05tHeld{P: part.P, Last: -1}
		<-rc
	} else {
		g.mu.Unlock()
	}
	return objs, err
}

func (g *c05tS3) UploadSegment(ctx context.Context, key string, body []byte) error {
	part, ok := c19PartOfKey(key)
	g.mu.Lock()
	if g.armed && ok {
		g.armed = false
		pc, rc := g.parked, g.release
		g.mu.Unlock()
		pc <- c05tHeld{P: part.P, Last: -1}
		<-rc
	} else {
		g.mu.Unlock()
	}
	if ok && g.h != nil && !g.h.leaseManager.Owns(part.Topic, part.P) {
		g.w.vmu.Lock()
		g.w.V19 = append(g.w.V19, fmt.Sprintf("broker %d uploads %s while it does not hold the lease of %s", g.id, key, part))
		g.w.vmu.Unlock()
	}
	return g.vfS3.UploadSegment(ctx, key, body)
}

type c05tResult struct {
	Step      c05tStep
	Err       error
	Code      int16
	Base      int64
	HW        int64
	Raw       []byte // produced batch as sent
	Recs      []byte // fetched record set
	EndBefore int64  // published end offset of the partition when the request was sent
	InS3      bool   // fetch: the offset was held by a complete S3 segment when the request was sent
}

type c05tParked struct {
	Step      c05tStep
	StepNo    int
	Cached    bool // the broker had a log for the partition before the request
	Until     int  // released before the step with this index
	Held      c05tHeld
	Upload    bool // the stalled call is the segment upload
	List      bool // the stalled call is the S3 listing of a partition open
	OpenSync  bool // the held write is the "sync from S3" of getPartitionLog (the broker had no log for the partition)
	done      chan c05tResult
	release   chan struct{}
	peerWrote bool
}

type c05tBroker struct {
	idx    int
	id     int32
	store  *metadata.EtcdStore
	gate   *c05tGate
	s3     *c05tS3
	kv     *c05tKV
	h      *handler
	down   bool // ReleaseAll was called (graceful shutdown); a new process is started on next use
	parked *c05tParked
	stale  map[int32]bool // the log this broker holds for p predates a segment written by the other broker
}

type c05tAck struct {
	B      int
	P      int32
	Base   int64
	N      int
	Raw    []byte
	StepNo int
}

type c05tCfg struct {
	Focus            string
	ExD1, ExD2, ExD3 bool
	ExR1, ExR2, ExR3 bool // r2 in focus C19: the stalled upload is released before the broker's lease moves
	Excluded         func(id string)
	Class            func(name string)
}

type c05tWorld struct {
	env   *c19Env
	obj   *vfkit.ObjStore
	meta  metadata.ClusterMetadata
	parts []int32
	b     [2]*c05tBroker
	cfg   c05tCfg

	lastEnd   map[int32]int64
	lastOwner map[int32]int // broker index of the last accepted produce, -1 = none
	acks      []c05tAck
	trace     []string
	fp        []string

	V05, VOverlap, VRead, VGap []string
	V04, V19                   []string
	vmu                        sync.Mutex
	harnessErr                 error
	nontrivial                 bool
}

func c05tNewWorld(env *c19Env, nparts int, cfg c05tCfg) (*c05tWorld, error) {
	ctx, cancel := context.WithTimeout(context.Background(), 30*time.Second)
	defer cancel()
	if _, err := env.admin.Delete(ctx, "/kafscale/", clientv3.WithPrefix()); err != nil {
		return nil, fmt.Errorf("%w: cleanup: %v", errC19Inconclusive, err)
	}
	w := &c05tWorld{env: env, obj: vfkit.NewObjStore(), cfg: cfg, lastEnd: map[int32]int64{}, lastOwner: map[int32]int{}}
	seed := metadata.NewInMemoryStore(metadata.ClusterMetadata{
		Brokers: []protocol.MetadataBroker{{NodeID: 1, Host: "localhost", Port: 19092}, {NodeID: 2, Host: "localhost", Port: 19093},
			{NodeID: 3, Host: "localhost", Port: 19094}},
		ControllerID: 1,
	})
	if _, err := seed.CreateTopic(ctx, metadata.TopicSpec{Name: c05tTopic, NumPartitions: 2, ReplicationFactor: 1}); err != nil {
		return nil, fmt.Errorf("%w: seed topic: %v", errC19Inconclusive, err)
	}
	meta, err := seed.Metadata(ctx, nil)
	if err != nil {
		return nil, fmt.Errorf("%w: seed metadata: %v", errC19Inconclusive, err)
	}
	w.meta = *meta
	for p := 0; p < nparts; p++ {
		w.parts = append(w.parts, int32(p))
		w.lastOwner[int32(p)] = -1
	}
	for i := range w.b {
		if err := w.start(i); err != nil {
			w.close()
			return nil, err
		}
	}
	return w, nil
}

// c05tHandler builds a broker process: its own EtcdStore on the shared etcd and the real
// handler (newHandler creates the lease manager with the broker's id).
func (w *c05tWorld) newProcess(id int32) (*metadata.EtcdStore, *c05tGate, *handler, error) {
	ctx, cancel := context.WithTimeout(context.Background(), 30*time.Second)
	defer cancel()
	store, err := metadata.NewEtcdStore(ctx, w.meta, metadata.EtcdStoreConfig{Endpoints: w.env.endpoints})
	if err != nil {
		return nil, nil, nil, fmt.Errorf("%w: NewEtcdStore: %v", errC19Inconclusive, err)
	}
	// vfNewHandler fixes the process environment (default segment size, no read-ahead, S3
	// backpressure out of reach) and builds broker 1; other ids go through newHandler directly
	opts := vfHandlerOpts{ReadAhead: 0, NoS3Backpressure: true}
	h := vfNewHandler(store, w.obj, opts)
	if id != 1 {
		h.coordinator.Stop()
		h = newHandler(store, &vfS3{o: w.obj}, protocol.MetadataBroker{NodeID: id, Host: "localhost", Port: 19091 + id}, c19Quiet)
	}
	if h.leaseManager == nil {
		_ = store.Close()
		return nil, nil, nil, fmt.Errorf("newHandler did not create a partition lease manager over an EtcdStore")
	}
	if cli := store.EtcdClient(); cli != nil {
		if _, ok := cli.KV.(*c05tKV); !ok {
			cli.KV = &c05tKV{KV: cli.KV}
		}
	}
	gate := &c05tGate{Store: store}
	h.store = gate
	h.s3 = &c05tS3{vfS3: &vfS3{o: w.obj}, w: w, h: h, id: id}
	return store, gate, h, nil
}

func (w *c05tWorld) start(i int) error {
	store, gate, h, err := w.newProcess(int32(i + 1))
	if err != nil {
		return err
	}
	w.b[i] = &c05tBroker{idx: i, id: int32(i + 1), store: store, gate: gate, s3: h.s3.(*c05tS3), kv: store.EtcdClient().KV.(*c05tKV), h: h, stale: map[int32]bool{}}
	return nil
}

func (b *c05tBroker) stop() {
	b.h.leaseManager.ReleaseAll()
	if b.h.groupLeaseManager != nil {
		b.h.groupLeaseManager.ReleaseAll()
	}
	b.h.coordinator.Stop()
	_ = b.store.Close()
}

func (w *c05tWorld) close() {
	for _, b := range w.b {
		if b == nil {
			continue
		}
		if b.parked != nil {
			close(b.parked.release)
			select {
			case <-b.parked.done:
			case <-time.After(60 * time.Second):
			}
			b.parked = nil
		}
		b.stop()
	}
}

func (b *c05tBroker) cached(p int32) bool {
	b.h.logMu.RLock()
	defer b.h.logMu.RUnlock()
	_, ok := b.h.logs[c05tTopic][p]
	return ok
}

// logNext: next offset of the log the broker holds for p (-1 = no log)
func (b *c05tBroker) logNext(p int32) int64 {
	b.h.logMu.RLock()
	plog, ok := b.h.logs[c05tTopic][p]
	b.h.logMu.RUnlock()
	if !ok {
		return -1
	}
	return plog.BufferedHighWatermark()
}

func (b *c05tBroker) owns(p int32) bool { return b.h.leaseManager.Owns(c05tTopic, p) }

func (w *c05tWorld) storeEnd(p int32) (int64, error) {
	ctx, cancel := context.WithTimeout(context.Background(), 30*time.Second)
	defer cancel()
	resp, err := w.env.admin.Get(ctx, fmt.Sprintf("/kafscale/topics/%s/partitions/%d/next_offset", c05tTopic, p))
	if err != nil {
		return 0, fmt.Errorf("%w: read end offset: %v", errC19Inconclusive, err)
	}
	if len(resp.Kvs) == 0 {
		return 0, nil
	}
	v, err := strconv.ParseInt(strings.TrimSpace(string(resp.Kvs[0].Value)), 10, 64)
	if err != nil {
		return 0, fmt.Errorf("end offset key of partition %d holds %q", p, resp.Kvs[0].Value)
	}
	return v, nil
}

// check05 applies the C05 oracle; label says what just happened.
func (w *c05tWorld) check05(label string) {
	for _, p := range w.parts {
		end, err := w.storeEnd(p)
		if err != nil {
			w.harnessErr = err
			return
		}
		if end < w.lastEnd[p] {
			w.V05 = append(w.V05, fmt.Sprintf("after %s: published end offset of %s/%d went from %d down to %d", label, c05tTopic, p, w.lastEnd[p], end))
		}
		if dur := c01hDurableEnd(w.obj, p); end > dur {
			w.V05 = append(w.V05, fmt.Sprintf("after %s: published end offset of %s/%d is %d but the complete S3 segments end at %d", label, c05tTopic, p, end, dur))
		}
		w.lastEnd[p] = end
	}
}

func c05tListOffsets(h *handler, p int32, ts int64) (int16, int64, error) {
	req := kmsg.NewPtrListOffsetsRequest()
	req.Version = 1
	req.ReplicaID = -1
	rt := kmsg.NewListOffsetsRequestTopic()
	rt.Topic = c05tTopic
	rp := kmsg.NewListOffsetsRequestTopicPartition()
	rp.Partition = p
	rp.Timestamp = ts
	rt.Partitions = append(rt.Partitions, rp)
	req.Topics = append(req.Topics, rt)
	cid := "vf"
	hdr := &protocol.RequestHeader{APIKey: protocol.APIKeyListOffsets, APIVersion: 1, CorrelationID: 11, ClientID: &cid}
	raw, err := h.Handle(context.Background(), hdr, req)
	if err != nil {
		return 0, 0, err
	}
	body, ok := vfSkipRespHeader(raw, false)
	if !ok {
		return 0, 0, fmt.Errorf("vf: cannot skip list-offsets response header")
	}
	resp := kmsg.NewPtrListOffsetsResponse()
	resp.Version = 1
	if err := resp.ReadFrom(body); err != nil {
		return 0, 0, fmt.Errorf("vf: list-offsets response does not decode: %w", err)
	}
	if len(resp.Topics) != 1 || len(resp.Topics[0].Partitions) != 1 {
		return 0, 0, fmt.Errorf("vf: list-offsets response has %d topics", len(resp.Topics))
	}
	return resp.Topics[0].Partitions[0].ErrorCode, resp.Topics[0].Partitions[0].Offset, nil
}

func (w *c05tWorld) request(b *c05tBroker, s c05tStep, stepNo int) c05tResult {
	r := c05tResult{Step: s, EndBefore: w.lastEnd[s.P]}
	if s.Op == "fetch" {
		r.InS3 = w.inS3(s.P, s.Off)
	}
	switch s.Op {
	case "produce":
		r.Raw = c06Batch(fmt.Sprintf("s%d-b%d-p%d", stepNo, b.id, s.P), s.N, 24)
		res, err := vfProduce(b.h, 7, -1, "vf-c05t", []vfProducePart{{Topic: c05tTopic, Partition: s.P, Records: r.Raw}})
		r.Err = err
		if err == nil {
			if len(res) != 1 {
				r.Err = fmt.Errorf("produce response has %d partitions", len(res))
			} else {
				r.Code, r.Base = res[0].ErrorCode, res[0].Base
			}
		}
	case "fetch":
		fr, err := vfFetch(b.h, 11, c05tTopic, s.P, s.Off, 1<<22)
		r.Err, r.Code, r.HW, r.Recs = err, fr.ErrorCode, fr.HighWatermark, fr.Records
	case "list-earliest":
		r.Code, r.Base, r.Err = c05tListOffsets(b.h, s.P, -2)
	case "list-latest":
		r.Code, r.Base, r.Err = c05tListOffsets(b.h, s.P, -1)
	}
	return r
}

// inS3: does a complete (indexed) S3 segment of partition p hold offset off?
func (w *c05tWorld) inS3(p int32, off int64) bool {
	prefix := fmt.Sprintf("default/%s/%d/", c05tTopic, p)
	snap := w.obj.Snapshot()
	for k, v := range snap {
		if !strings.HasPrefix(k, prefix) || !strings.HasSuffix(k, ".kfs") {
			continue
		}
		if _, ok := snap[strings.TrimSuffix(k, ".kfs")+".index"]; !ok {
			continue
		}
		si, err := vfkit.DecodeSegment(v)
		if err != nil {
			continue
		}
		for _, b := range si.Batches {
			if b.BaseOffset <= off && off <= b.BaseOffset+int64(b.LastOffsetDelta) {
				return true
			}
		}
	}
	return false
}

// segmentsWritten: did the ops since opsBefore upload a segment of partition p?
func (w *c05tWorld) segmentsWritten(opsBefore int, p int32) bool {
	prefix := fmt.Sprintf("default/%s/%d/", c05tTopic, p)
	for _, op := range w.obj.Ops[opsBefore:] {
		if op.Kind == "put-segment" && strings.HasPrefix(op.Key, prefix) {
			return true
		}
	}
	return false
}

// finish books a completed request: acknowledgement bookkeeping and the overlap oracle.
func (w *c05tWorld) finish(b *c05tBroker, r c05tResult, stepNo int, cachedBefore bool, late bool) {
	s := r.Step
	tag := ""
	if late {
		tag = "(released) "
	}
	if r.Err != nil {
		// a request failing as a whole is a rejection; nothing was acknowledged
		w.trace = append(w.trace, fmt.Sprintf("%s%s -> error %v", tag, s, r.Err))
		w.fp = append(w.fp, s.Op+":err")
		w.cfg.Class(s.Op + "-request-error")
		return
	}
	switch s.Op {
	case "produce":
		w.trace = append(w.trace, fmt.Sprintf("%s%s -> code %d base %d", tag, s, r.Code, r.Base))
		w.fp = append(w.fp, fmt.Sprintf("%s%d:p%d:%d", s.Op, b.idx, s.P, r.Code))
		if r.Code != 0 {
			if r.Code == protocol.NOT_LEADER_OR_FOLLOWER {
				w.cfg.Class("produce-not-leader")
			} else {
				w.cfg.Class(fmt.Sprintf("produce-code-%d", r.Code))
			}
			return
		}
		w.cfg.Class("produce-acked")
		a := c05tAck{B: b.idx, P: s.P, Base: r.Base, N: s.N, Raw: r.Raw, StepNo: stepNo}
		for _, o := range w.acks {
			if o.P == a.P && a.Base <= o.Base+int64(o.N)-1 && o.Base <= a.Base+int64(a.N)-1 {
				w.VOverlap = append(w.VOverlap, fmt.Sprintf("step %d: broker %d acknowledged a %d-record batch of %s/%d at base offset %d, but offsets %d..%d were already acknowledged by broker %d in step %d",
					stepNo, b.id, a.N, c05tTopic, a.P, a.Base, o.Base, o.Base+int64(o.N)-1, w.b[o.B].id, o.StepNo))
			}
		}
		w.acks = append(w.acks, a)
		if prev := w.lastOwner[s.P]; prev >= 0 && prev != b.idx {
			w.cfg.Class("ownership-moved")
			if cachedBefore {
				// the broker taking over had opened the partition before the move
				w.cfg.Class("takeover-by-broker-that-had-the-partition-open")
				w.nontrivial = true
			} else {
				w.cfg.Class("takeover-cold")
			}
		}
		w.lastOwner[s.P] = b.idx
		b.stale[s.P] = false
	case "fetch":
		w.trace = append(w.trace, fmt.Sprintf("%s%s -> code %d hw %d %d bytes", tag, s, r.Code, r.HW, len(r.Recs)))
		w.fp = append(w.fp, fmt.Sprintf("%s%d:p%d:%d", s.Op, b.idx, s.P, r.Code))
		switch {
		case r.Code != 0:
			w.cfg.Class(fmt.Sprintf("fetch-code-%d", r.Code))
		case len(r.Recs) > 0:
			w.cfg.Class("fetch-data")
		default:
			w.cfg.Class("fetch-empty")
		}
		if !b.owns(s.P) {
			w.cfg.Class("fetch-via-non-owner")
		}
		// C04 is about reading what is stored: offsets that no complete segment holds (lost by
		// another defect, e.g. a segment overwritten by a shorter one) are not its business
		if s.Off < r.EndBefore && r.InS3 && (r.Code == protocol.OFFSET_OUT_OF_RANGE || (r.Code == 0 && len(r.Recs) == 0)) {
			w.V04 = append(w.V04, fmt.Sprintf("step %d: broker %d answered fetch(%s/%d, offset %d) with code %d and %d bytes although the published end offset was already %d (owner of the partition: %v)",
				stepNo, b.id, c05tTopic, s.P, s.Off, r.Code, len(r.Recs), r.EndBefore, b.owns(s.P)))
		}
	default:
		w.trace = append(w.trace, fmt.Sprintf("%s%s -> code %d offset %d", tag, s, r.Code, r.Base))
		w.fp = append(w.fp, fmt.Sprintf("%s%d:p%d:%d", s.Op, b.idx, s.P, r.Code))
		w.cfg.Class(s.Op)
	}
}

// releaseHold lets broker b's held UpdateOffsets go and waits for the request to finish.
func (w *c05tWorld) releaseHold(b *c05tBroker, why string) {
	pk := b.parked
	if pk == nil {
		return
	}
	b.parked = nil
	close(pk.release)
	var r c05tResult
	select {
	case r = <-pk.done:
	case <-time.After(120 * time.Second):
		w.harnessErr = fmt.Errorf("%w: request %s did not finish after its held write was released", errC19Inconclusive, pk.Step)
		return
	}
	if pk.List {
		w.trace = append(w.trace, fmt.Sprintf("[b%d's stalled S3 listing (open of p%d) goes on: %s]", b.id, pk.Held.P, why))
	} else if pk.Upload {
		w.trace = append(w.trace, fmt.Sprintf("[b%d's stalled segment upload (p%d) lands: %s]", b.id, pk.Held.P, why))
	} else {
		w.trace = append(w.trace, fmt.Sprintf("[b%d's held UpdateOffsets(p%d,last=%d) lands: %s]", b.id, pk.Held.P, pk.Held.Last, why))
	}
	if pk.peerWrote {
		w.cfg.Class("held-write-lands-after-the-other-broker-wrote")
		w.nontrivial = true
	}
	w.finish(b, r, pk.StepNo, pk.Cached, true)
	if pk.Upload {
		w.check05(fmt.Sprintf("the stalled segment upload (p%d) of broker %d landed", pk.Held.P, b.id))
	} else {
		w.check05(fmt.Sprintf("the held UpdateOffsets(p%d,last=%d) of broker %d landed", pk.Held.P, pk.Held.Last, b.id))
	}
}

func (w *c05tWorld) restart(b *c05tBroker) error {
	w.releaseHold(b, "process drains before it exits")
	b.stop()
	if err := w.start(b.idx); err != nil {
		return err
	}
	w.trace = append(w.trace, fmt.Sprintf("[b%d restarted]", b.id))
	w.cfg.Class("broker-restarted")
	return nil
}

// expire ends broker b's etcd session (lease revoked on the server, keep-alive stream ended)
// and waits until the lease manager has let go of it.
func (w *c05tWorld) expire(b *c05tBroker) (bool, error) {
	in, err := c19Peek(b.h.leaseManager)
	if err != nil {
		return false, err
	}
	sess := in.session()
	if sess == nil {
		return false, nil
	}
	ctx, cancel := context.WithTimeout(context.Background(), 30*time.Second)
	_, err = w.env.admin.Revoke(ctx, sess.Lease())
	cancel()
	sess.Orphan()
	if err != nil && !strings.Contains(err.Error(), "lease not found") {
		return false, fmt.Errorf("%w: revoke: %v", errC19Inconclusive, err)
	}
	deadline := time.Now().Add(30 * time.Second)
	for in.session() == sess {
		if time.Now().After(deadline) {
			return false, fmt.Errorf("%w: lease manager of broker %d did not notice its ended session", errC19Inconclusive, b.id)
		}
		time.Sleep(50 * time.Microsecond)
	}
	return true, nil
}

func (w *c05tWorld) violated() bool {
	switch w.cfg.Focus {
	case "C05":
		return len(w.V05) > 0
	case "C06":
		return len(w.VOverlap)+len(w.VRead) > 0
	case "C02":
		return len(w.VOverlap)+len(w.VRead)+len(w.VGap) > 0
	case "C04":
		return len(w.V04) > 0
	case "C19":
		w.vmu.Lock()
		defer w.vmu.Unlock()
		return len(w.V19) > 0
	}
	return len(w.V05)+len(w.VOverlap)+len(w.VRead)+len(w.VGap) > 0
}

// run executes the history and the final read-back.
func (w *c05tWorld) run(steps []c05tStep) {
	w.check05("start")
	for k, s := range steps {
		if w.harnessErr != nil || w.violated() {
			break
		}
		for _, b := range w.b {
			if b.parked != nil && b.parked.Until <= k {
				w.releaseHold(b, "hold over")
			}
		}
		if w.harnessErr != nil || w.violated() {
			break
		}
		if int(s.P) >= len(w.parts) {
			s.P = w.parts[len(w.parts)-1]
		}
		if s.Who != "" {
			o := 0
			if lo := w.lastOwner[s.P]; lo >= 0 {
				o = lo
			}
			for _, x := range w.b {
				if x.owns(s.P) {
					o = x.idx
				}
			}
			if s.Who == "other" {
				o = 1 - o
			}
			s.B, s.Who = o, ""
		}
		switch s.Op {
		case "release", "shutdown", "expire":
			b := w.b[s.B]
			if s.Op == "release" {
				b = nil
				for _, x := range w.b {
					if x.owns(s.P) {
						b = x
					}
				}
				if b == nil {
					w.cfg.Class("release-without-owner")
					w.fp = append(w.fp, "release:none")
					continue
				}
			}
			if b.parked != nil && b.parked.Upload && (s.Op != "release" || b.parked.Held.P == s.P) {
				// the broker gives the lease away while one of its produce requests is uploading
				if w.cfg.Focus == "C19" && w.cfg.ExR2 {
					w.cfg.Excluded(c05tR2ID("C19"))
					w.releaseHold(b, "before the broker's lease moves")
					if w.harnessErr != nil || w.violated() {
						continue
					}
				} else {
					w.cfg.Class("lease-moves-while-segment-upload-is-stalled")
				}
			} else if b.parked != nil && (s.Op != "release" || b.parked.Held.P == s.P) {
				// the broker loses the lease while one of its requests waits for its end-offset write
				if w.cfg.ExD3 {
					w.cfg.Excluded(c05tD3)
					w.releaseHold(b, "before the broker's lease moves")
					if w.harnessErr != nil || w.violated() {
						continue
					}
				} else {
					w.cfg.Class("lease-moves-while-end-offset-write-is-held")
				}
			}
			switch s.Op {
			case "release":
				b.h.leaseManager.Release(c05tTopic, s.P)
				w.trace = append(w.trace, fmt.Sprintf("b%d.release(p%d)", b.id, s.P))
				w.cfg.Class("move-release")
			case "shutdown":
				if b.down {
					w.cfg.Class("shutdown-while-down")
					continue
				}
				b.h.leaseManager.ReleaseAll()
				b.down = true
				w.trace = append(w.trace, fmt.Sprintf("b%d.shutdown(ReleaseAll)", b.id))
				w.cfg.Class("move-shutdown")
			case "expire":
				did, err := w.expire(b)
				if err != nil {
					w.harnessErr = err
					continue
				}
				if !did {
					w.cfg.Class("expire-without-session")
					w.fp = append(w.fp, "expire:none")
					continue
				}
				w.trace = append(w.trace, fmt.Sprintf("b%d.session-expired", b.id))
				w.cfg.Class("move-expire")
			}
			w.fp = append(w.fp, fmt.Sprintf("%s%d:p%d", s.Op, b.idx, s.P))
			w.check05(s.String())
			continue
		}
		b := w.b[s.B]
		peer := w.b[1-s.B]
		if b.down {
			if err := w.restart(b); err != nil {
				w.harnessErr = err
				break
			}
			b = w.b[s.B]
		}
		reopenRace := false
		if b.parked != nil && b.parked.Step.P == s.P && b.parked.Upload && s.Op == "produce" && !b.owns(s.P) && !peer.owns(s.P) {
			// finding r1: the broker lost the lease while its upload is stalled; this produce
			// re-acquires it and (on a tree that reopens the log per ownership period) does not wait
			if w.cfg.ExR1 {
				w.cfg.Excluded(c05tR1ID(w.cfg.Focus))
			} else {
				reopenRace = true
				w.cfg.Class("produce-reacquires-while-own-upload-is-stalled")
			}
		}
		joinOpen := b.parked != nil && b.parked.List && b.parked.Step.P == s.P && s.Op == "produce"
		if joinOpen {
			// the produce acquires the lease and then waits for the partition open that is in flight
			w.cfg.Class("produce-joins-an-open-whose-listing-is-stalled")
		}
		if b.parked != nil && (b.parked.Held.P == s.P || b.parked.Step.P == s.P) && !reopenRace && !joinOpen {
			w.releaseHold(b, "the broker's next request on the partition would wait for it")
			if w.harnessErr != nil || w.violated() {
				break
			}
		}
		if s.Op == "produce" && peer.parked != nil && peer.parked.Upload && peer.parked.Step.P == s.P && !peer.owns(s.P) {
			// finding r2: the other broker's upload is stalled and it no longer holds the lease
			if w.cfg.ExR2 && w.cfg.Focus != "C19" {
				w.cfg.Excluded(c05tR2ID(w.cfg.Focus))
				w.releaseHold(peer, "before the new owner's produce")
				if w.harnessErr != nil || w.violated() {
					break
				}
			} else {
				w.cfg.Class("produce-by-new-owner-while-old-owners-upload-is-stalled")
				w.nontrivial = true
			}
		}
		if b.parked != nil {
			s.Hold, s.Up, s.Ls = 0, 0, 0 // one held call per broker
		}
		if b.parked != nil {
			s.Tx = 0
		}
		if s.Ls > 0 {
			s.Hold, s.Up, s.Tx = 0, 0, 0
		}
		if s.Up > 0 {
			s.Tx = 0
		}
		if s.Tx > 0 {
			s.Hold = 0
		}
		if s.Op != "produce" {
			s.Up = 0
		}
		if s.Up > 0 {
			s.Hold = 0
		}
		cachedBefore := b.cached(s.P)
		if s.Op == "fetch" && cachedBefore && s.Off < w.lastEnd[s.P] && s.Off >= b.logNext(s.P) && w.inS3(s.P, s.Off) {
			// finding r3: the broker's log ends below the published end offset
			if w.cfg.ExR3 {
				w.cfg.Excluded(c05tR3)
				w.fp = append(w.fp, "x3")
				continue
			}
			w.cfg.Class("fetch-below-high-watermark-via-broker-with-old-log")
		}
		if s.Op == "produce" && cachedBefore && b.stale[s.P] && !peer.owns(s.P) {
			// finding d1: the broker would append through a log that predates the other broker's segments
			if w.cfg.ExD1 {
				w.cfg.Excluded(c05tD1ID(w.cfg.Focus))
				w.fp = append(w.fp, "x1")
				continue
			}
			w.cfg.Class("produce-through-log-older-than-the-other-brokers-segments")
		}
		if s.Hold > 0 && (s.Op == "fetch" || s.Op == "list-earliest") && !cachedBefore {
			// finding d2: the "sync from S3" write of a non-owner opening the partition is held
			if w.cfg.ExD2 {
				w.cfg.Excluded(c05tD2)
				s.Hold = 0
			} else {
				w.cfg.Class("open-by-non-owner-with-held-sync")
			}
		}
		opsBefore := w.obj.OpCount()
		var r c05tResult
		parkedNow := false
		if joinOpen {
			done := make(chan c05tResult, 1)
			go func(b *c05tBroker, s c05tStep, k int) { done <- w.request(b, s, k) }(b, s, k)
			finished := false
			deadline := time.Now().Add(5 * time.Second)
			for !finished && !b.owns(s.P) && time.Now().Before(deadline) {
				select {
				case r = <-done:
					finished = true
				case <-time.After(200 * time.Microsecond):
				}
			}
			if !finished {
				// lease acquired (or nothing happens): the open goes on, the produce follows
				w.nontrivial = true
				w.releaseHold(b, "a produce of the broker has acquired the lease and waits for the open")
				select {
				case r = <-done:
				case <-time.After(120 * time.Second):
					w.harnessErr = fmt.Errorf("%w: request %s did not finish", errC19Inconclusive, s)
				}
			}
			if w.harnessErr != nil {
				break
			}
		} else if s.Ls > 0 {
			pc, rc := b.s3.armList()
			done := make(chan c05tResult, 1)
			go func(b *c05tBroker, s c05tStep, k int) { done <- w.request(b, s, k) }(b, s, k)
			select {
			case r = <-done:
				b.s3.disarm()
				w.cfg.Class("listing-stall-armed-but-no-open-in-request")
			case held := <-pc:
				parkedNow = true
				b.parked = &c05tParked{Step: s, StepNo: k, Cached: cachedBefore, Until: k + 1 + s.Ls, Held: held, List: true, done: done, release: rc}
				w.cfg.Class("open-stalled-at-s3-listing-" + map[bool]string{true: "owner", false: "non-owner"}[b.owns(s.P)])
				w.trace = append(w.trace, fmt.Sprintf("%s -> partition open stalled at the S3 listing", s))
				w.fp = append(w.fp, fmt.Sprintf("%s%d:p%d:liststalled", s.Op, b.idx, s.P))
			case <-time.After(120 * time.Second):
				w.harnessErr = fmt.Errorf("%w: request %s neither finished nor reached the listing", errC19Inconclusive, s)
			}
			if w.harnessErr != nil {
				break
			}
		} else if reopenRace {
			// runs next to the stalled request; if it waits for it (a tree that fences the old log),
			// the stalled upload is let go after a grace period - any order is a legal schedule
			done := make(chan c05tResult, 1)
			go func(b *c05tBroker, s c05tStep, k int) { done <- w.request(b, s, k) }(b, s, k)
			select {
			case r = <-done:
				w.nontrivial = true
			case <-time.After(500 * time.Millisecond):
				w.cfg.Class("produce-waited-for-the-stalled-upload")
				w.releaseHold(b, "the broker's next produce waits for it")
				select {
				case r = <-done:
				case <-time.After(120 * time.Second):
					w.harnessErr = fmt.Errorf("%w: request %s did not finish", errC19Inconclusive, s)
				}
			}
			if w.harnessErr != nil {
				break
			}
		} else if s.Up > 0 {
			pc, rc := b.s3.arm()
			done := make(chan c05tResult, 1)
			go func(b *c05tBroker, s c05tStep, k int) { done <- w.request(b, s, k) }(b, s, k)
			select {
			case r = <-done:
				b.s3.disarm()
				w.cfg.Class("stall-armed-but-no-upload-in-request")
			case held := <-pc:
				parkedNow = true
				b.parked = &c05tParked{Step: s, StepNo: k, Cached: cachedBefore, Until: k + 1 + s.Up, Held: held, Upload: true, done: done, release: rc}
				w.cfg.Class("segment-upload-stalled")
				w.trace = append(w.trace, fmt.Sprintf("%s -> segment upload stalled", s))
				w.fp = append(w.fp, fmt.Sprintf("%s%d:p%d:stalled", s.Op, b.idx, s.P))
			case <-time.After(120 * time.Second):
				w.harnessErr = fmt.Errorf("%w: request %s neither finished nor reached the upload", errC19Inconclusive, s)
			}
			if w.harnessErr != nil {
				break
			}
		} else if s.Hold > 0 || s.Tx > 0 {
			pc, rc := b.gate.arm()
			if s.Tx > 0 {
				pc, rc = b.kv.arm()
				b.gate.disarm()
			}
			done := make(chan c05tResult, 1)
			go func(b *c05tBroker, s c05tStep, k int) { done <- w.request(b, s, k) }(b, s, k)
			select {
			case r = <-done:
				b.gate.disarm()
				b.kv.disarm()
				w.cfg.Class("hold-armed-but-no-UpdateOffsets-in-request")
			case held := <-pc:
				parkedNow = true
				// the sync of getPartitionLog comes before the request uploads anything
				b.parked = &c05tParked{Step: s, StepNo: k, Cached: cachedBefore, Until: k + 1 + s.Hold + s.Tx, Held: held, OpenSync: !cachedBefore && !w.segmentsWritten(opsBefore, s.P), done: done, release: rc}
				if b.parked.OpenSync {
					w.cfg.Class("held-write-is-open-sync-" + map[bool]string{true: "of-owner", false: "of-non-owner"}[b.owns(held.P)])
				} else {
					w.cfg.Class("held-write-is-flush-publish")
				}
				w.trace = append(w.trace, fmt.Sprintf("%s -> parked at UpdateOffsets(p%d,last=%d)", s, held.P, held.Last))
				w.fp = append(w.fp, fmt.Sprintf("%s%d:p%d:parked", s.Op, b.idx, s.P))
			case <-time.After(120 * time.Second):
				w.harnessErr = fmt.Errorf("%w: request %s neither finished nor reached the gate", errC19Inconclusive, s)
			}
			if w.harnessErr != nil {
				break
			}
		} else {
			r = w.request(b, s, k)
		}
		if w.segmentsWritten(opsBefore, s.P) {
			// whatever log the other broker holds (or is building) for this partition is now behind
			if peer.cached(s.P) || (peer.parked != nil && peer.parked.Step.P == s.P) {
				peer.stale[s.P] = true
			}
			if peer.parked != nil && peer.parked.Held.P == s.P {
				peer.parked.peerWrote = true
			}
		}
		if !parkedNow {
			w.finish(b, r, k, cachedBefore, false)
		}
		w.check05(s.String())
	}
	for _, b := range w.b {
		if w.harnessErr == nil {
			w.releaseHold(b, "end of the history")
		}
	}
	if w.harnessErr != nil || w.violated() {
		return
	}
	// final: a fresh broker must serve every acknowledged batch byte-for-byte at its base offset
	store3, _, h3, err := w.newProcess(3)
	if err != nil {
		w.harnessErr = err
		return
	}
	defer func() {
		h3.leaseManager.ReleaseAll()
		h3.coordinator.Stop()
		_ = store3.Close()
	}()
	for _, a := range w.acks {
		fr, err := vfFetch(h3, 11, c05tTopic, a.P, a.Base, 1<<22)
		for try := 0; try < 3 && (err != nil || fr.ErrorCode != 0); try++ {
			// a busy machine can time out an etcd read; a real loss fails every time
			fr, err = vfFetch(h3, 11, c05tTopic, a.P, a.Base, 1<<22)
		}
		if err != nil || fr.ErrorCode != 0 {
			w.VRead = append(w.VRead, fmt.Sprintf("fresh broker: fetch(%s/%d, offset %d) for the batch broker %d acknowledged in step %d failed: err=%v code=%d hw=%d",
				c05tTopic, a.P, a.Base, w.b[a.B].id, a.StepNo, err, fr.ErrorCode, fr.HighWatermark))
			continue
		}
		bs, _ := vfkit.DecodeBatchesLenient(fr.Records)
		found := false
		for _, bt := range bs {
			if bt.BaseOffset == a.Base && bytes.Equal(bt.Raw[8:], a.Raw[8:]) {
				found = true
			}
		}
		if !found {
			w.VRead = append(w.VRead, fmt.Sprintf("fresh broker: fetch(%s/%d, offset %d) does not return the batch broker %d acknowledged at that base offset in step %d (%d batches returned)",
				c05tTopic, a.P, a.Base, w.b[a.B].id, a.StepNo, len(bs)))
		}
	}
	// C02: successive acknowledged batches leave no gaps (no request was lost or failed half-way:
	// the history has no faults, and every held request was completed)
	for _, p := range w.parts {
		var as []c05tAck
		for _, a := range w.acks {
			if a.P == p {
				as = append(as, a)
			}
		}
		sort.Slice(as, func(i, j int) bool { return as[i].Base < as[j].Base })
		next := int64(0)
		for _, a := range as {
			if a.Base > next {
				w.VGap = append(w.VGap, fmt.Sprintf("%s/%d: acknowledged batches leave offsets %d..%d unassigned (next acknowledged base %d, broker %d, step %d)", c05tTopic, p, next, a.Base-1, a.Base, w.b[a.B].id, a.StepNo))
			}
			if e := a.Base + int64(a.N); e > next {
				next = e
			}
		}
	}
	w.check05("the final read-back")
}

func c05tDrawSteps(rt *rapid.T) (int, []c05tStep) {
	nparts := rapid.IntRange(1, 2).Draw(rt, "partitions")
	n := rapid.IntRange(4, 14).Draw(rt, "steps")
	steps := make([]c05tStep, 0, n)
	who := func(s *c05tStep, choices []string) {
		switch rapid.SampledFrom(choices).Draw(rt, "who") {
		case "b1":
			s.B = 0
		case "b2":
			s.B = 1
		case "owner":
			s.Who = "owner"
		default:
			s.Who = "other"
		}
	}
	hold := func(s *c05tStep) {
		if rapid.IntRange(0, 3).Draw(rt, "holdThis") == 0 {
			s.Hold = rapid.IntRange(1, 4).Draw(rt, "holdSteps")
			if rapid.IntRange(0, 2).Draw(rt, "holdAtTxn") == 0 {
				s.Hold, s.Tx = 0, s.Hold
			}
		}
	}
	stallList := func(s *c05tStep) {
		if s.Hold == 0 && s.Up == 0 && s.Tx == 0 && rapid.IntRange(0, 5).Draw(rt, "stallListing") == 0 {
			s.Ls = rapid.IntRange(1, 4).Draw(rt, "listSteps")
		}
	}
	touch := func(p int32) c05tStep {
		s := c05tStep{Op: rapid.SampledFrom([]string{"fetch", "fetch", "list-earliest"}).Draw(rt, "touch"), P: p}
		if s.Op == "fetch" {
			s.Off = int64(rapid.IntRange(0, 8).Draw(rt, "offset"))
		}
		return s
	}
	for len(steps) < n {
		op := rapid.SampledFrom([]string{"produce", "produce", "produce", "produce", "produce", "produce", "fetch", "fetch", "list-earliest", "list-latest",
			"release", "shutdown", "expire", "handover", "handover", "overtake", "stall", "reader", "joinopen"}).Draw(rt, "op")
		p := int32(rapid.IntRange(0, nparts-1).Draw(rt, "partition"))
		if op == "joinopen" && len(steps)+4 > n {
			op = "handover"
		}
		if (op == "handover" || op == "overtake" || op == "stall" || op == "reader") && len(steps)+3 > n {
			op = "produce"
		}
		switch op {
		case "joinopen":
			// the other broker starts opening the partition for a read and its S3 listing is slow;
			// the owner goes on, then gives the lease up; the next produce reaches the other broker
			// while its open is still in flight
			t := touch(p)
			t.Who, t.Ls = "other", rapid.IntRange(3, 4).Draw(rt, "listSteps")
			pr1 := c05tStep{Op: "produce", P: p, Who: "owner", N: rapid.IntRange(1, 3).Draw(rt, "records")}
			mv := c05tStep{Op: rapid.SampledFrom([]string{"release", "shutdown", "expire"}).Draw(rt, "move"), P: p, Who: "owner"}
			pr2 := c05tStep{Op: "produce", P: p, Who: "other", N: rapid.IntRange(1, 3).Draw(rt, "records")}
			steps = append(steps, t, pr1, mv, pr2)
		case "reader":
			// a consumer stays connected to the broker that does not own the partition
			f1 := c05tStep{Op: "fetch", P: p, Who: "other", Off: int64(rapid.IntRange(0, 3).Draw(rt, "offset"))}
			pr := c05tStep{Op: "produce", P: p, Who: "owner", N: rapid.IntRange(1, 3).Draw(rt, "records")}
			f2 := c05tStep{Op: "fetch", P: p, Who: "other", Off: int64(rapid.IntRange(0, 3).Draw(rt, "offset"))}
			steps = append(steps, f1, pr, f2)
		case "stall":
			// the owner's segment upload is slow, it loses or gives up the lease meanwhile, the next
			// produce reaches the same broker or the other one
			a := c05tStep{Op: "produce", P: p, Who: "owner", N: rapid.IntRange(1, 3).Draw(rt, "records"), Up: rapid.IntRange(2, 4).Draw(rt, "stallSteps")}
			mv := c05tStep{Op: rapid.SampledFrom([]string{"expire", "expire", "release", "shutdown"}).Draw(rt, "move"), P: p, Who: "owner"}
			pr := c05tStep{Op: "produce", P: p, N: rapid.IntRange(1, 3).Draw(rt, "records")}
			who(&pr, []string{"b1", "b2"})
			steps = append(steps, a, mv, pr)
		case "overtake":
			// the owner's end-offset write is slow, the other broker looks at the partition (its
			// own write may be slow too), the owner goes on producing
			a := c05tStep{Op: "produce", P: p, Who: "owner", N: rapid.IntRange(1, 3).Draw(rt, "records"), Hold: rapid.IntRange(1, 2).Draw(rt, "holdSteps")}
			t := touch(p)
			t.Who = "other"
			if rapid.IntRange(0, 3).Draw(rt, "holdTouch") > 0 {
				t.Hold = rapid.IntRange(2, 4).Draw(rt, "holdSteps")
			}
			b := c05tStep{Op: "produce", P: p, Who: "owner", N: rapid.IntRange(1, 3).Draw(rt, "records")}
			steps = append(steps, a, t, b)
		case "handover":
			// the other broker looks at the partition, the owner loses or gives up the lease, the
			// next produce goes to the other broker
			t := touch(p)
			t.Who = "other"
			hold(&t)
			mv := c05tStep{Op: rapid.SampledFrom([]string{"release", "shutdown", "expire"}).Draw(rt, "move"), P: p, Who: "owner"}
			pr := c05tStep{Op: "produce", P: p, Who: "other", N: rapid.IntRange(1, 3).Draw(rt, "records")}
			hold(&pr)
			steps = append(steps, t, mv, pr)
		case "produce":
			s := c05tStep{Op: op, P: p, N: rapid.IntRange(1, 3).Draw(rt, "records")}
			who(&s, []string{"b1", "b2", "owner", "owner", "other"})
			hold(&s)
			if s.Hold == 0 && rapid.IntRange(0, 5).Draw(rt, "stallThis") == 0 {
				s.Up = rapid.IntRange(1, 4).Draw(rt, "stallSteps")
			}
			steps = append(steps, s)
		case "fetch", "list-earliest", "list-latest":
			s := c05tStep{Op: op, P: p}
			if op == "fetch" {
				s.Off = int64(rapid.IntRange(0, 8).Draw(rt, "offset"))
			}
			who(&s, []string{"b1", "b2", "owner", "other", "other"})
			if op != "list-latest" {
				hold(&s)
				stallList(&s)
			}
			steps = append(steps, s)
		default:
			s := c05tStep{Op: op, P: p}
			who(&s, []string{"b1", "b2", "owner", "owner", "owner"})
			steps = append(steps, s)
		}
	}
	return nparts, steps
}

func c05tFail(rt interface{ Fatalf(string, ...any) }, w *c05tWorld, focus string) {
	if w.harnessErr != nil {
		fmt.Println("VF-INCONCLUSIVE:", w.harnessErr)
		rt.Fatalf("inconclusive: %v\ntrace: %v", w.harnessErr, w.trace)
	}
	tr := strings.Join(w.trace, "\n  ")
	switch focus {
	case "C05":
		if len(w.V05) > 0 {
			rt.Fatalf("C05 violated (two brokers): %s\nhistory:\n  %s", strings.Join(w.V05, "\n"), tr)
		}
	case "C06":
		if v := append(append([]string{}, w.VOverlap...), w.VRead...); len(v) > 0 {
			rt.Fatalf("C06 violated (two brokers, ownership move): %s\nhistory:\n  %s", strings.Join(v, "\n"), tr)
		}
	case "C02":
		if v := append(append(append([]string{}, w.VOverlap...), w.VGap...), w.VRead...); len(v) > 0 {
			rt.Fatalf("C02 violated (two brokers, ownership move): %s\nhistory:\n  %s", strings.Join(v, "\n"), tr)
		}
	case "C04":
		if len(w.V04) > 0 {
			rt.Fatalf("C04 violated (two brokers): %s\nhistory:\n  %s", strings.Join(w.V04, "\n"), tr)
		}
	case "C19":
		if len(w.V19) > 0 {
			rt.Fatalf("C19 violated (two brokers): %s\nhistory:\n  %s", strings.Join(w.V19, "\n"), tr)
		}
	}
}

func c05tCheck(t *testing.T, focus string) {
	st := vfkit.NewStats(focus, "twobrokers")
	defer st.Flush()
	env := c19NewEnv(t)
	cfg := c05tCfg{Focus: focus, ExD1: vfkit.Known(c05tD1ID(focus)), Excluded: st.ExcludedCase, Class: st.Class}
	switch focus {
	case "C05":
		// the end-offset findings break the C05 oracle only
		cfg.ExD2, cfg.ExD3 = vfkit.Known(c05tD2), vfkit.Known(c05tD3)
		// an overwritten segment can be shorter than the one the end offset was published for
		cfg.ExR1, cfg.ExR2 = vfkit.Known(c05tR1ID(focus)), vfkit.Known(c05tR2ID(focus))
	case "C02", "C06":
		cfg.ExR1, cfg.ExR2 = vfkit.Known(c05tR1ID(focus)), vfkit.Known(c05tR2ID(focus))
	case "C19":
		cfg.ExR2 = vfkit.Known(c05tR2ID(focus))
	case "C04":
		cfg.ExR3 = vfkit.Known(c05tR3)
	}
	rapid.Check(t, func(rt *rapid.T) {
		nparts, steps := c05tDrawSteps(rt)
		st.Eval()
		w, err := c05tNewWorld(env, nparts, cfg)
		if err != nil {
			fmt.Println("VF-INCONCLUSIVE:", err)
			rt.Fatalf("inconclusive: %v", err)
		}
		defer w.close()
		w.run(steps)
		if w.nontrivial {
			st.Class("nontrivial")
			if st.NonTrivial(nparts, strings.Join(w.fp, " ")) {
				st.Sample(map[string]any{"partitions": nparts, "steps": steps, "history": w.trace, "acks": len(w.acks)})
			}
		}
		c05tFail(rt, w, focus)
	})
}

func TestVF_C05_TwoBrokers(t *testing.T) { c05tCheck(t, "C05") }
func TestVF_C06_TwoBrokers(t *testing.T) { c05tCheck(t, "C06") }
func TestVF_C02_TwoBrokers(t *testing.T) { c05tCheck(t, "C02") }
func TestVF_C04_TwoBrokers(t *testing.T) { c05tCheck(t, "C04") }
func TestVF_C19_TwoBrokers(t *testing.T) { c05tCheck(t, "C19") }

// minimal histories of the listed findings, replayed through the same engine and oracles
var (
	// d1: broker 2 opens the (empty) partition for a fetch; broker 1 acknowledges two batches and
	// shuts down; the next produce reaches broker 2, which appends through the log it opened first
	c05tWitnessD1 = []c05tStep{{Op: "fetch", B: 1, P: 0, Off: 0}, {Op: "produce", B: 0, P: 0, N: 1}, {Op: "produce", B: 0, P: 0, N: 1},
		{Op: "shutdown", B: 0}, {Op: "produce", B: 1, P: 0, N: 1}}
	// d2: broker 1's publish of offset 0 is slow (segment already in S3); broker 2 opens the
	// partition for a fetch, sees S3 ahead of the store and syncs "last = 0", slowly; broker 1's
	// publish lands, it acknowledges offset 1 (end 2); then broker 2's sync lands: end 1
	c05tWitnessD2 = []c05tStep{{Op: "produce", B: 0, P: 0, N: 1, Hold: 1}, {Op: "fetch", B: 1, P: 0, Off: 0, Hold: 3}, {Op: "produce", B: 0, P: 0, N: 1},
		{Op: "list-latest", B: 0, P: 0}}
	// d3: broker 1's publish of offset 0 is slow; it shuts down (leases are released while
	// in-flight requests drain); broker 2 takes over and acknowledges offset 1 (end 2); broker 1's
	// publish lands: end 1
	// r1: broker 1 acknowledges offset 0; its next produce (offset 1) is uploading slowly; its
	// session expires; the next produce re-acquires the lease and opens a new log at end offset 1
	c05tWitnessR1 = []c05tStep{{Op: "produce", B: 0, P: 0, N: 1}, {Op: "produce", B: 0, P: 0, N: 1, Up: 3}, {Op: "expire", B: 0}, {Op: "produce", B: 0, P: 0, N: 2},
		{Op: "list-latest", B: 0, P: 0}}
	// r2: broker 1's produce is uploading slowly; it shuts down (ReleaseAll before the in-flight
	// requests are drained); broker 2 takes over and acknowledges offset 0; broker 1's upload lands
	c05tWitnessR2 = []c05tStep{{Op: "produce", B: 0, P: 0, N: 1, Up: 3}, {Op: "shutdown", B: 0}, {Op: "produce", B: 1, P: 0, N: 2}, {Op: "list-latest", B: 1, P: 0}}
	// r3: broker 2 opens the empty partition; broker 1 acknowledges offsets 0 and 1; broker 2 is
	// asked for offset 0 again
	c05tWitnessR3 = []c05tStep{{Op: "fetch", B: 1, P: 0, Off: 0}, {Op: "produce", B: 0, P: 0, N: 1}, {Op: "produce", B: 0, P: 0, N: 1}, {Op: "fetch", B: 1, P: 0, Off: 0}}
	c05tWitnessD3 = []c05tStep{{Op: "produce", B: 0, P: 0, N: 1, Hold: 3}, {Op: "shutdown", B: 0}, {Op: "produce", B: 1, P: 0, N: 1},
		{Op: "list-latest", B: 1, P: 0}}
)

func c05tWitness(t *testing.T, focus string) {
	st := vfkit.NewStats(focus, "twobrokers-witness")
	defer st.Flush()
	env := c19NewEnv(t)
	type wit struct {
		id    string
		steps []c05tStep
	}
	var wits []wit
	switch focus {
	case "C05":
		wits = []wit{{c05tD1ID(focus), c05tWitnessD1}, {c05tD2, c05tWitnessD2}, {c05tD3, c05tWitnessD3}, {c05tR1ID(focus), c05tWitnessR1}, {c05tR2ID(focus), c05tWitnessR2}}
	case "C02", "C06":
		wits = []wit{{c05tD1ID(focus), c05tWitnessD1}, {c05tR1ID(focus), c05tWitnessR1}, {c05tR2ID(focus), c05tWitnessR2}}
	case "C19":
		wits = []wit{{c05tR2ID(focus), c05tWitnessR2}}
	case "C04":
		wits = []wit{{c05tR3, c05tWitnessR3}}
	}
	for _, wt := range wits {
		st.Eval()
		w, err := c05tNewWorld(env, 1, c05tCfg{Focus: focus, Excluded: func(string) {}, Class: st.Class})
		if err != nil {
			fmt.Println("VF-INCONCLUSIVE:", err)
			t.Fatalf("inconclusive: %v", err)
		}
		w.run(wt.steps)
		w.close()
		if w.harnessErr != nil {
			fmt.Println("VF-INCONCLUSIVE:", w.harnessErr)
			t.Fatalf("inconclusive: %v", w.harnessErr)
		}
		var v []string
		switch focus {
		case "C05":
			v = w.V05
		case "C06":
			v = append(append(v, w.VOverlap...), w.VRead...)
		case "C04":
			v = w.V04
		case "C19":
			v = w.V19
		default:
			v = append(append(append(v, w.VOverlap...), w.VGap...), w.VRead...)
		}
		what := "history " + fmt.Sprint(wt.steps) + " no longer fails"
		if len(v) > 0 {
			what = strings.Join(v, "; ") + " | history: " + strings.Join(w.trace, " ; ")
			st.NonTrivial(wt.id)
			st.Sample(map[string]any{"finding": wt.id, "history": w.trace, "violation": v})
		}
		st.KnownResult(wt.id, len(v) > 0, what)
	}
}

func TestVF_C05_TwoBrokersWitness(t *testing.T) { c05tWitness(t, "C05") }
func TestVF_C06_TwoBrokersWitness(t *testing.T) { c05tWitness(t, "C06") }
func TestVF_C02_TwoBrokersWitness(t *testing.T) { c05tWitness(t, "C02") }
func TestVF_C04_TwoBrokersWitness(t *testing.T) { c05tWitness(t, "C04") }
func TestVF_C19_TwoBrokersWitness(t *testing.T) { c05tWitness(t, "C19") }
