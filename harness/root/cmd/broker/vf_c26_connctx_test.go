//go:build verif

package main

// C26, leg "connctx": the broker's own use of the PROXY parser. buildConnContextFunc (with
// KAFSCALE_PROXY_PROTOCOL=true) gets a connection that starts with a generated, valid PROXY
// header (v1 TCP4/TCP6/UNKNOWN, v2 PROXY TCP4/TCP6 with/without TLVs, v2 LOCAL with/without
// address block) followed by request bytes delivered in the same read or split. Oracle:
//   - the conn handed to the Kafka reader yields exactly the bytes after the header,
//   - ConnContext carries the encoded source address (proxied) or the socket's (local),
//   - a real broker.Server using that ConnContextFunc answers a valid ApiVersions request
//     written in the same TCP write as the header.

import (
	"bytes"
	"context"
	"encoding/binary"
	"errors"
	"fmt"
	"io"
	"log"
	"net"
	"net/netip"
	"os"
	"strconv"
	"testing"
	"time"

	"github.com/KafScale/platform/pkg/broker"
	"github.com/KafScale/platform/pkg/protocol"
	"github.com/twmb/franz-go/pkg/kmsg"
	"pgregory.net/rapid"
	"verif.local/vfkit"
)

const c26bFindingFamily = "C26-v2-family-from-proto-nibble"

var c26bSig = []byte{'\r', '\n', '\r', '\n', 0x00, '\r', '\n', 'Q', 'U', 'I', 'T', '\n'}

type c26bConn struct {
	data   []byte
	pos    int
	chunks []int
	ci     int
}

func (c *c26bConn) Read(p []byte) (int, error) {
	if len(p) == 0 {
		return 0, nil
	}
	if c.pos >= len(c.data) {
		return 0, io.EOF
	}
	n := len(c.data) - c.pos
	if len(c.chunks) > 0 {
		k := c.chunks[c.ci%len(c.chunks)]
		c.ci++
		if k < 1 {
			k = 1
		}
		if k < n {
			n = k
		}
	}
	if n > len(p) {
		n = len(p)
	}
	copy(p, c.data[c.pos:c.pos+n])
	c.pos += n
	return n, nil
}
func (c *c26bConn) Write(p []byte) (int, error)      { return len(p), nil }
func (c *c26bConn) Close() error                     { return nil }
func (c *c26bConn) LocalAddr() net.Addr              { return &net.TCPAddr{IP: net.IPv4(127, 0, 0, 1), Port: 9092} }
func (c *c26bConn) RemoteAddr() net.Addr             { return &net.TCPAddr{IP: net.IPv4(203, 0, 113, 9), Port: 40000} }
func (c *c26bConn) SetDeadline(time.Time) error      { return nil }
func (c *c26bConn) SetReadDeadline(time.Time) error  { return nil }
func (c *c26bConn) SetWriteDeadline(time.Time) error { return nil }

type c26bHeader struct {
	Class    string
	Bytes    []byte
	Local    bool
	Src      netip.Addr
	SrcPort  int
}

func c26bV2(verCmd, famProto byte, payload []byte) []byte {
	h := make([]byte, 16, 16+len(payload))
	copy(h, c26bSig)
	h[12], h[13] = verCmd, famProto
	binary.BigEndian.PutUint16(h[14:16], uint16(len(payload)))
	return append(h, payload...)
}

func c26bAddr(t *rapid.T, v6 bool, label string) netip.Addr {
	if v6 && rapid.IntRange(0, 4).Draw(t, label+"-mapped") == 0 {
		var m [16]byte
		m[10], m[11] = 0xff, 0xff
		copy(m[12:], rapid.SliceOfN(rapid.Byte(), 4, 4).Draw(t, label+"-v4"))
		return netip.AddrFrom16(m) // IPv4-mapped IPv6
	}
	if !v6 {
		a, _ := netip.AddrFromSlice(rapid.SliceOfN(rapid.Byte(), 4, 4).Draw(t, label))
		return a
	}
	var b [16]byte
	copy(b[:], rapid.SliceOfN(rapid.Byte(), 16, 16).Draw(t, label))
	b[0] = 0x20 // never v4-in-v6
	return netip.AddrFrom16(b)
}

func c26bBlock(src, dst netip.Addr, sp, dp int) []byte {
	b := append(append([]byte(nil), src.AsSlice()...), dst.AsSlice()...)
	b = binary.BigEndian.AppendUint16(b, uint16(sp))
	return binary.BigEndian.AppendUint16(b, uint16(dp))
}

func c26bTLVs(t *rapid.T) []byte {
	if !rapid.Bool().Draw(t, "tlv?") {
		return nil
	}
	l := rapid.IntRange(0, 40).Draw(t, "tlv-len")
	if rapid.IntRange(0, 5).Draw(t, "tlv-big?") == 2 {
		// padding that pushes the header around / beyond bufio's 4096-byte buffer, up to the limit
		l = rapid.SampledFrom([]int{4040, 4064, 4065, 4066, 8200, 30000, 65400}).Draw(t, "tlv-big-len")
	}
	return append([]byte{0x04, byte(l >> 8), byte(l)}, bytes.Repeat([]byte{0xee}, l)...)
}

func c26bGenHeader(t *rapid.T, st *vfkit.Stats) c26bHeader {
	kinds := []string{"v1-tcp4", "v1-tcp6", "v1-unknown", "v2-tcp4", "v2-tcp6", "v2-local", "v2-local+block"}
	kind := rapid.SampledFrom(kinds).Draw(t, "header")
	if kind == "v2-tcp6" && vfkit.Known(c26bFindingFamily) {
		st.ExcludedCase(c26bFindingFamily)
		kind = "v2-tcp4"
	}
	sp, dp := rapid.IntRange(0, 65535).Draw(t, "sport"), rapid.IntRange(0, 65535).Draw(t, "dport")
	switch kind {
	case "v1-tcp4", "v1-tcp6":
		v6 := kind == "v1-tcp6"
		src, dst := c26bAddr(t, v6, "src"), c26bAddr(t, v6, "dst")
		fam := "TCP4"
		if v6 {
			fam = "TCP6"
		}
		return c26bHeader{Class: kind, Bytes: []byte(fmt.Sprintf("PROXY %s %s %s %d %d\r\n", fam, src, dst, sp, dp)), Src: src, SrcPort: sp}
	case "v1-unknown":
		line := "PROXY UNKNOWN\r\n"
		if rapid.Bool().Draw(t, "unknown-tail") {
			line = "PROXY UNKNOWN ffff::1 ffff::2 1 2\r\n"
		}
		return c26bHeader{Class: kind, Bytes: []byte(line), Local: true}
	case "v2-tcp4", "v2-tcp6":
		v6 := kind == "v2-tcp6"
		src, dst := c26bAddr(t, v6, "src"), c26bAddr(t, v6, "dst")
		fb := byte(0x11)
		if v6 {
			fb = 0x21
		}
		tlv := c26bTLVs(t)
		cl := kind
		if len(tlv) > 0 {
			cl += "+tlv"
		}
		return c26bHeader{Class: cl, Bytes: c26bV2(0x21, fb, append(c26bBlock(src, dst, sp, dp), tlv...)), Src: src, SrcPort: sp}
	case "v2-local":
		return c26bHeader{Class: kind, Bytes: c26bV2(0x20, 0x00, c26bTLVs(t)), Local: true}
	default:
		v6 := rapid.Bool().Draw(t, "local-v6")
		fb := byte(0x11)
		if v6 {
			fb = 0x21
		}
		return c26bHeader{Class: kind, Bytes: c26bV2(0x20, fb, c26bBlock(c26bAddr(t, v6, "src"), c26bAddr(t, v6, "dst"), sp, dp)), Local: true}
	}
}

type c26bStub struct{}

func (c26bStub) Handle(ctx context.Context, header *protocol.RequestHeader, req kmsg.Request) ([]byte, error) {
	return protocol.EncodeResponse(header.CorrelationID, header.APIVersion, req.ResponseKind()), nil
}

func TestVF_C26_ConnContext(t *testing.T) {
	st := vfkit.NewStats("C26", "connctx")
	defer st.Flush()
	log.SetOutput(io.Discard)
	_ = os.Setenv("KAFSCALE_PROXY_PROTOCOL", "true")
	_ = os.Unsetenv("KAFSCALE_ACL_ENABLED")
	fail := func(format string, a ...any) {
		msg := fmt.Sprintf(format, a...)
		fmt.Println("VF-INCONCLUSIVE:", msg)
		t.Fatalf("%s", msg)
	}
	// one real server per principal source, using the real ConnContextFunc
	sources := []string{"client_id", "remote_addr", "proxy_addr"}
	addrs := map[string]string{}
	ctx, cancel := context.WithCancel(context.Background())
	defer cancel()
	for _, src := range sources {
		_ = os.Setenv("KAFSCALE_PRINCIPAL_SOURCE", src)
		fn := buildConnContextFunc(testLogger())
		if fn == nil {
			t.Fatalf("buildConnContextFunc returned nil with KAFSCALE_PROXY_PROTOCOL=true (source %s)", src)
		}
		ln, err := net.Listen("tcp", "127.0.0.1:0")
		if err != nil {
			fail("listen: %v", err)
		}
		addr := ln.Addr().String()
		_ = ln.Close()
		srv := &broker.Server{Addr: addr, Handler: c26bStub{}, ConnContextFunc: fn}
		go func() { _ = srv.ListenAndServe(ctx) }()
		ok := false
		for i := 0; i < 300 && !ok; i++ {
			if c, err := net.DialTimeout("tcp", addr, time.Second); err == nil {
				_ = c.Close()
				ok = true
			} else {
				time.Sleep(10 * time.Millisecond)
			}
		}
		if !ok {
			fail("server with ConnContextFunc did not come up on %s", addr)
		}
		addrs[src] = addr
	}
	inconclusive := ""
	defer func() {
		if inconclusive != "" {
			fmt.Println("VF-INCONCLUSIVE:", inconclusive)
		}
	}()

	rapid.Check(t, func(t *rapid.T) {
		if inconclusive != "" {
			t.Skip(inconclusive)
		}
		st.Eval()
		h := c26bGenHeader(t, st)
		source := rapid.SampledFrom(sources).Draw(t, "principal-source")
		_ = os.Setenv("KAFSCALE_PRINCIPAL_SOURCE", source)
		fn := buildConnContextFunc(testLogger())

		// (a) what the server's reader gets
		corr := rapid.Int32().Draw(t, "corr")
		req := kmsg.NewPtrApiVersionsRequest()
		req.SetVersion(int16(rapid.IntRange(0, 3).Draw(t, "av-version")))
		frame := kmsg.NewRequestFormatter(kmsg.FormatterClientID("vf-c26")).AppendRequest(nil, req, corr)
		trailing := append([]byte(nil), frame...)
		if extra := rapid.SampledFrom([]int{0, 0, 10, 3000, 5000, 9000}).Draw(t, "extra-bytes"); extra > 0 {
			seed := rapid.Byte().Draw(t, "extra-seed")
			for i := 0; i < extra; i++ {
				trailing = append(trailing, seed+byte(i*13)+byte(i>>8))
			}
		}
		var chunks []int
		chunkClass := "same-read-as-header"
		switch rapid.IntRange(0, 3).Draw(t, "delivery") {
		case 0, 1:
		case 2:
			chunks, chunkClass = []int{len(h.Bytes), 1 << 20}, "header-then-rest"
		default:
			chunks, chunkClass = []int{rapid.IntRange(1, 20).Draw(t, "chunk")}, "small-chunks"
		}
		stream := append(append([]byte(nil), h.Bytes...), trailing...)
		raw := &c26bConn{data: stream, chunks: chunks}
		wrapped, info, err := fn(raw)
		if err != nil {
			t.Fatalf("valid %s header rejected by the broker's connection setup: %v\nheader=%x", h.Class, err, h.Bytes)
		}
		if wrapped == nil {
			t.Fatalf("%s: connection setup returned no conn", h.Class)
		}
		readSizes := rapid.SliceOfN(rapid.SampledFrom([]int{1, 4, 512, 4095, 4096, 8192, 65536}), 1, 4).Draw(t, "read-sizes")
		var got []byte
		big := make([]byte, 1<<16)
		for k := 0; ; k++ {
			n, rerr := wrapped.Read(big[:readSizes[k%len(readSizes)]])
			got = append(got, big[:n]...)
			if rerr != nil {
				break
			}
			if len(got) > len(stream)+16 {
				break
			}
		}
		if !bytes.Equal(got, trailing) {
			d := 0
			for d < len(got) && d < len(trailing) && got[d] == trailing[d] {
				d++
			}
			t.Fatalf("%s header (%d bytes), %s, principal source %s: the conn handed to the Kafka reader yields %d bytes, want exactly the %d bytes sent after the header (first difference at %d)\nheader=%x chunks=%v read sizes=%v",
				h.Class, len(h.Bytes), chunkClass, source, len(got), len(trailing), d, h.Bytes, chunks, readSizes)
		}
		// (b) the identity the broker derives
		if info == nil {
			t.Fatalf("%s: no ConnContext", h.Class)
		}
		sock := raw.RemoteAddr().String()
		if h.Local {
			if info.RemoteAddr != sock || info.ProxyAddr != "" {
				t.Fatalf("%s header encodes no proxied address but ConnContext is %+v (socket %s)", h.Class, *info, sock)
			}
		} else {
			want := net.JoinHostPort(h.Src.String(), strconv.Itoa(h.SrcPort))
			hostOK := func(s string) bool {
				hst, prt, e := net.SplitHostPort(s)
				if e != nil {
					return false
				}
				a, e := netip.ParseAddr(hst)
				return e == nil && a.Unmap() == h.Src.Unmap() && prt == strconv.Itoa(h.SrcPort)
			}
			if !hostOK(info.RemoteAddr) || !hostOK(info.ProxyAddr) {
				t.Fatalf("%s header encodes source %s but ConnContext is %+v", h.Class, want, *info)
			}
			if source != "client_id" {
				if a, e := netip.ParseAddr(info.Principal); e != nil || a.Unmap() != h.Src.Unmap() {
					t.Fatalf("%s header encodes source %s, principal source %s, but Principal=%q", h.Class, want, source, info.Principal)
				}
			}
		}

		st.Class(h.Class)
		st.Class("delivery:" + chunkClass)
		st.Class("source:" + source)
		if st.NonTrivial(h.Class, string(h.Bytes), chunkClass, source, len(trailing), readSizes) {
			st.Sample(map[string]any{"class": h.Class, "header_hex": fmt.Sprintf("%x", h.Bytes), "delivery": chunkClass, "source": source, "trailing": len(trailing), "read_sizes": readSizes})
		}
		// (c) end to end: header and request in ONE write to a real server. Only for cases whose
		// deterministic form (a) had the same delivery (header and request in one read), so that a
		// server that never sees the request - observable only by timeout - has already been
		// reported by (a).
		if chunkClass != "same-read-as-header" {
			return
		}
		st.Class("end-to-end")
		c, err := net.DialTimeout("tcp", addrs[source], 5*time.Second)
		if err != nil {
			inconclusive = "cannot connect to the server under test: " + err.Error()
			t.Skip(inconclusive)
		}
		_ = c.SetDeadline(time.Now().Add(30 * time.Second))
		_, _ = c.Write(append(append([]byte(nil), h.Bytes...), frame...))
		f, rerr := protocol.ReadFrame(c)
		_ = c.Close()
		if rerr != nil {
			var ne net.Error
			if errors.As(rerr, &ne) && ne.Timeout() {
				// the request behind the header was never answered within the guard: with a correct
				// stream this cannot happen; report as a violation of (a)'s end-to-end form only if (a)
				// had failed - it did not, so this is an environment problem
				inconclusive = fmt.Sprintf("no reply within 30s to a request sent behind a %s header", h.Class)
				t.Skip(inconclusive)
			}
			t.Fatalf("%s header + ApiVersions request in one write (principal source %s): connection ended without a reply: %v\nheader=%x", h.Class, source, rerr, h.Bytes)
		}
		if len(f.Payload) < 4 || int32(binary.BigEndian.Uint32(f.Payload[:4])) != corr {
			t.Fatalf("%s header + ApiVersions request: reply %x does not carry correlation id %d", h.Class, f.Payload, corr)
		}
	})
	if inconclusive != "" {
		t.Fatalf("inconclusive: %s", inconclusive)
	}
}
