//go:build verif

package main

// C11 (broker leg): every (key, version) the broker advertises gets a reply that the client
// codec decodes at that version, with the request's correlation id and the right response
// header shape; no version, advertised or not, yields an undecodable reply.
//
// A real broker.Server (real framing / parsing / error fallback) listens on loopback with
// the real handler on in-memory stores (fresh per case). Requests are encoded by kmsg's
// RequestFormatter from reflectively generated bodies.

import (
	"context"
	"fmt"
	"io"
	"log"
	"sync"
	"sync/atomic"
	"testing"
	"time"

	"github.com/KafScale/platform/internal/vfc10gen"
	"github.com/KafScale/platform/internal/vfc11kit"
	"github.com/KafScale/platform/pkg/broker"
	"github.com/KafScale/platform/pkg/metadata"
	"github.com/KafScale/platform/pkg/protocol"
	"github.com/KafScale/platform/pkg/storage"
	"github.com/twmb/franz-go/pkg/kmsg"
	"pgregory.net/rapid"
	"verif.local/vfkit"
)

type c11Result struct {
	err      error
	panicked any
	nilReply bool
}

// c11Switch lets one listening server serve a fresh handler per case and records what the
// handler returned for each correlation id (a panic is recorded and turned into an error so
// that the test process survives to report it).
type c11Switch struct {
	cur atomic.Pointer[handler]
	mu  sync.Mutex
	res map[int32]c11Result
}

func (s *c11Switch) Handle(ctx context.Context, header *protocol.RequestHeader, req kmsg.Request) (out []byte, err error) {
	h := s.cur.Load()
	defer func() {
		r := recover()
		s.mu.Lock()
		s.res[header.CorrelationID] = c11Result{err: err, panicked: r, nilReply: out == nil && err == nil}
		s.mu.Unlock()
		if r != nil {
			out, err = nil, fmt.Errorf("handler panicked: %v", r)
		}
	}()
	if h == nil {
		return nil, fmt.Errorf("no handler installed")
	}
	return h.Handle(ctx, header, req)
}

func (s *c11Switch) take(corr int32) (c11Result, bool) {
	s.mu.Lock()
	defer s.mu.Unlock()
	r, ok := s.res[corr]
	delete(s.res, corr)
	return r, ok
}

func c11Metadata() metadata.ClusterMetadata {
	clusterID := "vf-cluster"
	mk := func(name string, parts int) protocol.MetadataTopic {
		t := protocol.MetadataTopic{Topic: kmsg.StringPtr(name), TopicID: metadata.TopicIDForName(name)}
		for i := 0; i < parts; i++ {
			t.Partitions = append(t.Partitions, protocol.MetadataPartition{Partition: int32(i), Leader: 1, Replicas: []int32{1}, ISR: []int32{1}})
		}
		return t
	}
	return metadata.ClusterMetadata{
		ControllerID: 1, ClusterID: &clusterID,
		Brokers: []protocol.MetadataBroker{{NodeID: 1, Host: "127.0.0.1", Port: 19092}},
		Topics:  []protocol.MetadataTopic{mk("orders", 2), mk("payments", 1)},
	}
}

func c11Env() *vfc10gen.Env {
	return &vfc10gen.Env{
		Bounded: true,
		Topics:  []string{"orders", "payments", "orders", "no-such-topic", "fresh-topic"},
		IDs:     [][16]byte{metadata.TopicIDForName("orders"), metadata.TopicIDForName("payments")},
		Groups:  []string{"g1", "g2"},
		Members: []string{"", "m-1"},
	}
}

func TestVF_C11_Broker(t *testing.T) {
	st := vfkit.NewStats("C11", "broker")
	defer st.Flush()
	log.SetOutput(io.Discard)
	tb := vfc11kit.NewTable(generateApiVersions())
	if len(tb.Pairs) < 20 || len(tb.Other) == 0 {
		t.Fatalf("HARNESS: advertised table %d pairs, %d other keys", len(tb.Pairs), len(tb.Other))
	}
	st.Note("advertised_pairs", len(tb.Pairs))

	addr, err := vfc11kit.PickPort()
	if err != nil {
		fmt.Println("VF-INCONCLUSIVE: cannot reserve a loopback port:", err)
		t.Fatalf("port: %v", err)
	}
	sw := &c11Switch{res: map[int32]c11Result{}}
	srv := &broker.Server{Addr: addr, Handler: sw}
	ctx, cancel := context.WithCancel(context.Background())
	done := make(chan error, 1)
	go func() { done <- srv.ListenAndServe(ctx) }()
	defer func() {
		cancel()
		select {
		case <-done:
		case <-time.After(5 * time.Second):
		}
	}()
	if c, err := vfc11kit.DialRetry(addr); err != nil {
		fmt.Println("VF-INCONCLUSIVE: broker server did not come up on", addr, err)
		t.Fatalf("dial: %v", err)
	} else {
		_ = c.Close()
	}
	brokerInfo := protocol.MetadataBroker{NodeID: 1, Host: "127.0.0.1", Port: 19092}
	env := c11Env()
	inconclusive := ""
	defer func() {
		if inconclusive != "" {
			fmt.Println("VF-INCONCLUSIVE:", inconclusive)
		}
	}()

	rapid.Check(t, func(t *rapid.T) {
		if inconclusive != "" {
			t.Skip(inconclusive)
		}
		store := metadata.NewInMemoryStore(c11Metadata())
		h := newHandler(store, storage.NewMemoryS3Client(), brokerInfo, testLogger())
		defer h.coordinator.Stop()
		sw.cur.Store(h)
		conn, err := vfc11kit.DialRetry(addr)
		if err != nil {
			inconclusive = "cannot connect to the broker under test: " + err.Error()
			t.Skip(inconclusive)
		}
		defer conn.Close()

		n := rapid.IntRange(1, 3).Draw(t, "requests")
		for i := 0; i < n; i++ {
			st.Eval()
			p := vfc11kit.GenProbe(t, tb, env, fmt.Sprintf("r%d-", i))
			p.Encode()
			out := vfc11kit.Exchange(conn, p, 30*time.Second)
			hres, handled := sw.take(p.Corr)
			st.Class("class:" + p.Class)
			st.Class("outcome:" + out.Kind)
			if out.Kind == "timeout" {
				inconclusive = fmt.Sprintf("no answer to %s (%s) within the 30s guard (%v) shape=%s frame=%x", p.Name(), p.Class, out.Err, p.Shape, p.Frame)
				t.Skip(inconclusive)
			}
			if handled && hres.panicked != nil {
				t.Fatalf("%s (%s): handler panicked: %v\nshape=%s frame=%x", p.Name(), p.Class, hres.panicked, p.Shape, c11Clip(p.Frame))
			}
			switch out.Kind {
			case "wrong-correlation", "extra-reply":
				t.Fatalf("%s (%s): %s: %v\nreply=%x extra=%x", p.Name(), p.Class, out.Kind, out.Err, c11Clip(out.Reply), c11Clip(out.Extra))
			case "noreply":
				if p.Advertised && !p.Acks0 {
					t.Fatalf("%s is advertised but the request got no reply (connection stayed open)\nshape=%s frame=%x", p.Name(), p.Shape, c11Clip(p.Frame))
				}
			case "closed":
				if p.Advertised {
					t.Fatalf("%s is advertised but the connection was closed without a reply (%v)\nshape=%s frame=%x", p.Name(), out.Err, p.Shape, c11Clip(p.Frame))
				}
			case "reply", "reply-then-closed":
				msg, note := vfc11kit.JudgeReply(p, tb, out.Reply)
				if msg != "" {
					t.Fatalf("%s (%s): reply is not decodable at the request version: %s\nshape=%s\nrequest=%x\nreply=%x", p.Name(), p.Class, msg, p.Shape, c11Clip(p.Frame), c11Clip(out.Reply))
				}
				st.Class("reply:" + note)
				if p.Advertised && handled && hres.err != nil {
					st.Class("advertised-answered-by-error-fallback")
					if p.Shape.Odd == 0 {
						// "is served": the version is advertised, the body is what a client codec produces
						// from ordinary values, yet the handler refused and the server sent its generic
						// empty fallback response.
						t.Fatalf("%s is advertised but the handler refused it (%v); the client only got the server's generic empty fallback\nshape=%s frame=%x", p.Name(), hres.err, p.Shape, c11Clip(p.Frame))
					}
				}
			}
			fl, _ := vfc10gen.IsFlexible(p.Key, p.Version)
			if fl {
				st.Class("flexible")
			}
			idform := "names"
			if p.Shape.IDs > 0 {
				idform = "topic-ids"
				st.Class("topic-ids")
			}
			if st.NonTrivial(p.Key, p.Version, p.Class, fl, idform, p.Shape.String(), out.Kind) {
				st.Sample(map[string]any{"api": p.Name(), "class": p.Class, "shape": p.Shape.String(), "outcome": out.Kind})
			}
			if out.Kind == "closed" || out.Kind == "reply-then-closed" {
				break
			}
		}
	})
	if inconclusive != "" {
		t.Fatalf("inconclusive: %s", inconclusive)
	}
}

func c11Clip(b []byte) []byte {
	if len(b) > 300 {
		return b[:300]
	}
	return b
}
