//go:build verif

package main

// C11 (broker leg): every (key, version) the broker advertises gets a reply that the client
// codec decodes at that version, with the request's correlation id and the right response
// header shape; no version, advertised or not, yields an undecodable reply.
//
// A real broker.Server (real framing / parsing / error fallback) listens on loopback with
// the real handler on in-memory stores (fresh per case). Requests are encoded by kmsg's
// RequestFormatter from reflectively generated bodies.

import (
	"runtime/metrics"
	"os"
	"strings"
	"bytes"
	"context"
	"errors"
	"fmt"
	"io"
	"log"
	"sync"
	"sync/atomic"
	"testing"
	"time"

	"github.com/KafScale/platform/internal/vfc10gen"
	"github.com/KafScale/platform/internal/vfc11kit"
	"github.com/KafScale/platform/pkg/broker"
	"github.com/KafScale/platform/pkg/metadata"
	"github.com/KafScale/platform/pkg/protocol"
	"github.com/KafScale/platform/pkg/storage"
	"github.com/twmb/franz-go/pkg/kmsg"
	"pgregory.net/rapid"
	"verif.local/vfkit"
)

const c11FindingLivelock = "C11-unknown-partition-livelock"

var c11ErrBudget = errors.New("vf: per-case store call budget exhausted")

// c11Store is the in-memory metadata store with a per-case budget of NextOffset calls. A
// request needs a handful; the budget turns a handler that loops on the store forever (so
// the request would never be answered) into a deterministic observation instead of a hang.
type c11Store struct {
	*metadata.InMemoryStore
	calls   atomic.Int64
	limit   int64
	tripped atomic.Bool
	// unavailable: the handler's etcdAvailable() probe (interface{ Available() bool }) reports
	// the metadata store as unreachable, as the repo's unavailableMetadataStore test wrapper
	// does; the broker then answers with its "cannot coordinate / timed out" replies.
	unavailable bool
}

func (s *c11Store) Available() bool { return !s.unavailable }

func (s *c11Store) NextOffset(ctx context.Context, topic string, partition int32) (int64, error) {
	if s.calls.Add(1) > s.limit {
		s.tripped.Store(true)
		return 0, c11ErrBudget
	}
	return s.InMemoryStore.NextOffset(ctx, topic, partition)
}

// c11PartitionCounts: topic name -> number of partitions, and topic id -> name, right now.
func c11PartitionCounts(store metadata.Store) (map[string]int32, map[[16]byte]string) {
	counts, ids := map[string]int32{}, map[[16]byte]string{}
	meta, err := store.Metadata(context.Background(), nil)
	if err != nil {
		return counts, ids
	}
	for _, t := range meta.Topics {
		if t.Topic == nil {
			continue
		}
		counts[*t.Topic] = int32(len(t.Partitions))
		ids[t.TopicID] = *t.Topic
	}
	return counts, ids
}

// c11LivelockDomain reports whether req is in the domain of the listed finding: it makes the
// handler call getPartitionLog(topic, partition) while the topic exists (from the start, or
// because an earlier partition entry of this very request auto-created it with
// max(1, index+1) partitions) but does not have that partition index - or with a negative
// index (Produce, Fetch, ListOffsets with timestamp -2, in request order). With steer=true
// the offending indexes are folded into the topic's range instead.
func c11LivelockDomain(req kmsg.Request, counts map[string]int32, ids map[[16]byte]string, steer bool) bool {
	hit := false
	live := map[string]int32{}
	for k, v := range counts {
		live[k] = v
	}
	visit := func(topic string, part *int32) {
		if topic == "" {
			return // CreateTopic("") is rejected: the handler answers with an error code
		}
		n, ok := live[topic]
		if !ok {
			if *part < 0 {
				hit = true
				if steer {
					*part = 0
				}
			}
			n = 1
			if *part+1 > n {
				n = *part + 1
			}
			live[topic] = n // auto-created by this entry
			return
		}
		if *part >= 0 && *part < n {
			return
		}
		hit = true
		if steer {
			if *part < 0 || n <= 0 {
				*part = 0
			} else {
				*part %= n
			}
		}
	}
	switch r := req.(type) {
	case *kmsg.ProduceRequest:
		for i := range r.Topics {
			for j := range r.Topics[i].Partitions {
				visit(r.Topics[i].Topic, &r.Topics[i].Partitions[j].Partition)
			}
		}
	case *kmsg.FetchRequest:
		for i := range r.Topics {
			name := r.Topics[i].Topic
			if name == "" && r.Topics[i].TopicID != ([16]byte{}) {
				var ok bool
				if name, ok = ids[r.Topics[i].TopicID]; !ok {
					continue // unknown topic id: answered without touching the log
				}
			}
			for j := range r.Topics[i].Partitions {
				visit(name, &r.Topics[i].Partitions[j].Partition)
			}
		}
	case *kmsg.ListOffsetsRequest:
		for i := range r.Topics {
			for j := range r.Topics[i].Partitions {
				if r.Topics[i].Partitions[j].Timestamp == -2 {
					visit(r.Topics[i].Topic, &r.Topics[i].Partitions[j].Partition)
				}
			}
		}
	}
	return hit
}

const c11FindingMemberID = "C11-joingroup-member-id-overflow"

// c11MemberIDDomain: JoinGroup makes the coordinator mint a member id "<group>-<int63>"; with a
// group id within 20 bytes of the 32767-byte STRING limit the id no longer fits the int16
// length prefix of the non-flexible JoinGroup response (listed finding). With steer the
// group id is cut to 250 bytes.
func c11MemberIDDomain(req kmsg.Request, steer bool) bool {
	jr, ok := req.(*kmsg.JoinGroupRequest)
	if !ok || len(jr.Group) <= 32767-21 {
		return false
	}
	if steer {
		jr.Group = jr.Group[:250]
	}
	return true
}

const (
	c11FindingListOffsetsCount = "C11-listoffsets-v0-count-oom"
	c11FindingTraceNil         = "C11-trace-unknown-topic-id-nil"
)

// c11ListOffsetsCountDomain: ListOffsets v0 whose MaxNumOffsets is large enough for
// handleListOffsets' make([]int64, 0, MaxNumOffsets) to matter (listed finding). With steer the
// count becomes 1. (req is in wire form: at v1+ the field does not exist.)
func c11ListOffsetsCountDomain(req kmsg.Request, steer bool) bool {
	lr, ok := req.(*kmsg.ListOffsetsRequest)
	if !ok || lr.Version != 0 {
		return false
	}
	hit := false
	for i := range lr.Topics {
		for j := range lr.Topics[i].Partitions {
			if lr.Topics[i].Partitions[j].MaxNumOffsets > 1<<20 {
				hit = true
				if steer {
					lr.Topics[i].Partitions[j].MaxNumOffsets = 1
				}
			}
		}
	}
	return hit
}

// c11TraceNilDomain: with KAFSCALE_TRACE_KAFKA on, a Metadata request that names a topic by an
// id the broker does not know makes the trace block dereference the nil name of the
// UNKNOWN_TOPIC_ID entry (listed finding). With steer unknown ids become a known one.
func c11TraceNilDomain(req kmsg.Request, trace bool, ids map[[16]byte]string, steer bool) bool {
	mr, ok := req.(*kmsg.MetadataRequest)
	if !ok || !trace {
		return false
	}
	var known [16]byte
	for id := range ids {
		if id != ([16]byte{}) {
			known = id
			break
		}
	}
	hit := false
	for i := range mr.Topics {
		id := mr.Topics[i].TopicID
		if id == ([16]byte{}) {
			continue
		}
		if _, ok := ids[id]; !ok {
			hit = true
			if steer {
				mr.Topics[i].TopicID = known
			}
		}
	}
	return hit
}

const (
	c11FindingPartitionCount = "C11-createtopics-partition-count-oom"
	c11FindingAutoCreateIdx  = "C11-autocreate-partition-index-oom"
	c11HugeCount             = 100000
)

// c11PartitionCountDomain: CreateTopics NumPartitions / CreatePartitions Count far beyond any
// real topic; the store allocates one entry per partition without an upper bound (listed
// finding). With steer the count becomes 3.
func c11PartitionCountDomain(req kmsg.Request, steer bool) bool {
	hit := false
	switch r := req.(type) {
	case *kmsg.CreateTopicsRequest:
		for i := range r.Topics {
			if r.Topics[i].NumPartitions > c11HugeCount {
				hit = true
				if steer {
					r.Topics[i].NumPartitions = 3
				}
			}
		}
	case *kmsg.CreatePartitionsRequest:
		for i := range r.Topics {
			if r.Topics[i].Count > c11HugeCount {
				hit = true
				if steer {
					r.Topics[i].Count = 3
				}
			}
		}
	}
	return hit
}

// c11AutoCreateIndexDomain: Produce / Fetch / ListOffsets(ts=-2) naming a topic that does NOT
// exist (valid name, auto-create on) with a huge partition index: ensureTopic creates the
// topic with index+1 partitions (listed finding). With steer the index becomes 0. Entries are
// walked in request order; a topic auto-created by an earlier entry exists afterwards.
func c11AutoCreateIndexDomain(req kmsg.Request, counts map[string]int32, ids map[[16]byte]string, steer bool) bool {
	hit := false
	live := map[string]bool{}
	for k := range counts {
		live[k] = true
	}
	visit := func(topic string, part *int32) {
		if topic == "" || !metadata.ValidTopicName(topic) {
			return
		}
		if !live[topic] && *part > c11HugeCount && *part < 1<<31-1 {
			hit = true
			if steer {
				*part = 0
			}
		}
		if *part >= 0 {
			live[topic] = true
		}
	}
	switch r := req.(type) {
	case *kmsg.ProduceRequest:
		for i := range r.Topics {
			for j := range r.Topics[i].Partitions {
				visit(r.Topics[i].Topic, &r.Topics[i].Partitions[j].Partition)
			}
		}
	case *kmsg.FetchRequest:
		for i := range r.Topics {
			name := r.Topics[i].Topic
			if name == "" && r.Topics[i].TopicID != ([16]byte{}) {
				var ok bool
				if name, ok = ids[r.Topics[i].TopicID]; !ok {
					continue
				}
			}
			for j := range r.Topics[i].Partitions {
				visit(name, &r.Topics[i].Partitions[j].Partition)
			}
		}
	case *kmsg.ListOffsetsRequest:
		for i := range r.Topics {
			for j := range r.Topics[i].Partitions {
				if r.Topics[i].Partitions[j].Timestamp == -2 {
					visit(r.Topics[i].Topic, &r.Topics[i].Partitions[j].Partition)
				}
			}
		}
	}
	return hit
}

type c11Result struct {
	err      error
	panicked any
	nilReply bool
}

// c11Switch lets one listening server serve a fresh handler per case and records what the
// handler returned for each correlation id (a panic is recorded and turned into an error so
// that the test process survives to report it).
type c11Switch struct {
	cur atomic.Pointer[handler]
	mu  sync.Mutex
	res map[int32]c11Result
}

func (s *c11Switch) Handle(ctx context.Context, header *protocol.RequestHeader, req kmsg.Request) (out []byte, err error) {
	h := s.cur.Load()
	defer func() {
		r := recover()
		s.mu.Lock()
		s.res[header.CorrelationID] = c11Result{err: err, panicked: r, nilReply: out == nil && err == nil}
		s.mu.Unlock()
		if r != nil {
			out, err = nil, fmt.Errorf("handler panicked: %v", r)
		}
	}()
	if h == nil {
		return nil, fmt.Errorf("no handler installed")
	}
	return h.Handle(ctx, header, req)
}

func (s *c11Switch) take(corr int32) (c11Result, bool) {
	s.mu.Lock()
	defer s.mu.Unlock()
	r, ok := s.res[corr]
	delete(s.res, corr)
	return r, ok
}

func c11Metadata() metadata.ClusterMetadata {
	clusterID := "vf-cluster"
	mk := func(name string, parts int) protocol.MetadataTopic {
		t := protocol.MetadataTopic{Topic: kmsg.StringPtr(name), TopicID: metadata.TopicIDForName(name)}
		for i := 0; i < parts; i++ {
			t.Partitions = append(t.Partitions, protocol.MetadataPartition{Partition: int32(i), Leader: 1, Replicas: []int32{1}, ISR: []int32{1}})
		}
		return t
	}
	return metadata.ClusterMetadata{
		ControllerID: 1, ClusterID: &clusterID,
		Brokers: []protocol.MetadataBroker{{NodeID: 1, Host: "127.0.0.1", Port: 19092}},
		Topics:  []protocol.MetadataTopic{mk("orders", 2), mk("payments", 1)},
	}
}

func c11Env() *vfc10gen.Env {
	return &vfc10gen.Env{
		Bounded: true, HostileGroupMetadata: true, HostileCounts: true, HostilePartitionIndex: true,
		Topics:  []string{"orders", "payments", "orders", "no-such-topic", "fresh-topic"},
		IDs:     [][16]byte{metadata.TopicIDForName("orders"), metadata.TopicIDForName("payments")},
		Groups:  []string{"g1", "g2"},
		Members: []string{"", "m-1"},
	}
}

func TestVF_C11_Broker(t *testing.T) {
	st := vfkit.NewStats("C11", "broker")
	defer st.Flush()
	log.SetOutput(io.Discard)
	tb := vfc11kit.NewTable(generateApiVersions())
	if len(tb.Pairs) < 20 || len(tb.Other) == 0 {
		t.Fatalf("HARNESS: advertised table %d pairs, %d other keys", len(tb.Pairs), len(tb.Other))
	}
	st.Note("advertised_pairs", len(tb.Pairs))

	sw := &c11Switch{res: map[int32]c11Result{}}
	ctx, cancel := context.WithCancel(context.Background())
	defer cancel()
	startBroker := func(ccf broker.ConnContextFunc) (string, error) {
		return vfc11kit.StartServer(func(addr string) <-chan error {
			srv := &broker.Server{Addr: addr, Handler: sw, ConnContextFunc: ccf}
			errc := make(chan error, 1)
			go func() {
				if err := srv.ListenAndServe(ctx); err != nil {
					errc <- err
				}
			}()
			return errc
		})
	}
	addr, err := startBroker(nil)
	if err != nil {
		fmt.Println("VF-INCONCLUSIVE: broker server did not come up:", err)
		t.Fatalf("start: %v", err)
	}
	// the same handler behind a listener with PROXY protocol on (cmd/broker's own wiring)
	_ = os.Setenv("KAFSCALE_PROXY_PROTOCOL", "true")
	ccf := buildConnContextFunc(testLogger())
	_ = os.Unsetenv("KAFSCALE_PROXY_PROTOCOL")
	if ccf == nil {
		t.Fatalf("HARNESS: buildConnContextFunc returned nil with KAFSCALE_PROXY_PROTOCOL=true")
	}
	paddr, err := startBroker(ccf)
	if err != nil {
		fmt.Println("VF-INCONCLUSIVE: PROXY-protocol listener did not come up:", err)
		t.Fatalf("start: %v", err)
	}
	brokerInfo := protocol.MetadataBroker{NodeID: 1, Host: "127.0.0.1", Port: 19092}
	env := c11Env()
	known := vfkit.Known(c11FindingLivelock)
	knownMemberID := vfkit.Known(c11FindingMemberID)
	knownCount := vfkit.Known(c11FindingListOffsetsCount)
	knownTrace := vfkit.Known(c11FindingTraceNil)
	knownPartCount := vfkit.Known(c11FindingPartitionCount)
	knownAutoIdx := vfkit.Known(c11FindingAutoCreateIdx)
	inconclusive := ""
	defer func() {
		if inconclusive != "" {
			fmt.Println("VF-INCONCLUSIVE:", inconclusive)
		}
	}()

	rapid.Check(t, func(t *rapid.T) {
		if inconclusive != "" {
			t.Skip(inconclusive)
		}
		store := &c11Store{InMemoryStore: metadata.NewInMemoryStore(c11Metadata()), limit: 3000}
		store.unavailable = rapid.IntRange(0, 4).Draw(t, "store-unavailable") >= 3
		mode := "store-available"
		if store.unavailable {
			mode = "store-unavailable"
		}
		h := newHandler(store, storage.NewMemoryS3Client(), brokerInfo, testLogger())
		defer h.coordinator.Stop()
		// operator switch KAFSCALE_TRACE_KAFKA=true (newHandler reads it into this field)
		h.traceKafka = rapid.IntRange(0, 3).Draw(t, "trace-kafka") == 0
		if h.traceKafka {
			mode += "+trace"
		}
		sw.cur.Store(h)
		listener, target := "plain", addr
		var proxyHeader []byte
		if rapid.IntRange(0, 3).Draw(t, "proxy-listener") == 0 {
			listener, target = "proxy-protocol", paddr
			var hk string
			proxyHeader, hk = c11GenProxyHeader(t)
			listener += ":" + hk
		}
		conn, err := vfc11kit.DialRetry(target)
		if err != nil {
			inconclusive = "cannot connect to the broker under test: " + err.Error()
			t.Skip(inconclusive)
		}
		defer conn.Close()

		n := rapid.IntRange(1, 3).Draw(t, "requests")
		for i := 0; i < n; i++ {
			st.Eval()
			p := vfc11kit.GenProbe(t, tb, env, fmt.Sprintf("r%d-", i))
			// work on what is on the wire (fields a version does not carry are gone)
			if canon := vfc10gen.NewRequest(p.Key, p.Version); canon.ReadFrom(p.Req.AppendTo(nil)) == nil {
				p.Req = canon
			}
			if c11MemberIDDomain(p.Req, knownMemberID) {
				if knownMemberID {
					st.ExcludedCase(c11FindingMemberID)
				} else {
					st.Class("joingroup-group-id-near-32767")
				}
			}
			if c11ListOffsetsCountDomain(p.Req, knownCount) {
				if knownCount {
					st.ExcludedCase(c11FindingListOffsetsCount)
				} else {
					st.Class("listoffsets-v0-huge-max-num-offsets")
				}
			}
			if c11PartitionCountDomain(p.Req, knownPartCount) {
				if knownPartCount {
					st.ExcludedCase(c11FindingPartitionCount)
				} else {
					st.Class("create-with-huge-partition-count")
				}
			}
			counts, ids := c11PartitionCounts(store)
			if c11AutoCreateIndexDomain(p.Req, counts, ids, knownAutoIdx) {
				if knownAutoIdx {
					st.ExcludedCase(c11FindingAutoCreateIdx)
				} else {
					st.Class("unknown-topic-with-huge-partition-index")
				}
			}
			if c11TraceNilDomain(p.Req, h.traceKafka, ids, knownTrace) {
				if knownTrace {
					st.ExcludedCase(c11FindingTraceNil)
				} else {
					st.Class("trace+metadata-by-unknown-topic-id")
				}
			}
			if c11LivelockDomain(p.Req, counts, ids, known) {
				if known {
					st.ExcludedCase(c11FindingLivelock)
				} else {
					st.Class("unknown-partition-of-existing-topic")
				}
			}
			p.Encode()
			if i == 0 {
				p.Prefix = proxyHeader // header and first request in one write
			}
			st.Class("listener:" + listener)
			out := vfc11kit.Exchange(conn, p, 60*time.Second)
			hres, handled := sw.take(p.Corr)
			if store.tripped.Load() {
				t.Fatalf("%s (%s): the handler called store.NextOffset more than %d times for one connection of <=3 requests: it loops on the metadata store and, without the harness's call budget, never answers\nshape=%s frame=%x", p.Name(), p.Class, store.limit, p.Shape, c11Clip(p.Frame))
			}
			st.Class("class:" + p.Class)
			st.Class("outcome:" + out.Kind)
			st.Class("mode:" + mode)
			if strings.Contains(p.Shape.String(), "hostile-subscription") {
				st.Class("joingroup-hostile-subscription-metadata")
			}
			if p.Acks0 {
				if c11Acks0Appends(p.Req, store.unavailable) {
					st.Class("acks0:some-batch-appendable")
				} else {
					st.Class("acks0:every-partition-rejected")
				}
			}
			if p.Advertised {
				st.Class(fmt.Sprintf("key-%02d", p.Key))
				if store.unavailable {
					st.Class(fmt.Sprintf("unavailable-key-%02d", p.Key))
				}
			}
			if out.Kind == "request-lost" || out.Kind == "silent" {
				// "gets a reply": pipelined behind the probe in the same write, the sentinel is a request
				// like any other. request-lost is evidence by order (a LATER request of the connection
				// was answered); silent means the connection stayed open without a frame for 70 s.
				t.Fatalf("%s (%s, listener %s): %s: %v\nshape=%s prefix=%x frame=%x", p.Name(), p.Class, listener, out.Kind, out.Err, p.Shape, p.Prefix, c11Clip(p.Frame))
			}
			if handled && hres.panicked != nil {
				t.Fatalf("%s (%s): handler panicked: %v\nshape=%s frame=%x", p.Name(), p.Class, hres.panicked, p.Shape, c11Clip(p.Frame))
			}
			switch out.Kind {
			case "wrong-correlation", "extra-reply":
				t.Fatalf("%s (%s): %s: %v\nreply=%x extra=%x", p.Name(), p.Class, out.Kind, out.Err, c11Clip(out.Reply), c11Clip(out.Extra))
			case "noreply":
				if p.Acks0 {
					st.Class("acks0:no-reply-frame")
				}
				if p.Advertised && !p.Acks0 {
					t.Fatalf("%s is advertised but the request got no reply (connection stayed open)\nshape=%s frame=%x", p.Name(), p.Shape, c11Clip(p.Frame))
				}
			case "closed":
				if p.Advertised && !p.Acks0 {
					t.Fatalf("%s is advertised but the connection was closed without a reply (%v)\nshape=%s frame=%x", p.Name(), out.Err, p.Shape, c11Clip(p.Frame))
				}
			case "reply", "reply-then-closed":
				if p.Advertised && !handled {
					// every advertised key must be dispatched: a well-formed request of an advertised
					// version that is answered without ever reaching the Handler got the server's generic
					// fallback, not that API's own answer
					t.Fatalf("%s is advertised and was answered, but the request never reached the handler (generic server-side reply)\nshape=%s frame=%x reply=%x", p.Name(), p.Shape, c11Clip(p.Frame), c11Clip(out.Reply))
				}
				if p.Acks0 && out.Kind == "reply" {
					// A client that produced with acks=0 reads no response. A frame written anyway stays in
					// the stream and is taken for the reply to the NEXT request of the connection (wrong
					// correlation id, wrong body), and every later reply is shifted by one.
					t.Fatalf("%s with acks=0 got a reply frame (%d bytes, correlation id echoed): the client reads none, so the next request on this connection is answered with this stale frame\nmode=%s appended=%v shape=%s\nrequest=%x\nreply=%x",
						p.Name(), len(out.Reply), mode, c11Acks0Appends(p.Req, store.unavailable), p.Shape, c11Clip(p.Frame), c11Clip(out.Reply))
				}
				msg, note := vfc11kit.JudgeReply(p, tb, out.Reply)
				if msg != "" {
					t.Fatalf("%s (%s): reply is not decodable at the request version: %s\nshape=%s\nrequest=%x\nreply=%x", p.Name(), p.Class, msg, p.Shape, c11Clip(p.Frame), c11Clip(out.Reply))
				}
				st.Class("reply:" + note)
				if p.Advertised && handled && hres.err != nil {
					st.Class("advertised-answered-by-error-fallback")
					if p.Shape.Odd == 0 {
						// "is served": the version is advertised, the body is what a client codec produces
						// from ordinary values, yet the handler refused and the server sent its generic
						// empty fallback response.
						t.Fatalf("%s is advertised but the handler refused it (%v); the client only got the server's generic empty fallback\nshape=%s frame=%x", p.Name(), hres.err, p.Shape, c11Clip(p.Frame))
					}
				}
			}
			fl, _ := vfc10gen.IsFlexible(p.Key, p.Version)
			if fl {
				st.Class("flexible")
			}
			idform := "names"
			if p.Shape.IDs > 0 {
				idform = "topic-ids"
				st.Class("topic-ids")
			}
			if st.NonTrivial(p.Key, p.Version, p.Class, mode, listener, fl, idform, p.Shape.String(), out.Kind) {
				st.Sample(map[string]any{"api": p.Name(), "class": p.Class, "mode": mode, "shape": p.Shape.String(), "outcome": out.Kind})
			}
			if out.Kind == "closed" || out.Kind == "reply-then-closed" {
				break
			}
		}
	})
	if inconclusive != "" {
		t.Fatalf("inconclusive: %s", inconclusive)
	}
}

// TestVF_C11_Witness replays the minimal witness of the listed finding through the real
// handler: Produce v7 acks=1 with one valid batch to partition 1 of "payments" (which has
// exactly one partition, index 0).
func TestVF_C11_Witness(t *testing.T) {
	st := vfkit.NewStats("C11", "witness")
	defer st.Flush()
	st.Eval()
	log.SetOutput(io.Discard)
	store := &c11Store{InMemoryStore: metadata.NewInMemoryStore(c11Metadata()), limit: 3000}
	h := newHandler(store, storage.NewMemoryS3Client(), protocol.MetadataBroker{NodeID: 1, Host: "127.0.0.1", Port: 19092}, testLogger())
	defer h.coordinator.Stop()
	req := kmsg.NewPtrProduceRequest()
	req.SetVersion(7)
	req.Acks = 1
	req.TimeoutMillis = 1000
	pt := kmsg.NewProduceRequestTopic()
	pt.Topic = "payments"
	pp := kmsg.NewProduceRequestTopicPartition()
	pp.Partition = 1
	pp.Records = vfc10gen.RecordBatch(1, []byte("v"))
	pt.Partitions = append(pt.Partitions, pp)
	req.Topics = append(req.Topics, pt)
	counts, ids := c11PartitionCounts(store)
	if !c11LivelockDomain(req, counts, ids, false) {
		t.Fatalf("HARNESS BUG: the witness is outside the exclusion predicate")
	}
	cid := "vf-witness"
	out, err := h.Handle(context.Background(), &protocol.RequestHeader{APIKey: 0, APIVersion: 7, CorrelationID: 9, ClientID: &cid}, req)
	still := store.tripped.Load()
	what := fmt.Sprintf("Produce v7 acks=1 to payments/1 (topic has 1 partition, auto-create on): NextOffset called %d times", store.calls.Load())
	if still {
		what += " - getPartitionLog loops NextOffset(ErrUnknownTopic) -> ensureTopic(ErrTopicExists => ok) -> continue; only the harness's call budget ended it (reply would never be sent)"
	} else {
		what += fmt.Sprintf(" - answered (%d bytes, err=%v)", len(out), err)
	}
	st.KnownResult(c11FindingLivelock, still, what)
	if still && !vfkit.Known(c11FindingLivelock) {
		t.Fatalf("regression of a repaired finding (%s is not listed as known): %s", c11FindingLivelock, what)
	}
	st.NonTrivial("witness", still)
	st.Sample(map[string]any{"result": what})
	t.Log(what)
}

// TestVF_C11_WitnessMemberID replays the witness of C11-joingroup-member-id-overflow through
// the real handler and judges the reply like any other: JoinGroup v4 with a 32767-byte group id.
func TestVF_C11_WitnessMemberID(t *testing.T) {
	st := vfkit.NewStats("C11", "witness-memberid")
	defer st.Flush()
	st.Eval()
	log.SetOutput(io.Discard)
	tb := vfc11kit.NewTable(generateApiVersions())
	store := &c11Store{InMemoryStore: metadata.NewInMemoryStore(c11Metadata()), limit: 3000}
	h := newHandler(store, storage.NewMemoryS3Client(), protocol.MetadataBroker{NodeID: 1, Host: "127.0.0.1", Port: 19092}, testLogger())
	defer h.coordinator.Stop()
	req := kmsg.NewPtrJoinGroupRequest()
	req.SetVersion(4)
	req.Group = string(bytes.Repeat([]byte{'g'}, 32767))
	req.ProtocolType = "consumer"
	req.SessionTimeoutMillis, req.RebalanceTimeoutMillis = 10000, 10000
	pr := &vfc11kit.Probe{Key: 11, Version: 4, Class: "advertised", Advertised: true, Req: req, Corr: 11, ClientID: "vf-witness"}
	if !c11MemberIDDomain(req, false) {
		t.Fatalf("HARNESS BUG: the witness is outside the exclusion predicate")
	}
	cid := pr.ClientID
	reply, err := h.Handle(context.Background(), &protocol.RequestHeader{APIKey: 11, APIVersion: 4, CorrelationID: pr.Corr, ClientID: &cid}, req)
	msg := ""
	if err != nil {
		msg = "handler failed: " + err.Error()
	} else {
		msg, _ = vfc11kit.JudgeReply(pr, tb, reply)
	}
	what := "JoinGroup v4 with a 32767-byte group id: "
	if msg != "" {
		what += msg
	} else {
		what += "reply decodes at v4"
	}
	st.KnownResult(c11FindingMemberID, msg != "", what)
	if msg != "" && !vfkit.Known(c11FindingMemberID) {
		t.Fatalf("regression of a repaired finding (%s is not listed as known): %s", c11FindingMemberID, what)
	}
	st.NonTrivial("witness-memberid", msg != "")
	st.Sample(map[string]any{"result": what})
	t.Log(what)
}

// c11GenProxyHeader: a valid PROXY header as a load balancer in front of the broker sends it
// (v1, v2 TCP4/TCP6 with 0-3 TLVs of the kinds seen in the field, v2 LOCAL).
func c11GenProxyHeader(t *rapid.T) ([]byte, string) {
	sig := []byte{'\r', '\n', '\r', '\n', 0x00, '\r', '\n', 'Q', 'U', 'I', 'T', '\n'}
	v2 := func(verCmd, famProto byte, payload []byte) []byte {
		h := append(append([]byte(nil), sig...), verCmd, famProto, byte(len(payload)>>8), byte(len(payload)))
		return append(h, payload...)
	}
	tlvs := func() ([]byte, string) {
		var out []byte
		n := rapid.IntRange(0, 3).Draw(t, "tlvs")
		for i := 0; i < n; i++ {
			var typ byte
			var val []byte
			switch rapid.IntRange(0, 3).Draw(t, "tlv-kind") {
			case 0: // PP2_TYPE_NOOP padding
				typ, val = 0x04, make([]byte, rapid.IntRange(0, 20).Draw(t, "noop-len"))
			case 1: // PP2_TYPE_AUTHORITY
				typ, val = 0x02, []byte("broker.kafka.example.com")
			case 2: // PP2_TYPE_AWS: subtype VPC endpoint id
				typ, val = 0xEA, append([]byte{0x01}, "vpce-08d2bf15fac5001c9"...)
			default: // PP2_TYPE_CRC32C / unique id
				typ, val = 0x05, rapid.SliceOfN(rapid.Byte(), 1, 16).Draw(t, "tlv-val")
			}
			out = append(out, typ, byte(len(val)>>8), byte(len(val)))
			out = append(out, val...)
		}
		if n == 0 {
			return nil, ""
		}
		return out, "+tlv"
	}
	switch rapid.IntRange(0, 4).Draw(t, "proxy-header") {
	case 0:
		return []byte("PROXY TCP4 192.0.2.10 192.0.2.20 51000 9092\r\n"), "v1"
	case 1:
		tl, k := tlvs()
		return v2(0x20, 0x00, tl), "v2-local" + k
	case 2:
		b := append([]byte{0x20, 0x01, 0x0d, 0xb8, 0, 0, 0, 0, 0, 0, 0, 0, 0, 0, 0, 1, 0x20, 0x01, 0x0d, 0xb8, 0, 0, 0, 0, 0, 0, 0, 0, 0, 0, 0, 2}, 0xc7, 0x38, 0x23, 0x84)
		tl, k := tlvs()
		return v2(0x21, 0x21, append(b, tl...)), "v2-tcp6" + k
	default:
		b := []byte{192, 0, 2, 10, 192, 0, 2, 20, 0xc7, 0x38, 0x23, 0x84}
		tl, k := tlvs()
		return v2(0x21, 0x11, append(b, tl...)), "v2-tcp4" + k
	}
}

// TestVF_C11_WitnessListOffsetsCount: ListOffsets v0 with a large max_num_offsets. The real
// witness (0x7fffffff => 16 GiB per partition => fatal out of memory) cannot be replayed
// safely; 2^25 shows the same thing harmlessly: the handler allocates what the client's
// count says (256 MiB for a 50-byte request).
func TestVF_C11_WitnessListOffsetsCount(t *testing.T) {
	st := vfkit.NewStats("C11", "witness-listoffsets")
	defer st.Flush()
	st.Eval()
	log.SetOutput(io.Discard)
	store := &c11Store{InMemoryStore: metadata.NewInMemoryStore(c11Metadata()), limit: 3000}
	h := newHandler(store, storage.NewMemoryS3Client(), protocol.MetadataBroker{NodeID: 1, Host: "127.0.0.1", Port: 19092}, testLogger())
	defer h.coordinator.Stop()
	req := kmsg.NewPtrListOffsetsRequest()
	req.SetVersion(0)
	req.ReplicaID = -1
	tp := kmsg.NewListOffsetsRequestTopic()
	tp.Topic = "orders"
	pp := kmsg.NewListOffsetsRequestTopicPartition()
	pp.Partition, pp.Timestamp, pp.MaxNumOffsets = 0, -1, 1<<25
	tp.Partitions = append(tp.Partitions, pp)
	req.Topics = append(req.Topics, tp)
	if !c11ListOffsetsCountDomain(req, false) {
		t.Fatalf("HARNESS BUG: the witness is outside the exclusion predicate")
	}
	sample := []metrics.Sample{{Name: "/gc/heap/allocs:bytes"}}
	metrics.Read(sample)
	before := sample[0].Value.Uint64()
	cid := "vf-witness"
	out, err := h.Handle(context.Background(), &protocol.RequestHeader{APIKey: 2, APIVersion: 0, CorrelationID: 3, ClientID: &cid}, req)
	metrics.Read(sample)
	allocated := sample[0].Value.Uint64() - before
	still := allocated > 64<<20
	what := fmt.Sprintf("ListOffsets v0 orders/0 with max_num_offsets=2^25 (%d-byte request): the handler allocated %d MiB while answering (reply %d bytes, err=%v)", len(req.AppendTo(nil)), allocated>>20, len(out), err)
	if still {
		what += " - make([]int64, 0, MaxNumOffsets) is sized by the client; 0x7fffffff asks for 16 GiB per partition => fatal error: out of memory, no reply"
	}
	st.KnownResult(c11FindingListOffsetsCount, still, what)
	if still && !vfkit.Known(c11FindingListOffsetsCount) {
		t.Fatalf("finding %s is not listed as known and reproduces: %s", c11FindingListOffsetsCount, what)
	}
	st.NonTrivial("witness-listoffsets", still)
	st.Sample(map[string]any{"result": what})
	t.Log(what)
}

// TestVF_C11_WitnessTraceNil: Metadata v12 by an unknown topic id with trace logging on.
func TestVF_C11_WitnessTraceNil(t *testing.T) {
	st := vfkit.NewStats("C11", "witness-trace")
	defer st.Flush()
	st.Eval()
	log.SetOutput(io.Discard)
	store := &c11Store{InMemoryStore: metadata.NewInMemoryStore(c11Metadata()), limit: 3000}
	h := newHandler(store, storage.NewMemoryS3Client(), protocol.MetadataBroker{NodeID: 1, Host: "127.0.0.1", Port: 19092}, testLogger())
	defer h.coordinator.Stop()
	h.traceKafka = true
	req := kmsg.NewPtrMetadataRequest()
	req.SetVersion(12)
	mt := kmsg.NewMetadataRequestTopic()
	mt.TopicID = [16]byte{0xde, 0xad, 0xbe, 0xef, 1, 2, 3, 4, 5, 6, 7, 8, 9, 10, 11, 12}
	req.Topics = append(req.Topics, mt)
	_, ids := c11PartitionCounts(store)
	if !c11TraceNilDomain(req, true, ids, false) {
		t.Fatalf("HARNESS BUG: the witness is outside the exclusion predicate")
	}
	sw := &c11Switch{res: map[int32]c11Result{}}
	sw.cur.Store(h)
	cid := "vf-witness"
	out, err := sw.Handle(context.Background(), &protocol.RequestHeader{APIKey: 3, APIVersion: 12, CorrelationID: 4, ClientID: &cid}, req)
	res, _ := sw.take(4)
	still := res.panicked != nil
	what := "Metadata v12 by an unknown topic id with KAFSCALE_TRACE_KAFKA=true: "
	if still {
		what += fmt.Sprintf("handler panicked (%v): the trace block formats *topic.Topic of the UNKNOWN_TOPIC_ID entry whose name is nil; no recover on the connection goroutine, the broker dies", res.panicked)
	} else {
		what += fmt.Sprintf("answered (%d bytes, err=%v)", len(out), err)
	}
	st.KnownResult(c11FindingTraceNil, still, what)
	if still && !vfkit.Known(c11FindingTraceNil) {
		t.Fatalf("finding %s is not listed as known and reproduces: %s", c11FindingTraceNil, what)
	}
	st.NonTrivial("witness-trace", still)
	st.Sample(map[string]any{"result": what})
	t.Log(what)
}

// c11WitnessAlloc runs one request through a fresh real handler and reports the bytes allocated.
func c11WitnessAlloc(key, version int16, req kmsg.Request) (allocated uint64, store *c11Store, out []byte, err error) {
	store = &c11Store{InMemoryStore: metadata.NewInMemoryStore(c11Metadata()), limit: 3000}
	h := newHandler(store, storage.NewMemoryS3Client(), protocol.MetadataBroker{NodeID: 1, Host: "127.0.0.1", Port: 19092}, testLogger())
	defer h.coordinator.Stop()
	sample := []metrics.Sample{{Name: "/gc/heap/allocs:bytes"}}
	metrics.Read(sample)
	before := sample[0].Value.Uint64()
	cid := "vf-witness"
	out, err = h.Handle(context.Background(), &protocol.RequestHeader{APIKey: key, APIVersion: version, CorrelationID: 5, ClientID: &cid}, req)
	metrics.Read(sample)
	return sample[0].Value.Uint64() - before, store, out, err
}

// TestVF_C11_WitnessPartitionCount: CreateTopics with a partition count no real topic has. The
// real witness (2147483647 => 206 GB) cannot be replayed; 200000 shows the unbounded
// allocation harmlessly.
func TestVF_C11_WitnessPartitionCount(t *testing.T) {
	st := vfkit.NewStats("C11", "witness-partcount")
	defer st.Flush()
	st.Eval()
	log.SetOutput(io.Discard)
	req := kmsg.NewPtrCreateTopicsRequest()
	req.SetVersion(0)
	ct := kmsg.NewCreateTopicsRequestTopic()
	ct.Topic, ct.NumPartitions, ct.ReplicationFactor = "big", 200000, 1
	req.Topics = append(req.Topics, ct)
	req.TimeoutMillis = 1000
	if !c11PartitionCountDomain(req, false) {
		t.Fatalf("HARNESS BUG: the witness is outside the exclusion predicate")
	}
	allocated, store, out, err := c11WitnessAlloc(19, 0, req)
	counts, _ := c11PartitionCounts(store)
	still := counts["big"] == 200000 || allocated > 8<<20
	what := fmt.Sprintf("CreateTopics v0 {big, num_partitions=200000} (%d-byte request): topic created with %d partitions, %d MiB allocated (reply %d bytes, err=%v)", len(req.AppendTo(nil)), counts["big"], allocated>>20, len(out), err)
	if still {
		what += " - no upper bound on the client's count: 2147483647 asks for 206 GB => fatal error: out of memory, no reply"
	}
	st.KnownResult(c11FindingPartitionCount, still, what)
	if still && !vfkit.Known(c11FindingPartitionCount) {
		t.Fatalf("finding %s is not listed as known and reproduces: %s", c11FindingPartitionCount, what)
	}
	st.NonTrivial("witness-partcount", still)
	st.Sample(map[string]any{"result": what})
	t.Log(what)
}

// TestVF_C11_WitnessAutoCreateIndex: Fetch v11 on a topic that does not exist, partition index 199999.
func TestVF_C11_WitnessAutoCreateIndex(t *testing.T) {
	st := vfkit.NewStats("C11", "witness-autoindex")
	defer st.Flush()
	st.Eval()
	log.SetOutput(io.Discard)
	req := kmsg.NewPtrFetchRequest()
	req.SetVersion(11)
	req.ReplicaID, req.MaxWaitMillis, req.MinBytes, req.MaxBytes = -1, 0, 0, 1<<20
	ft := kmsg.NewFetchRequestTopic()
	ft.Topic = "nosuchtopic"
	fp := kmsg.NewFetchRequestTopicPartition()
	fp.Partition, fp.FetchOffset, fp.PartitionMaxBytes = 199999, 0, 1<<20
	ft.Partitions = append(ft.Partitions, fp)
	req.Topics = append(req.Topics, ft)
	pre := &c11Store{InMemoryStore: metadata.NewInMemoryStore(c11Metadata())}
	counts0, ids0 := c11PartitionCounts(pre)
	if !c11AutoCreateIndexDomain(req, counts0, ids0, false) {
		t.Fatalf("HARNESS BUG: the witness is outside the exclusion predicate")
	}
	allocated, store, out, err := c11WitnessAlloc(1, 11, req)
	counts, _ := c11PartitionCounts(store)
	still := counts["nosuchtopic"] > 1000
	what := fmt.Sprintf("Fetch v11 {nosuchtopic (does not exist), partition 199999}: topic auto-created with %d partitions, %d MiB allocated (reply %d bytes, err=%v)", counts["nosuchtopic"], allocated>>20, len(out), err)
	if still {
		what += " - ensureTopic creates index+1 partitions: index 2147483646 asks for 206 GB => fatal error: out of memory, no reply; needs no admin right"
	}
	st.KnownResult(c11FindingAutoCreateIdx, still, what)
	if still && !vfkit.Known(c11FindingAutoCreateIdx) {
		t.Fatalf("finding %s is not listed as known and reproduces: %s", c11FindingAutoCreateIdx, what)
	}
	st.NonTrivial("witness-autoindex", still)
	st.Sample(map[string]any{"result": what})
	t.Log(what)
}

// c11Acks0Appends: can this produce append anything (store reachable and at least one
// partition carries a well-formed v2 batch)? Used for the class histogram only.
func c11Acks0Appends(req kmsg.Request, unavailable bool) bool {
	pr, ok := req.(*kmsg.ProduceRequest)
	if !ok || unavailable {
		return false
	}
	for _, t := range pr.Topics {
		if t.Topic == "" {
			continue
		}
		for _, p := range t.Partitions {
			if len(p.Records) >= 61 && p.Records[16] == 2 {
				return true
			}
		}
	}
	return false
}

func c11Clip(b []byte) []byte {
	if len(b) > 300 {
		return b[:300]
	}
	return b
}
