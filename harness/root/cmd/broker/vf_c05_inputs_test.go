//go:build verif

package main

import (
	"context"
	"encoding/binary"
	"fmt"
	"strings"
	"testing"

	"pgregory.net/rapid"
	"verif.local/vfkit"
)

// C05 over inputs: the end offset published in the metadata store must not go down and
// must not run ahead of S3 whatever record batches clients send (the offset arithmetic
// follows header fields of the batch). Sequences of produce requests whose Records are
// drawn from the C02 shape classes (well-formed, header/body disagreement, non-positive
// header pairs, concatenated, wrong length/magic/crc, truncated, garbage), interleaved
// with restarts; after every request the published end offset is compared with its
// previous value and with the complete S3 segments.
// c05FooterEnd is 1 + the highest last offset recorded in the footers (crc32c u32 |
// lastOffset i64 | "END!") of the stored segments that have their index. The bodies hold
// whatever the clients sent, so they are not decoded here.
func c05FooterEnd(obj *vfkit.ObjStore, prefix string) int64 {
	snap := obj.Snapshot()
	var end int64
	for k, v := range snap {
		if !strings.HasPrefix(k, prefix) || !strings.HasSuffix(k, ".kfs") || len(v) < 48 {
			continue
		}
		if _, ok := snap[strings.TrimSuffix(k, ".kfs")+".index"]; !ok {
			continue
		}
		foot := v[len(v)-16:]
		if string(foot[12:]) != "END!" {
			continue
		}
		if last := int64(binary.BigEndian.Uint64(foot[4:12])); last+1 > end {
			end = last + 1
		}
	}
	return end
}

func TestVF_C05_Inputs(t *testing.T) {
	st := vfkit.NewStats("C05", "inputs")
	defer st.Flush()
	rapid.Check(t, func(t *rapid.T) {
		st.Eval()
		ctx := context.Background()
		store := vfStoreWithTopics(map[string]int32{"orders": 1})
		obj := vfkit.NewObjStore()
		opts := vfHandlerOpts{SegmentBytes: rapid.SampledFrom([]int{0, 200, 1000}).Draw(t, "segbytes"), ReadAhead: -1}
		h := vfNewHandler(store, obj, opts)
		prev := int64(0)
		var trace []string
		malformedAcked := false
		steps := rapid.IntRange(1, 12).Draw(t, "steps")
		for i := 0; i < steps; i++ {
			if rapid.IntRange(0, 5).Draw(t, "restartdie") == 0 {
				h.coordinator.Stop()
				h = vfNewHandler(store, obj, opts)
				trace = append(trace, "restart")
				continue
			}
			b := c02DrawBatch(t)
			acks := rapid.SampledFrom([]int16{1, -1}).Draw(t, "acks")
			res, err := vfProduce(h, 7, acks, "vf", []vfProducePart{{"orders", 0, b.Bytes}})
			if err != nil || len(res) != 1 {
				t.Fatalf("harness: produce transport error for class %s: %v", b.Class, err)
			}
			trace = append(trace, fmt.Sprintf("%s->code%d@%d", b.Class, res[0].ErrorCode, res[0].Base))
			if res[0].ErrorCode == 0 && b.Class != "wellformed" && b.Class != "wellformed-large" {
				malformedAcked = true
				st.Class("acked-" + b.Class)
			}
			pub, err := store.NextOffset(ctx, "orders", 0)
			if err != nil {
				t.Fatalf("harness: NextOffset: %v", err)
			}
			if pub < prev {
				t.Fatalf("C05 violated: published end offset went down %d -> %d after a %s batch\ntrace %v", prev, pub, b.Class, trace)
			}
			if end := c05FooterEnd(obj, "default/orders/0/"); pub > end {
				t.Fatalf("C05 violated: published end offset %d exceeds 1+last offset in complete S3 segments (%d) after a %s batch\ntrace %v", pub, end, b.Class, trace)
			}
			prev = pub
		}
		h.coordinator.Stop()
		if malformedAcked || len(trace) > 3 {
			if st.NonTrivial(trace) {
				st.Sample(trace)
			}
		}
	})
}
