//go:build verif

package main

import (
	"bytes"
	"context"
	"errors"
	"fmt"
	"net"
	"net/http"
	"net/http/httptest"
	"strconv"
	"strings"
	"sync"
	"testing"
	"time"

	"verif.local/vfkit"

	"github.com/KafScale/platform/pkg/storage"
)

// C44, wire leg: the dual client over two REAL storage.NewS3Client instances, each pointed
// at an in-process path-style S3 endpoint (net/http/httptest). The replica endpoint fails
// the way a network does: connection closed / reset in the middle of the body after the
// full Content-Length was announced, headers only, truncated chunked body, 503, slow answer,
// 404. Oracle as everywhere in C44: the read through the dual client equals what the
// primary client alone returns (bytes or error).

const (
	c44PrimaryBucket = "primary-bucket"
	c44ReplicaBucket = "replica-bucket"
)

// c44HTTPS3 is a minimal S3 endpoint: GET object (with Range) only.
type c44HTTPS3 struct {
	mu      sync.Mutex
	bucket  string
	objects map[string][]byte
	mode    string // ok | fin-half | rst-half | headers-only | chunked-cut | 503 | slow | fin-all-but-one
	gets    int
}

func (s *c44HTTPS3) set(mode string) { s.mu.Lock(); s.mode = mode; s.mu.Unlock() }
func (s *c44HTTPS3) getCount() int   { s.mu.Lock(); defer s.mu.Unlock(); return s.gets }

func c44XMLError(w http.ResponseWriter, status int, code, msg string) {
	w.Header().Set("Content-Type", "application/xml")
	w.WriteHeader(status)
	_, _ = fmt.Fprintf(w, `<?xml version="1.0" encoding="UTF-8"?><Error><Code>%s</Code><Message>%s</Message></Error>`, code, msg)
}

func (s *c44HTTPS3) ServeHTTP(w http.ResponseWriter, r *http.Request) {
	if r.Method != http.MethodGet {
		c44XMLError(w, http.StatusMethodNotAllowed, "MethodNotAllowed", "only GET")
		return
	}
	key := strings.TrimPrefix(r.URL.Path, "/"+s.bucket+"/")
	s.mu.Lock()
	s.gets++
	mode := s.mode
	body, ok := s.objects[key]
	s.mu.Unlock()
	if mode == "503" {
		c44XMLError(w, http.StatusServiceUnavailable, "SlowDown", "Please reduce your request rate.")
		return
	}
	if !ok {
		c44XMLError(w, http.StatusNotFound, "NoSuchKey", "The specified key does not exist.")
		return
	}
	status := http.StatusOK
	contentRange := ""
	if rng := r.Header.Get("Range"); strings.HasPrefix(rng, "bytes=") {
		parts := strings.SplitN(strings.TrimPrefix(rng, "bytes="), "-", 2)
		start, err1 := strconv.ParseInt(parts[0], 10, 64)
		end, err2 := strconv.ParseInt(parts[1], 10, 64)
		if err1 != nil || err2 != nil || start < 0 || start >= int64(len(body)) || end < start {
			w.Header().Set("Content-Range", fmt.Sprintf("bytes */%d", len(body)))
			c44XMLError(w, http.StatusRequestedRangeNotSatisfiable, "InvalidRange", "The requested range is not satisfiable")
			return
		}
		if end >= int64(len(body)) {
			end = int64(len(body)) - 1
		}
		contentRange = fmt.Sprintf("bytes %d-%d/%d", start, end, len(body))
		body = body[start : end+1]
		status = http.StatusPartialContent
	}
	if mode == "slow" {
		time.Sleep(30 * time.Millisecond)
		mode = "ok"
	}
	if mode == "ok" || mode == "" {
		if contentRange != "" {
			w.Header().Set("Content-Range", contentRange)
		}
		w.Header().Set("Content-Type", "application/octet-stream")
		w.Header().Set("Content-Length", strconv.Itoa(len(body)))
		w.WriteHeader(status)
		_, _ = w.Write(body)
		return
	}
	// failure modes: speak HTTP by hand on the hijacked connection
	hj, ok := w.(http.Hijacker)
	if !ok {
		c44XMLError(w, http.StatusInternalServerError, "InternalError", "cannot hijack")
		return
	}
	conn, buf, err := hj.Hijack()
	if err != nil {
		return
	}
	defer func() { _ = conn.Close() }()
	head := fmt.Sprintf("HTTP/1.1 %d %s\r\nContent-Type: application/octet-stream\r\n", status, http.StatusText(status))
	if contentRange != "" {
		head += "Content-Range: " + contentRange + "\r\n"
	}
	switch mode {
	case "fin-half", "rst-half", "headers-only", "fin-all-but-one":
		send := body[:len(body)/2]
		if mode == "headers-only" {
			send = nil
		}
		if mode == "fin-all-but-one" {
			send = body[:len(body)-1]
		}
		_, _ = buf.WriteString(head + fmt.Sprintf("Content-Length: %d\r\n\r\n", len(body)))
		_, _ = buf.Write(send)
		_ = buf.Flush()
		if mode == "rst-half" {
			if tc, ok := conn.(*net.TCPConn); ok {
				time.Sleep(5 * time.Millisecond) // let the client read what was sent before the RST discards it
				_ = tc.SetLinger(0)
			}
		}
	case "chunked-cut":
		half := body[:len(body)/2]
		_, _ = buf.WriteString(head + "Transfer-Encoding: chunked\r\n\r\n")
		_, _ = buf.WriteString(fmt.Sprintf("%x\r\n", len(body))) // announces the whole body as one chunk
		_, _ = buf.Write(half)
		_ = buf.Flush()
	}
}

func c44NewAWSClient(t *testing.T, url, bucket string) storage.S3Client {
	c, err := storage.NewS3Client(context.Background(), storage.S3Config{Bucket: bucket, Region: "us-east-1", Endpoint: url,
		ForcePathStyle: true, AccessKeyID: "test", SecretAccessKey: "test", MaxConnections: 4})
	if err != nil {
		fmt.Println("VF-INCONCLUSIVE: cannot build the AWS S3 client:", err)
		t.Fatalf("NewS3Client: %v", err)
	}
	return c
}

func c44Pattern(n int, seed byte) []byte {
	b := make([]byte, n)
	for i := range b {
		b[i] = byte(i*31+i>>8) ^ seed
	}
	return b
}

func TestVF_C44_AwsWire(t *testing.T) {
	st := vfkit.NewStats("C44", "awswire")
	defer st.Flush()
	// one attempt per call: SDK retries only repeat the same endpoint fault (and sleep for real)
	t.Setenv("AWS_MAX_ATTEMPTS", "1")
	t.Setenv("AWS_EC2_METADATA_DISABLED", "true")
	t.Setenv("AWS_CONFIG_FILE", "/dev/null")
	t.Setenv("AWS_SHARED_CREDENTIALS_FILE", "/dev/null")
	for _, k := range []string{"HTTP_PROXY", "HTTPS_PROXY", "http_proxy", "https_proxy", "ALL_PROXY", "all_proxy"} {
		t.Setenv(k, "")
	}

	type obj struct {
		key   string
		index bool
		size  int
	}
	objs := []obj{
		{"default/orders/0/segment-00000000000000000000.kfs", false, 300 * 1024},
		{"default/orders/0/segment-00000000000000000000.index", true, 16 * 1024},
		{"default/orders/0/segment-00000000000000000300.kfs", false, 700},
		{"default/orders/0/segment-00000000000000000300.index", true, 40},
	}
	prim := &c44HTTPS3{bucket: c44PrimaryBucket, objects: map[string][]byte{}, mode: "ok"}
	repl := &c44HTTPS3{bucket: c44ReplicaBucket, objects: map[string][]byte{}, mode: "ok"}
	for i, o := range objs {
		b := c44Pattern(o.size, byte(i))
		prim.objects[o.key] = b
		repl.objects[o.key] = b // fully replicated, identical copies
	}
	missingOnReplica := "default/orders/0/segment-00000000000000000900.kfs"
	prim.objects[missingOnReplica] = c44Pattern(5000, 9)
	objs = append(objs, obj{missingOnReplica, false, 5000})

	ps, rs := httptest.NewServer(prim), httptest.NewServer(repl)
	defer ps.Close()
	defer rs.Close()
	primary := c44NewAWSClient(t, ps.URL, c44PrimaryBucket)
	replica := c44NewAWSClient(t, rs.URL, c44ReplicaBucket)
	dual := newDualS3Client(primary, replica)
	ctx := context.Background() // as on the broker's data path; a hang ends in the driver's timeout (inconclusive)

	// sanity of the harness: the primary client alone returns the stored bytes
	if b, err := primary.DownloadSegment(ctx, objs[0].key, nil); err != nil || !bytes.Equal(b, prim.objects[objs[0].key]) {
		fmt.Println("VF-INCONCLUSIVE: in-process S3 endpoint does not serve the AWS client:", err)
		t.Fatalf("harness: primary alone: %v", err)
	}

	modes := []string{"ok", "fin-half", "rst-half", "headers-only", "fin-all-but-one", "chunked-cut", "503", "slow"}
	for _, mode := range modes {
		repl.set(mode)
		for _, o := range objs {
			var reads []*storage.ByteRange
			if o.index {
				reads = []*storage.ByteRange{nil}
			} else {
				sz := int64(o.size)
				reads = []*storage.ByteRange{nil, {Start: 0, End: 31}, {Start: sz - 16, End: sz - 1}, {Start: 100, End: sz/2 + 100},
					{Start: sz - 8, End: sz + 100}, {Start: sz, End: sz + 10}}
			}
			for ri, rng := range reads {
				read := func(c storage.S3Client) ([]byte, error) {
					if o.index {
						return c.DownloadIndex(ctx, o.key)
					}
					return c.DownloadSegment(ctx, o.key, rng)
				}
				desc := "index"
				if !o.index {
					desc = "segment[full]"
					if rng != nil {
						desc = fmt.Sprintf("segment[%d-%d]", rng.Start, rng.End)
					}
				}
				want, wantErr := read(primary)
				before := repl.getCount()
				got, gotErr := read(dual)
				st.Eval()
				st.Class("replica:" + mode)
				if mode != "ok" {
					if st.NonTrivial(mode, o.key, ri) {
						st.Sample(map[string]any{"replica_fault": mode, "object_bytes": o.size, "read": desc})
					}
				}
				if repl.getCount() == before {
					t.Fatalf("harness: the replica endpoint was not consulted for %s of %s", desc, o.key)
				}
				if (gotErr == nil) != (wantErr == nil) {
					t.Fatalf("replica fault %q: %s of %s (%d bytes): dual err=%v, primary alone err=%v", mode, desc, o.key, o.size, gotErr, wantErr)
				}
				if gotErr != nil {
					if errors.Is(gotErr, storage.ErrNotFound) != errors.Is(wantErr, storage.ErrNotFound) {
						t.Fatalf("replica fault %q: %s of %s: error class differs: dual %v, primary alone %v", mode, desc, o.key, gotErr, wantErr)
					}
					continue
				}
				if !bytes.Equal(got, want) {
					t.Fatalf("replica fault %q: %s of %s returned %d bytes, the primary alone returns %d bytes (equal prefix: %v)", mode, desc, o.key, len(got), len(want), len(got) <= len(want) && bytes.Equal(got, want[:len(got)]))
				}
			}
		}
	}
}
