//go:build verif

package main

import (
	"bytes"
	"context"
	"encoding/binary"
	"fmt"
	"testing"

	"github.com/KafScale/platform/pkg/protocol"
	"github.com/twmb/franz-go/pkg/kmsg"
	"pgregory.net/rapid"
	"verif.local/vfkit"
)

// C03 at handler level: produce/fetch/restart histories over 2 topics x 2 partitions on
// ONE handler (shared cache, shared S3 key space); fetch by name (v11/v12) and by topic id
// (v13). Every successful fetch must return a contiguous run of THAT partition's
// acknowledged log starting at a batch boundary at or before the batch holding the
// offset, labelled with the requested topic/partition.

type c03hRef struct {
	bases []int64
	lasts []int64
	pos   []int
	raws  [][]byte
	log   []byte
}

func (r *c03hRef) end() int64 {
	if len(r.lasts) == 0 {
		return 0
	}
	return r.lasts[len(r.lasts)-1] + 1
}

func c03hFetchByID(h *handler, id [16]byte, partition int32, offset int64, maxBytes int32) (vfFetchResult, string, error) {
	req := kmsg.NewPtrFetchRequest()
	req.Version = 13
	req.MaxBytes = 1 << 30
	rt := kmsg.NewFetchRequestTopic()
	rt.TopicID = id
	rp := kmsg.NewFetchRequestTopicPartition()
	rp.Partition = partition
	rp.FetchOffset = offset
	rp.PartitionMaxBytes = maxBytes
	rt.Partitions = append(rt.Partitions, rp)
	req.Topics = append(req.Topics, rt)
	cid := "vf"
	raw, err := h.Handle(context.Background(), &protocol.RequestHeader{APIKey: protocol.APIKeyFetch, APIVersion: 13, CorrelationID: 3, ClientID: &cid}, req)
	if err != nil {
		return vfFetchResult{}, "", err
	}
	body, ok := vfSkipRespHeader(raw, true)
	if !ok {
		return vfFetchResult{}, "", fmt.Errorf("vf: bad response header")
	}
	resp := kmsg.NewPtrFetchResponse()
	resp.Version = 13
	if err := resp.ReadFrom(body); err != nil {
		return vfFetchResult{}, "", err
	}
	if len(resp.Topics) != 1 || len(resp.Topics[0].Partitions) != 1 {
		return vfFetchResult{}, "", fmt.Errorf("vf: %d topics in response", len(resp.Topics))
	}
	if resp.Topics[0].TopicID != id || resp.Topics[0].Partitions[0].Partition != partition {
		return vfFetchResult{}, "", fmt.Errorf("fetch response labelled id %x partition %d, requested id %x partition %d", resp.Topics[0].TopicID, resp.Topics[0].Partitions[0].Partition, id, partition)
	}
	p := resp.Topics[0].Partitions[0]
	return vfFetchResult{ErrorCode: p.ErrorCode, HighWatermark: p.HighWatermark, Records: p.RecordBatches}, resp.Topics[0].Topic, nil
}

func TestVF_C03_HandlerFetch(t *testing.T) {
	st := vfkit.NewStats("C03", "handlerfetch")
	defer st.Flush()
	topics := []string{"orders", "orders-eu"}
	rapid.Check(t, func(t *rapid.T) {
		st.Eval()
		store := vfStoreWithTopics(map[string]int32{"orders": 2, "orders-eu": 2})
		obj := vfkit.NewObjStore()
		opts := vfHandlerOpts{SegmentBytes: rapid.SampledFrom([]int{0, 250, 1200}).Draw(t, "segbytes"),
			CacheBytes: rapid.SampledFrom([]int{0, 400, 4000}).Draw(t, "cache"), ReadAhead: rapid.SampledFrom([]int{0, 2}).Draw(t, "readahead"), NoS3Backpressure: true}
		h := vfNewHandler(store, obj, opts)
		defer func() { h.coordinator.Stop() }()
		meta, err := store.Metadata(context.Background(), nil)
		if err != nil {
			t.Fatalf("harness: %v", err)
		}
		ids := map[string][16]byte{}
		for _, mt := range meta.Topics {
			ids[*mt.Topic] = mt.TopicID
		}
		refs := map[string]*c03hRef{}
		ref := func(tp string, p int32) *c03hRef {
			k := fmt.Sprintf("%s/%d", tp, p)
			if refs[k] == nil {
				refs[k] = &c03hRef{}
			}
			return refs[k]
		}
		var trace []string
		nt := false
		restarted := false
		nb := 0
		steps := rapid.IntRange(3, 16).Draw(t, "steps")
		for i := 0; i < steps; i++ {
			tp := rapid.SampledFrom(topics).Draw(t, "topic")
			part := int32(rapid.IntRange(0, 1).Draw(t, "partition"))
			r := ref(tp, part)
			switch rapid.SampledFrom([]string{"produce", "produce", "fetch", "fetch", "fetch", "restart"}).Draw(t, "op") {
			case "produce":
				n := rapid.IntRange(1, 5).Draw(t, "records")
				tag := fmt.Sprintf("%s/%d#%d", tp, part, nb)
				nb++
				raw := c06Batch(tag, n, rapid.SampledFrom([]int{4, 40, 200}).Draw(t, "valsize"))
				res, err := vfProduce(h, 7, -1, "vf", []vfProducePart{{tp, part, raw}})
				if err != nil || len(res) != 1 {
					t.Fatalf("harness: produce: %v", err)
				}
				if res[0].ErrorCode != 0 {
					t.Fatalf("harness: well-formed produce rejected with %d without faults", res[0].ErrorCode)
				}
				if res[0].Base != r.end() {
					t.Fatalf("harness/C02: %s acked at %d, reference end %d", tag, res[0].Base, r.end())
				}
				b := append([]byte(nil), raw...)
				binary.BigEndian.PutUint64(b, uint64(res[0].Base))
				r.bases = append(r.bases, res[0].Base)
				r.lasts = append(r.lasts, res[0].Base+int64(n)-1)
				r.pos = append(r.pos, len(r.log))
				r.raws = append(r.raws, b)
				r.log = append(r.log, b...)
				trace = append(trace, fmt.Sprintf("produce %s->%d", tag, res[0].Base))
			case "restart":
				h.coordinator.Stop()
				h = vfNewHandler(store, obj, opts)
				restarted = true
				trace = append(trace, "restart")
			case "fetch":
				end := r.end()
				var o int64
				switch rapid.IntRange(0, 3).Draw(t, "oclass") {
				case 0:
					if len(r.bases) > 0 {
						o = r.bases[rapid.IntRange(0, len(r.bases)-1).Draw(t, "bi")]
					}
				case 1:
					if end > 0 {
						o = int64(rapid.IntRange(0, int(end-1)).Draw(t, "any"))
					}
				case 2:
					o = end
				default:
					o = end + int64(rapid.IntRange(1, 3).Draw(t, "beyond"))
				}
				m := rapid.SampledFrom([]int32{1, 30, 100, 400, 1 << 20}).Draw(t, "maxbytes")
				version := int16(rapid.IntRange(11, 13).Draw(t, "version"))
				var fr vfFetchResult
				var err error
				if version == 13 {
					var name string
					fr, name, err = c03hFetchByID(h, ids[tp], part, o, m)
					if err == nil && name != "" && name != tp {
						t.Fatalf("fetch by id of %s answered with topic name %q", tp, name)
					}
				} else {
					fr, err = vfFetch(h, version, tp, part, o, m)
				}
				if err != nil {
					t.Fatalf("fetch(%s/%d,%d,%d) v%d: %v\ntrace %v", tp, part, o, m, version, err, trace)
				}
				trace = append(trace, fmt.Sprintf("fetch(%s/%d,%d,%d)v%d=code%d,%dB", tp, part, o, m, version, fr.ErrorCode, len(fr.Records)))
				st.Class(fmt.Sprintf("fetch-v%d", version))
				if fr.ErrorCode != 0 || len(fr.Records) == 0 {
					if len(fr.Records) != 0 {
						t.Fatalf("fetch answered error %d together with %d record bytes", fr.ErrorCode, len(fr.Records))
					}
					continue
				}
				if o >= end {
					t.Fatalf("fetch(%s/%d) at offset %d >= end %d returned %d record bytes\ntrace %v", tp, part, o, end, len(fr.Records), trace)
				}
				got := fr.Records
				if len(got) < 8 {
					continue
				}
				first := int64(binary.BigEndian.Uint64(got))
				si := -1
				for k := range r.bases {
					if r.bases[k] == first && r.bases[k] <= o {
						si = k
					}
				}
				if si < 0 {
					t.Fatalf("fetch(%s/%d,offset=%d) starts at base offset %d which is not a batch boundary of that partition at or before the offset\ntrace %v", tp, part, o, first, trace)
				}
				// must start at or before the batch holding o
				if r.lasts[si] < o {
					hold := si
					for hold < len(r.lasts) && r.lasts[hold] < o {
						hold++
					}
					_ = hold
				}
				p0 := r.pos[si]
				if p0+len(got) > len(r.log) || !bytes.Equal(r.log[p0:p0+len(got)], got) {
					t.Fatalf("fetch(%s/%d,offset=%d,maxBytes=%d) returned %d bytes that are not a contiguous run of that partition's acknowledged log from batch %d\ntrace %v", tp, part, o, m, len(got), first, trace)
				}
				if restarted || len(got) > len(r.raws[si]) {
					nt = true
				}
			}
		}
		if nt {
			if st.NonTrivial(opts, trace) {
				st.Sample(map[string]any{"opts": fmt.Sprintf("%+v", opts), "trace": trace})
			}
		}
	})
}
