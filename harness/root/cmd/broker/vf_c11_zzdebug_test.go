//go:build verif

package main

import (
	"context"
	"encoding/hex"
	"os"
	"runtime/pprof"
	"testing"
	"time"

	"github.com/KafScale/platform/pkg/metadata"
	"github.com/KafScale/platform/pkg/protocol"
	"github.com/KafScale/platform/pkg/storage"
)

func TestVF_C11_ZZDebug(t *testing.T) {
	frame, _ := hex.DecodeString(os.Getenv("C11_FRAME"))
	hdr, req, err := protocol.ParseRequest(frame[4:])
	if err != nil {
		t.Fatalf("parse: %v", err)
	}
	t.Logf("req=%+v", req)
	store := metadata.NewInMemoryStore(c11Metadata())
	h := newHandler(store, storage.NewMemoryS3Client(), protocol.MetadataBroker{NodeID: 1, Host: "127.0.0.1", Port: 19092}, testLogger())
	done := make(chan struct{})
	go func() {
		out, err := h.Handle(context.Background(), hdr, req)
		t.Logf("handled: %d bytes err=%v", len(out), err)
		close(done)
	}()
	select {
	case <-done:
	case <-time.After(5 * time.Second):
		_ = pprof.Lookup("goroutine").WriteTo(os.Stdout, 1)
		t.Fatalf("handler still running after 5s")
	}
}
