//go:build verif

package main

import (
	"bytes"
	"context"
	"encoding/binary"
	"errors"
	"fmt"
	"strings"
	"sync"
	"testing"
	"time"

	"github.com/KafScale/platform/pkg/metadata"
	"github.com/KafScale/platform/pkg/storage"
	"pgregory.net/rapid"
	"verif.local/vfkit"
)

// C06: for a generated produce/fetch history (with non-fatal S3 upload faults), the
// broker is killed at EVERY mutation point of that history (each S3 upload and each
// metadata-store end-offset update; both "effect did not happen" and "effect happened,
// then the process died"), a new handler is opened on the same store and S3 model and a
// probe suffix runs. Oracle: every record acknowledged before the crash is fetched at
// its original offset; a new append never gets an offset that was acknowledged or
// returned to a consumer; the partition opens.

type c06Crash struct {
	mu sync.Mutex
	// the process dies at the target-th event of kind targetKind (-1: never). Events are
	// numbered per kind because the segment and index uploads of one flush run in parallel
	// goroutines: a global counter would not be deterministic.
	targetKind string
	target     int
	after      bool // true: the effect of that event happens before the death
	counts     map[string]int
	crashed    bool
	diedAt     string
}

var errC06Dead = errors.New("vf: process is dead")

// step is called at every mutation event. It returns (doEffect, fail).
func (c *c06Crash) step(kind string) (bool, bool) {
	c.mu.Lock()
	defer c.mu.Unlock()
	if c.crashed {
		return false, true
	}
	if c.counts == nil {
		c.counts = map[string]int{}
	}
	idx := c.counts[kind]
	c.counts[kind]++
	if kind == c.targetKind && idx == c.target {
		c.crashed = true
		c.diedAt = kind
		return c.after, true
	}
	return true, false
}

func (c *c06Crash) dead() bool { c.mu.Lock(); defer c.mu.Unlock(); return c.crashed }

type c06S3 struct {
	inner *vfS3
	c     *c06Crash
	// The segment and the index of one flush are uploaded by two goroutines. Which of the
	// two reaches S3 first decides what a crash or a failed upload leaves behind, so the
	// harness owns that order: both uploads of a flush meet here, then they are carried out
	// one after the other, index first iff idxFirst. If the first one fails, the second is
	// not sent (the cancellation of the flush reached it before it went out); the other
	// combination of outcomes is the same S3 state with the order swapped.
	idxFirst bool
	mu       sync.Mutex
	pairs    map[string]*c06Pair
	broken   string
}

type c06Pair struct {
	n           int
	both        chan struct{}
	firstDone   chan struct{}
	firstFailed bool
	done        int
}

func (s *c06S3) put(kind, key string, f func() error) error {
	stem := strings.TrimSuffix(strings.TrimSuffix(key, ".kfs"), ".index")
	s.mu.Lock()
	if s.pairs == nil {
		s.pairs = map[string]*c06Pair{}
	}
	pr := s.pairs[stem]
	if pr == nil {
		pr = &c06Pair{both: make(chan struct{}), firstDone: make(chan struct{})}
		s.pairs[stem] = pr
	}
	pr.n++
	if pr.n == 2 {
		close(pr.both)
	}
	s.mu.Unlock()
	select {
	case <-pr.both:
	case <-time.After(10 * time.Second):
		s.mu.Lock()
		s.broken = "harness: the sibling upload of " + key + " never arrived"
		s.mu.Unlock()
	}
	first := (kind == "put-index") == s.idxFirst
	skip := false
	if !first {
		select {
		case <-pr.firstDone:
		case <-time.After(10 * time.Second):
		}
		s.mu.Lock()
		skip = pr.firstFailed
		s.mu.Unlock()
	}
	finish := func(failed bool) {
		s.mu.Lock()
		if first {
			pr.firstFailed = failed
			close(pr.firstDone)
		}
		pr.done++
		if pr.done == 2 {
			delete(s.pairs, stem)
		}
		s.mu.Unlock()
	}
	if skip {
		finish(true)
		return context.Canceled
	}
	do, fail := s.c.step(kind)
	if do {
		if err := f(); err != nil && !fail {
			finish(true)
			return err
		}
	}
	finish(fail)
	if fail {
		return errC06Dead
	}
	return nil
}
func (s *c06S3) UploadSegment(ctx context.Context, key string, body []byte) error {
	return s.put("put-segment", key, func() error { return s.inner.UploadSegment(context.WithoutCancel(ctx), key, body) })
}
func (s *c06S3) UploadIndex(ctx context.Context, key string, body []byte) error {
	return s.put("put-index", key, func() error { return s.inner.UploadIndex(context.WithoutCancel(ctx), key, body) })
}
func (s *c06S3) DeleteSegment(ctx context.Context, key string) error {
	if s.c.dead() {
		return errC06Dead
	}
	return s.inner.DeleteSegment(ctx, key)
}
func (s *c06S3) DeleteIndex(ctx context.Context, key string) error {
	if s.c.dead() {
		return errC06Dead
	}
	return s.inner.DeleteIndex(ctx, key)
}
func (s *c06S3) DownloadSegment(ctx context.Context, key string, rng *storage.ByteRange) ([]byte, error) {
	if s.c.dead() {
		return nil, errC06Dead
	}
	return s.inner.DownloadSegment(ctx, key, rng)
}
func (s *c06S3) DownloadIndex(ctx context.Context, key string) ([]byte, error) {
	if s.c.dead() {
		return nil, errC06Dead
	}
	return s.inner.DownloadIndex(ctx, key)
}
func (s *c06S3) ListSegments(ctx context.Context, prefix string) ([]storage.S3Object, error) {
	if s.c.dead() {
		return nil, errC06Dead
	}
	return s.inner.ListSegments(ctx, prefix)
}
func (s *c06S3) EnsureBucket(ctx context.Context) error { return nil }

// c06Store wraps the real in-memory store; UpdateOffsets is a mutation event, every
// call fails once the process is dead.
type c06Store struct {
	metadata.Store
	c *c06Crash
}

func (s *c06Store) UpdateOffsets(ctx context.Context, topic string, partition int32, lastOffset int64) error {
	do, fail := s.c.step("update-offsets")
	if do {
		if err := s.Store.UpdateOffsets(ctx, topic, partition, lastOffset); err != nil && !fail {
			return err
		}
	}
	if fail {
		return errC06Dead
	}
	return nil
}
func (s *c06Store) NextOffset(ctx context.Context, topic string, partition int32) (int64, error) {
	if s.c.dead() {
		return 0, errC06Dead
	}
	return s.Store.NextOffset(ctx, topic, partition)
}
func (s *c06Store) Metadata(ctx context.Context, topics []string) (*metadata.ClusterMetadata, error) {
	if s.c.dead() {
		return nil, errC06Dead
	}
	return s.Store.Metadata(ctx, topics)
}

type c06Op struct {
	Kind    string // produce fetch restart
	Records int
	ValSize int
	SelA    int
	SelB    int
}

type c06Plan struct {
	Ops       []c06Op
	SegBytes  int
	SegFaults []vfkit.FaultKind
	IdxFaults []vfkit.FaultKind
	// RestartFaults: after every restart the first N S3 read/list calls fail (transient
	// outage while the partition is being re-opened); the probe retries.
	RestartFaults int
	// IdxFirst: the index upload of every flush reaches S3 before the segment upload
	IdxFirst bool
}

func c06DrawPlan(t *rapid.T) c06Plan {
	var p c06Plan
	n := rapid.IntRange(2, 9).Draw(t, "nops")
	for i := 0; i < n; i++ {
		k := rapid.SampledFrom([]string{"produce", "produce", "produce", "fetch", "restart"}).Draw(t, "kind")
		op := c06Op{Kind: k}
		switch k {
		case "produce":
			op.Records = rapid.IntRange(1, 5).Draw(t, "records")
			op.ValSize = rapid.SampledFrom([]int{5, 50, 300}).Draw(t, "valsize")
		case "fetch":
			op.SelA = rapid.IntRange(0, 1<<16).Draw(t, "selA")
			op.SelB = rapid.IntRange(0, 1<<16).Draw(t, "selB")
		}
		p.Ops = append(p.Ops, op)
	}
	p.SegBytes = rapid.SampledFrom([]int{0, 200, 900}).Draw(t, "segbytes")
	fk := rapid.SampledFrom([]vfkit.FaultKind{vfkit.FaultNone, vfkit.FaultNone, vfkit.FaultNone, vfkit.FaultNone, vfkit.FaultBefore, vfkit.FaultAfter})
	p.SegFaults = rapid.SliceOfN(fk, 0, 6).Draw(t, "segfaults")
	p.IdxFaults = rapid.SliceOfN(fk, 0, 6).Draw(t, "idxfaults")
	p.RestartFaults = rapid.SampledFrom([]int{0, 0, 1, 2, 3}).Draw(t, "restartfaults")
	p.IdxFirst = rapid.Bool().Draw(t, "idxfirst")
	return p
}

type c06Acked struct {
	Base  int64
	N     int
	Bytes []byte
	Tag   string
}

type c06Outcome struct {
	Events     map[string]int
	Violations []string
	Acked      int
	Classes    []string
	Trace      []string
}

func c06Batch(tag string, n, valSize int) []byte {
	rs := make([]vfkit.Record, n)
	for i := range rs {
		v := bytes.Repeat([]byte{'x'}, valSize)
		copy(v, tag)
		rs[i] = vfkit.Record{TsDelta: int64(i), Key: []byte(fmt.Sprintf("%s/%d", tag, i)), Value: v}
	}
	return vfkit.NewBatch(0, 1_700_000_000_000, rs).Encode()
}

// c06Run executes the plan, dying at mutation event `target` (-1 = no crash), then
// restarts and probes.
func c06Run(p c06Plan, targetKind string, target int, after bool) (out c06Outcome) {
	const topic = "orders"
	obj := vfkit.NewObjStore()
	segN, idxN := 0, 0
	readFaultsLeft := 0
	readFault := func(op vfkit.ObjOp) vfkit.FaultKind {
		if (strings.HasPrefix(op.Kind, "get-") || op.Kind == "list") && readFaultsLeft > 0 {
			readFaultsLeft--
			return vfkit.FaultBefore
		}
		return vfkit.FaultNone
	}
	obj.Fault = func(op vfkit.ObjOp) vfkit.FaultKind {
		if f := readFault(op); f != vfkit.FaultNone {
			return f
		}
		switch op.Kind {
		case "put-segment":
			segN++
			if segN-1 < len(p.SegFaults) {
				return p.SegFaults[segN-1]
			}
		case "put-index":
			idxN++
			if idxN-1 < len(p.IdxFaults) {
				return p.IdxFaults[idxN-1]
			}
		}
		return vfkit.FaultNone
	}
	crash := &c06Crash{targetKind: targetKind, target: target, after: after}
	base := vfStoreWithTopics(map[string]int32{topic: 1})
	store := &c06Store{Store: base, c: crash}
	var wrappers []*c06S3
	defer func() {
		for _, w := range wrappers {
			w.mu.Lock()
			if w.broken != "" {
				out.Violations = append(out.Violations, w.broken)
			}
			w.mu.Unlock()
		}
	}()
	mkHandler := func() *handler {
		h := vfNewHandler(store, obj, vfHandlerOpts{SegmentBytes: p.SegBytes, ReadAhead: 0, NoS3Backpressure: true})
		w := &c06S3{inner: &vfS3{o: obj}, c: crash, idxFirst: p.IdxFirst}
		wrappers = append(wrappers, w)
		h.s3 = w
		return h
	}
	h := mkHandler()
	var acked []c06Acked
	maxShown := int64(-1)
	sawOrphanBelow := false
	nb := 0
	fetchCheck := func(h *handler, a c06Acked, when string) {
		fr, err := vfFetch(h, 11, topic, 0, a.Base, 1<<24)
		if err != nil {
			out.Violations = append(out.Violations, fmt.Sprintf("%s: fetch(%d) for acked batch %s failed: %v", when, a.Base, a.Tag, err))
			return
		}
		if fr.ErrorCode != 0 {
			out.Violations = append(out.Violations, fmt.Sprintf("%s: fetch(%d) for acked batch %s (%d records) answered error code %d (high watermark %d); S3 keys %v", when, a.Base, a.Tag, a.N, fr.ErrorCode, fr.HighWatermark, obj.Keys()))
			return
		}
		if fr.HighWatermark < a.Base+int64(a.N) {
			out.Violations = append(out.Violations, fmt.Sprintf("%s: high watermark %d hides acked batch %s at offsets %d..%d", when, fr.HighWatermark, a.Tag, a.Base, a.Base+int64(a.N)-1))
			return
		}
		bs, _ := vfkit.DecodeBatchesLenient(fr.Records)
		for _, b := range bs {
			if b.BaseOffset == a.Base && bytes.Equal(b.Raw[8:], a.Bytes[8:]) {
				return
			}
		}
		var got []int64
		for _, b := range bs {
			got = append(got, b.BaseOffset)
		}
		out.Violations = append(out.Violations, fmt.Sprintf("%s: fetch(%d) does not return acked batch %s byte for byte (returned batches at %v, %d bytes)", when, a.Base, a.Tag, got, len(fr.Records)))
	}
	produce := func(h *handler, op c06Op, when string, delivered func() bool) {
		tag := fmt.Sprintf("b%d", nb)
		nb++
		raw := c06Batch(tag, op.Records, op.ValSize)
		res, err := vfProduce(h, 7, -1, "vf", []vfProducePart{{topic, 0, raw}})
		if !delivered() {
			out.Trace = append(out.Trace, fmt.Sprintf("%s produce %s -> (process died)", when, tag))
			return
		}
		if err != nil || len(res) != 1 {
			out.Violations = append(out.Violations, fmt.Sprintf("harness: produce transport error %v", err))
			return
		}
		out.Trace = append(out.Trace, fmt.Sprintf("%s produce %s(%d) -> code %d base %d", when, tag, op.Records, res[0].ErrorCode, res[0].Base))
		if res[0].ErrorCode != 0 {
			return
		}
		b := res[0].Base
		for _, a := range acked {
			if b < a.Base+int64(a.N) && a.Base < b+int64(op.Records) {
				out.Violations = append(out.Violations, fmt.Sprintf("%s: batch %s acked at offsets %d..%d which overlap acknowledged batch %s at %d..%d", when, tag, b, b+int64(op.Records)-1, a.Tag, a.Base, a.Base+int64(a.N)-1))
			}
		}
		if b <= maxShown {
			out.Violations = append(out.Violations, fmt.Sprintf("%s: batch %s acked at base offset %d but offset %d was already returned to a consumer", when, tag, b, maxShown))
		}
		patched := append([]byte(nil), raw...)
		binary.BigEndian.PutUint64(patched, uint64(b))
		acked = append(acked, c06Acked{Base: b, N: op.Records, Bytes: patched, Tag: tag})
	}
	alive := func() bool { return !crash.dead() }
	for _, op := range p.Ops {
		if crash.dead() {
			break
		}
		switch op.Kind {
		case "produce":
			produce(h, op, "before-crash", alive)
		case "fetch":
			var end int64
			for _, a := range acked {
				if e := a.Base + int64(a.N); e > end {
					end = e
				}
			}
			o := int64(0)
			if end > 0 {
				o = int64(op.SelA) % (end + 1)
			}
			m := []int32{1, 50, 500, 1 << 20}[op.SelB%4]
			fr, err := vfFetch(h, 11, topic, 0, o, m)
			if err == nil && fr.ErrorCode == 0 && alive() {
				bs, _ := vfkit.DecodeBatchesLenient(fr.Records)
				for _, b := range bs {
					if last := b.BaseOffset + int64(len(b.Records)) - 1; last > maxShown {
						maxShown = last
					}
				}
			}
			out.Trace = append(out.Trace, fmt.Sprintf("fetch(%d,%d) shown<=%d", o, m, maxShown))
		case "restart":
			h = mkHandler()
			readFaultsLeft = p.RestartFaults
			out.Trace = append(out.Trace, "restart")
		}
	}
	out.Events = map[string]int{}
	for k, v := range crash.counts {
		out.Events[k] = v
	}
	out.Acked = len(acked)
	if target >= 0 && !crash.dead() {
		return out // crash point beyond this history's events
	}
	if crash.dead() {
		out.Classes = append(out.Classes, "died-at-"+crash.diedAt+map[bool]string{true: "-after-effect", false: "-before-effect"}[after])
	}
	// orphan below a later complete segment?
	keys := obj.Keys()
	for _, k := range keys {
		if strings.HasSuffix(k, ".kfs") {
			if _, ok := obj.Peek(strings.TrimSuffix(k, ".kfs") + ".index"); !ok {
				for _, k2 := range keys {
					if strings.HasSuffix(k2, ".kfs") && k2 > k {
						if _, ok2 := obj.Peek(strings.TrimSuffix(k2, ".kfs") + ".index"); ok2 {
							sawOrphanBelow = true
						}
					}
				}
			}
		}
	}
	if sawOrphanBelow {
		out.Classes = append(out.Classes, "index-less-segment-below-a-complete-one")
	}
	// restart: the process is new, faults are over
	crash.mu.Lock()
	crash.crashed = false
	crash.target = -1
	crash.mu.Unlock()
	obj.Fault = readFault
	readFaultsLeft = p.RestartFaults
	h = mkHandler()
	if p.RestartFaults > 0 {
		out.Classes = append(out.Classes, "transient-s3-read-faults-while-reopening")
		// a client retries retriable errors: burn the transient faults with throw-away fetches
		for i := 0; i < p.RestartFaults+1; i++ {
			_, _ = vfFetch(h, 11, topic, 0, 0, 1<<20)
		}
		readFaultsLeft = 0
	}
	for _, a := range acked {
		fetchCheck(h, a, "after restart")
	}
	// C06/C02: the first append after the restart must continue exactly where the stored
	// log ends: not inside acknowledged or stored offsets (reuse) and not beyond them (a
	// hole that no record will ever fill, e.g. by counting an index-less orphan segment).
	// "Stored" = complete segments (with index) as decoded by the independent codec.
	storedEnd := c01hDurableEnd(obj, 0)
	for _, a := range acked {
		if e := a.Base + int64(a.N); e > storedEnd {
			storedEnd = e
		}
	}
	nAckedBefore := len(acked)
	produce(h, c06Op{Records: 2, ValSize: 10}, "after restart", func() bool { return true })
	if len(acked) == nAckedBefore+1 {
		if got := acked[len(acked)-1].Base; got != storedEnd {
			out.Violations = append(out.Violations, fmt.Sprintf("after restart: first new batch acked at base offset %d but the stored log (complete segments and acknowledged batches) ends at %d; S3 keys %v", got, storedEnd, obj.Keys()))
		}
	}
	produce(h, c06Op{Records: 2, ValSize: 10}, "after restart (2)", func() bool { return true })
	produce(h, c06Op{Records: 1, ValSize: 10}, "after restart", func() bool { return true })
	for _, a := range acked {
		fetchCheck(h, a, "after restart+append")
	}
	// one more restart: the post-crash appends must survive as well
	h = mkHandler()
	for _, a := range acked {
		fetchCheck(h, a, "after second restart")
	}
	return out
}

func TestVF_C06_CrashPoints(t *testing.T) {
	st := vfkit.NewStats("C06", "crashpoints")
	defer st.Flush()
	rapid.Check(t, func(t *rapid.T) {
		p := c06DrawPlan(t)
		dry := c06Run(p, "", -1, false)
		st.Eval()
		fail := func(o c06Outcome, desc string) {
			for _, v := range o.Violations {
				if strings.HasPrefix(v, "harness:") {
					t.Fatalf("%s (%s)\ntrace %v", v, desc, o.Trace)
				}
			}
			if len(o.Violations) > 0 {
				t.Fatalf("C06 violated (%s): %s\ntrace: %v", desc, strings.Join(o.Violations, "\n"), o.Trace)
			}
		}
		fail(dry, "no crash")
		for _, kind := range []string{"put-segment", "put-index", "update-offsets"} {
			for target := 0; target < dry.Events[kind]; target++ {
				for _, after := range []bool{false, true} {
					o := c06Run(p, kind, target, after)
					st.Eval()
					for _, c := range o.Classes {
						st.Class(c)
					}
					if o.Acked > 0 {
						st.Class("crash-with-acked-data")
					}
					desc := fmt.Sprintf("died at %s #%d of %d, effect applied=%v", kind, target, dry.Events[kind], after)
					fail(o, desc)
					if len(o.Classes) > 0 && o.Acked > 0 {
						if st.NonTrivial(p, kind, target, after) {
							st.Sample(map[string]any{"plan": p, "crash_at": fmt.Sprintf("%s#%d", kind, target), "after_effect": after, "trace": o.Trace, "classes": o.Classes})
						}
					}
				}
			}
		}
		st.Note("crash_points", "every mutation event of each generated history x {before effect, after effect} is enumerated")
	})
}
