//go:build verif

package main

// C19: with partition leasing active, the broker returns success for a produce to
// partition p only if it held p's lease when it appended; otherwise the client gets
// NOT_LEADER_OR_FOLLOWER / a retriable error and nothing is written.
//
// The real handler runs over a real EtcdStore on an embedded etcd, so newHandler creates
// its real PartitionLeaseManager (broker id "1"). Foreign brokers are real
// PartitionLeaseManagers with other ids on their own etcd clients. The S3 side is the
// vfkit object-store model; its OnOp hook observes, at the moment of every segment
// upload, whether the handler's lease manager owns that partition.
//
// Per case: 1-4 produce requests; before each the harness moves leases (a foreign broker
// acquires a free partition, releases one, or - rarely - this broker's etcd session
// expires and the broker notices). Each request mixes partitions that are free, already
// held by this broker, held by a foreign broker, or of an unknown (auto-created) topic.

import (
	"context"
	"errors"
	"fmt"
	"reflect"
	"unsafe"
	"io"
	"log/slog"
	"strings"
	"sync"
	"testing"
	"time"

	"github.com/twmb/franz-go/pkg/kmsg"
	"go.etcd.io/etcd/api/v3/v3rpc/rpctypes"
	clientv3 "go.etcd.io/etcd/client/v3"
	"google.golang.org/grpc/codes"
	"google.golang.org/grpc/status"
	"go.etcd.io/etcd/client/v3/concurrency"
	"pgregory.net/rapid"
	"verif.local/vfkit"

	"github.com/KafScale/platform/internal/testutil"
	"github.com/KafScale/platform/pkg/metadata"
	"github.com/KafScale/platform/pkg/protocol"
)

const c19Finding = "C19-lease-not-rechecked-before-append"

var errC19Inconclusive = fmt.Errorf("vf c19: inconclusive")

// errC19Spontaneous: one of this broker's etcd leases ran out although the harness did not
// revoke it (process starved for longer than the TTL). The case says nothing then.
var errC19Spontaneous = fmt.Errorf("vf c19: a lease of the broker expired without the harness revoking it")

var c19Quiet = slog.New(slog.NewTextHandler(io.Discard, nil))

// Kafka error codes that clients treat as retriable (protocol documentation).
var c19Retriable = map[int16]bool{2: true, 3: true, 5: true, 6: true, 7: true, 9: true, 13: true, 14: true, 15: true, 16: true,
	19: true, 20: true, 56: true, 74: true, 75: true, 76: true, 89: true}

type c19Part struct {
	Topic string
	P     int32
}

func (p c19Part) String() string { return fmt.Sprintf("%s/%d", p.Topic, p.P) }

type c19Env struct {
	endpoints []string
	admin     *clientv3.Client
	foreign   []*clientv3.Client
}

func c19NewEnv(t *testing.T) *c19Env {
	endpoints := testutil.StartEmbeddedEtcd(t)
	mk := func() *clientv3.Client {
		cli, err := clientv3.New(clientv3.Config{Endpoints: endpoints, DialTimeout: 5 * time.Second})
		if err != nil {
			fmt.Println("VF-INCONCLUSIVE: cannot create etcd client:", err)
			t.Fatalf("etcd client: %v", err)
		}
		t.Cleanup(func() { _ = cli.Close() })
		return cli
	}
	e := &c19Env{endpoints: endpoints, admin: mk(), foreign: []*clientv3.Client{mk(), mk()}}
	ctx, cancel := context.WithTimeout(context.Background(), 20*time.Second)
	defer cancel()
	if _, err := e.admin.Get(ctx, "ping"); err != nil {
		fmt.Println("VF-INCONCLUSIVE: embedded etcd does not answer:", err)
		t.Fatalf("etcd ping: %v", err)
	}
	return e
}

type c19Upload struct {
	Part    c19Part
	Owned   bool   // handler's lease manager owned the partition when the segment upload started
	KeyVal  string // etcd lease key value at that moment
	Request int
	Foreign string // id of a foreign broker whose lease manager reported Owns() at that moment ("" = none)
}

type c19World struct {
	env      *c19Env
	store    *metadata.EtcdStore
	h        *handler
	obj      *vfkit.ObjStore
	foreign  []*metadata.PartitionLeaseManager
	universe []c19Part

	mu       sync.Mutex
	uploads  []c19Upload
	request  int
	midHook    func() // injected lease loss of the current request, runs once at midTrigger
	midTrigger string // "upload": inside the first segment upload; "list": inside the S3 listing of a cold partition's restore; "txn": right after an acquire transaction was answered
	cancelClient context.CancelFunc
	keepCtx      []context.CancelFunc // request contexts that stay alive until the case ends
	hookErr  error
	trace    []string

	acqFault    map[string]error // "topic/partition" -> etcd-side error its lease acquisition meets in this request
	acqFaultHit map[string]bool
	store2    *metadata.EtcdStore  // "broker 2's" metadata store, used for topic administration
	overtook  bool                 // a session loss where an Acquire overtook the session monitor
	unnoticed *concurrency.Session // ended session the manager had not let go of after 5 s
	prevLease clientv3.LeaseID     // lease of the keys left behind by this broker's previous incarnation
	foreignAt func(c19Part) bool

	selfLeases map[clientv3.LeaseID]bool // leases seen attached to this broker's keys
	revoked    map[clientv3.LeaseID]bool // leases the harness revoked on purpose
}

// spontaneous reports whether a lease of this broker disappeared without the harness' doing.
func (w *c19World) spontaneous() bool {
	ctx, cancel := context.WithTimeout(context.Background(), 30*time.Second)
	defer cancel()
	resp, err := w.env.admin.Leases(ctx)
	if err != nil {
		return false
	}
	live := map[clientv3.LeaseID]bool{}
	for _, l := range resp.Leases {
		live[l.ID] = true
	}
	w.mu.Lock()
	defer w.mu.Unlock()
	for id := range w.selfLeases {
		if !live[id] && !w.revoked[id] {
			return true
		}
	}
	return false
}

func (w *c19World) leaseKeys() (map[string]string, map[string]clientv3.LeaseID, error) {
	ctx, cancel := context.WithTimeout(context.Background(), 30*time.Second)
	defer cancel()
	resp, err := w.env.admin.Get(ctx, metadata.PartitionLeasePrefix()+"/", clientv3.WithPrefix())
	if err != nil {
		return nil, nil, fmt.Errorf("%w: read lease keys: %v", errC19Inconclusive, err)
	}
	vals := map[string]string{}
	leases := map[string]clientv3.LeaseID{}
	for _, kv := range resp.Kvs {
		k := strings.TrimPrefix(string(kv.Key), metadata.PartitionLeasePrefix()+"/")
		vals[k] = string(kv.Value)
		leases[k] = clientv3.LeaseID(kv.Lease)
		if string(kv.Value) == "1" && kv.Lease != 0 {
			w.mu.Lock()
			w.selfLeases[clientv3.LeaseID(kv.Lease)] = true
			w.mu.Unlock()
		}
	}
	return vals, leases, nil
}

func c19PartOfKey(key string) (c19Part, bool) {
	// default/<topic>/<partition>/segment-....
	f := strings.Split(key, "/")
	if len(f) != 4 {
		return c19Part{}, false
	}
	var p int32
	if _, err := fmt.Sscanf(f[2], "%d", &p); err != nil {
		return c19Part{}, false
	}
	return c19Part{f[1], p}, true
}

func (e *c19Env) newWorld(prev []c19Part) (*c19World, error) {
	ctx, cancel := context.WithTimeout(context.Background(), 30*time.Second)
	defer cancel()
	// leases of earlier cases were revoked by their close(); drop whatever else is left
	if _, err := e.admin.Delete(ctx, "/kafscale/", clientv3.WithPrefix()); err != nil {
		return nil, fmt.Errorf("%w: cleanup: %v", errC19Inconclusive, err)
	}
	w := &c19World{env: e, obj: vfkit.NewObjStore(), selfLeases: map[clientv3.LeaseID]bool{}, revoked: map[clientv3.LeaseID]bool{}}
	snapshot := metadata.ClusterMetadata{Brokers: []protocol.MetadataBroker{{NodeID: 1, Host: "localhost", Port: 19092}}, ControllerID: 1}
	seed := metadata.NewInMemoryStore(snapshot)
	for name, n := range map[string]int32{"t1": 3, "t2": 2} {
		if _, err := seed.CreateTopic(ctx, metadata.TopicSpec{Name: name, NumPartitions: n, ReplicationFactor: 1}); err != nil {
			return nil, fmt.Errorf("%w: seed topics: %v", errC19Inconclusive, err)
		}
	}
	meta, _ := seed.Metadata(ctx, nil)
	store, err := metadata.NewEtcdStore(ctx, *meta, metadata.EtcdStoreConfig{Endpoints: e.endpoints})
	if err != nil {
		return nil, fmt.Errorf("%w: NewEtcdStore: %v", errC19Inconclusive, err)
	}
	w.store = store
	// the mid-request hook waits (real time) inside an S3 upload; that is harness time, not S3
	// latency, and must not flip the S3 health monitor (C25's subject) to "degraded"
	w.h = vfNewHandler(store, w.obj, vfHandlerOpts{ReadAhead: -1, NoS3Backpressure: true})
	if w.h.leaseManager == nil {
		_ = store.Close()
		return nil, fmt.Errorf("newHandler did not create a partition lease manager over an EtcdStore")
	}
	// The handler's lease manager is rebuilt (same type, same broker id) over a client whose KV
	// tells the harness when an acquire transaction has been answered, so that a lease loss can
	// be placed between that answer and the recording of ownership. TTL: newHandler's default.
	base := store.EtcdClient()
	gctx, gcancel := context.WithCancel(context.Background())
	w.cancelClient = gcancel
	gcli := clientv3.NewCtxClient(gctx)
	gcli.KV = &c19KV{KV: base.KV, w: w}
	gcli.Lease = c19NoCloseLease{base.Lease}
	gcli.Watcher = base.Watcher
	w.h.leaseManager = metadata.NewPartitionLeaseManager(gcli, metadata.PartitionLeaseConfig{BrokerID: "1", Logger: c19Quiet})
	if len(prev) > 0 {
		// restarted broker: the previous incarnation's lease keys (value = this broker's id) are
		// still in etcd, attached to a lease that has not run out yet
		g, err := e.admin.Grant(ctx, 600)
		if err != nil {
			return nil, fmt.Errorf("%w: grant: %v", errC19Inconclusive, err)
		}
		w.prevLease = g.ID
		w.revoked[g.ID] = true // it only ever ends by the harness' doing
		for _, p := range prev {
			if _, err := e.admin.Put(ctx, metadata.PartitionLeasePrefix()+"/"+p.String(), "1", clientv3.WithLease(g.ID)); err != nil {
				return nil, fmt.Errorf("%w: previous incarnation's key: %v", errC19Inconclusive, err)
			}
		}
	}
	for i, cli := range e.foreign {
		w.foreign = append(w.foreign, metadata.NewPartitionLeaseManager(cli, metadata.PartitionLeaseConfig{BrokerID: fmt.Sprintf("%d", i+2), LeaseTTLSeconds: 30, Logger: c19Quiet}))
	}
	// NOTE: a partition beyond the range of an EXISTING topic (also of a topic auto-created by
	// an earlier request) is deliberately not generated:
	// with topic auto-creation on, getPartitionLog loops forever on it (NextOffset says
	// unknown, ensureTopic says "exists", retry) - an incidental defect outside C19.
	w.universe = []c19Part{{"t1", 0}, {"t1", 1}, {"t1", 2}, {"t2", 0}, {"t2", 1}, {"u-unknown", 0}, {"v-unknown", 0}}
	w.obj.OnOp = func(op vfkit.ObjOp) {
		if op.Kind == "list" {
			// getPartitionLog restoring a cold partition from S3
			w.fire("list")
			return
		}
		if op.Kind != "put-segment" {
			return
		}
		part, ok := c19PartOfKey(op.Key)
		if !ok {
			return
		}
		owned := w.h.leaseManager.Owns(part.Topic, part.P)
		vals, _, err := w.leaseKeys()
		w.mu.Lock()
		if err != nil && w.hookErr == nil {
			w.hookErr = err
		}
		foreign := ""
		for i, f := range w.foreign {
			if f.Owns(part.Topic, part.P) {
				foreign = fmt.Sprintf("%d", i+2)
			}
		}
		w.uploads = append(w.uploads, c19Upload{Part: part, Owned: owned, KeyVal: vals[part.String()], Request: w.request, Foreign: foreign})
		w.mu.Unlock()
		w.fire("upload")
	}
	return w, nil
}

// fire runs the request's injected lease loss once, if it is armed for this trigger point.
func (w *c19World) fire(trigger string) {
	w.mu.Lock()
	hook := w.midHook
	if hook == nil || w.midTrigger != trigger {
		w.mu.Unlock()
		return
	}
	w.midHook = nil
	w.mu.Unlock()
	hook()
}

// c19KV passes everything through and reports when a transaction that wrote a partition
// lease key has been answered (trigger point "txn": the acquire is committed in etcd but
// the lease manager has not recorded ownership yet).
type c19KV struct {
	clientv3.KV
	w *c19World
}

func (k *c19KV) Txn(ctx context.Context) clientv3.Txn { return &c19Txn{Txn: k.KV.Txn(ctx), w: k.w} }

type c19Txn struct {
	clientv3.Txn
	w      *c19World
	hasPut bool
	putKey string // "topic/partition"
}

func (t *c19Txn) If(cs ...clientv3.Cmp) clientv3.Txn { t.Txn = t.Txn.If(cs...); return t }
func (t *c19Txn) Then(ops ...clientv3.Op) clientv3.Txn {
	for _, op := range ops {
		if op.IsPut() && strings.HasPrefix(string(op.KeyBytes()), metadata.PartitionLeasePrefix()+"/") {
			t.hasPut = true
			t.putKey = strings.TrimPrefix(string(op.KeyBytes()), metadata.PartitionLeasePrefix()+"/")
		}
	}
	t.Txn = t.Txn.Then(ops...)
	return t
}
func (t *c19Txn) Else(ops ...clientv3.Op) clientv3.Txn { t.Txn = t.Txn.Else(ops...); return t }
func (t *c19Txn) Commit() (*clientv3.TxnResponse, error) {
	if t.hasPut {
		t.w.mu.Lock()
		ferr := t.w.acqFault[t.putKey]
		if ferr != nil {
			t.w.acqFaultHit[t.putKey] = true
		}
		t.w.mu.Unlock()
		if ferr != nil {
			return nil, ferr // etcd-side failure of this acquisition; nothing was written
		}
	}
	resp, err := t.Txn.Commit()
	if err == nil && resp.Succeeded && t.hasPut {
		t.w.fire("txn")
	}
	if err == nil && !resp.Succeeded && t.hasPut {
		// create-if-absent failed: the Else branch read the key. If it holds this broker's id the
		// manager goes on to re-attach it (second round trip) - trigger point "reacquire-gap"
		for _, r := range resp.Responses {
			if rr := r.GetResponseRange(); rr != nil && len(rr.Kvs) > 0 && string(rr.Kvs[0].Value) == "1" {
				t.w.fire("reacquire-gap")
			}
		}
	}
	return resp, err
}

type c19NoCloseLease struct{ clientv3.Lease }

func (c19NoCloseLease) Close() error { return nil }

// recreateTopic: the topic is deleted and created again under the same name through another
// broker's EtcdStore while this broker stays up. Topic administration must not touch the
// partition leases of live owners.
func (w *c19World) recreateTopic(name string, partitions int32) error {
	ctx, cancel := context.WithTimeout(context.Background(), 30*time.Second)
	defer cancel()
	if w.store2 == nil {
		meta, err := w.store.Metadata(ctx, nil)
		if err != nil {
			return fmt.Errorf("%w: metadata: %v", errC19Inconclusive, err)
		}
		s2, err := metadata.NewEtcdStore(ctx, *meta, metadata.EtcdStoreConfig{Endpoints: w.env.endpoints})
		if err != nil {
			return fmt.Errorf("%w: second store: %v", errC19Inconclusive, err)
		}
		w.store2 = s2
	}
	if err := w.store2.DeleteTopic(ctx, name); err != nil && !errors.Is(err, metadata.ErrUnknownTopic) {
		return fmt.Errorf("%w: DeleteTopic: %v", errC19Inconclusive, err)
	}
	if _, err := w.store2.CreateTopic(ctx, metadata.TopicSpec{Name: name, NumPartitions: partitions, ReplicationFactor: 1}); err != nil && !errors.Is(err, metadata.ErrTopicExists) {
		return fmt.Errorf("%w: CreateTopic: %v", errC19Inconclusive, err)
	}
	return nil
}

func (w *c19World) close() {
	if w.store2 != nil {
		_ = w.store2.Close()
	}
	w.h.leaseManager.ReleaseAll()
	if w.h.groupLeaseManager != nil {
		w.h.groupLeaseManager.ReleaseAll()
	}
	for _, f := range w.foreign {
		f.ReleaseAll()
	}
	for _, c := range w.keepCtx {
		c()
	}
	if w.cancelClient != nil {
		w.cancelClient()
	}
	_ = w.store.Close()
}

// c19Internals gives the harness the two things of the handler's lease manager it needs to
// place a session loss exactly: the manager's mutex and its current etcd session. They are
// unexported fields of pkg/metadata (this test lives in cmd/broker), read through reflect +
// unsafe; if the layout changes the harness reports inconclusive.
type c19Internals struct {
	mu    *sync.RWMutex
	sessF reflect.Value
}

func c19Peek(plm *metadata.PartitionLeaseManager) (in *c19Internals, err error) {
	defer func() {
		if r := recover(); r != nil {
			in, err = nil, fmt.Errorf("%w: cannot reach the lease manager's internals: %v", errC19Inconclusive, r)
		}
	}()
	f := reflect.ValueOf(plm).Elem().FieldByName("lm")
	f = reflect.NewAt(f.Type(), unsafe.Pointer(f.UnsafeAddr())).Elem()
	lmv := f.Elem()
	muF, sessF := lmv.FieldByName("mu"), lmv.FieldByName("session")
	if muF.Type() != reflect.TypeOf(sync.RWMutex{}) || sessF.Type() != reflect.TypeOf((*concurrency.Session)(nil)) {
		return nil, fmt.Errorf("%w: lease manager fields have unexpected types", errC19Inconclusive)
	}
	return &c19Internals{mu: (*sync.RWMutex)(unsafe.Pointer(muF.UnsafeAddr())), sessF: sessF}, nil
}

func (in *c19Internals) session() *concurrency.Session {
	in.mu.RLock()
	defer in.mu.RUnlock()
	return reflect.NewAt(in.sessF.Type(), unsafe.Pointer(in.sessF.UnsafeAddr())).Elem().Interface().(*concurrency.Session)
}

// expireSelf ends this broker's etcd session: the lease is revoked on the server (what TTL
// expiry does: all its keys vanish) and the client-side keep-alive stream ends
// (session.Done()). It then waits until the manager has let go of that session (assumption:
// the unavoidable skew window of a lease scheme is not counted). A manager that has not reacted
// after 5 s with the harness idle is flagged; nothing is concluded from that alone.
//
// With overtake != nil the loss happens in one specific order inside the manager: an Acquire
// of that (not yet owned) partition reaches the manager's locked session check before the
// session monitor goroutine gets the mutex. The harness holds a read lock on the manager's
// mutex, starts the Acquire, waits until it queues for the write lock (TryRLock fails while
// a writer is pending), ends the session and lets go: writers get the mutex in arrival order.
func (w *c19World) expireSelf(overtake *c19Part) (bool, error) {
	in, err := c19Peek(w.h.leaseManager)
	if err != nil {
		return false, err
	}
	sess := in.session()
	if sess == nil {
		return false, nil
	}
	_, _, _ = w.leaseKeys() // notes the leases attached to this broker's keys
	var acqDone chan struct{}
	queued := false
	if overtake != nil {
		in.mu.RLock()
		acqDone = make(chan struct{})
		go func() {
			defer close(acqDone)
			_ = w.h.leaseManager.Acquire(context.Background(), overtake.Topic, overtake.P)
		}()
		deadline := time.Now().Add(30 * time.Second)
	wait:
		for time.Now().Before(deadline) {
			if in.mu.TryRLock() {
				in.mu.RUnlock()
			} else {
				queued = true
				break
			}
			select {
			case <-acqDone:
				break wait
			default:
			}
			time.Sleep(20 * time.Microsecond)
		}
	}
	w.mu.Lock()
	w.revoked[sess.Lease()] = true
	w.mu.Unlock()
	ctx, cancel := context.WithTimeout(context.Background(), 30*time.Second)
	_, err = w.env.admin.Revoke(ctx, sess.Lease())
	cancel()
	sess.Orphan()
	if overtake != nil {
		in.mu.RUnlock()
		select {
		case <-acqDone:
		case <-time.After(60 * time.Second):
			return false, fmt.Errorf("%w: overtaking acquire did not return", errC19Inconclusive)
		}
		if queued {
			w.overtook = true
		}
	}
	if err != nil && !strings.Contains(err.Error(), "lease not found") {
		return false, fmt.Errorf("%w: revoke: %v", errC19Inconclusive, err)
	}
	deadline := time.Now().Add(5 * time.Second)
	for in.session() == sess {
		if time.Now().After(deadline) {
			w.unnoticed = sess
			break
		}
		time.Sleep(50 * time.Microsecond)
	}
	return true, nil
}

// lateNotice: the manager was flagged as not reacting to its ended session; give it 10 more
// seconds. true = it has reacted in the meantime (then nothing is concluded from the case).
func (w *c19World) lateNotice() bool {
	if w.unnoticed == nil {
		return false
	}
	in, err := c19Peek(w.h.leaseManager)
	if err != nil {
		return true
	}
	deadline := time.Now().Add(10 * time.Second)
	for time.Now().Before(deadline) {
		if in.session() != w.unnoticed {
			return true
		}
		time.Sleep(time.Millisecond)
	}
	return false
}

type c19ReqResult struct {
	Part    c19Part
	State   string // free self foreign unknown
	Code    int16
	Written bool
}

// produce sends one request and applies the oracle. states maps each requested partition
// to its lease state as established by the harness before the request.
// c19Inject places a lease loss inside the request. Trigger: "upload" | "list" | "txn" (see
// c19World.midTrigger). Loss: "expire" (etcd session revoked and noticed) or "releaseAll"
// (graceful shutdown while the request is in flight).
type c19Inject struct {
	Trigger      string
	Loss         string
	ForeignTakes bool
	// Faults: partitions whose lease acquisition fails with an etcd-side error (by class)
	Faults map[c19Part]string
	// Disconnect: the request runs under a per-connection context that is cancelled right after
	// the response (the client goes away)
	Disconnect bool
}

// etcd-side failures an acquisition can meet (none of them a client-side deadline)
func c19FaultErr(class string) error {
	switch class {
	case "leader-changed":
		return rpctypes.ErrLeaderChanged
	case "lease-not-found":
		return rpctypes.ErrLeaseNotFound
	case "unavailable":
		return status.Error(codes.Unavailable, "etcdserver: no leader")
	case "too-many-requests":
		return rpctypes.ErrTooManyRequests
	}
	return errors.New("etcdserver: request timed out")
}

// c19ProduceCtx is vfProduce with a caller-supplied context.
func c19ProduceCtx(ctx context.Context, h *handler, version int16, acks int16, parts []vfProducePart) ([]vfProduceResult, error) {
	req := kmsg.NewPtrProduceRequest()
	req.Version = version
	req.Acks = acks
	req.TimeoutMillis = 1000
	for _, p := range parts {
		var rt *kmsg.ProduceRequestTopic
		for i := range req.Topics {
			if req.Topics[i].Topic == p.Topic {
				rt = &req.Topics[i]
			}
		}
		if rt == nil {
			nt := kmsg.NewProduceRequestTopic()
			nt.Topic = p.Topic
			req.Topics = append(req.Topics, nt)
			rt = &req.Topics[len(req.Topics)-1]
		}
		np := kmsg.NewProduceRequestTopicPartition()
		np.Partition = p.Partition
		np.Records = p.Records
		rt.Partitions = append(rt.Partitions, np)
	}
	cid := "vf-c19"
	hdr := &protocol.RequestHeader{APIKey: protocol.APIKeyProduce, APIVersion: version, CorrelationID: 7, ClientID: &cid}
	raw, err := h.Handle(ctx, hdr, req)
	if err != nil || raw == nil {
		return nil, err
	}
	body, ok := vfSkipRespHeader(raw, version >= 9)
	if !ok {
		return nil, fmt.Errorf("vf: cannot skip produce response header")
	}
	resp := kmsg.NewPtrProduceResponse()
	resp.Version = version
	if err := resp.ReadFrom(body); err != nil {
		return nil, fmt.Errorf("vf: produce response does not decode: %w", err)
	}
	var out []vfProduceResult
	for _, t := range resp.Topics {
		for _, p := range t.Partitions {
			out = append(out, vfProduceResult{Topic: t.Topic, Partition: p.Partition, ErrorCode: p.ErrorCode, Base: p.BaseOffset})
		}
	}
	return out, nil
}

func (w *c19World) ownsAny() bool {
	for _, p := range w.universe {
		if w.h.leaseManager.Owns(p.Topic, p.P) {
			return true
		}
	}
	return false
}

func (w *c19World) produce(parts []c19Part, acks int16, inj c19Inject) ([]c19ReqResult, string, error) {
	midExpire, foreignTakes := inj.Trigger != "", inj.ForeignTakes
	w.mu.Lock()
	w.request++
	reqNo := w.request
	w.mu.Unlock()
	vals, _, err := w.leaseKeys()
	if err != nil {
		return nil, "", err
	}
	state := map[c19Part]string{}
	for _, p := range parts {
		switch v := vals[p.String()]; {
		case strings.HasSuffix(p.Topic, "-unknown"):
			state[p] = "unknown"
			if v != "" && v != "1" {
				state[p] = "foreign"
			}
		case v == "":
			state[p] = "free"
		case v == "1":
			state[p] = "self"
		default:
			state[p] = "foreign"
		}
	}
	midDone := false
	if midExpire {
		w.mu.Lock()
		w.midTrigger = inj.Trigger
		w.midHook = func() {
			// at the trigger point the broker loses its leases (session ends and the broker
			// notices, or ReleaseAll); optionally a foreign broker takes over the partitions
			var did bool
			var err error
			switch {
			case inj.Loss == "releaseAll":
				// the leases die with the session ReleaseAll closes: that is the harness' doing
				_, _, _ = w.leaseKeys() // notes the leases currently attached to this broker's keys
				w.h.leaseManager.ReleaseAll()
				w.mu.Lock()
				for id := range w.selfLeases {
					w.revoked[id] = true
				}
				w.mu.Unlock()
				did = true
			case inj.Loss == "prev-lease-expires":
				// the previous incarnation's lease runs out between the two round trips of the
				// restarted broker's re-acquire
				if w.prevLease != 0 {
					ctx, cancel := context.WithTimeout(context.Background(), 30*time.Second)
					_, err = w.env.admin.Revoke(ctx, w.prevLease)
					cancel()
					if err != nil && strings.Contains(err.Error(), "lease not found") {
						err = nil
					}
					w.prevLease = 0
					did = err == nil
				}
			default:
				did, err = w.expireSelf(nil)
			}
			if err != nil {
				w.mu.Lock()
				w.hookErr = err
				w.mu.Unlock()
				return
			}
			midDone = did
			if did {
				w.trace = append(w.trace, fmt.Sprintf("[lease loss %s at %s]", inj.Loss, inj.Trigger))
			}
			if did && foreignTakes {
				for _, p := range parts {
					_ = w.foreign[0].Acquire(context.Background(), p.Topic, p.P)
				}
			}
		}
		w.mu.Unlock()
	}
	opsBefore := w.obj.OpCount()
	var in []vfProducePart
	for i, p := range parts {
		in = append(in, vfProducePart{Topic: p.Topic, Partition: p.P, Records: vfkit.SimpleBatch(0, 1000, 1+i%3, fmt.Sprintf("r%d-%s", reqNo, p))})
	}
	w.mu.Lock()
	w.acqFault, w.acqFaultHit = map[string]error{}, map[string]bool{}
	for p, class := range inj.Faults {
		w.acqFault[p.String()] = c19FaultErr(class)
	}
	w.mu.Unlock()
	rctx, rcancel := context.WithCancel(context.Background())
	res, err := c19ProduceCtx(rctx, w.h, 7, acks, in)
	if inj.Disconnect {
		rcancel()
	} else {
		w.keepCtx = append(w.keepCtx, rcancel)
	}
	w.mu.Lock()
	hits := w.acqFaultHit
	w.acqFault, w.acqFaultHit = nil, nil
	w.midHook = nil
	hookErr := w.hookErr
	w.mu.Unlock()
	if hookErr != nil {
		return nil, "", hookErr
	}
	if err != nil {
		return nil, fmt.Sprintf("produce request %v failed as a whole: %v", parts, err), nil
	}
	// what was written during this request
	written := map[c19Part]bool{}
	for _, op := range w.obj.Ops[opsBefore:] {
		if strings.HasPrefix(op.Kind, "put-") {
			if part, ok := c19PartOfKey(op.Key); ok {
				written[part] = true
			}
		}
	}
	codes := map[c19Part]int16{}
	for _, r := range res {
		codes[c19Part{r.Topic, r.Partition}] = r.ErrorCode
	}
	var out []c19ReqResult
	tr := fmt.Sprintf("produce#%d(acks=%d", reqNo, acks)
	for _, p := range parts {
		code, answered := codes[p]
		if acks == 0 {
			code = -100
		} else if !answered {
			return nil, fmt.Sprintf("request %d: no response entry for %s", reqNo, p), nil
		}
		out = append(out, c19ReqResult{Part: p, State: state[p], Code: code, Written: written[p]})
		tr += fmt.Sprintf(" %s[%s]=%d", p, state[p], code)
	}
	w.trace = append(w.trace, tr+")")
	// (a) every segment upload happened while the lease was held by this broker
	w.mu.Lock()
	ups := append([]c19Upload{}, w.uploads...)
	w.mu.Unlock()
	for _, u := range ups {
		if u.Request != reqNo {
			continue
		}
		if u.Owned && u.KeyVal == "1" && u.Foreign != "" {
			return out, fmt.Sprintf("request %d: segment for %s was appended and uploaded while broker %s also believes it holds that lease (this broker: Owns=true, etcd key=%q); response code: %d; trace=%v",
				reqNo, u.Part, u.Foreign, u.KeyVal, codes[u.Part], w.trace), nil
		}
		if !u.Owned || u.KeyVal != "1" {
			if w.spontaneous() || w.lateNotice() {
				return out, "", errC19Spontaneous
			}
			return out, fmt.Sprintf("request %d: segment for %s was appended and uploaded while this broker did not hold the lease (Owns=%v, etcd key=%q); response code for it: %d; trace=%v",
				reqNo, u.Part, u.Owned, u.KeyVal, codes[u.Part], w.trace), nil
		}
	}
	after, _, err := w.leaseKeys()
	if err != nil {
		return nil, "", err
	}
	for _, r := range out {
		if hits[r.Part.String()] {
			// (d) the acquisition of this partition's lease failed on the etcd side: the broker does
			// not hold the lease, so the statement's "otherwise" applies: retriable code, nothing written
			if r.Written {
				return out, fmt.Sprintf("request %d: lease acquisition for %s failed (%s) but the handler wrote to S3 under its prefix; trace=%v", reqNo, r.Part, inj.Faults[r.Part], w.trace), nil
			}
			if acks != 0 && !c19Retriable[r.Code] {
				return out, fmt.Sprintf("request %d: lease acquisition for %s failed on the etcd side (%s) and the produce got code %d, which is neither NOT_LEADER_OR_FOLLOWER nor a retriable error; trace=%v", reqNo, r.Part, inj.Faults[r.Part], r.Code, w.trace), nil
			}
		}
		if r.State == "foreign" {
			// (b) another owner: rejected with NOT_LEADER_OR_FOLLOWER or a retriable error, nothing written
			if r.Written {
				return out, fmt.Sprintf("request %d: %s is leased by broker %q but the handler wrote to S3 under its prefix; trace=%v", reqNo, r.Part, vals[r.Part.String()], w.trace), nil
			}
			if acks != 0 && !c19Retriable[r.Code] {
				return out, fmt.Sprintf("request %d: %s is leased by broker %q but the produce got code %d (neither NOT_LEADER_OR_FOLLOWER nor a retriable error); trace=%v", reqNo, r.Part, vals[r.Part.String()], r.Code, w.trace), nil
			}
		}
		if acks != 0 && r.Code == 0 && !(midExpire && midDone) {
			// (c) success: the lease is this broker's (no expiry was injected during this request)
			if !w.h.leaseManager.Owns(r.Part.Topic, r.Part.P) || after[r.Part.String()] != "1" {
				if w.spontaneous() || w.lateNotice() {
					return out, "", errC19Spontaneous
				}
				return out, fmt.Sprintf("request %d: success for %s but the broker does not hold its lease (Owns=%v, etcd key=%q); trace=%v",
					reqNo, r.Part, w.h.leaseManager.Owns(r.Part.Topic, r.Part.P), after[r.Part.String()], w.trace), nil
			}
		}
		if acks != 0 && r.Code != 0 && r.Written && r.State != "unknown" {
			// not asserted (a failed flush may leave objects); counted by the caller
			_ = r
		}
	}
	return out, "", nil
}

type c19Step struct {
	Moves []string `json:"lease_moves"`
	Req   string   `json:"request"`
}

func TestVF_C19_Produce(t *testing.T) {
	st := vfkit.NewStats("C19", "produce")
	defer st.Flush()
	env := c19NewEnv(t)
	known := vfkit.Known(c19Finding)
	rapid.Check(t, func(rt *rapid.T) {
		st.Eval()
		// 1 case in 3: restarted broker - keys of its previous incarnation are still in etcd
		known5 := []c19Part{{"t1", 0}, {"t1", 1}, {"t1", 2}, {"t2", 0}, {"t2", 1}}
		var prev []c19Part
		if rapid.IntRange(0, 2).Draw(rt, "restarted") == 1 {
			for _, i := range rapid.SliceOfNDistinct(rapid.IntRange(0, 4), 1, 3, rapid.ID[int]).Draw(rt, "prevKeys") {
				prev = append(prev, known5[i])
			}
		}
		w, err := env.newWorld(prev)
		fail := func(v string, err error) {
			if err != nil {
				fmt.Println("VF-INCONCLUSIVE:", err)
				rt.Fatalf("inconclusive: %v", err)
			}
			if v != "" {
				rt.Fatalf("%s", v)
			}
		}
		fail("", err)
		defer w.close()
		nreq := rapid.IntRange(1, 4).Draw(rt, "requests")
		var steps []c19Step
		nontrivial := false
		var fpParts []string
		for q := 0; q < nreq; q++ {
			var moves []string
			nmoves := rapid.IntRange(0, 3).Draw(rt, "moves")
			for m := 0; m < nmoves; m++ {
				mv := rapid.SampledFrom([]string{"foreign-acquire", "foreign-acquire", "foreign-acquire", "foreign-release", "self-expire", "self-expire", "topic-recreate"}).Draw(rt, "move")
				switch mv {
				case "foreign-acquire":
					f := rapid.IntRange(0, len(w.foreign)-1).Draw(rt, "foreign")
					p := w.universe[rapid.IntRange(0, 4).Draw(rt, "part")]
					err := w.foreign[f].Acquire(context.Background(), p.Topic, p.P)
					moves = append(moves, fmt.Sprintf("b%d.acquire(%s)=%v", f+2, p, err))
				case "foreign-release":
					f := rapid.IntRange(0, len(w.foreign)-1).Draw(rt, "foreign")
					p := w.universe[rapid.IntRange(0, 4).Draw(rt, "part")]
					w.foreign[f].Release(p.Topic, p.P)
					moves = append(moves, fmt.Sprintf("b%d.release(%s)", f+2, p))
				case "topic-recreate":
					tn := rapid.SampledFrom([]string{"t1", "t2"}).Draw(rt, "topic")
					np := int32(3)
					if tn == "t2" {
						np = 2
					}
					fail("", w.recreateTopic(tn, np))
					moves = append(moves, fmt.Sprintf("broker2: DeleteTopic(%s)+CreateTopic(%s,%d)", tn, tn, np))
					st.Class("topic-deleted-and-recreated")
					// usually a foreign broker then tries one of that topic's partitions this broker holds
					if rapid.IntRange(0, 3).Draw(rt, "thenForeign") > 0 {
						var held []c19Part
						for _, p := range known5 {
							if p.Topic == tn && w.h.leaseManager.Owns(p.Topic, p.P) {
								held = append(held, p)
							}
						}
						if len(held) > 0 {
							p := held[rapid.IntRange(0, len(held)-1).Draw(rt, "heldIdx")]
							err := w.foreign[0].Acquire(context.Background(), p.Topic, p.P)
							moves = append(moves, fmt.Sprintf("b2.acquire(%s)=%v", p, err))
						}
					}
				case "self-expire":
					// optionally with an Acquire of a not-yet-owned partition overtaking the session monitor
					var over *c19Part
					if w.ownsAny() && rapid.Bool().Draw(rt, "overtake") {
						vals, _, err := w.leaseKeys()
						fail("", err)
						var free []c19Part
						for _, p := range known5 {
							if vals[p.String()] == "" {
								free = append(free, p)
							}
						}
						if len(free) > 0 {
							over = &free[rapid.IntRange(0, len(free)-1).Draw(rt, "overtakePart")]
						}
					}
					did, err := w.expireSelf(over)
					fail("", err)
					if did {
						if over != nil {
							moves = append(moves, fmt.Sprintf("self-session-expired(acquire %s overtakes the monitor)", *over))
							st.Class("self-expire-with-overtaking-acquire")
						} else {
							moves = append(moves, "self-session-expired")
						}
						st.Class("self-expire-between-requests")
						if rapid.Bool().Draw(rt, "takeover") {
							p := known5[rapid.IntRange(0, 4).Draw(rt, "takeoverPart")]
							err := w.foreign[0].Acquire(context.Background(), p.Topic, p.P)
							moves = append(moves, fmt.Sprintf("b2.acquire(%s)=%v", p, err))
						}
					}
				}
			}
			w.trace = append(w.trace, moves...)
			np := rapid.IntRange(1, 4).Draw(rt, "nparts")
			var parts []c19Part
			seen := map[c19Part]bool{}
			for i := 0; i < np; i++ {
				p := w.universe[rapid.IntRange(0, len(w.universe)-1).Draw(rt, "reqPart")]
				if !seen[p] {
					seen[p] = true
					parts = append(parts, p)
				}
			}
			acks := rapid.SampledFrom([]int16{-1, 1, -1, 1, 0}).Draw(rt, "acks")
			// lease loss inside the request: by session expiry or by a shutdown ReleaseAll (only in
			// the last request: the manager is closed afterwards); for a restarted broker also: the
			// previous incarnation's lease runs out between the two round trips of a re-acquire
			var inj c19Inject
			losses := []string{"expire", "expire"}
			if q == nreq-1 {
				losses = append(losses, "releaseAll")
			}
			touchesPrev := false
			for _, p := range parts {
				for _, pp := range prev {
					if p == pp && w.prevLease != 0 && !w.h.leaseManager.Owns(p.Topic, p.P) {
						touchesPrev = true
					}
				}
			}
			switch {
			case touchesPrev && rapid.IntRange(0, 3).Draw(rt, "reacquireGap") > 0:
				inj = c19Inject{Trigger: "reacquire-gap", Loss: "prev-lease-expires", ForeignTakes: rapid.IntRange(0, 3).Draw(rt, "foreignTakes") > 0}
			case rapid.IntRange(0, 2).Draw(rt, "injectLoss") == 1:
				inj.Loss = rapid.SampledFrom(losses).Draw(rt, "loss")
				inj.Trigger = rapid.SampledFrom([]string{"upload", "list", "list", "txn", "txn"}).Draw(rt, "trigger")
				inj.ForeignTakes = rapid.Bool().Draw(rt, "foreignTakes")
			}
			// etcd-side failures during the acquisition of partitions this broker does not hold yet
			if rapid.IntRange(0, 3).Draw(rt, "acqFaults") == 0 {
				inj.Faults = map[c19Part]string{}
				for _, p := range parts {
					if !w.h.leaseManager.Owns(p.Topic, p.P) && rapid.Bool().Draw(rt, "faultThis") {
						inj.Faults[p] = rapid.SampledFrom([]string{"leader-changed", "lease-not-found", "unavailable", "too-many-requests", "request-timed-out"}).Draw(rt, "faultClass")
					}
				}
			}
			inj.Disconnect = rapid.Bool().Draw(rt, "clientDisconnects")
			if inj.Trigger != "" && known {
				st.ExcludedCase(c19Finding)
				inj = c19Inject{}
			}
			res, v, err := w.produce(parts, acks, inj)
			if len(inj.Faults) > 0 {
				st.Class("etcd-side-fault-during-lease-acquisition")
				nontrivial = true
				fpParts = append(fpParts, fmt.Sprintf("faults:%v", inj.Faults))
			}
			if inj.Disconnect {
				st.Class("client-disconnects-after-the-request")
			}
			if inj.Trigger != "" && len(w.trace) >= 2 && strings.HasPrefix(w.trace[len(w.trace)-2], "[lease loss") {
				st.Class("lease-loss-" + inj.Loss + "-at-" + inj.Trigger)
				nontrivial = true
				fpParts = append(fpParts, "loss:"+inj.Loss+"@"+inj.Trigger)
			}
			if errors.Is(err, errC19Spontaneous) {
				st.Class("spontaneous-lease-expiry(case skipped)")
				rt.Skip("a lease of the broker expired without the harness revoking it")
			}
			fail(v, err)
			hasOK, hasForeign := false, false
			for _, r := range res {
				st.Class("partition-" + r.State)
				switch {
				case r.Code == 0:
					st.Class("code-success")
					if r.State == "self" || r.State == "free" {
						hasOK = true
					}
				case r.Code == protocol.NOT_LEADER_OR_FOLLOWER:
					st.Class("code-not-leader")
				case r.Code == -100:
					st.Class("acks0-no-response")
				default:
					st.Class(fmt.Sprintf("code-%d", r.Code))
				}
				if r.State == "foreign" {
					hasForeign = true
				}
				fpParts = append(fpParts, fmt.Sprintf("%s:%s:%d", r.Part, r.State, r.Code))
			}
			fpParts = append(fpParts, "|")
			if hasOK && hasForeign {
				nontrivial = true
			}
			steps = append(steps, c19Step{Moves: moves, Req: w.trace[len(w.trace)-1]})
		}
		if nontrivial {
			st.Class("request-mixing-owned-and-foreign")
			if st.NonTrivial(fpParts) {
				st.Sample(steps)
			}
		} else {
			st.Class("no-mixed-request")
		}
	})
}

func TestVF_C19_Witness(t *testing.T) {
	st := vfkit.NewStats("C19", "witness")
	defer st.Flush()
	env := c19NewEnv(t)
	st.Eval()
	w, err := env.newWorld(nil)
	if err != nil {
		fmt.Println("VF-INCONCLUSIVE:", err)
		t.Fatalf("inconclusive: %v", err)
	}
	defer w.close()
	// both partitions free; the session expires (and a foreign broker takes over) while the
	// first partition's segment is being uploaded; the handler goes on to the second one.
	_, v, err := w.produce([]c19Part{{"t1", 0}, {"t1", 1}}, -1, c19Inject{Trigger: "upload", Loss: "expire", ForeignTakes: true})
	if err != nil {
		fmt.Println("VF-INCONCLUSIVE:", err)
		t.Fatalf("inconclusive: %v", err)
	}
	what := "leases are acquired once at the start of handleProduce and not re-checked before each append"
	if v != "" {
		what = v
		st.NonTrivial("mid-request-expiry")
		st.Sample(map[string]any{"violation": v})
	}
	st.KnownResult(c19Finding, v != "", what)
}
