//go:build verif

package main

// C18 (identity leg): lease ownership is keyed by the broker id, and two processes with the
// same id take each other's leases through the re-acquire path. In a StatefulSet deployment
// the id is derived from POD_NAME (buildBrokerInfo / resolveBrokerID / podOrdinal). Distinct
// pods "<set>-<ordinal>" must therefore get distinct ids - the ordinal itself, which is what
// the operator publishes as NodeID for that pod.

import (
	"fmt"
	"os"
	"testing"

	"pgregory.net/rapid"
	"verif.local/vfkit"
)

func TestVF_C18_BrokerIdentity(t *testing.T) {
	st := vfkit.NewStats("C18", "identity")
	defer st.Flush()
	saved := map[string]string{}
	for _, k := range []string{"POD_NAME", "KAFSCALE_BROKER_ID"} {
		saved[k] = os.Getenv(k)
	}
	defer func() {
		for k, v := range saved {
			if v == "" {
				os.Unsetenv(k)
			} else {
				os.Setenv(k, v)
			}
		}
	}()
	rapid.Check(t, func(rt *rapid.T) {
		st.Eval()
		// StatefulSet name: DNS label characters, may itself contain digits and dashes
		set := rapid.StringMatching(`[a-z]([a-z0-9-]{0,12}[a-z0-9])?`).Draw(rt, "statefulset")
		ords := rapid.SliceOfNDistinct(rapid.OneOf(rapid.IntRange(0, 30), rapid.IntRange(0, 12), rapid.IntRange(31, 2000)), 2, 8, rapid.ID[int]).Draw(rt, "ordinals")
		explicit := -1 // one pod may carry an explicit KAFSCALE_BROKER_ID
		explicitID := 0
		if rapid.IntRange(0, 4).Draw(rt, "oneExplicit") == 0 {
			explicit = rapid.IntRange(0, len(ords)-1).Draw(rt, "explicitPod")
			explicitID = rapid.IntRange(3000, 3100).Draw(rt, "explicitID")
		}
		ids := map[int32]string{}
		big := false
		for i, ord := range ords {
			pod := fmt.Sprintf("%s-%d", set, ord)
			os.Setenv("POD_NAME", pod)
			want := int32(ord)
			if i == explicit {
				os.Setenv("KAFSCALE_BROKER_ID", fmt.Sprintf("%d", explicitID))
				want = int32(explicitID)
			} else {
				os.Unsetenv("KAFSCALE_BROKER_ID")
			}
			got := buildBrokerInfo().NodeID
			if other, dup := ids[got]; dup {
				rt.Fatalf("pods %q and %q of one StatefulSet both get broker id %d: they would hold (and re-acquire) each other's partition and group leases", other, pod, got)
			}
			ids[got] = pod
			if got != want {
				rt.Fatalf("pod %q gets broker id %d, expected %d (the id the operator publishes for that pod)", pod, got, want)
			}
			if ord >= 10 {
				big = true
			}
		}
		if big {
			st.Class("ordinal>=10")
			if st.NonTrivial(set, ords, explicit) {
				st.Sample(map[string]any{"statefulset": set, "ordinals": ords})
			}
		} else {
			st.Class("ordinals<10")
		}
		if explicit >= 0 {
			st.Class("one-pod-with-explicit-KAFSCALE_BROKER_ID")
		}
	})
}
