//go:build verif

package main

import (
	"bytes"
	"context"
	"errors"
	"fmt"
	"io"
	"log/slog"
	"sort"
	"strings"
	"testing"
	"time"
	"unicode/utf8"

	"github.com/twmb/franz-go/pkg/kmsg"
	clientv3 "go.etcd.io/etcd/client/v3"
	"pgregory.net/rapid"
	"verif.local/vfkit"

	"github.com/KafScale/platform/internal/testutil"
	"github.com/KafScale/platform/pkg/metadata"
	"github.com/KafScale/platform/pkg/protocol"
	"github.com/KafScale/platform/pkg/storage"
)

// C22: two distinct topic names the broker accepts never share S3 objects or metadata
// keys; names with path separators or dot segments are rejected.
//
// The check is behavioural: a pair of names built to collide is offered to the real
// acceptance paths (CreateTopics, Metadata auto-create, Produce auto-create, Fetch
// auto-create); accepted names get distinct marker records produced, the broker is
// "restarted" (new handler over the same metadata store and bucket) and every
// (topic, partition) must return exactly its own records; S3 objects are attributed to the
// produce that created them (no produce may touch the other topic's objects, no unit's
// directory may be a listing prefix of another unit's objects); deleting one topic must
// leave the other's next offset, committed consumer offsets, config, objects and records
// intact. Nothing is derived from the key-building functions of the code under test.

const (
	c22HostileID = "C22-path-names-accepted"
	c22ColonID   = "C22-memstore-delete-colon-prefix"
)

// c22Hostile: names the statement requires to be rejected (path separator, dot segment).
func c22Hostile(n string) bool { return strings.Contains(n, "/") || n == "." || n == ".." }

// ---- S3 adapter

type c22S3 struct{ o *vfkit.ObjStore }

func (s *c22S3) mapErr(err error) error {
	if errors.Is(err, vfkit.ErrObjNotFound) {
		return fmt.Errorf("object: %w", storage.ErrNotFound)
	}
	return err
}
func (s *c22S3) UploadSegment(ctx context.Context, key string, body []byte) error {
	return s.o.Put("put-segment", key, body)
}
func (s *c22S3) UploadIndex(ctx context.Context, key string, body []byte) error {
	return s.o.Put("put-index", key, body)
}
func (s *c22S3) DeleteSegment(ctx context.Context, key string) error {
	return s.o.Delete("delete-segment", key)
}
func (s *c22S3) DeleteIndex(ctx context.Context, key string) error {
	return s.o.Delete("delete-index", key)
}
func (s *c22S3) DownloadSegment(ctx context.Context, key string, rng *storage.ByteRange) ([]byte, error) {
	var r *[2]int64
	if rng != nil {
		r = &[2]int64{rng.Start, rng.End}
	}
	b, err := s.o.Get("get-segment", key, r)
	return b, s.mapErr(err)
}
func (s *c22S3) DownloadIndex(ctx context.Context, key string) ([]byte, error) {
	b, err := s.o.Get("get-index", key, nil)
	return b, s.mapErr(err)
}
func (s *c22S3) ListSegments(ctx context.Context, prefix string) ([]storage.S3Object, error) {
	objs, err := s.o.List("list", prefix)
	if err != nil {
		return nil, err
	}
	out := make([]storage.S3Object, 0, len(objs))
	for _, o := range objs {
		out = append(out, storage.S3Object{Key: o.Key, Size: o.Size})
	}
	return out, nil
}
func (s *c22S3) EnsureBucket(ctx context.Context) error { return nil }

// ---- one case

type c22Case struct {
	Names  [2]string
	Paths  [2]string // create | metadata | produce | fetch
	Parts  [2]int    // drawn partition (reduced modulo the partitions the topic really has)
	ExtraA bool      // also use a second partition of topic A
	Order  []int     // unit order of each produce round
	NRecs  []int     // records per produce
	Delete int       // -1 none, 0 delete topic A, 1 delete topic B
	Groups []string  // consumer group id templates ({V} = topic to delete, {O} = the other topic)
	Probes []int32   // extra partition indexes (beyond the negatives of the other topic's partitions) requested on both topics
}

type c22Unit struct {
	Topic  string
	TI     int // topic index 0/1
	Part   int32
	Want   []string
	Keys   map[string]bool
	Commit int64
}

type c22Result struct {
	Accepted    [2]bool
	Violation   string
	HostileSeen bool // a hostile name was accepted
	Probes      int  // requests for partitions that do not exist
	ProbeAcked  int  // ... that were acknowledged with error code 0 (statistic)
}

type c22Env struct {
	store   metadata.Store
	obj     *vfkit.ObjStore
	restart func(old *handler) *handler // releases old (if any) and builds a handler over the same store and bucket
	release func(h *handler)
}

func c22Logger() *slog.Logger {
	return slog.New(slog.NewTextHandler(io.Discard, &slog.HandlerOptions{}))
}

func c22Broker() protocol.MetadataBroker {
	return protocol.MetadataBroker{NodeID: 1, Host: "localhost", Port: 19092}
}

func c22MemEnv() *c22Env {
	clusterID := "c22"
	store := metadata.NewInMemoryStore(metadata.ClusterMetadata{ControllerID: 1, ClusterID: &clusterID, Brokers: []protocol.MetadataBroker{c22Broker()}})
	obj := vfkit.NewObjStore()
	return &c22Env{store: store, obj: obj, restart: func(old *handler) *handler {
		return newHandler(store, &c22S3{o: obj}, c22Broker(), c22Logger())
	}, release: func(h *handler) {}}
}

// c22EtcdEnv builds a fresh EtcdStore over a wiped key space of the shared embedded etcd.
func c22EtcdEnv(endpoints []string, admin *clientv3.Client) (*c22Env, func(), error) {
	ctx, cancel := context.WithTimeout(context.Background(), 10*time.Second)
	defer cancel()
	if _, err := admin.Delete(ctx, "/kafscale", clientv3.WithPrefix()); err != nil {
		return nil, nil, fmt.Errorf("wipe etcd: %w", err)
	}
	clusterID := "c22"
	store, err := metadata.NewEtcdStore(ctx, metadata.ClusterMetadata{ControllerID: 1, ClusterID: &clusterID, Brokers: []protocol.MetadataBroker{c22Broker()}},
		metadata.EtcdStoreConfig{Endpoints: endpoints})
	if err != nil {
		return nil, nil, fmt.Errorf("NewEtcdStore: %w", err)
	}
	obj := vfkit.NewObjStore()
	env := &c22Env{store: store, obj: obj}
	env.release = func(h *handler) {
		if h == nil {
			return
		}
		if h.leaseManager != nil {
			h.leaseManager.ReleaseAll()
		}
		if h.groupLeaseManager != nil {
			h.groupLeaseManager.ReleaseAll()
		}
	}
	env.restart = func(old *handler) *handler {
		env.release(old)
		return newHandler(store, &c22S3{o: obj}, c22Broker(), c22Logger())
	}
	closed := false
	return env, func() {
		if !closed {
			closed = true
			_ = store.Close()
		}
	}, nil
}

func c22StartEtcd(t *testing.T) ([]string, *clientv3.Client) {
	endpoints := testutil.StartEmbeddedEtcd(t)
	admin, err := clientv3.New(clientv3.Config{Endpoints: endpoints, DialTimeout: 5 * time.Second})
	if err != nil {
		fmt.Println("VF-INCONCLUSIVE: cannot connect to embedded etcd:", err)
		t.Fatalf("etcd client: %v", err)
	}
	t.Cleanup(func() { _ = admin.Close() })
	return endpoints, admin
}

func c22Decode[T kmsg.Response](version int16, payload []byte, resp T) (T, error) {
	body, ok := protocol.SkipResponseHeader(resp.Key(), version, payload)
	if !ok {
		return resp, fmt.Errorf("cannot skip response header")
	}
	resp.SetVersion(version)
	if err := resp.ReadFrom(body); err != nil {
		return resp, err
	}
	return resp, nil
}

func c22Batch(tag string, start, n int) ([]byte, []string) {
	recs := make([]vfkit.Record, n)
	vals := make([]string, n)
	for i := range recs {
		vals[i] = fmt.Sprintf("%s#%d", tag, start+i)
		recs[i] = vfkit.Record{TsDelta: int64(i), Key: []byte(fmt.Sprintf("k%d", start+i)), Value: []byte(vals[i])}
	}
	return vfkit.NewBatch(0, 1_700_000_000_000, recs).Encode(), vals
}

// c22Produce returns the partition error code (or a transport-level error).
func c22Produce(h *handler, topic string, part int32, batch []byte) (int16, int64, error) {
	req := &kmsg.ProduceRequest{Acks: -1, TimeoutMillis: 1000, Topics: []kmsg.ProduceRequestTopic{{Topic: topic,
		Partitions: []kmsg.ProduceRequestTopicPartition{{Partition: part, Records: batch}}}}}
	out, err := h.handleProduce(context.Background(), &protocol.RequestHeader{CorrelationID: 7, APIVersion: 3}, req)
	if err != nil {
		return 0, 0, err
	}
	resp, err := c22Decode(3, out, kmsg.NewPtrProduceResponse())
	if err != nil {
		return 0, 0, fmt.Errorf("decode produce response: %w", err)
	}
	if len(resp.Topics) != 1 || len(resp.Topics[0].Partitions) != 1 {
		return 0, 0, fmt.Errorf("produce response has unexpected shape")
	}
	p := resp.Topics[0].Partitions[0]
	return p.ErrorCode, p.BaseOffset, nil
}

type c22Fetched struct {
	Vals []string
	Offs []int64
}

// c22FetchAll reads (topic, part) from offset 0 to the high watermark.
func c22FetchAll(h *handler, topic string, part int32) (*c22Fetched, string) {
	out := &c22Fetched{}
	next := int64(0)
	for iter := 0; iter < 40; iter++ {
		req := &kmsg.FetchRequest{MaxWaitMillis: 0, Topics: []kmsg.FetchRequestTopic{{Topic: topic,
			Partitions: []kmsg.FetchRequestTopicPartition{{Partition: part, FetchOffset: next, PartitionMaxBytes: 1 << 20}}}}}
		raw, err := h.handleFetch(context.Background(), &protocol.RequestHeader{CorrelationID: 9, APIVersion: 11}, req)
		if err != nil {
			return out, fmt.Sprintf("fetch failed: %v", err)
		}
		resp, err := c22Decode(11, raw, kmsg.NewPtrFetchResponse())
		if err != nil {
			return out, fmt.Sprintf("decode fetch response: %v", err)
		}
		if len(resp.Topics) != 1 || len(resp.Topics[0].Partitions) != 1 {
			return out, "fetch response has unexpected shape"
		}
		p := resp.Topics[0].Partitions[0]
		if p.ErrorCode != 0 {
			return out, fmt.Sprintf("fetch at offset %d returned error code %d", next, p.ErrorCode)
		}
		if len(p.RecordBatches) == 0 {
			if next < p.HighWatermark {
				return out, fmt.Sprintf("fetch at offset %d returned nothing below the high watermark %d", next, p.HighWatermark)
			}
			return out, ""
		}
		batches, _ := vfkit.DecodeBatchesLenient(p.RecordBatches)
		if len(batches) == 0 {
			return out, fmt.Sprintf("fetch at offset %d returned %d undecodable bytes", next, len(p.RecordBatches))
		}
		progressed := false
		for _, b := range batches {
			for _, r := range b.Records {
				off := b.BaseOffset + int64(r.OffsetDelta)
				if off < next {
					continue // a fetch may start at an earlier batch boundary
				}
				out.Vals = append(out.Vals, string(r.Value))
				out.Offs = append(out.Offs, off)
				next = off + 1
				progressed = true
			}
		}
		if !progressed {
			return out, fmt.Sprintf("fetch at offset %d made no progress", next)
		}
		if next >= p.HighWatermark {
			return out, ""
		}
	}
	return out, "fetch did not reach the high watermark in 40 rounds"
}

func c22Q(s string) string {
	if len(s) > 60 {
		return fmt.Sprintf("%q...(%d bytes)", s[:40], len(s))
	}
	return fmt.Sprintf("%q", s)
}

// c22Offer sends the name through one acceptance path and reports whether the topic
// exists afterwards.
func c22Offer(env *c22Env, h *handler, name, path string, part int32) (bool, int) {
	ctx := context.Background()
	switch path {
	case "create":
		req := &kmsg.CreateTopicsRequest{Topics: []kmsg.CreateTopicsRequestTopic{{Topic: name, NumPartitions: 3, ReplicationFactor: 1}}}
		_, _ = h.handleCreateTopics(ctx, &protocol.RequestHeader{CorrelationID: 1}, req)
	case "metadata":
		n := name
		req := kmsg.NewPtrMetadataRequest()
		rt := kmsg.NewMetadataRequestTopic()
		rt.Topic = &n
		req.Topics = []kmsg.MetadataRequestTopic{rt}
		_, _ = h.Handle(ctx, &protocol.RequestHeader{APIKey: protocol.APIKeyMetadata, APIVersion: 1, CorrelationID: 2}, req)
	case "fetch":
		req := &kmsg.FetchRequest{Topics: []kmsg.FetchRequestTopic{{Topic: name, Partitions: []kmsg.FetchRequestTopicPartition{{Partition: part, FetchOffset: 0, PartitionMaxBytes: 1024}}}}}
		_, _ = h.handleFetch(ctx, &protocol.RequestHeader{CorrelationID: 3, APIVersion: 11}, req)
	}
	return c22Exists(env, name)
}

func c22Exists(env *c22Env, name string) (bool, int) {
	meta, err := env.store.Metadata(context.Background(), []string{name})
	if err != nil || len(meta.Topics) != 1 || meta.Topics[0].ErrorCode != 0 || meta.Topics[0].Topic == nil || *meta.Topics[0].Topic != name {
		return false, 0
	}
	return true, len(meta.Topics[0].Partitions)
}

func c22Dir(key string) string {
	i := strings.LastIndex(key, "/")
	if i < 0 {
		return ""
	}
	return key[:i+1]
}

// c22Run executes one case. enforceReject: a hostile name that is accepted is itself a
// violation (off when that finding is listed as known and the names were sanitised).
func c22Run(env *c22Env, c *c22Case, enforceReject bool) *c22Result {
	res := &c22Result{}
	ctx := context.Background()
	h1 := env.restart(nil)
	owner := map[string]int{} // S3 key -> unit index
	var units []*c22Unit
	nparts := [2]int{}

	// produce with S3 attribution
	produce := func(h *handler, ui int, u *c22Unit, n int) string {
		before := env.obj.Snapshot()
		batch, vals := c22Batch(fmt.Sprintf("U%d", ui), len(u.Want), n)
		code, base, err := c22Produce(h, u.Topic, u.Part, batch)
		if err != nil {
			return fmt.Sprintf("produce to accepted topic %s partition %d failed: %v", c22Q(u.Topic), u.Part, err)
		}
		if code != 0 {
			return fmt.Sprintf("produce to accepted topic %s partition %d returned error code %d", c22Q(u.Topic), u.Part, code)
		}
		if base != int64(len(u.Want)) {
			return fmt.Sprintf("produce to %s partition %d was assigned base offset %d, the partition holds %d own records", c22Q(u.Topic), u.Part, base, len(u.Want))
		}
		u.Want = append(u.Want, vals...)
		after := env.obj.Snapshot()
		for k, v := range after {
			old, had := before[k]
			if !had {
				owner[k] = ui
				u.Keys[k] = true
				continue
			}
			if !bytes.Equal(old, v) {
				if o := owner[k]; o != ui && o >= 0 {
					return fmt.Sprintf("produce to %s partition %d overwrote S3 object %q that belongs to %s partition %d", c22Q(u.Topic), u.Part, k, c22Q(units[o].Topic), units[o].Part)
				}
			}
		}
		for k := range before {
			if _, ok := after[k]; !ok && owner[k] != ui && owner[k] >= 0 {
				return fmt.Sprintf("produce to %s removed S3 object %q of %s", c22Q(u.Topic), k, c22Q(units[owner[k]].Topic))
			}
		}
		return ""
	}

	// acceptance
	for ti := 0; ti < 2; ti++ {
		name, path := c.Names[ti], c.Paths[ti]
		part := int32(c.Parts[ti])
		var ok bool
		var np int
		if path == "produce" {
			// the first real batch is the offer
			u := &c22Unit{Topic: name, TI: ti, Part: part, Keys: map[string]bool{}}
			before := env.obj.Snapshot()
			batch, vals := c22Batch(fmt.Sprintf("U%d", len(units)), 0, 1)
			code, base, err := c22Produce(h1, name, part, batch)
			ok, np = c22Exists(env, name)
			if ok {
				if err != nil || code != 0 || base != 0 {
					res.Accepted[ti] = true
					res.Violation = fmt.Sprintf("auto-created topic %s but the produce failed (err=%v code=%d base=%d)", c22Q(name), err, code, base)
					return res
				}
				u.Want = vals
				for k := range env.obj.Snapshot() {
					if _, had := before[k]; !had {
						owner[k] = len(units)
						u.Keys[k] = true
					} else if !bytes.Equal(before[k], env.obj.Snapshot()[k]) {
						res.Accepted[ti] = true
						res.Violation = fmt.Sprintf("produce to new topic %s overwrote existing S3 object %q of %s", c22Q(name), k, c22Q(units[owner[k]].Topic))
						return res
					}
				}
				units = append(units, u)
			}
		} else {
			ok, np = c22Offer(env, h1, name, path, part)
			if ok {
				units = append(units, &c22Unit{Topic: name, TI: ti, Part: part % int32(np), Keys: map[string]bool{}})
			}
		}
		res.Accepted[ti] = ok
		nparts[ti] = np
		if ok && c22Hostile(name) {
			res.HostileSeen = true
			if enforceReject {
				res.Violation = fmt.Sprintf("topic name %s (path separator / dot segment) was accepted by the %s path", c22Q(name), path)
				return res
			}
		}
	}
	if !res.Accepted[0] && !res.Accepted[1] {
		return res
	}
	if c.ExtraA && res.Accepted[0] && nparts[0] > 1 {
		first := units[0]
		units = append(units, &c22Unit{Topic: first.Topic, TI: 0, Part: (first.Part + 1) % int32(nparts[0]), Keys: map[string]bool{}})
	}

	// produce rounds
	ri := 0
	for round := 0; round < 2; round++ {
		for _, oi := range c.Order {
			ui := oi % len(units)
			n := c.NRecs[ri%len(c.NRecs)]
			ri++
			if msg := produce(h1, ui, units[ui], n); msg != "" {
				res.Violation = msg
				return res
			}
		}
	}

	// S3 attribution: no unit's directory is a listing prefix of another unit's objects
	for i, u := range units {
		for j, v := range units {
			if i == j {
				continue
			}
			for ku := range u.Keys {
				d := c22Dir(ku)
				for kv := range v.Keys {
					if strings.HasPrefix(kv, d) {
						res.Violation = fmt.Sprintf("listing the directory %q of %s partition %d returns object %q of %s partition %d", d, c22Q(u.Topic), u.Part, kv, c22Q(v.Topic), v.Part)
						return res
					}
				}
			}
		}
	}

	check := func(h *handler, phase string, only int) string {
		for _, u := range units {
			if only >= 0 && u.TI != only {
				continue
			}
			next, err := env.store.NextOffset(ctx, u.Topic, u.Part)
			if err != nil || next != int64(len(u.Want)) {
				return fmt.Sprintf("%s: next offset of %s partition %d is %d (err=%v), it holds %d records", phase, c22Q(u.Topic), u.Part, next, err, len(u.Want))
			}
			got, msg := c22FetchAll(h, u.Topic, u.Part)
			if msg != "" {
				return fmt.Sprintf("%s: %s partition %d: %s", phase, c22Q(u.Topic), u.Part, msg)
			}
			if len(got.Vals) != len(u.Want) {
				return fmt.Sprintf("%s: %s partition %d returned %d records %v, it was sent %d %v", phase, c22Q(u.Topic), u.Part, len(got.Vals), c22Head(got.Vals), len(u.Want), c22Head(u.Want))
			}
			for i := range got.Vals {
				if got.Vals[i] != u.Want[i] || got.Offs[i] != int64(i) {
					return fmt.Sprintf("%s: %s partition %d record %d is %q at offset %d, expected %q at offset %d", phase, c22Q(u.Topic), u.Part, i, got.Vals[i], got.Offs[i], u.Want[i], i)
				}
			}
		}
		return ""
	}

	if msg := check(h1, "same broker", -1); msg != "" {
		res.Violation = msg
		return res
	}
	// partition indexes no client of these topics would use (negative, out of range, huge),
	// in particular -p for every opened partition p of the OTHER topic: requests for them on
	// the broker that has all logs open may be rejected, but must never read or write another
	// topic's partition
	{
		isOwn := map[string]bool{}
		for _, u := range units {
			for _, v := range u.Want {
				isOwn[fmt.Sprintf("%d|%s", u.TI, v)] = true
			}
		}
		for ti := 0; ti < 2; ti++ {
			if !res.Accepted[ti] {
				continue
			}
			var probes []int32
			for _, v := range units {
				if v.TI != ti && v.Part != 0 {
					probes = append(probes, -v.Part)
				}
			}
			probes = append(probes, c.Probes...)
			for _, pp := range probes {
				if pp >= 0 && int(pp) < nparts[ti] {
					continue // a real partition of this topic
				}
				before := env.obj.Snapshot()
				batch, _ := c22Batch(fmt.Sprintf("PROBE%d", ti), 0, 1)
				code, _, perr := c22Produce(h1, c.Names[ti], pp, batch)
				if perr == nil && code == 0 {
					res.ProbeAcked++
				}
				for k, v := range env.obj.Snapshot() {
					old, had := before[k]
					if had && !bytes.Equal(old, v) {
						res.Violation = fmt.Sprintf("produce to %s partition %d (no such partition) changed S3 object %q", c22Q(c.Names[ti]), pp, k)
						return res
					}
					if !had {
						for _, u := range units {
							for ku := range u.Keys {
								if strings.HasPrefix(k, c22Dir(ku)) {
									res.Violation = fmt.Sprintf("produce to %s partition %d (no such partition) wrote %q into the directory of %s partition %d", c22Q(c.Names[ti]), pp, k, c22Q(u.Topic), u.Part)
									return res
								}
							}
						}
						owner[k] = -1
					}
				}
				req := &kmsg.FetchRequest{MaxWaitMillis: 0, Topics: []kmsg.FetchRequestTopic{{Topic: c.Names[ti],
					Partitions: []kmsg.FetchRequestTopicPartition{{Partition: pp, FetchOffset: 0, PartitionMaxBytes: 1 << 20}}}}}
				if raw, ferr := h1.handleFetch(ctx, &protocol.RequestHeader{CorrelationID: 13, APIVersion: 11}, req); ferr == nil {
					if fr, derr := c22Decode(11, raw, kmsg.NewPtrFetchResponse()); derr == nil {
						for _, ft := range fr.Topics {
							for _, fp := range ft.Partitions {
								batches, _ := vfkit.DecodeBatchesLenient(fp.RecordBatches)
								for _, b := range batches {
									for _, r := range b.Records {
										if v := string(r.Value); !strings.HasPrefix(v, "PROBE") {
											res.Violation = fmt.Sprintf("fetch of %s partition %d (no such partition) returned record %q of another partition", c22Q(c.Names[ti]), pp, v)
											return res
										}
									}
								}
							}
						}
					}
				}
				res.Probes++
			}
		}
		if res.Probes > 0 {
			if msg := check(h1, "after requests for partitions that do not exist", -1); msg != "" {
				res.Violation = msg
				return res
			}
		}
	}
	h2 := env.restart(h1)
	if msg := check(h2, "after restart", -1); msg != "" {
		res.Violation = msg
		return res
	}
	// one more produce after the restart (restore from S3 decides the next offset)
	for ui, u := range units {
		if msg := produce(h2, ui, u, 1); msg != "" {
			res.Violation = "after restart: " + msg
			return res
		}
	}
	if msg := check(h2, "after restart + produce", -1); msg != "" {
		res.Violation = msg
		return res
	}

	// metadata isolation on delete
	if c.Delete >= 0 && res.Accepted[0] && res.Accepted[1] {
		victim := c.Names[c.Delete]
		other := 1 - c.Delete
		// group ids are free-form strings (never validated): the plain one plus ids built from
		// the two topic names; every (group, topic, partition) gets its own committed offset
		groups := []string{"c22-group"}
		for _, tpl := range c.Groups {
			g := strings.NewReplacer("{V}", victim, "{O}", c.Names[other]).Replace(tpl)
			dup := g == ""
			for _, x := range groups {
				dup = dup || x == g
			}
			if !dup {
				groups = append(groups, g)
			}
		}
		for i, u := range units {
			u.Commit = int64(100 + 10*i)
			for gi, g := range groups {
				if err := env.store.CommitConsumerOffset(ctx, g, u.Topic, u.Part, u.Commit+int64(gi), fmt.Sprintf("m%d-%d", i, gi)); err != nil {
					res.Violation = fmt.Sprintf("commit consumer offset of group %s for %s: %v", c22Q(g), c22Q(u.Topic), err)
					return res
				}
			}
		}
		for i, u := range units { // read back before the delete: commits must not alias each other
			for gi, g := range groups {
				off, _, err := env.store.FetchConsumerOffset(ctx, g, u.Topic, u.Part)
				if err != nil || off != u.Commit+int64(gi) {
					res.Violation = fmt.Sprintf("committed offset of group %s on %s partition %d reads back %d (err=%v), committed %d (unit %d)", c22Q(g), c22Q(u.Topic), u.Part, off, err, u.Commit+int64(gi), i)
					return res
				}
			}
		}
		objBefore := env.obj.Snapshot()
		out, err := h2.handleDeleteTopics(ctx, &protocol.RequestHeader{CorrelationID: 11}, &kmsg.DeleteTopicsRequest{TopicNames: []string{victim}})
		if err != nil {
			res.Violation = fmt.Sprintf("DeleteTopics(%s) failed: %v", c22Q(victim), err)
			return res
		}
		if dr, err := c22Decode(0, out, kmsg.NewPtrDeleteTopicsResponse()); err != nil || len(dr.Topics) != 1 || dr.Topics[0].ErrorCode != 0 {
			res.Violation = fmt.Sprintf("DeleteTopics(%s) did not succeed (err=%v)", c22Q(victim), err)
			return res
		}
		if ok, np := c22Exists(env, c.Names[other]); !ok || np != nparts[other] {
			res.Violation = fmt.Sprintf("deleting %s removed or changed topic %s (exists=%v partitions=%d, had %d)", c22Q(victim), c22Q(c.Names[other]), ok, np, nparts[other])
			return res
		}
		for _, u := range units {
			if u.TI != other {
				continue
			}
			for gi, g := range groups {
				off, meta, err := env.store.FetchConsumerOffset(ctx, g, u.Topic, u.Part)
				if err != nil || off != u.Commit+int64(gi) {
					res.Violation = fmt.Sprintf("deleting %s changed the committed consumer offset of group %s on %s partition %d: now %d %q (err=%v), committed %d", c22Q(victim), c22Q(g), c22Q(u.Topic), u.Part, off, meta, err, u.Commit+int64(gi))
					return res
				}
			}
			cfg, err := env.store.FetchTopicConfig(ctx, u.Topic)
			if err != nil || cfg == nil || cfg.Name != u.Topic {
				res.Violation = fmt.Sprintf("deleting %s broke the topic config of %s (err=%v)", c22Q(victim), c22Q(u.Topic), err)
				return res
			}
			for k := range u.Keys {
				if now, ok := env.obj.Peek(k); !ok || !bytes.Equal(now, objBefore[k]) {
					res.Violation = fmt.Sprintf("deleting %s changed S3 object %q of %s", c22Q(victim), k, c22Q(u.Topic))
					return res
				}
			}
		}
		if msg := check(h2, "after deleting "+c22Q(victim), other); msg != "" {
			res.Violation = msg
			return res
		}
		h3 := env.restart(h2)
		if msg := check(h3, "after deleting "+c22Q(victim)+" and restart", other); msg != "" {
			res.Violation = msg
			return res
		}
		env.release(h3)
	} else {
		env.release(h2)
	}
	return res
}

func c22Head(v []string) []string {
	if len(v) > 6 {
		return append(append([]string(nil), v[:6]...), "...")
	}
	return v
}

// ---- generator

var c22Atoms = []string{"", "a", "b", "x", "orders", "0", "1", "2", "partitions", "offsets", "config", "next_offset", "default",
	"segment-00000000000000000000.kfs", ".", "..", "...", " ", "A", "ａ", "á", "é", "a:b", "a:0", "%s", "%d", "a b", "a.b", "a_b", "a-b", "__consumer_offsets", "\x00", "a\nb", "*", "?"}

var c22Seps = []string{"", "/", ".", "-", ":", "//", "/../", "/./", "_"}

func c22GenName(t *rapid.T, label string) string {
	n := rapid.IntRange(1, 3).Draw(t, label+"-natoms")
	s := rapid.SampledFrom(c22Atoms).Draw(t, label+"-atom")
	for i := 1; i < n; i++ {
		s += rapid.SampledFrom(c22Seps).Draw(t, label+"-sep") + rapid.SampledFrom(c22Atoms).Draw(t, label+"-atom")
	}
	if rapid.IntRange(0, 24).Draw(t, label+"-long") == 0 {
		s += strings.Repeat("L", rapid.IntRange(100, 300).Draw(t, label+"-len"))
	}
	return s
}

var c22Transforms = []string{"sub-partition", "sub-digit", "dotdot-prefix", "dot-prefix", "trailing-slash", "leading-slash", "trailing-dot-seg",
	"double-slash", "upper", "lower", "colon-part", "colon-suffix", "dot-suffix", "ns-escape", "etcd-partitions", "etcd-offsets", "etcd-config",
	"space", "nfd", "fullwidth", "dash-underscore", "independent", "independent", "ordinary"}

func c22Transform(t *rapid.T, n, tr string) string {
	switch tr {
	case "sub-partition":
		return n + "/0"
	case "sub-digit":
		return n + "/" + rapid.SampledFrom([]string{"0", "1", "2"}).Draw(t, "digit")
	case "dotdot-prefix":
		return "zz/../" + n
	case "dot-prefix":
		return "./" + n
	case "trailing-slash":
		return n + "/"
	case "leading-slash":
		return "/" + n
	case "trailing-dot-seg":
		return n + "/."
	case "double-slash":
		if strings.Contains(n, "/") {
			return strings.Replace(n, "/", "//", 1)
		}
		return n + "//0"
	case "upper":
		return strings.ToUpper(n)
	case "lower":
		return strings.ToLower(n)
	case "colon-part":
		return n + ":" + rapid.SampledFrom([]string{"0", "1", "2"}).Draw(t, "digit")
	case "colon-suffix":
		return n + ":b"
	case "dot-suffix":
		return n + "."
	case "ns-escape":
		return "../default/" + n
	case "etcd-partitions":
		return n + "/partitions/0"
	case "etcd-offsets":
		return "q/offsets/" + n
	case "etcd-config":
		return n + "/config"
	case "space":
		return n + " "
	case "nfd":
		return strings.Replace(n, "é", "é", 1) + "́"
	case "fullwidth":
		return strings.Replace(n, "a", "ａ", 1)
	case "dash-underscore":
		return strings.NewReplacer("-", "_", ".", "_").Replace(n)
	case "ordinary":
		return rapid.SampledFrom([]string{"payments", "orders", "logs-1", "a", "b"}).Draw(t, "ordinary")
	}
	return c22GenName(t, "n2")
}

func c22Sanitize(n string) string {
	n = strings.ReplaceAll(n, "/", "_")
	if n == "." {
		return "dot"
	}
	if n == ".." {
		return "dotdot"
	}
	return n
}

func c22GenCase(t *rapid.T, st *vfkit.Stats, colonStore bool) (*c22Case, string) {
	c := &c22Case{}
	var n1, n2, tr string
	if rapid.IntRange(0, 9).Draw(t, "legal-mode") < 6 {
		// both names inside the Kafka legal set [a-zA-Z0-9._-]: these are the pairs a broker
		// that validates names still has to keep apart
		n1 = c22GenLegalName(t, "n1")
		tr = rapid.SampledFrom(c22LegalTransforms).Draw(t, "legal-transform")
		n2 = c22LegalTransform(t, n1, tr)
	} else {
		n1 = c22GenName(t, "n1")
		if rapid.IntRange(0, 3).Draw(t, "simple-first") == 0 {
			n1 = rapid.SampledFrom([]string{"a", "b", "x", "orders", "0"}).Draw(t, "simple")
		}
		tr = rapid.SampledFrom(c22Transforms).Draw(t, "transform")
		n2 = c22Transform(t, n1, tr)
	}
	if rapid.Bool().Draw(t, "swap") {
		n1, n2 = n2, n1
	}
	if vfkit.Known(c22HostileID) && (c22Hostile(n1) || c22Hostile(n2)) {
		st.ExcludedCase(c22HostileID)
		n1, n2 = c22Sanitize(n1), c22Sanitize(n2)
	}
	if n1 == n2 {
		n2 += "x"
		tr = "independent"
	}
	c.Names = [2]string{n1, n2}
	paths := []string{"create", "create", "metadata", "produce", "fetch"}
	c.Paths = [2]string{rapid.SampledFrom(paths).Draw(t, "path0"), rapid.SampledFrom(paths).Draw(t, "path1")}
	c.Parts = [2]int{rapid.IntRange(0, 2).Draw(t, "part0"), rapid.IntRange(0, 2).Draw(t, "part1")}
	c.ExtraA = rapid.Bool().Draw(t, "extraA")
	c.Order = rapid.SliceOfN(rapid.IntRange(0, 5), 2, 4).Draw(t, "order")
	c.NRecs = rapid.SliceOfN(rapid.IntRange(1, 3), 1, 3).Draw(t, "nrecs")
	c.Delete = rapid.IntRange(-1, 1).Draw(t, "delete")
	c.Probes = rapid.SliceOfNDistinct(rapid.SampledFrom([]int32{-1, -2, -3, 3, 10, 11, 12, 20, 21, 100, 2147483647, -2147483648}), 1, 3, rapid.ID[int32]).Draw(t, "probes")
	c.Groups = rapid.SliceOfNDistinct(rapid.SampledFrom(c22GroupTemplates), 2, 4, rapid.ID[string]).Draw(t, "groups")
	if colonStore && c.Delete >= 0 && vfkit.Known(c22ColonID) {
		victim, other := c.Names[c.Delete], c.Names[1-c.Delete]
		if strings.HasPrefix(other, victim+":") {
			st.ExcludedCase(c22ColonID)
			c.Delete = 1 - c.Delete
		}
	}
	return c, tr
}

// consumer group id templates: other topics' names, ids that embed "/offsets/<topic>" (the
// etcd key is /kafscale/consumers/<group>/offsets/<topic>/<partition>), ':' forms (the
// in-memory key is group:topic:partition), plain ids.
var c22GroupTemplates = []string{"{V}", "{O}", "etl/offsets/{V}", "etl/offsets/{O}", "{V}/offsets/{O}", "{O}/offsets/{V}", "g/offsets/{V}/offsets/{O}",
	"/offsets/{V}/", "etl/offsets/{V}/0", "offsets/{V}", "{V}/offsets", "x/offsets", "a/b", "g:{V}", "{V}:0", "{V}:{O}", "c22-group/metadata", "app.consumer-1"}

var c22LegalAtoms = []string{"a", "b", "x", "orders", "payments", "0", "1", "partitions", "offsets", "config", "next_offset", "default", "metadata", "A", "Orders", "a.b", "a_b", "a-b", "__consumer_offsets", "segment-00000000000000000000.kfs", "..."}

func c22GenLegalName(t *rapid.T, label string) string {
	n := rapid.IntRange(1, 3).Draw(t, label+"-natoms")
	s := rapid.SampledFrom(c22LegalAtoms).Draw(t, label+"-atom")
	for i := 1; i < n; i++ {
		s += rapid.SampledFrom([]string{"", ".", "-", "_"}).Draw(t, label+"-sep") + rapid.SampledFrom(c22LegalAtoms).Draw(t, label+"-atom")
	}
	if rapid.IntRange(0, 24).Draw(t, label+"-long") == 0 {
		s += strings.Repeat("L", rapid.IntRange(100, 249-len(s)).Draw(t, label+"-len"))
	}
	return s
}

var c22LegalTransforms = []string{"legal:dash-suffix", "legal:dash-suffix", "legal:underscore-suffix", "legal:dot-digit", "legal:dash-digit", "legal:underscore-digit", "legal:digit", "legal:dot-suffix", "legal:dot-prefix", "legal:upper", "legal:lower",
	"legal:dash-underscore", "legal:dot-partitions", "legal:offsets-prefix", "legal:dlq", "legal:config", "legal:extend", "independent", "ordinary"}

func c22LegalTransform(t *rapid.T, n, tr string) string {
	d := rapid.SampledFrom([]string{"0", "1", "2"}).Draw(t, "digit")
	switch tr {
	case "legal:dash-suffix":
		return n + "-"
	case "legal:underscore-suffix":
		return n + "_"
	case "legal:dot-digit":
		return n + "." + d
	case "legal:dash-digit":
		return n + "-" + d
	case "legal:underscore-digit":
		return n + "_" + d
	case "legal:digit":
		return n + d
	case "legal:dot-suffix":
		return n + "."
	case "legal:dot-prefix":
		return "." + n
	case "legal:upper":
		return strings.ToUpper(n)
	case "legal:lower":
		return strings.ToLower(n)
	case "legal:dash-underscore":
		return strings.NewReplacer("-", "_", ".", "_").Replace(n)
	case "legal:dot-partitions":
		return n + ".partitions." + d
	case "legal:offsets-prefix":
		return "offsets." + n
	case "legal:dlq":
		return n + "-dlq"
	case "legal:config":
		return n + ".config"
	case "legal:extend":
		return n + rapid.SampledFrom(c22LegalAtoms).Draw(t, "ext")
	case "ordinary":
		return rapid.SampledFrom([]string{"payments", "orders", "logs-1", "a", "b"}).Draw(t, "ordinary")
	}
	return c22GenLegalName(t, "n2")
}

func c22Related(tr string) bool { return tr != "independent" && tr != "ordinary" }

func c22Record(st *vfkit.Stats, c *c22Case, tr string, res *c22Result) {
	st.Class("transform:" + tr)
	st.Class("path:" + c.Paths[0])
	st.Class("path:" + c.Paths[1])
	switch {
	case res.Accepted[0] && res.Accepted[1]:
		st.Class("accepted:both")
	case res.Accepted[0] || res.Accepted[1]:
		st.Class("accepted:one")
	default:
		st.Class("accepted:none")
	}
	for _, n := range c.Names {
		if !utf8.ValidString(n) || strings.ContainsAny(n, "\x00\n") {
			st.Class("name:control-or-invalid-utf8")
		}
		if strings.Contains(n, ":") {
			st.Class("name:colon")
		}
		if c22Hostile(n) {
			st.Class("name:hostile")
		}
	}
	if c.Delete >= 0 {
		st.Class("delete-one")
	}
	st.ClassN("probe-partition-requests", res.Probes)
	st.ClassN("probe-produce-acked", res.ProbeAcked)
	if res.Accepted[0] && res.Accepted[1] && c22Related(tr) {
		if st.NonTrivial(c.Names[0], c.Names[1], c.Paths, c.Parts, c.ExtraA, c.Delete) {
			st.Sample(map[string]any{"names": []string{c22Q(c.Names[0]), c22Q(c.Names[1])}, "transform": tr, "paths": c.Paths, "parts": c.Parts, "delete": c.Delete})
		}
	}
}

func TestVF_C22_Mem(t *testing.T) {
	st := vfkit.NewStats("C22", "mem")
	defer st.Flush()
	rapid.Check(t, func(t *rapid.T) {
		c, tr := c22GenCase(t, st, true)
		st.Eval()
		res := c22Run(c22MemEnv(), c, !vfkit.Known(c22HostileID))
		c22Record(st, c, tr, res)
		if res.Violation != "" {
			t.Fatalf("%s\ncase: names=%s,%s paths=%v parts=%v extraA=%v order=%v nrecs=%v delete=%d (in-memory store)", res.Violation, c22Q(c.Names[0]), c22Q(c.Names[1]), c.Paths, c.Parts, c.ExtraA, c.Order, c.NRecs, c.Delete)
		}
	})
}

func TestVF_C22_Etcd(t *testing.T) {
	st := vfkit.NewStats("C22", "etcd")
	defer st.Flush()
	endpoints, admin := c22StartEtcd(t)
	envErr := ""
	flaky := 0
	rapid.Check(t, func(t *rapid.T) {
		if envErr != "" {
			t.Skip("environment failed")
		}
		c, tr := c22GenCase(t, st, false)
		env, closeFn, err := c22EtcdEnv(endpoints, admin)
		if err != nil {
			envErr = err.Error()
			t.Skip("environment failed")
		}
		defer closeFn()
		st.Eval()
		res := c22Run(env, c, !vfkit.Known(c22HostileID))
		c22Record(st, c, tr, res)
		if res.Violation != "" {
			// aliasing is deterministic; an etcd hiccup on a busy machine (3 s op timeouts inside
			// the store) is not. Confirm on a fresh store before reporting.
			closeFn()
			env2, close2, err := c22EtcdEnv(endpoints, admin)
			if err != nil {
				envErr = err.Error()
				t.Skip("environment failed")
			}
			defer close2()
			res2 := c22Run(env2, c, !vfkit.Known(c22HostileID))
			if res2.Violation == "" {
				flaky++
				st.Note("etcd_unconfirmed_failures", flaky)
				st.Note("etcd_last_unconfirmed", res.Violation)
				return
			}
			res = res2
		}
		if res.Violation != "" {
			t.Fatalf("%s\ncase: names=%s,%s paths=%v parts=%v extraA=%v order=%v nrecs=%v delete=%d (etcd store)", res.Violation, c22Q(c.Names[0]), c22Q(c.Names[1]), c.Paths, c.Parts, c.ExtraA, c.Order, c.NRecs, c.Delete)
		}
	})
	if envErr != "" {
		fmt.Println("VF-INCONCLUSIVE: embedded etcd environment:", envErr)
		t.Fatalf("environment: %s", envErr)
	}
}

// Witness of the etcd side of C22-path-names-accepted: DeleteTopic(x) prefix-deletes
// /kafscale/topics/x/ and every consumer-offset key containing /offsets/x/.
func TestVF_C22_WitnessEtcd(t *testing.T) {
	st := vfkit.NewStats("C22", "witness-etcd")
	defer st.Flush()
	endpoints, admin := c22StartEtcd(t)
	env, closeFn, err := c22EtcdEnv(endpoints, admin)
	if err != nil {
		fmt.Println("VF-INCONCLUSIVE: embedded etcd environment:", err)
		t.Fatalf("environment: %v", err)
	}
	defer closeFn()
	st.Eval()
	c := c22Case{Names: [2]string{"x", "x/y"}, Paths: [2]string{"create", "create"}, Order: []int{0, 1}, NRecs: []int{2}, Delete: 0}
	res := c22Run(env, &c, false)
	next, nerr := env.store.NextOffset(context.Background(), "x/y", 0)
	st.Note("witness-etcd", map[string]any{"names": c.Names, "result": res.Violation, "next_offset_of_x/y_after_deleting_x": next, "next_offset_err": fmt.Sprint(nerr)})
	st.KnownResult(c22HostileID, res.Violation != "", fmt.Sprintf("etcd store, topics x and x/y (5 records each), delete x: %s; NextOffset(x/y,0) is now %d", res.Violation, next))
	st.NonTrivial("witness-etcd")
	st.Sample(map[string]any{"witness": "etcd store: create x and x/y, produce, delete x", "result": res.Violation})
}

// ---- witnesses

type c22Wit struct {
	id   string
	what string
	c    c22Case
}

func c22Witnesses() []c22Wit {
	return []c22Wit{
		{c22HostileID, "CreateTopics accepts a name with dot segments", c22Case{Names: [2]string{"a/../b", "unrelated"}, Paths: [2]string{"create", "create"}, Order: []int{0, 1}, NRecs: []int{1}, Delete: -1}},
		{c22HostileID, "topic a/../b shares S3 objects with topic b", c22Case{Names: [2]string{"b", "a/../b"}, Paths: [2]string{"create", "produce"}, Order: []int{0, 1}, NRecs: []int{2}, Delete: -1}},
		{c22HostileID, "topic x/0 lives under the listing prefix of topic x partition 0", c22Case{Names: [2]string{"x", "x/0"}, Paths: [2]string{"create", "metadata"}, Order: []int{1, 0}, NRecs: []int{2}, Delete: -1}},
		{c22ColonID, "deleting topic a wipes the next offsets of topic a:b in the in-memory store", c22Case{Names: [2]string{"a", "a:b"}, Paths: [2]string{"create", "create"}, Order: []int{0, 1}, NRecs: []int{2}, Delete: 0}},
	}
}

func TestVF_C22_Witness(t *testing.T) {
	st := vfkit.NewStats("C22", "witness")
	defer st.Flush()
	agg := map[string][]string{}
	still := map[string]bool{}
	for i, w := range c22Witnesses() {
		st.Eval()
		c := w.c
		// the second and third witnesses show the aliasing itself: do not stop at the acceptance
		res := c22Run(c22MemEnv(), &c, i == 0)
		st.Note(fmt.Sprintf("witness%d", i), map[string]any{"what": w.what, "names": c.Names, "result": res.Violation})
		if res.Violation != "" {
			still[w.id] = true
			agg[w.id] = append(agg[w.id], res.Violation)
		} else if _, ok := still[w.id]; !ok {
			still[w.id] = false
		}
		st.NonTrivial("witness", i)
		st.Sample(map[string]any{"witness": w.what, "names": c.Names, "result": res.Violation})
	}
	ids := make([]string, 0, len(still))
	for id := range still {
		ids = append(ids, id)
	}
	sort.Strings(ids)
	for _, id := range ids {
		st.KnownResult(id, still[id], strings.Join(agg[id], " | "))
	}
}
