//go:build verif

package main

import (
	"context"
	"encoding/binary"
	"fmt"
	"io"
	"log/slog"
	"sort"
	"testing"
	"time"

	"github.com/twmb/franz-go/pkg/kmsg"
	clientv3 "go.etcd.io/etcd/client/v3"
	"pgregory.net/rapid"
	"verif.local/vfkit"

	"github.com/KafScale/platform/internal/testutil"
	"github.com/KafScale/platform/pkg/metadata"
	"github.com/KafScale/platform/pkg/protocol"
	"github.com/KafScale/platform/pkg/storage"
)

// C15, two-broker leg: broker 1 coordinates a group, loses the group's lease (etcd lease
// revoked = session expired), broker 2 takes the group over from the metadata store and
// possibly changes it, then gives it back (graceful release or another expiry) and broker 1
// becomes the coordinator again. A broker that (re)gains a group must behave like any new
// coordinator that loads the state from the store: members of the persisted generation
// keep working and it reports the persisted generation / leader / members.
//
// Real handlers (newHandler) + GroupLeaseManager + EtcdStore on one embedded etcd. The
// expected answers come from the group record persisted in etcd at the hand-back (read
// with a third, independent store client), not from either broker's memory.

const c15FindStale = "C15-stale-group-after-lease-regain"

const c15lGroup = "lg"

type c15lCase struct {
	Members1 int      `json:"members_on_broker1"`
	Phase2   []string `json:"phase2"`   // what happens on broker 2: join, leave, heartbeat, commit
	HandBack string   `json:"handback"` // release | expire
}

func c15lSubs(topics ...string) []byte {
	buf := []byte{0, 0}
	buf = binary.BigEndian.AppendUint32(buf, uint32(len(topics)))
	for _, tp := range topics {
		buf = binary.BigEndian.AppendUint16(buf, uint16(len(tp)))
		buf = append(buf, tp...)
	}
	return binary.BigEndian.AppendUint32(buf, 0)
}

func c15lCall[T kmsg.Response](h *handler, key, version int16, req kmsg.Request, resp T) (T, error) {
	hdr := &protocol.RequestHeader{APIKey: key, APIVersion: version, CorrelationID: 7}
	payload, err := h.Handle(context.Background(), hdr, req)
	if err != nil {
		return resp, err
	}
	body, ok := protocol.SkipResponseHeader(resp.Key(), version, payload)
	if !ok {
		return resp, fmt.Errorf("cannot skip response header")
	}
	resp.SetVersion(version)
	return resp, resp.ReadFrom(body)
}

func c15lJoin(h *handler, member string) (*kmsg.JoinGroupResponse, error) {
	req := kmsg.NewPtrJoinGroupRequest()
	req.Group, req.MemberID, req.ProtocolType = c15lGroup, member, "consumer"
	req.SessionTimeoutMillis, req.RebalanceTimeoutMillis = 600000, 600000
	p := kmsg.NewJoinGroupRequestProtocol()
	p.Name, p.Metadata = "range", c15lSubs("orders")
	req.Protocols = append(req.Protocols, p)
	return c15lCall(h, protocol.APIKeyJoinGroup, 4, req, kmsg.NewPtrJoinGroupResponse())
}

func c15lSync(h *handler, member string, gen int32) int16 {
	req := kmsg.NewPtrSyncGroupRequest()
	req.Group, req.MemberID, req.Generation = c15lGroup, member, gen
	r, err := c15lCall(h, protocol.APIKeySyncGroup, 4, req, kmsg.NewPtrSyncGroupResponse())
	if err != nil {
		return -999
	}
	return r.ErrorCode
}

func c15lHeartbeat(h *handler, member string, gen int32) int16 {
	req := kmsg.NewPtrHeartbeatRequest()
	req.Group, req.MemberID, req.Generation = c15lGroup, member, gen
	r, err := c15lCall(h, protocol.APIKeyHeartbeat, 4, req, kmsg.NewPtrHeartbeatResponse())
	if err != nil {
		return -999
	}
	return r.ErrorCode
}

func c15lCommit(h *handler, member string, gen int32, off int64) int16 {
	req := kmsg.NewPtrOffsetCommitRequest()
	req.Group, req.MemberID, req.Generation = c15lGroup, member, gen
	rt := kmsg.NewOffsetCommitRequestTopic()
	rt.Topic = "orders"
	rp := kmsg.NewOffsetCommitRequestTopicPartition()
	rp.Partition, rp.Offset = 0, off
	rt.Partitions = append(rt.Partitions, rp)
	req.Topics = append(req.Topics, rt)
	r, err := c15lCall(h, protocol.APIKeyOffsetCommit, 3, req, kmsg.NewPtrOffsetCommitResponse())
	if err != nil || len(r.Topics) != 1 || len(r.Topics[0].Partitions) != 1 {
		return -999
	}
	return r.Topics[0].Partitions[0].ErrorCode
}

// c15lSettle: every member rejoins (twice, the first round may answer REBALANCE_IN_PROGRESS)
// and syncs; returns the generation and whether everybody ended with NONE.
func c15lSettle(h *handler, members []string) (int32, string) {
	gen := int32(-1)
	for round := 0; round < 2; round++ {
		for _, m := range members {
			r, err := c15lJoin(h, m)
			if err != nil {
				return 0, "join: " + err.Error()
			}
			gen = r.Generation
			if round == 1 && r.ErrorCode != protocol.NONE {
				return 0, fmt.Sprintf("join of %s still answers %d in the second round", m, r.ErrorCode)
			}
		}
	}
	for round := 0; round < 2; round++ {
		for _, m := range members {
			code := c15lSync(h, m, gen)
			if round == 1 && code != protocol.NONE {
				return 0, fmt.Sprintf("sync of %s answers %d", m, code)
			}
		}
	}
	return gen, ""
}

type c15lEnv struct {
	endpoints []string
	cli       *clientv3.Client
	meta      metadata.ClusterMetadata
}

func c15lSetup(t *testing.T) *c15lEnv {
	endpoints := testutil.StartEmbeddedEtcd(t)
	cli, err := clientv3.New(clientv3.Config{Endpoints: endpoints, DialTimeout: 5 * time.Second})
	if err != nil {
		fmt.Println("VF-INCONCLUSIVE: cannot connect to embedded etcd:", err)
		t.Fatalf("etcd client: %v", err)
	}
	t.Cleanup(func() { _ = cli.Close() })
	topic := "orders"
	return &c15lEnv{endpoints: endpoints, cli: cli, meta: metadata.ClusterMetadata{
		Brokers:      []protocol.MetadataBroker{{NodeID: 1, Host: "b1", Port: 9092}, {NodeID: 2, Host: "b2", Port: 9092}},
		ControllerID: 1,
		Topics: []protocol.MetadataTopic{{Topic: &topic,
			Partitions: []protocol.MetadataPartition{{Partition: 0, Leader: 1}, {Partition: 1, Leader: 1}}}},
	}}
}

// expire revokes the etcd lease behind the group's lease key and waits until the owning
// broker's lease manager noticed. Returns "" or an environment problem.
func (e *c15lEnv) expire(h *handler) string {
	ctx, cancel := context.WithTimeout(context.Background(), 20*time.Second)
	defer cancel()
	kv, err := e.cli.Get(ctx, metadata.GroupLeasePrefix()+"/"+c15lGroup)
	if err != nil || len(kv.Kvs) != 1 {
		return fmt.Sprintf("group lease key: err=%v kvs=%d", err, len(kv.Kvs))
	}
	if _, err := e.cli.Revoke(ctx, clientv3.LeaseID(kv.Kvs[0].Lease)); err != nil {
		return "revoke: " + err.Error()
	}
	deadline := time.Now().Add(90 * time.Second)
	for h.groupLeaseManager.Owns(c15lGroup) {
		if time.Now().After(deadline) {
			return "the lease manager never noticed the revoked lease"
		}
		time.Sleep(25 * time.Millisecond)
	}
	return ""
}

// c15lRun returns (violation, environment problem, group changed on broker 2).
func c15lRun(e *c15lEnv, c c15lCase) (viol string, env string, changed bool) {
	ctx, cancel := context.WithTimeout(context.Background(), 120*time.Second)
	defer cancel()
	if _, err := e.cli.Delete(ctx, "", clientv3.WithPrefix()); err != nil {
		return "", "wipe: " + err.Error(), false
	}
	logger := slog.New(slog.NewTextHandler(io.Discard, &slog.HandlerOptions{}))
	var closers []func()
	defer func() {
		for _, f := range closers {
			f()
		}
	}()
	newBroker := func(id int32) (*handler, string) {
		store, err := metadata.NewEtcdStore(ctx, e.meta, metadata.EtcdStoreConfig{Endpoints: e.endpoints})
		if err != nil {
			return nil, "NewEtcdStore: " + err.Error()
		}
		h := newHandler(store, storage.NewMemoryS3Client(), protocol.MetadataBroker{NodeID: id, Host: "b", Port: 9092}, logger)
		closers = append(closers, func() {
			h.coordinator.Stop()
			if h.groupLeaseManager != nil {
				h.groupLeaseManager.ReleaseAll()
			}
			_ = store.Close()
		})
		return h, ""
	}
	h1, p := newBroker(1)
	if p != "" {
		return "", p, false
	}
	h2, p := newBroker(2)
	if p != "" {
		return "", p, false
	}
	observer, err := metadata.NewEtcdStore(ctx, e.meta, metadata.EtcdStoreConfig{Endpoints: e.endpoints})
	if err != nil {
		return "", "observer store: " + err.Error(), false
	}
	closers = append(closers, func() { _ = observer.Close() })

	// phase 1: broker 1 forms the group
	var members []string
	for i := 0; i < c.Members1; i++ {
		r, err := c15lJoin(h1, "")
		if err != nil || r.MemberID == "" || (r.ErrorCode != protocol.NONE && r.ErrorCode != protocol.REBALANCE_IN_PROGRESS) {
			return "", fmt.Sprintf("phase 1 join: err=%v resp=%+v", err, r), false
		}
		members = append(members, r.MemberID)
	}
	gen, p := c15lSettle(h1, members)
	if p != "" {
		return "", "phase 1 settle: " + p, false
	}
	for _, m := range members {
		if code := c15lHeartbeat(h1, m, gen); code != protocol.NONE {
			return "", fmt.Sprintf("phase 1 heartbeat of %s: %d", m, code), false
		}
	}
	// broker 1 loses the lease
	if p := e.expire(h1); p != "" {
		return "", p, false
	}
	// phase 2: broker 2 is the coordinator
	for _, m := range members {
		if code := c15lHeartbeat(h2, m, gen); code != protocol.NONE {
			// C15 itself (plain failover): a current member must keep working on broker 2
			return fmt.Sprintf("after broker 1 lost the lease, heartbeat of member %s (generation %d) on broker 2 answers %d", m, gen, code), "", false
		}
	}
	for i, step := range c.Phase2 {
		switch step {
		case "join":
			r, err := c15lJoin(h2, "")
			if err != nil || r.MemberID == "" {
				return "", fmt.Sprintf("phase 2 join: err=%v resp=%+v", err, r), false
			}
			members = append(members, r.MemberID)
			changed = true
		case "leave":
			if len(members) < 2 {
				continue
			}
			req := kmsg.NewPtrLeaveGroupRequest()
			req.Group, req.MemberID = c15lGroup, members[0] // the shape coordinator.LeaveGroup reads
			if r, err := c15lCall(h2, protocol.APIKeyLeaveGroup, 2, req, kmsg.NewPtrLeaveGroupResponse()); err != nil || r.ErrorCode != protocol.NONE {
				continue // not this property's subject
			}
			members = members[1:]
			changed = true
		case "heartbeat":
			c15lHeartbeat(h2, members[0], gen)
		case "commit":
			c15lCommit(h2, members[0], gen, int64(10+i))
		}
		if changed {
			if gen, p = c15lSettle(h2, members); p != "" {
				return "", "phase 2 settle: " + p, changed
			}
		}
	}
	for _, m := range members {
		if code := c15lHeartbeat(h2, m, gen); code != protocol.NONE {
			return "", fmt.Sprintf("phase 2: heartbeat of %s at generation %d on broker 2 answers %d", m, gen, code), changed
		}
	}
	// what is persisted at the hand-back is the truth broker 1 has to load
	persisted, err := observer.FetchConsumerGroup(ctx, c15lGroup)
	if err != nil || persisted == nil {
		return "", fmt.Sprintf("observer cannot read the persisted group: %v", err), changed
	}
	var want []string
	for id := range persisted.Members {
		want = append(want, id)
	}
	sort.Strings(want)
	// hand back
	if c.HandBack == "release" {
		h2.groupLeaseManager.ReleaseAll()
	} else if p := e.expire(h2); p != "" {
		return "", p, changed
	}
	// phase 3: broker 1 is the coordinator again
	where := fmt.Sprintf("broker 1 regained the group lease (persisted: state=%s generation=%d leader=%s members=%v; broker 1 last saw generation it formed itself)", persisted.State, persisted.GenerationId, persisted.Leader, want)
	for _, m := range want {
		if code := c15lHeartbeat(h1, m, persisted.GenerationId); code != protocol.NONE {
			return fmt.Sprintf("%s: heartbeat of current member %s at generation %d answers %d, want NONE", where, m, persisted.GenerationId, code), "", changed
		}
	}
	r, err := c15lJoin(h1, persisted.Leader)
	if err != nil {
		return "", "phase 3 join: " + err.Error(), changed
	}
	var got []string
	for _, jm := range r.Members {
		got = append(got, jm.MemberID)
	}
	sort.Strings(got)
	if r.ErrorCode != protocol.NONE || r.Generation != persisted.GenerationId || r.LeaderID != persisted.Leader || fmt.Sprint(got) != fmt.Sprint(want) {
		return fmt.Sprintf("%s: rejoin of the leader answers code=%d generation=%d leader=%s members=%v", where, r.ErrorCode, r.Generation, r.LeaderID, got), "", changed
	}
	return "", "", changed
}

func c15lGenerate(t *rapid.T) (c15lCase, bool) {
	c := c15lCase{
		Members1: rapid.IntRange(1, 2).Draw(t, "members1"),
		HandBack: rapid.SampledFrom([]string{"release", "expire"}).Draw(t, "handback"),
	}
	c.Phase2 = rapid.SliceOfN(rapid.SampledFrom([]string{"join", "leave", "heartbeat", "commit", "join"}), 1, 3).Draw(t, "phase2")
	excluded := false
	if vfkit.Known(c15FindStale) {
		// listed finding: broker 1 serves its stale cached copy when broker 2 changed the group
		var keep []string
		for _, s := range c.Phase2 {
			if s == "join" || s == "leave" {
				excluded = true
				continue
			}
			keep = append(keep, s)
		}
		if len(keep) == 0 {
			keep = []string{"heartbeat"}
		}
		c.Phase2 = keep
	}
	return c, excluded
}

func TestVF_C15_Lease(t *testing.T) {
	st := vfkit.NewStats("C15", "lease")
	defer st.Flush()
	env := c15lSetup(t)
	rapid.Check(t, func(t *rapid.T) {
		st.Eval()
		c, excluded := c15lGenerate(t)
		if excluded {
			st.ExcludedCase(c15FindStale)
		}
		viol, problem, changed := c15lRun(env, c)
		if problem != "" {
			fmt.Println("VF-INCONCLUSIVE: two-broker lease scenario could not be set up:", problem)
			t.Fatalf("environment: %s (case %+v)", problem, c)
		}
		st.Class("handback-" + c.HandBack)
		if changed {
			st.Class("group-changed-while-broker1-was-not-coordinator")
		} else {
			st.Class("group-unchanged-while-broker1-was-not-coordinator")
		}
		st.NonTrivial(c)
		st.Sample(c)
		if viol != "" {
			t.Fatalf("%s (case %+v)", viol, c)
		}
	})
}

func TestVF_C15_LeaseWitness(t *testing.T) {
	st := vfkit.NewStats("C15", "leasewitness")
	defer st.Flush()
	env := c15lSetup(t)
	st.Eval()
	c := c15lCase{Members1: 1, Phase2: []string{"join"}, HandBack: "release"}
	viol, problem, _ := c15lRun(env, c)
	if problem != "" {
		fmt.Println("VF-INCONCLUSIVE: two-broker lease scenario could not be set up:", problem)
		t.Fatalf("environment: %s", problem)
	}
	st.KnownResult(c15FindStale, viol != "", viol)
	st.NonTrivial("witness", c)
	st.Sample(map[string]any{"witness": c15FindStale, "case": c, "violation": viol})
	t.Logf("witness %s: %s", c15FindStale, viol)
}
