//go:build verif

package main

import (
	"context"
	"fmt"
	"io"
	"log/slog"
	"net"
	"testing"
	"time"

	"github.com/KafScale/platform/pkg/acl"
	"github.com/KafScale/platform/pkg/broker"
	"github.com/KafScale/platform/pkg/protocol"
	"github.com/twmb/franz-go/pkg/kmsg"
	"verif.local/vfkit"
)

// C24, identity leg: how the principal of a connection is DERIVED. docs/operations.md:
// KAFSCALE_PRINCIPAL_SOURCE = client_id | remote_addr | proxy_addr; "PROXY v2 LOCAL
// connections are accepted (no identity); ensure LB health checks don't rely on
// ACL-protected operations". So under remote_addr / proxy_addr the identity comes from the
// connection (proxied source address, or the socket peer), never from the Kafka client.id.
//
// Oracle (independent of which connection address the broker falls back to): if NONE of the
// connection's addresses is a principal with rights in the ACL, a mutating admin request
// carrying client.id = "alice" (who has all rights) must be refused and change nothing.
// The real buildConnContextFunc is driven over net.Pipe with real PROXY v1/v2 headers, its
// ConnContext is attached the way broker.Server does, and the request goes through Handle.

type c24Header struct {
	name    string
	bytes   []byte
	srcAddr string // address the header vouches for ("" = none)
}

func c24Headers() []c24Header {
	sig := []byte{0x0d, 0x0a, 0x0d, 0x0a, 0x00, 0x0d, 0x0a, 0x51, 0x55, 0x49, 0x54, 0x0a}
	v2proxy := append(append([]byte(nil), sig...), 0x21, 0x11, 0x00, 0x0c, 10, 0, 0, 9, 10, 0, 0, 1, 0x9c, 0x40, 0x23, 0x84)
	v2local := append(append([]byte(nil), sig...), 0x20, 0x00, 0x00, 0x00)
	return []c24Header{
		{"none", nil, ""},
		{"v1-tcp4", []byte("PROXY TCP4 10.0.0.9 10.0.0.1 40000 9092\r\n"), "10.0.0.9"},
		{"v1-unknown", []byte("PROXY UNKNOWN\r\n"), ""},
		{"v2-proxy-tcp4", v2proxy, "10.0.0.9"},
		{"v2-local", v2local, ""},
	}
}

func TestVF_C24_Identity(t *testing.T) {
	st := vfkit.NewStats("C24", "identity")
	defer st.Flush()
	c24Env(t)
	logger := slog.New(slog.NewTextHandler(io.Discard, &slog.HandlerOptions{}))
	for _, source := range []string{"client_id", "remote_addr", "proxy_addr"} {
		for _, proxyProto := range []bool{false, true} {
			t.Setenv("KAFSCALE_PRINCIPAL_SOURCE", source)
			t.Setenv("KAFSCALE_PROXY_PROTOCOL", fmt.Sprint(proxyProto))
			fn := buildConnContextFunc(logger)
			headerParsed := proxyProto || source == "proxy_addr"
			for _, hdr := range c24Headers() {
				for _, listProxied := range []bool{false, true} {
					for _, listSocket := range []bool{false, true} {
						st.Eval()
						fail, class := c24IdentityCase(fn, source, headerParsed, hdr, listProxied, listSocket)
						st.Class(class)
						if fail != "" {
							t.Fatalf("%s\nKAFSCALE_PRINCIPAL_SOURCE=%s KAFSCALE_PROXY_PROTOCOL=%v header=%s acl lists 10.0.0.9=%v pipe=%v", fail, source, proxyProto, hdr.name, listProxied, listSocket)
						}
						if class == "spoof-attempt-refused" {
							if st.NonTrivial(source, proxyProto, hdr.name, listProxied, listSocket) {
								st.Sample(map[string]any{"source": source, "proxy_protocol": proxyProto, "header": hdr.name, "acl_lists_proxied_addr": listProxied, "acl_lists_socket_addr": listSocket})
							}
						}
					}
				}
			}
		}
	}
}

func c24IdentityCase(fn broker.ConnContextFunc, source string, headerParsed bool, hdr c24Header, listProxied, listSocket bool) (fail, class string) {
	w, err := c24NewWorld()
	if err != nil {
		fmt.Println("VF-INCONCLUSIVE: harness cannot set up the broker handler:", err)
		return "setup: " + err.Error(), "setup"
	}
	defer w.close()
	cfg := acl.Config{Enabled: true, DefaultPolicy: "deny", Principals: []acl.PrincipalRules{
		{Name: "alice", Allow: []acl.Rule{{Action: acl.ActionAny, Resource: acl.ResourceAny, Name: "*"}}}}}
	all := []acl.Rule{{Action: acl.ActionAny, Resource: acl.ResourceAny, Name: "*"}}
	if listProxied {
		cfg.Principals = append(cfg.Principals, acl.PrincipalRules{Name: "10.0.0.9", Allow: all})
	}
	if listSocket {
		cfg.Principals = append(cfg.Principals, acl.PrincipalRules{Name: "pipe", Allow: all})
	}
	w.h.authorizer = acl.NewAuthorizer(cfg)

	ctx := context.Background()
	if fn != nil {
		client, server := net.Pipe()
		_ = server.SetDeadline(time.Now().Add(10 * time.Second))
		go func() {
			_, _ = client.Write(append(append([]byte(nil), hdr.bytes...), 0, 0, 0, 8, 0, 18, 0, 0, 0, 0, 0, 1))
		}()
		_, info, err := fn(server)
		client.Close()
		server.Close()
		if err != nil {
			return "", "connection-rejected"
		}
		ctx = broker.ContextWithConnInfo(ctx, info)
	}
	before, err := w.snapshot()
	if err != nil {
		return "snapshot: " + err.Error(), "setup"
	}
	req := kmsg.NewPtrCreateTopicsRequest()
	req.TimeoutMillis = 1000
	rt := kmsg.NewCreateTopicsRequestTopic()
	rt.Topic, rt.NumPartitions, rt.ReplicationFactor = "spoofed", 1, 1
	req.Topics = append(req.Topics, rt)
	req.SetVersion(2)
	cid := "alice"
	payload, herr := w.h.Handle(ctx, &protocol.RequestHeader{APIKey: protocol.APIKeyCreateTopics, APIVersion: 2, CorrelationID: 1, ClientID: &cid}, req)
	after, err := w.snapshot()
	if err != nil {
		return "snapshot: " + err.Error(), "setup"
	}
	changed := c24Diff(before, after)
	if source == "client_id" || fn == nil {
		// documented: the client.id IS the identity
		if len(changed) > 0 {
			return "", "client-id-source:alice-served"
		}
		return "", "client-id-source:refused"
	}
	// connection identity candidates
	rightsByConn := listSocket
	if headerParsed && hdr.srcAddr != "" && listProxied {
		rightsByConn = true
	}
	if rightsByConn {
		if len(changed) > 0 {
			return "", "connection-identity-has-rights:served"
		}
		return "", "connection-identity-has-rights:refused"
	}
	if len(changed) > 0 {
		return fmt.Sprintf("a peer whose connection addresses (socket \"pipe\", PROXY source %q) have no rights got alice's rights by sending client.id=alice: %v", hdr.srcAddr, changed), "spoofed"
	}
	if herr == nil && payload != nil {
		codes, _, derr := c24ResultCodes(protocol.APIKeyCreateTopics, 2, payload)
		if derr != nil {
			return "response undecodable: " + derr.Error(), "setup"
		}
		for _, c := range codes {
			if !c24IsAuthCode(c) {
				return fmt.Sprintf("peer without rights by connection identity was answered with codes %v, not an authorization error", codes), "spoofed"
			}
		}
	}
	return "", "spoof-attempt-refused"
}
