//go:build verif

package processor

// C33 core (identical copies in the iceberg, sql and skeleton processor packages; only
// stdlib + rapid + vfkit). It owns the plan (segments, per-cycle visibility, fault
// schedule), the world the fakes report to, and the oracle:
//
//	safety, at every effective CommitOffset(o): every record of the partition with offset
//	  <= o has been part of a successful sink.Write;
//	bounded completeness: after the clean cycles every record of every completed segment
//	  has been written at least once (including offset 0).
//
// The per-module file builds the real Processor from fakes that call the On* methods.

import (
	"context"
	"fmt"
	"net/url"
	"sort"
	"strings"
	"sync"
	"testing"
	"testing/synctest"
	"time"

	"pgregory.net/rapid"
	"verif.local/vfkit"
)

type c33Seg struct {
	Base int64
	N    int
	Key  string
}

type c33FaultKey struct {
	Cycle int
	Seg   int // -1 for cycle-level sites
	Site  string
}

type c33Plan struct {
	Mod       string
	Store     string // "real": fake store with etcd-store semantics (-1 when nothing committed); "noop": the module's shipped noopStore as-is
	Start     int64
	Segs      []c33Seg
	Visible   []int // per fault cycle: number of listed segments; afterwards all
	Cycles    int   // cycles that may carry faults
	Clean     int   // fault-free cycles afterwards
	Faults    map[c33FaultKey]string
	Lfs       map[int64]bool          // offsets whose value is an LFS envelope (iceberg only)
	LfsFaults map[[2]int64]string     // (cycle, offset) -> kind of error the blob fetch returns (see c33LfsErr)
	Excluded  map[string]bool         // known-finding ids this plan was steered away from
	StickyF1  bool                    // after a segment-level failure, fail the rest of the cycle (exclusion of the skip-failed-segment finding)
}

const (
	c33Topic     = "orders"
	c33Partition = int32(3)
)

func c33SkipID(mod string) string { return "C33-" + mod + "-skip-failed-segment" }
func c33NoopID(mod string) string { return "C33-" + mod + "-noop-store-offset0" }
func c33LfsID(mod string) string  { return "C33-" + mod + "-lfs-failure-drops-record" }

// Kinds of error a blob download can fail with while the processor's own context is alive:
// a plain S3 error, a client-side timeout (context.DeadlineExceeded, bare, wrapped the way
// the SDK / net/http wrap it) and an interrupted attempt (context.Canceled, bare or wrapped).
// All of them are transient: the record must be retried, not dropped.
var c33LfsKinds = []string{"plain", "deadline", "canceled", "wrapped-deadline", "wrapped-canceled", "url-timeout", "plain", "deadline"}

func c33LfsErr(kind string) error {
	switch kind {
	case "deadline":
		return context.DeadlineExceeded
	case "canceled":
		return context.Canceled
	case "wrapped-deadline":
		return fmt.Errorf("operation error S3: GetObject, https response error StatusCode: 0, RequestID: , request send failed: %w", context.DeadlineExceeded)
	case "wrapped-canceled":
		return fmt.Errorf("operation error S3: GetObject, canceled attempt: %w", context.Canceled)
	case "url-timeout":
		return &url.Error{Op: "Get", URL: "http://s3.local/b/blob", Err: context.DeadlineExceeded}
	default:
		return errC33Injected
	}
}

// weighted choices (rapid favours early entries a little, hence "none" first)
var (
	c33CycleFaults = []string{"none", "none", "none", "none", "none", "none", "none", "none", "list", "claim", "none", "none"}
	c33SegFaults   = []string{"none", "none", "none", "none", "none", "none", "decode", "sink", "load", "commit-before", "commit-after", "sink", "decode", "none", "none", "none"}
)

// c33GenPlan draws a plan. withLfs enables LFS envelopes (iceberg).
func c33GenPlan(t *rapid.T, mod string, withLfs bool) c33Plan {
	p := c33Plan{Mod: mod, Faults: map[c33FaultKey]string{}, Lfs: map[int64]bool{}, LfsFaults: map[[2]int64]string{}, Excluded: map[string]bool{}, Clean: 2}
	p.Store = rapid.SampledFrom([]string{"real", "real", "real", "real", "real", "noop"}).Draw(t, "store")
	p.Start = rapid.SampledFrom([]int64{0, 0, 0, 1, 7, 1000}).Draw(t, "start")
	if p.Store == "noop" && p.Start == 0 && vfkit.Known(c33NoopID(mod)) {
		p.Start = 1
		p.Excluded[c33NoopID(mod)] = true
	}
	p.StickyF1 = vfkit.Known(c33SkipID(mod))
	ns := rapid.IntRange(1, 5).Draw(t, "segments")
	off := p.Start
	for i := 0; i < ns; i++ {
		n := rapid.IntRange(1, 4).Draw(t, "records")
		p.Segs = append(p.Segs, c33Seg{Base: off, N: n, Key: fmt.Sprintf("seg-%020d", off)})
		off += int64(n)
	}
	p.Cycles = rapid.IntRange(1, 4).Draw(t, "fault-cycles")
	vis := rapid.IntRange(1, ns).Draw(t, "visible0")
	lfsMode := withLfs && rapid.Bool().Draw(t, "lfs")
	if lfsMode {
		for _, s := range p.Segs {
			for o := s.Base; o < s.Base+int64(s.N); o++ {
				if rapid.IntRange(0, 3).Draw(t, "is-lfs") == 0 {
					p.Lfs[o] = true
				}
			}
		}
	}
	for c := 0; c < p.Cycles; c++ {
		p.Visible = append(p.Visible, vis)
		switch rapid.SampledFrom(c33CycleFaults).Draw(t, "cycle-fault") {
		case "list":
			p.Faults[c33FaultKey{c, -1, "list"}] = "before"
		case "claim":
			p.Faults[c33FaultKey{c, -1, "claim"}] = "before"
		}
		for s := 0; s < vis; s++ {
			switch f := rapid.SampledFrom(c33SegFaults).Draw(t, "seg-fault"); f {
			case "load", "decode", "sink":
				p.Faults[c33FaultKey{c, s, f}] = "before"
			case "commit-before":
				p.Faults[c33FaultKey{c, s, "commit"}] = "before"
			case "commit-after":
				p.Faults[c33FaultKey{c, s, "commit"}] = "after"
			}
			if lfsMode {
				seg := p.Segs[s]
				for o := seg.Base; o < seg.Base+int64(seg.N); o++ {
					if p.Lfs[o] && rapid.IntRange(0, 5).Draw(t, "lfs-fault") == 0 {
						if vfkit.Known(c33LfsID(mod)) {
							p.Excluded[c33LfsID(mod)] = true
						} else {
							p.LfsFaults[[2]int64{int64(c), o}] = rapid.SampledFrom(c33LfsKinds).Draw(t, "lfs-error-kind")
						}
					}
				}
			}
		}
		if vis < ns {
			vis += rapid.IntRange(0, ns-vis).Draw(t, "newly-completed")
		}
	}
	return p
}

// ---- world -------------------------------------------------------------------------------

type c33World struct {
	mu          sync.Mutex
	p           *c33Plan
	cycle       int // index of the current polling cycle (-1 before the first list)
	loadCalls   int
	claimCalls  int
	failedCycle bool // a segment-level failure happened in this cycle
	committed   int64
	hasCommit   bool
	delivered   map[int64]int
	attempted   map[int]int // segment index -> first cycle in which it failed
	violations  []string
	trace       []string
	f1Shape     bool // failure on seg i, later successful write of seg j>i in the same cycle
	retried     bool // a segment that failed in one cycle was written in a later one
	stickyFired bool
	zeroEmpty   bool // offset 0 delivered while nothing had been committed
	firstFailSeg int
}

func c33NewWorld(p *c33Plan) *c33World {
	return &c33World{p: p, cycle: -1, delivered: map[int64]int{}, attempted: map[int]int{}, firstFailSeg: -1}
}

func (w *c33World) fault(seg int, site string) string {
	if w.cycle >= w.p.Cycles {
		return ""
	}
	return w.p.Faults[c33FaultKey{w.cycle, seg, site}]
}

func (w *c33World) note(format string, a ...any) {
	w.trace = append(w.trace, fmt.Sprintf("c%d:", w.cycle)+fmt.Sprintf(format, a...))
}

func (w *c33World) segFailed(seg int, site string) {
	if !w.failedCycle || seg < w.firstFailSeg {
		w.firstFailSeg = seg
	}
	w.failedCycle = true
	if _, ok := w.attempted[seg]; !ok {
		w.attempted[seg] = w.cycle
	}
	w.note("%s-fail(seg%d)", site, seg)
}

var errC33Injected = fmt.Errorf("injected transient failure")

func (w *c33World) segIndexOfOffset(o int64) int {
	for i, s := range w.p.Segs {
		if o >= s.Base && o < s.Base+int64(s.N) {
			return i
		}
	}
	return -1
}

// OnList starts a polling cycle and returns how many segments are listed.
func (w *c33World) OnList() (int, error) {
	w.mu.Lock()
	defer w.mu.Unlock()
	w.cycle++
	w.loadCalls, w.claimCalls, w.failedCycle, w.firstFailSeg = 0, 0, false, -1
	if w.fault(-1, "list") != "" {
		w.note("list-fail")
		return 0, errC33Injected
	}
	if w.cycle < len(w.p.Visible) {
		return w.p.Visible[w.cycle], nil
	}
	return len(w.p.Segs), nil
}

func (w *c33World) OnClaim() error {
	w.mu.Lock()
	defer w.mu.Unlock()
	w.claimCalls++
	if w.claimCalls == 1 && w.fault(-1, "claim") != "" {
		w.note("claim-fail")
		return errC33Injected
	}
	return nil
}

// OnLoad is LoadOffset of the fake store with real semantics.
func (w *c33World) OnLoad() (int64, error) {
	w.mu.Lock()
	defer w.mu.Unlock()
	seg := w.loadCalls
	w.loadCalls++
	if w.p.StickyF1 && w.failedCycle {
		if w.fault(seg, "load") == "" {
			w.stickyFired = true
		}
		w.note("load-fail-sticky(seg%d)", seg)
		return 0, errC33Injected
	}
	if w.fault(seg, "load") != "" {
		w.segFailed(seg, "load")
		return 0, errC33Injected
	}
	if !w.hasCommit {
		return -1, nil
	}
	return w.committed, nil
}

// OnDecode reports a Decode call. A "before" fault fails here (the fake decoder just returns
// the error). Any other fault kind (e.g. "truncate", "http503": faults that are played against
// a real decoder) is handed back to the module's decoder, which calls DecodeFailed if the real
// decoder reported an error.
func (w *c33World) OnDecode(key string) (seg c33Seg, idx int, cycle int, fault string, err error) {
	w.mu.Lock()
	defer w.mu.Unlock()
	for i, s := range w.p.Segs {
		if s.Key == key {
			f := w.fault(i, "decode")
			if f == "before" {
				w.segFailed(i, "decode")
				return s, i, w.cycle, f, errC33Injected
			}
			return s, i, w.cycle, f, nil
		}
	}
	w.violations = append(w.violations, "harness: decode of unknown segment key "+key)
	return c33Seg{}, -1, w.cycle, "", fmt.Errorf("unknown segment")
}

func (w *c33World) DecodeFailed(idx int, how string) {
	w.mu.Lock()
	defer w.mu.Unlock()
	w.segFailed(idx, "decode-"+how)
}

func (w *c33World) Note(format string, a ...any) {
	w.mu.Lock()
	defer w.mu.Unlock()
	w.note(format, a...)
}

func (w *c33World) OnLfsFetch(offset int64) error {
	w.mu.Lock()
	defer w.mu.Unlock()
	if w.cycle < w.p.Cycles {
		if kind := w.p.LfsFaults[[2]int64{int64(w.cycle), offset}]; kind != "" {
			w.note("lfs-fail-%s(%d)", kind, offset)
			return c33LfsErr(kind)
		}
	}
	return nil
}

func (w *c33World) OnSink(offsets []int64) error {
	w.mu.Lock()
	defer w.mu.Unlock()
	if len(offsets) == 0 {
		return nil
	}
	seg := w.segIndexOfOffset(offsets[0])
	if w.fault(seg, "sink") != "" {
		w.segFailed(seg, "sink")
		return errC33Injected
	}
	for _, o := range offsets {
		if o == 0 && !w.hasCommit && w.delivered[o] == 0 {
			w.zeroEmpty = true
		}
		w.delivered[o]++
	}
	if w.failedCycle && w.firstFailSeg >= 0 && seg > w.firstFailSeg {
		w.f1Shape = true
	}
	if c, ok := w.attempted[seg]; ok && c < w.cycle {
		w.retried = true
	}
	w.note("write(%d..%d)", offsets[0], offsets[len(offsets)-1])
	return nil
}

// OnCommit is CommitOffset of the fake store; the safety oracle runs whenever the commit
// takes effect (also when the caller is told it failed afterwards).
func (w *c33World) OnCommit(offset int64) error {
	w.mu.Lock()
	defer w.mu.Unlock()
	seg := w.segIndexOfOffset(offset)
	kind := w.fault(seg, "commit")
	if kind == "before" {
		w.note("commit-fail-before(%d)", offset)
		return errC33Injected
	}
	w.committed, w.hasCommit = offset, true
	w.note("commit(%d)", offset)
	var missing []string
	for _, s := range w.p.Segs {
		for o := s.Base; o < s.Base+int64(s.N) && o <= offset; o++ {
			if w.delivered[o] == 0 {
				missing = append(missing, fmt.Sprint(o))
			}
		}
	}
	if len(missing) > 0 {
		w.violations = append(w.violations, fmt.Sprintf("cycle %d: checkpoint committed at offset %d but offsets [%s] were never part of a successful sink write", w.cycle, offset, strings.Join(missing, ",")))
	}
	if kind == "after" {
		w.note("commit-fail-after(%d)", offset)
		return errC33Injected
	}
	return nil
}

// finish runs the bounded-completeness oracle and returns all violations.
func (w *c33World) finish() []string {
	w.mu.Lock()
	defer w.mu.Unlock()
	out := append([]string(nil), w.violations...)
	if want := w.p.Cycles + w.p.Clean; w.cycle+1 != want {
		out = append(out, fmt.Sprintf("harness: %d polling cycles ran, %d were scheduled", w.cycle+1, want))
		return out
	}
	var missing []string
	for _, s := range w.p.Segs {
		for o := s.Base; o < s.Base+int64(s.N); o++ {
			if w.delivered[o] == 0 {
				missing = append(missing, fmt.Sprint(o))
			}
		}
	}
	if len(missing) > 0 {
		out = append(out, fmt.Sprintf("after %d fault-free cycles offsets [%s] of completed segments were never written to the sink (store=%s, first offset %d)", w.p.Clean, strings.Join(missing, ","), w.p.Store, w.p.Start))
	}
	return out
}

func (p *c33Plan) describe() map[string]any {
	var fs []string
	for k, v := range p.Faults {
		fs = append(fs, fmt.Sprintf("c%d/seg%d/%s/%s", k.Cycle, k.Seg, k.Site, v))
	}
	for k, v := range p.LfsFaults {
		fs = append(fs, fmt.Sprintf("c%d/lfs@%d/%s", k[0], k[1], v))
	}
	sort.Strings(fs)
	var segs []string
	for _, s := range p.Segs {
		segs = append(segs, fmt.Sprintf("%d+%d", s.Base, s.N))
	}
	return map[string]any{"store": p.Store, "segments": segs, "visible": p.Visible, "fault_cycles": p.Cycles, "faults": fs, "lfs_records": len(p.Lfs)}
}

// c33RunBubble runs the processor (run blocks until ctx is cancelled) for the scheduled
// number of polling cycles under the synctest fake clock.
func c33RunBubble(t *testing.T, p *c33Plan, w *c33World, run func(ctx context.Context) error) (runErr error) {
	synctest.Test(t, func(t *testing.T) {
		ctx, cancel := context.WithCancel(context.Background())
		done := make(chan error, 1)
		go func() { done <- run(ctx) }()
		for i := 0; i < p.Cycles+p.Clean; i++ {
			time.Sleep(5 * time.Second)
			synctest.Wait()
		}
		cancel()
		runErr = <-done
	})
	return runErr
}

// c33Check is the body shared by the rapid leg of every module.
func c33Check(rt *rapid.T, t *testing.T, st *vfkit.Stats, p c33Plan, exec func(t *testing.T, p *c33Plan, w *c33World) error) {
	st.Eval()
	w := c33NewWorld(&p)
	err := exec(t, &p, w)
	v := w.finish()
	for id := range p.Excluded {
		st.ExcludedCase(id)
	}
	if w.stickyFired {
		st.ExcludedCase(c33SkipID(p.Mod))
	}
	st.Class("store:" + p.Store)
	if len(p.Faults)+len(p.LfsFaults) == 0 {
		st.Class("no-faults")
	}
	for k, v := range p.Faults {
		if k.Site == "decode" && v != "before" {
			st.Class("fault:decode-" + v)
		} else {
			st.Class("fault:" + k.Site)
		}
	}
	for _, kind := range p.LfsFaults {
		st.Class("fault:lfs-" + kind)
	}
	if w.f1Shape {
		st.Class("failure-then-later-segment-written")
	}
	if w.retried {
		st.Class("failed-segment-written-in-later-cycle")
	}
	if w.zeroEmpty {
		st.Class("offset0-with-empty-checkpoint")
	}
	if err != nil {
		rt.Fatalf("processor Run returned %v (plan %v)", err, p.describe())
	}
	for _, m := range v {
		if strings.HasPrefix(m, "harness:") {
			fmt.Println("VF-INCONCLUSIVE: " + m)
		}
	}
	if len(v) > 0 {
		rt.Fatalf("%s\nplan: %v\ntrace: %s", strings.Join(v, "\n"), p.describe(), strings.Join(w.trace, " "))
	}
	if w.f1Shape || w.retried || w.zeroEmpty {
		if st.NonTrivial(p.Store, p.Start, fmt.Sprint(p.describe()["segments"]), strings.Join(w.trace, " ")) {
			d := p.describe()
			d["trace"] = strings.Join(w.trace, " ")
			st.Sample(d)
		}
	}
}

// c33Witnesses replays one minimal hard-coded plan per listed finding through the same
// world / oracle (no steering) and records whether it still fails.
func c33Witnesses(t *testing.T, st *vfkit.Stats, mod string, withLfs bool, exec func(t *testing.T, p *c33Plan, w *c33World) error) {
	mk := func(store string, sizes ...int) c33Plan {
		p := c33Plan{Mod: mod, Store: store, Faults: map[c33FaultKey]string{}, Lfs: map[int64]bool{}, LfsFaults: map[[2]int64]string{}, Excluded: map[string]bool{}, Cycles: 1, Clean: 2}
		off := int64(0)
		for _, n := range sizes {
			p.Segs = append(p.Segs, c33Seg{Base: off, N: n, Key: fmt.Sprintf("seg-%020d", off)})
			off += int64(n)
		}
		p.Visible = []int{len(sizes)}
		return p
	}
	run := func(id string, p c33Plan, what string) {
		st.Eval()
		w := c33NewWorld(&p)
		if err := exec(t, &p, w); err != nil {
			t.Fatalf("witness %s: Run returned %v", id, err)
		}
		v := w.finish()
		for _, m := range v {
			if strings.HasPrefix(m, "harness:") {
				fmt.Println("VF-INCONCLUSIVE: " + m)
				t.Fatalf("witness %s: %s", id, m)
			}
		}
		t.Logf("%s: %s -> %v (trace: %s)", id, what, v, strings.Join(w.trace, " "))
		if len(v) > 0 {
			st.KnownResult(id, true, what+": "+v[0])
		} else {
			st.KnownResult(id, false, what+": no violation")
		}
	}
	// a decode failure on the first of two segments, everything else healthy
	p1 := mk("real", 2, 2)
	p1.Faults[c33FaultKey{0, 0, "decode"}] = "before"
	run(c33SkipID(mod), p1, "segments [0..1],[2..3]; cycle 0: decode of the first segment fails once")
	// the shipped noop checkpoint store, one segment starting at offset 0, no failures at all
	p2 := mk("noop", 2)
	run(c33NoopID(mod), p2, "shipped noopStore, one segment [0..1], no failures")
	if withLfs {
		p3 := mk("real", 3)
		p3.Lfs[1] = true
		p3.LfsFaults[[2]int64{0, 1}] = "plain"
		run(c33LfsID(mod), p3, "segment [0..2], record 1 is an LFS envelope whose blob fetch fails once in cycle 0")
	}
}
