//go:build verif

package processor

// C33, iceberg module: the real Processor.Run loop (incl. lease renewal goroutine and the
// LFS resolver workers) assembled from fakes that report to the c33World, under the
// synctest fake clock.

import (
	"context"
	"crypto/sha256"
	"encoding/hex"
	"fmt"
	"io"
	"log"
	"strconv"
	"testing"
	"time"

	"github.com/KafScale/platform/addons/processors/iceberg-processor/internal/checkpoint"
	"github.com/KafScale/platform/addons/processors/iceberg-processor/internal/config"
	"github.com/KafScale/platform/addons/processors/iceberg-processor/internal/decoder"
	"github.com/KafScale/platform/addons/processors/iceberg-processor/internal/discovery"
	"github.com/KafScale/platform/addons/processors/iceberg-processor/internal/sink"
	"github.com/KafScale/platform/pkg/lfs"
	"pgregory.net/rapid"
	"verif.local/vfkit"
)

const c33Mod = "iceberg"

type c33Lister struct{ w *c33World }

func (l *c33Lister) ListCompleted(ctx context.Context) ([]discovery.SegmentRef, error) {
	idx, err := l.w.OnList()
	if err != nil {
		return nil, err
	}
	out := make([]discovery.SegmentRef, 0, len(idx))
	for _, i := range idx {
		s := l.w.p.Segs[i]
		out = append(out, discovery.SegmentRef{Topic: c33Topic, Partition: s.Part, BaseOffset: s.Base, SegmentKey: s.Key, IndexKey: s.Key + ".index"})
	}
	return out, nil
}

func c33BlobKey(part int32, o int64) string { return fmt.Sprintf("blob-%d-%d", part, o) }
func c33Payload(o int64) []byte { return []byte("resolved-payload-" + strconv.FormatInt(o, 10)) }

type c33Decoder struct{ w *c33World }

func (d *c33Decoder) Decode(ctx context.Context, segmentKey, indexKey, topic string, partition int32) ([]decoder.Record, error) {
	s, _, _, _, err := d.w.OnDecode(segmentKey)
	if err != nil {
		return nil, err
	}
	out := make([]decoder.Record, 0, s.N)
	for o := s.Base; o < s.Base+int64(s.N); o++ {
		val := []byte("v-" + strconv.FormatInt(o, 10))
		if d.w.p.Lfs[[2]int64{int64(partition), o}] {
			sum := sha256.Sum256(c33Payload(o))
			env, err := lfs.EncodeEnvelope(lfs.Envelope{Version: 1, Bucket: "b", Key: c33BlobKey(partition, o), Size: int64(len(c33Payload(o))), SHA256: hex.EncodeToString(sum[:])})
			if err != nil {
				return nil, fmt.Errorf("harness: %v", err)
			}
			val = env
		}
		out = append(out, decoder.Record{Topic: topic, Partition: partition, Offset: o, Timestamp: 1726000000000 + o, Key: []byte("k"), Value: val})
	}
	return out, nil
}

type c33Store struct {
	w     *c33World
	inner checkpoint.Store // non-nil: the module's shipped store used as-is for offsets
}

func (s *c33Store) ClaimLease(ctx context.Context, topic string, partition int32, ownerID string) (checkpoint.Lease, error) {
	if err := s.w.OnClaim(partition); err != nil {
		return checkpoint.Lease{}, err
	}
	return checkpoint.Lease{Topic: topic, Partition: partition, OwnerID: ownerID}, nil
}
func (s *c33Store) RenewLease(ctx context.Context, lease checkpoint.Lease) error { return s.w.OnRenew() }
func (s *c33Store) ReleaseLease(ctx context.Context, lease checkpoint.Lease) error {
	s.w.OnRelease()
	return nil
}
func (s *c33Store) LoadOffset(ctx context.Context, topic string, partition int32) (checkpoint.OffsetState, error) {
	if s.inner != nil {
		return s.inner.LoadOffset(ctx, topic, partition)
	}
	o, err := s.w.OnLoad(partition)
	if err != nil {
		return checkpoint.OffsetState{}, err
	}
	return checkpoint.OffsetState{Topic: topic, Partition: partition, Offset: o}, nil
}
func (s *c33Store) CommitOffset(ctx context.Context, st checkpoint.OffsetState) error {
	if s.inner != nil {
		return s.inner.CommitOffset(ctx, st)
	}
	return s.w.OnCommit(st.Partition, st.Offset)
}

type c33Sink struct{ w *c33World }

func (s *c33Sink) Write(ctx context.Context, records []sink.Record) error {
	offs := make([]int64, len(records))
	for i, r := range records {
		offs[i] = r.Offset
	}
	if len(records) == 0 {
		return nil
	}
	return s.w.OnSink(records[0].Partition, offs)
}
func (s *c33Sink) Close(ctx context.Context) error { return nil }

type c33LfsReader struct{ w *c33World }

func (r *c33LfsReader) Fetch(ctx context.Context, key string) ([]byte, error) {
	var part int32
	var o int64
	if _, err := fmt.Sscanf(key, "blob-%d-%d", &part, &o); err != nil {
		return nil, fmt.Errorf("harness: bad blob key %q", key)
	}
	if err := r.w.OnLfsFetch(part, o); err != nil {
		return nil, err
	}
	return c33Payload(o), nil
}
func (r *c33LfsReader) Stream(ctx context.Context, key string) (io.ReadCloser, int64, error) {
	return nil, 0, fmt.Errorf("harness: Stream not used by the resolver")
}

func c33Exec(t *testing.T, p *c33Plan, w *c33World) error {
	store := &c33Store{w: w}
	if p.Store == "noop" {
		inner, err := checkpoint.New(config.Config{}) // offsets.backend != "etcd" -> the shipped noopStore
		if err != nil {
			return fmt.Errorf("harness: %v", err)
		}
		store.inner = inner
	}
	proc := &Processor{
		discover: &c33Lister{w: w},
		decode:   &c33Decoder{w: w},
		store:    store,
		sink:     &c33Sink{w: w},
	}
	if len(p.Lfs) > 0 {
		proc.lfsS3 = &c33LfsReader{w: w}
		proc.mappingByTopic = map[string]config.Mapping{c33Topic: {Topic: c33Topic, Table: "t", Lfs: config.LfsConfig{Mode: lfsModeResolve, ResolveConcurrency: 2}}}
	}
	return c33RunBubble(t, p, w, proc.Run)
}

// c33RenewEvery makes the lease renewal ticker (a package variable in this module) fire at
// instants that never coincide with the 5 s poll ticker within a run (<= 30 s), so that the
// order of "renewal failed" and "poll tick" is not left to the goroutine scheduler.
func c33RenewEvery(t *testing.T) {
	old := leaseRenewInterval
	leaseRenewInterval = 7 * time.Second
	t.Cleanup(func() { leaseRenewInterval = old })
}

func TestVF_C33_Iceberg(t *testing.T) {
	log.SetOutput(io.Discard)
	c33RenewEvery(t)
	st := vfkit.NewStats("C33", c33Mod)
	defer st.Flush()
	rapid.Check(t, func(rt *rapid.T) {
		p := c33GenPlan(rt, c33Mod, true)
		c33Check(rt, t, st, p, c33Exec)
	})
}

func TestVF_C33_Witness(t *testing.T) {
	log.SetOutput(io.Discard)
	c33RenewEvery(t)
	st := vfkit.NewStats("C33", c33Mod+"-witness")
	defer st.Flush()
	c33Witnesses(t, st, c33Mod, true, c33Exec)
}

// ---- module-specific hooks used by the shared real-lister / real-decoder legs ----------------

func c33TestSetup(t *testing.T) {
	log.SetOutput(io.Discard)
	c33RenewEvery(t)
}

func c33ListerConfig(ns, endpoint string) config.Config {
	return config.Config{
		S3:        config.S3Config{Bucket: c33ListBucket, Namespace: ns, Endpoint: endpoint, Region: "us-east-1", PathStyle: true},
		Discovery: config.DiscoveryConfig{Mode: "s3"},
	}
}

func c33NewProcessor(l discovery.Lister, d decoder.Decoder, s checkpoint.Store, w sink.Writer) *Processor {
	return &Processor{discover: l, decode: d, store: s, sink: w}
}

func c33DecoderConfig(endpoint string) config.Config {
	return config.Config{S3: config.S3Config{Bucket: c33Bucket, Region: "us-east-1", Endpoint: endpoint, PathStyle: true}}
}

func c33SinkValue(r sink.Record) []byte { return r.Value }
