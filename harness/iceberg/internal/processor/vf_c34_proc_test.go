//go:build verif

package processor

// C34, "iceberg-proc" leg: a crafted record must not be able to crash a processor. The
// decoder-level legs cover the bytes; this leg covers what the processor does with decoded
// records whose VALUE bytes are client-chosen: the real Processor.Run loop (fakes from the
// C33 harness, synctest clock) over segments whose values look like LFS envelopes but are not,
// are envelopes the configured LFS mode skips / cannot resolve (checksum mismatch, above the
// inline limit), or are rejected by a lenient / strict schema validator - including segments
// in which EVERY record is dropped by those stages. Oracle: Run never panics (it may return
// an error, e.g. strict validation); nothing else is asserted here (C33 owns delivery).

import (
	"bytes"
	"context"
	"crypto/sha256"
	"encoding/hex"
	"errors"
	"fmt"
	"io"
	"log"
	"strconv"
	"strings"
	"testing"

	"github.com/KafScale/platform/addons/processors/iceberg-processor/internal/config"
	"github.com/KafScale/platform/addons/processors/iceberg-processor/internal/decoder"
	"github.com/KafScale/platform/addons/processors/iceberg-processor/internal/schema"
	"github.com/KafScale/platform/pkg/lfs"
	"pgregory.net/rapid"
	"verif.local/vfkit"
)

var c34ValueClasses = []string{"plain", "marker-garbage", "marker-missing-fields", "envelope-ok", "envelope-bad-checksum", "envelope-too-big", "schema-invalid", "null", "empty", "json-not-envelope"}
var c34DroppingClasses = []string{"marker-garbage", "marker-missing-fields", "envelope-ok", "envelope-bad-checksum", "envelope-too-big", "schema-invalid"}

func c34Value(class string, part int32, o int64) []byte {
	env := func(payload []byte, size int64) []byte {
		sum := sha256.Sum256(payload)
		b, err := lfs.EncodeEnvelope(lfs.Envelope{Version: 1, Bucket: "b", Key: c33BlobKey(part, o), Size: size, SHA256: hex.EncodeToString(sum[:])})
		if err != nil {
			panic("harness: " + err.Error())
		}
		return b
	}
	switch class {
	case "marker-garbage":
		return []byte(`{"kfs_lfs":1,"bucket":"b","key":`)
	case "marker-missing-fields":
		return []byte(`{"kfs_lfs":1,"bucket":"","key":"k","sha256":"","size":3}`)
	case "envelope-ok":
		return env(c33Payload(o), int64(len(c33Payload(o))))
	case "envelope-bad-checksum":
		return env([]byte("some other bytes"), int64(len(c33Payload(o))))
	case "envelope-too-big":
		return env(c33Payload(o), 1<<40)
	case "schema-invalid":
		return []byte(`{"bad":true,"n":` + strconv.FormatInt(o, 10) + `}`)
	case "null":
		return nil
	case "empty":
		return []byte{}
	case "json-not-envelope":
		return []byte(`{"kfs":"lfs","note":"no marker here at all"}`)
	default:
		return []byte("v-" + strconv.FormatInt(o, 10))
	}
}

type c34ProcDecoder struct {
	w       *c33World
	classes map[[2]int64]string
}

func (d *c34ProcDecoder) Decode(ctx context.Context, segmentKey, indexKey, topic string, partition int32) ([]decoder.Record, error) {
	s, _, _, _, err := d.w.OnDecode(segmentKey)
	if err != nil {
		return nil, err
	}
	out := make([]decoder.Record, 0, s.N)
	for o := s.Base; o < s.Base+int64(s.N); o++ {
		out = append(out, decoder.Record{Topic: topic, Partition: partition, Offset: o, Timestamp: 1726000000000 + o, Key: []byte("k"),
			Value: c34Value(d.classes[[2]int64{int64(partition), o}], partition, o)})
	}
	return out, nil
}

type c34Validator struct{ mode schema.Mode }

func (v c34Validator) Mode() schema.Mode { return v.mode }
func (v c34Validator) Validate(ctx context.Context, topic string, payload []byte) error {
	if bytes.Contains(payload, []byte(`"bad"`)) {
		return errors.New("schema: unexpected property bad")
	}
	return nil
}

func TestVF_C34_Processor(t *testing.T) {
	log.SetOutput(io.Discard)
	c33RenewEvery(t)
	st := vfkit.NewStats("C34", "iceberg-proc")
	defer st.Flush()
	rapid.Check(t, func(rt *rapid.T) {
		st.Eval()
		p := c33NewPlan("iceberg", "real")
		p.Cycles, p.Clean = 1, 1
		p.Start = rapid.SampledFrom([]int64{0, 0, 5}).Draw(rt, "start")
		ns := rapid.IntRange(1, 4).Draw(rt, "segments")
		classes := map[[2]int64]string{}
		off := p.Start
		var shape []string
		allDropped := false
		mode := rapid.SampledFrom([]string{lfsModeOff, lfsModeReference, lfsModeSkip, lfsModeResolve, lfsModeHybrid}).Draw(rt, "lfs-mode")
		vmode := rapid.SampledFrom([]schema.Mode{schema.ModeOff, schema.ModeLenient, schema.ModeLenient, schema.ModeStrict}).Draw(rt, "validator")
		for i := 0; i < ns; i++ {
			n := rapid.IntRange(1, 3).Draw(rt, "records")
			dropping := rapid.IntRange(0, 2).Draw(rt, "every-record-hostile") == 0
			var cs []string
			for j := 0; j < n; j++ {
				var c string
				if dropping {
					c = rapid.SampledFrom(c34DroppingClasses).Draw(rt, "dropping-class")
				} else {
					c = rapid.SampledFrom(c34ValueClasses).Draw(rt, "value-class")
				}
				classes[[2]int64{int64(c33PartA), off + int64(j)}] = c
				cs = append(cs, c)
				st.Class("value:" + c)
			}
			if dropping {
				allDropped = true
			}
			shape = append(shape, strings.Join(cs, "+"))
			p.Segs = append(p.Segs, c33Seg{Part: c33PartA, Base: off, N: n, Key: c33SegKey(c33PartA, off)})
			off += int64(n)
		}
		p.NA = ns
		p.Visible = []int{ns}
		st.Class("lfs-mode:" + mode)
		st.Class("validator:" + string(vmode))
		w := c33NewWorld(&p)
		proc := &Processor{
			discover: &c33Lister{w: w},
			decode:   &c34ProcDecoder{w: w, classes: classes},
			store:    &c33Store{w: w},
			sink:     &c33Sink{w: w},
			lfsS3:    &c33LfsReader{w: w},
		}
		if vmode != schema.ModeOff {
			proc.validator = c34Validator{mode: vmode}
		}
		if mode != "none" {
			proc.mappingByTopic = map[string]config.Mapping{c33Topic: {Topic: c33Topic, Table: "t", Lfs: config.LfsConfig{Mode: mode, ResolveConcurrency: 2, MaxInlineSize: 4096}}}
		}
		err := c33RunBubble(t, &p, w, proc.Run)
		if err != nil && strings.HasPrefix(err.Error(), "panic in Processor.Run") {
			rt.Fatalf("%v\nlfs.mode=%s validator=%s segments=%v\ntrace: %s", err, mode, vmode, shape, strings.Join(w.trace, " "))
		}
		if err != nil {
			st.Class("run-returned-error")
		}
		if allDropped {
			st.Class("segment-with-every-record-hostile")
			if st.NonTrivial(mode, string(vmode), p.Start, fmt.Sprint(shape)) {
				st.Sample(map[string]any{"lfs_mode": mode, "validator": string(vmode), "segments": shape, "run_error": fmt.Sprint(err), "trace": strings.Join(w.trace, " ")})
			}
		}
	})
}
