//go:build verif

package processor

// C30 (iceberg-processor leg): the processor resolves LFS envelopes per topic mapping
// (lfs.mode / validate_checksum / max_inline_size). ONE Processor instance handles several
// mappings in a drawn order; a blob is handed to the sink (record value replaced by the
// payload) only if - for a mapping with checksum validation on - its digest matches what
// the envelope declares, and only within that mapping's max_inline_size.
// Independent oracle (stdlib hashes); the storage returns exact / tampered / truncated /
// extended / replaced content or an error per object.

import (
	"bytes"
	"context"
	"crypto/md5"
	"crypto/sha256"
	"encoding/hex"
	"errors"
	"fmt"
	"hash/crc32"
	"io"
	"strings"
	"testing"

	"github.com/KafScale/platform/addons/processors/iceberg-processor/internal/config"
	"github.com/KafScale/platform/addons/processors/iceberg-processor/internal/sink"
	"github.com/KafScale/platform/pkg/lfs"
	"pgregory.net/rapid"
	"verif.local/vfkit"
)

type c30iStore struct {
	objs map[string][]byte
	errs map[string]error
}

func (s *c30iStore) Fetch(ctx context.Context, key string) ([]byte, error) {
	if err := s.errs[key]; err != nil {
		return nil, err
	}
	b, ok := s.objs[key]
	if !ok {
		return nil, fmt.Errorf("c30i: NoSuchKey %s", key)
	}
	return append([]byte(nil), b...), nil
}

func (s *c30iStore) Stream(ctx context.Context, key string) (io.ReadCloser, int64, error) {
	b, err := s.Fetch(ctx, key)
	if err != nil {
		return nil, 0, err
	}
	return io.NopCloser(bytes.NewReader(b)), int64(len(b)), nil
}

func c30iDigest(alg string, b []byte) string {
	switch alg {
	case "md5":
		s := md5.Sum(b)
		return hex.EncodeToString(s[:])
	case "crc32":
		return fmt.Sprintf("%08x", crc32.ChecksumIEEE(b))
	default:
		s := sha256.Sum256(b)
		return hex.EncodeToString(s[:])
	}
}

const c30iKnownNone = "C30-alg-none-skips-declared-sha256"

var c30iExcluded int // cases steered around the listed finding (flushed into the stats by the legs)

// c30iAllowed: may payload p be handed out for env under this mapping?
func c30iAllowed(env lfs.Envelope, p []byte, validate bool, maxSize int64) (bool, string) {
	if maxSize > 0 && int64(len(p)) > maxSize {
		return false, fmt.Sprintf("payload of %d bytes exceeds the mapping's max_inline_size %d", len(p), maxSize)
	}
	if !validate {
		return true, ""
	}
	alg := strings.ToLower(strings.TrimSpace(env.ChecksumAlg))
	switch alg {
	case "":
		alg = "sha256"
	case "sha256", "md5", "crc32":
	case "none":
		// the mandatory sha256 field is still a checksum the envelope declares
		if got := c30iDigest("sha256", p); env.SHA256 != "" && !strings.EqualFold(got, env.SHA256) {
			if vfkit.Known(c30iKnownNone) {
				c30iExcluded++
				return true, ""
			}
			return false, fmt.Sprintf("checksum_alg is none but the envelope declares sha256 %s and the payload hashes to %s (validate_checksum is on for this mapping)", env.SHA256, got)
		}
		return true, ""
	default:
		return false, "unsupported checksum algorithm " + env.ChecksumAlg
	}
	declared := env.Checksum
	if declared == "" {
		alg, declared = "sha256", env.SHA256
	}
	if got := c30iDigest(alg, p); !strings.EqualFold(got, declared) {
		return false, fmt.Sprintf("%s digest of the payload is %s but the envelope declares %s (validate_checksum is on for this mapping)", alg, got, declared)
	}
	return true, ""
}

type c30iMapping struct {
	Topic    string `json:"topic"`
	Mode     string `json:"mode"`
	Validate string `json:"validate_checksum"` // unset | true | false
	MaxSize  int64  `json:"max_inline_size"`
	Meta     bool   `json:"store_metadata"`
	Workers  int    `json:"resolve_concurrency"`
}

func (m c30iMapping) cfg() config.LfsConfig {
	c := config.LfsConfig{Mode: m.Mode, MaxInlineSize: m.MaxSize, StoreMetadata: m.Meta, ResolveConcurrency: m.Workers}
	switch m.Validate {
	case "true":
		v := true
		c.ValidateChecksum = &v
	case "false":
		v := false
		c.ValidateChecksum = &v
	}
	return c
}

type c30iRecord struct {
	Kind    string `json:"kind"` // plain | envelope
	Alg     string `json:"alg,omitempty"`
	Storage string `json:"storage,omitempty"`
	BlobLen int    `json:"blob_len,omitempty"`
	blob    []byte
	env     lfs.Envelope
	raw     []byte
	stored  []byte
}

type c30iBatch struct {
	Mapping int          `json:"mapping"`
	Records []c30iRecord `json:"records"`
}

var c30iErrInject = errors.New("c30i: injected storage error")

// c30iRun replays the batches on ONE Processor; returns a violation text and whether a
// strict mapping saw a bad object after a more lenient mapping had been resolved.
func c30iRun(st *vfkit.Stats, mappings []c30iMapping, batches []c30iBatch) (string, bool) {
	store := &c30iStore{objs: map[string][]byte{}, errs: map[string]error{}}
	p := &Processor{lfsS3: store}
	ctx := context.Background()
	seq := 0
	lenientSeen := false
	interesting := false
	for bi := range batches {
		b := &batches[bi]
		m := mappings[b.Mapping]
		cfg := m.cfg()
		validate := cfg.ChecksumEnabled()
		var in []sink.Record
		for ri := range b.Records {
			r := &b.Records[ri]
			seq++
			rec := sink.Record{Topic: m.Topic, Partition: 0, Offset: int64(seq), Key: []byte(fmt.Sprintf("k%d", seq))}
			if r.Kind == "plain" {
				rec.Value = append([]byte(nil), r.blob...)
				r.raw = rec.Value
			} else {
				key := fmt.Sprintf("ns/%s/lfs/2026/01/02/obj-%d", m.Topic, seq)
				alg := strings.ToLower(strings.TrimSpace(r.Alg))
				ck := ""
				switch alg {
				case "", "sha256":
					ck = c30iDigest("sha256", r.blob)
					if r.Alg == "" {
						ck = "" // old-style envelope: sha256 field only
					}
				case "md5", "crc32":
					ck = c30iDigest(alg, r.blob)
				}
				r.env = lfs.Envelope{Version: 1, Bucket: "bkt", Key: key, Size: int64(len(r.blob)), SHA256: c30iDigest("sha256", r.blob), Checksum: ck, ChecksumAlg: r.Alg}
				raw, err := lfs.EncodeEnvelope(r.env)
				if err != nil {
					return "harness: EncodeEnvelope: " + err.Error(), false
				}
				r.raw = raw
				rec.Value = raw
				switch r.Storage {
				case "exact":
					r.stored = append([]byte(nil), r.blob...)
				case "bitflip":
					r.stored = append([]byte(nil), r.blob...)
					if len(r.stored) == 0 {
						r.stored = []byte{1}
					} else {
						r.stored[len(r.stored)/2] ^= 0x20
					}
				case "truncated":
					r.stored = append([]byte(nil), r.blob[:len(r.blob)/2]...)
				case "extended":
					r.stored = append(append([]byte(nil), r.blob...), bytes.Repeat([]byte{'x'}, 40)...)
				case "other":
					r.stored = []byte("somebody else's object, much longer than small inline limits ..........")
				case "error":
					store.errs[key] = c30iErrInject
				}
				if r.Storage != "error" {
					store.objs[key] = r.stored
				}
				bad := r.Storage != "exact"
				if bad && lenientSeen && (validate || m.MaxSize > 0) && (m.Mode == lfsModeResolve || m.Mode == lfsModeHybrid) {
					interesting = true
				}
			}
			in = append(in, rec)
		}
		out, err := p.resolveLfsRecords(ctx, in, cfg, m.Topic)
		if !validate || m.MaxSize == 0 {
			if m.Mode == lfsModeResolve || m.Mode == lfsModeHybrid {
				lenientSeen = true
			}
		}
		where := fmt.Sprintf("batch %d/%d (mapping %+v)", bi+1, len(batches), m)
		if err != nil {
			st.Class("batch:error(retry later)")
			continue
		}
		st.Class("batch:ok")
		byOffset := map[int64]sink.Record{}
		for _, o := range out {
			if _, dup := byOffset[o.Offset]; dup {
				return fmt.Sprintf("%s: offset %d emitted twice", where, o.Offset), interesting
			}
			byOffset[o.Offset] = o
		}
		for ri, r := range b.Records {
			o, ok := byOffset[in[ri].Offset]
			if !ok {
				continue // dropped (skip mode, rejected blob): nothing handed out
			}
			if r.Kind == "plain" {
				if !bytes.Equal(o.Value, r.raw) {
					return fmt.Sprintf("%s: a non-envelope value was changed: %q -> %q", where, r.raw, o.Value), interesting
				}
				continue
			}
			if bytes.Equal(o.Value, r.raw) {
				st.Class("envelope-kept-as-reference")
				continue
			}
			// the record value was replaced: that is a blob handed to the sink
			if m.Mode != lfsModeResolve && m.Mode != lfsModeHybrid {
				return fmt.Sprintf("%s: envelope value replaced although lfs.mode=%s", where, m.Mode), interesting
			}
			if r.Storage == "error" {
				return fmt.Sprintf("%s: a payload was emitted although the blob download failed", where), interesting
			}
			if !bytes.Equal(o.Value, r.stored) {
				return fmt.Sprintf("%s: emitted %d bytes that are not what storage holds (%d bytes)", where, len(o.Value), len(r.stored)), interesting
			}
			if ok, why := c30iAllowed(r.env, o.Value, validate, m.MaxSize); !ok {
				return fmt.Sprintf("%s: record %d (object %s in storage, alg %q) reached the sink although %s; batches so far: %+v; mappings %+v",
					where, ri, r.Storage, r.Alg, why, batches[:bi+1], mappings), interesting
			}
			st.Class("blob-handed-to-sink")
		}
	}
	return "", interesting
}

func c30iGenBlob(t *rapid.T, label string) []byte {
	n := rapid.OneOf(rapid.IntRange(1, 12), rapid.IntRange(1, 80), rapid.IntRange(100, 3000)).Draw(t, label+"Len")
	return rapid.SliceOfN(rapid.Byte(), n, n).Draw(t, label)
}

func TestVF_C30_Iceberg(t *testing.T) {
	st := vfkit.NewStats("C30", "iceberg")
	defer st.Flush()
	rapid.Check(t, func(t *rapid.T) {
		st.Eval()
		nm := rapid.IntRange(1, 3).Draw(t, "nMappings")
		mappings := make([]c30iMapping, nm)
		for i := range mappings {
			mappings[i] = c30iMapping{
				Topic:    fmt.Sprintf("topic-%d", i),
				Mode:     rapid.SampledFrom([]string{lfsModeResolve, lfsModeResolve, lfsModeResolve, lfsModeHybrid, lfsModeReference, lfsModeSkip, lfsModeOff}).Draw(t, "mode"),
				Validate: rapid.SampledFrom([]string{"unset", "true", "false", "false"}).Draw(t, "validate"),
				MaxSize:  rapid.SampledFrom([]int64{0, 0, 16, 64, 4096}).Draw(t, "maxInline"),
				Meta:     rapid.Bool().Draw(t, "storeMetadata"),
				Workers:  rapid.SampledFrom([]int{0, 1, 4}).Draw(t, "workers"),
			}
			st.Class("mode:" + mappings[i].Mode)
		}
		nb := rapid.IntRange(1, 5).Draw(t, "nBatches")
		batches := make([]c30iBatch, nb)
		for i := range batches {
			batches[i].Mapping = rapid.IntRange(0, nm-1).Draw(t, "mapping")
			nr := rapid.IntRange(1, 4).Draw(t, "nRecords")
			for j := 0; j < nr; j++ {
				r := c30iRecord{Kind: "envelope"}
				if rapid.IntRange(0, 4).Draw(t, "plain") == 0 {
					r.Kind = "plain"
					r.blob = c30iGenBlob(t, "value")
				} else {
					r.blob = c30iGenBlob(t, "blob")
					r.Alg = rapid.SampledFrom([]string{"", "sha256", "sha256", "md5", "crc32", "none", "SHA256"}).Draw(t, "alg")
					r.Storage = rapid.SampledFrom([]string{"exact", "exact", "exact", "bitflip", "truncated", "extended", "other", "error"}).Draw(t, "storage")
				}
				r.BlobLen = len(r.blob)
				batches[i].Records = append(batches[i].Records, r)
			}
		}
		viol, interesting := c30iRun(st, mappings, batches)
		for ; c30iExcluded > 0; c30iExcluded-- {
			st.ExcludedCase(c30iKnownNone)
		}
		if viol != "" {
			t.Fatalf("%s", viol)
		}
		if interesting {
			st.Class("strict mapping sees a bad object after a lenient mapping was resolved")
			st.NonTrivial(fmt.Sprintf("%+v", mappings), fmt.Sprintf("%+v", batches))
			st.Sample(map[string]any{"mappings": mappings, "batches": batches})
		}
	})
}

// TestVF_C30_IcebergEnum: every ordered pair of mappings from a small settings grid, the
// first resolving an honest blob, the second seeing each storage outcome.
func TestVF_C30_IcebergEnum(t *testing.T) {
	st := vfkit.NewStats("C30", "iceberg-enum")
	defer st.Flush()
	var grid []c30iMapping
	for _, mode := range []string{lfsModeResolve, lfsModeHybrid} {
		for _, v := range []string{"unset", "true", "false"} {
			for _, mx := range []int64{0, 16, 4096} {
				grid = append(grid, c30iMapping{Mode: mode, Validate: v, MaxSize: mx, Workers: 1})
			}
		}
	}
	blob := []byte("honest-blob-0001")
	for _, first := range grid {
		for _, second := range grid {
			for _, stg := range []string{"exact", "bitflip", "truncated", "extended", "other", "error"} {
				for _, alg := range []string{"", "md5", "none"} {
					st.Eval()
					a, b := first, second
					a.Topic, b.Topic = "first", "second"
					batches := []c30iBatch{
						{Mapping: 0, Records: []c30iRecord{{Kind: "envelope", Alg: alg, Storage: "exact", blob: blob, BlobLen: len(blob)}}},
						{Mapping: 1, Records: []c30iRecord{{Kind: "envelope", Alg: alg, Storage: stg, blob: blob, BlobLen: len(blob)}}},
					}
					viol, interesting := c30iRun(st, []c30iMapping{a, b}, batches)
					for ; c30iExcluded > 0; c30iExcluded-- {
						st.ExcludedCase(c30iKnownNone)
					}
					if viol != "" {
						t.Fatalf("%s", viol)
					}
					if interesting {
						st.NonTrivial(first.Mode, first.Validate, first.MaxSize, second.Mode, second.Validate, second.MaxSize, stg, alg)
						st.Sample(map[string]any{"first": a, "second": b, "storage": stg, "alg": alg})
					}
				}
			}
		}
	}
	st.Note("enumerated", "ordered pairs of mappings over mode {resolve,hybrid} x validate_checksum {unset,true,false} x max_inline_size {0,16,4096}, second mapping sees each storage outcome, alg {sha256-only envelope, md5}; one Processor per pair")
}
