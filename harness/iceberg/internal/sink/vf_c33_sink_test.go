//go:build verif

package sink

// C33, iceberg module, "iceberg-sink" leg: the processor checkpoints a segment as soon as
// sink.Write returns nil, so "nil" must mean "the rows are in the table". This leg drives the
// REAL icebergWriter.Write (real iceberg-go table.Append writing parquet files to a local
// file-system warehouse) against a catalog whose snapshot commits follow a drawn fault plan:
// k consecutive commit conflicts (REST 409 -> rest.ErrCommitFailed, or the "created
// concurrently" message), other transient commit errors, commits that are applied but whose
// answer is lost, and table reloads that fail. Back-off sleeps run on the synctest fake clock.
// Oracle after every Write call that returns nil: the table's total row count grew by at
// least the number of records handed to that call (at-least-once; duplicates are allowed).
// A Write that returns an error is retried, like the processor does on the next cycle.

import (
	"context"
	"errors"
	"fmt"
	"io"
	"iter"
	"log"
	"os"
	"strconv"
	"strings"
	"sync"
	"testing"
	"testing/synctest"

	"github.com/KafScale/platform/addons/processors/iceberg-processor/internal/config"
	iceberg "github.com/apache/iceberg-go"
	"github.com/apache/iceberg-go/catalog"
	restcatalog "github.com/apache/iceberg-go/catalog/rest"
	iceio "github.com/apache/iceberg-go/io"
	"github.com/apache/iceberg-go/table"
	"pgregory.net/rapid"
	"verif.local/vfkit"
)

type c33Catalog struct {
	mu      sync.Mutex
	meta    table.Metadata
	commits []string // outcome of the next snapshot commits: "ok", "conflict", "conflict-msg", "error", "applied-then-error"
	loads   []string // outcome of the next LoadTable calls: "ok", "error"
	trace   []string
}

func (c *c33Catalog) CatalogType() catalog.Type { return catalog.REST }

func c33IsSnapshotCommit(updates []table.Update) bool {
	for _, u := range updates {
		if u.Action() == "add-snapshot" {
			return true
		}
	}
	return false
}

func (c *c33Catalog) apply(updates []table.Update) (table.Metadata, error) {
	builder, err := table.MetadataBuilderFromBase(c.meta, "")
	if err != nil {
		return nil, err
	}
	for _, u := range updates {
		if err := u.Apply(builder); err != nil {
			return nil, err
		}
	}
	meta, err := builder.Build()
	if err != nil {
		return nil, err
	}
	c.meta = meta
	return meta, nil
}

func (c *c33Catalog) CommitTable(ctx context.Context, identifier table.Identifier, requirements []table.Requirement, updates []table.Update) (table.Metadata, string, error) {
	c.mu.Lock()
	defer c.mu.Unlock()
	outcome := "ok"
	if c33IsSnapshotCommit(updates) && len(c.commits) > 0 {
		outcome, c.commits = c.commits[0], c.commits[1:]
	}
	if c33IsSnapshotCommit(updates) {
		c.trace = append(c.trace, "commit:"+outcome)
	}
	switch outcome {
	case "conflict":
		return nil, "", fmt.Errorf("%w: requirement failed: branch main has changed", restcatalog.ErrCommitFailed)
	case "conflict-msg":
		return nil, "", errors.New("commit rejected: branch main was created concurrently")
	case "error":
		return nil, "", errors.New("injected: 503 service unavailable")
	}
	// like a REST catalog: a commit built on stale metadata fails its requirements -> 409
	for _, r := range requirements {
		if err := r.Validate(c.meta); err != nil {
			c.trace = append(c.trace, "commit:requirement-conflict")
			return nil, "", fmt.Errorf("%w: %v", restcatalog.ErrCommitFailed, err)
		}
	}
	meta, err := c.apply(updates)
	if err != nil {
		return nil, "", err
	}
	if outcome == "applied-then-error" {
		return nil, "", errors.New("injected: connection reset while reading the commit response")
	}
	return meta, "", nil
}

func (c *c33Catalog) LoadTable(ctx context.Context, identifier table.Identifier) (*table.Table, error) {
	c.mu.Lock()
	defer c.mu.Unlock()
	outcome := "ok"
	if len(c.loads) > 0 {
		outcome, c.loads = c.loads[0], c.loads[1:]
	}
	if outcome != "ok" {
		c.trace = append(c.trace, "load:"+outcome)
		return nil, errors.New("injected: catalog unavailable")
	}
	return table.New(identifier, c.meta, "", func(context.Context) (iceio.IO, error) { return iceio.LocalFS{}, nil }, c), nil
}

func (c *c33Catalog) rows() int {
	c.mu.Lock()
	defer c.mu.Unlock()
	snap := c.meta.CurrentSnapshot()
	if snap == nil || snap.Summary == nil {
		return 0
	}
	n, _ := strconv.Atoi(snap.Summary.Properties["total-records"])
	return n
}

func (c *c33Catalog) CreateTable(ctx context.Context, identifier table.Identifier, schema *iceberg.Schema, opts ...catalog.CreateTableOpt) (*table.Table, error) {
	return nil, errors.New("not implemented")
}
func (c *c33Catalog) ListTables(ctx context.Context, namespace table.Identifier) iter.Seq2[table.Identifier, error] {
	return func(func(table.Identifier, error) bool) {}
}
func (c *c33Catalog) DropTable(ctx context.Context, identifier table.Identifier) error {
	return errors.New("not implemented")
}
func (c *c33Catalog) RenameTable(ctx context.Context, from, to table.Identifier) (*table.Table, error) {
	return nil, errors.New("not implemented")
}
func (c *c33Catalog) CheckTableExists(ctx context.Context, identifier table.Identifier) (bool, error) {
	return true, nil
}
func (c *c33Catalog) ListNamespaces(ctx context.Context, parent table.Identifier) ([]table.Identifier, error) {
	return nil, errors.New("not implemented")
}
func (c *c33Catalog) CreateNamespace(ctx context.Context, namespace table.Identifier, props iceberg.Properties) error {
	return errors.New("not implemented")
}
func (c *c33Catalog) DropNamespace(ctx context.Context, namespace table.Identifier) error {
	return errors.New("not implemented")
}
func (c *c33Catalog) CheckNamespaceExists(ctx context.Context, namespace table.Identifier) (bool, error) {
	return true, nil
}
func (c *c33Catalog) LoadNamespaceProperties(ctx context.Context, namespace table.Identifier) (iceberg.Properties, error) {
	return nil, errors.New("not implemented")
}
func (c *c33Catalog) UpdateNamespaceProperties(ctx context.Context, namespace table.Identifier, removals []string, updates iceberg.Properties) (catalog.PropertiesUpdateSummary, error) {
	return catalog.PropertiesUpdateSummary{}, errors.New("not implemented")
}

type c33SinkCall struct {
	N       int
	Commits []string
	Loads   []string
}

func c33GenSinkCalls(t *rapid.T) []c33SinkCall {
	n := rapid.IntRange(1, 3).Draw(t, "writes")
	calls := make([]c33SinkCall, n)
	for i := range calls {
		c := &calls[i]
		c.N = rapid.IntRange(1, 5).Draw(t, "records")
		// the attempt budget of one Write is 3: 0..5 consecutive conflicts cover below, at and above it
		k := rapid.SampledFrom([]int{0, 0, 1, 2, 3, 3, 3, 4, 5, 6}).Draw(t, "consecutive-conflicts")
		for j := 0; j < k; j++ {
			c.Commits = append(c.Commits, rapid.SampledFrom([]string{"conflict", "conflict", "conflict-msg"}).Draw(t, "conflict-kind"))
		}
		extra := rapid.IntRange(0, 2).Draw(t, "other-commit-outcomes")
		for j := 0; j < extra; j++ {
			o := rapid.SampledFrom([]string{"ok", "error", "applied-then-error", "conflict"}).Draw(t, "commit-outcome")
			pos := rapid.IntRange(0, len(c.Commits)).Draw(t, "at")
			c.Commits = append(c.Commits[:pos:pos], append([]string{o}, c.Commits[pos:]...)...)
		}
		nl := rapid.SampledFrom([]int{0, 0, 0, 1, 2, 6}).Draw(t, "load-plan")
		for j := 0; j < nl; j++ {
			c.Loads = append(c.Loads, rapid.SampledFrom([]string{"ok", "ok", "error"}).Draw(t, "load-outcome"))
		}
	}
	return calls
}

func TestVF_C33_Sink(t *testing.T) {
	log.SetOutput(io.Discard)
	st := vfkit.NewStats("C33", "iceberg-sink")
	defer st.Flush()
	ident := table.Identifier{"demo", "orders"}
	rapid.Check(t, func(rt *rapid.T) {
		st.Eval()
		calls := c33GenSinkCalls(rt)
		dir, err := os.MkdirTemp("", "vf-c33-sink-")
		if err != nil {
			fmt.Println("VF-INCONCLUSIVE: cannot create a scratch warehouse:", err)
			rt.Fatalf("harness: %v", err)
		}
		defer os.RemoveAll(dir)
		location := "file://" + dir + "/demo/orders"
		var failure string
		var shape []string
		threeConflicts := false
		synctest.Test(t, func(t *testing.T) {
			ctx := context.Background()
			// the table is created inside the bubble: iceberg metadata carries wall-clock
			// timestamps that must not be ahead of the fake clock
			meta, err := table.NewMetadata(defaultSchema(), iceberg.UnpartitionedSpec, table.UnsortedSortOrder, location, iceberg.Properties{
				table.WriteDataPathKey:     location + "/data",
				table.WriteMetadataPathKey: location + "/metadata",
			})
			if err != nil {
					failure = fmt.Sprintf("harness: cannot build table metadata: %v", err)
					return
				}
			cat := &c33Catalog{meta: meta}
			writer := &icebergWriter{
				catalog:   cat,
				warehouse: "file://" + dir,
				mappings:  map[string]tableMapping{"orders": {identifier: ident, mode: "append", schema: config.MappingSchemaConfig{Source: "none"}}},
				schemas:   make(map[string]*topicSchema),
				tables:    make(map[string]*table.Table),
			}

			// fixture sanity: an uncontended write must land
			if err := writer.Write(ctx, []Record{{Topic: "orders", Partition: 0, Offset: 0, Timestamp: 1, Value: []byte(`{"n":0}`)}}); err != nil || cat.rows() != 1 {
				failure = fmt.Sprintf("harness: uncontended fixture write: err=%v rows=%d", err, cat.rows())
				return
			}
			next := int64(1)
			for ci, call := range calls {
				recs := make([]Record, call.N)
				for i := range recs {
					recs[i] = Record{Topic: "orders", Partition: 0, Offset: next + int64(i), Timestamp: 1, Value: []byte(fmt.Sprintf(`{"n":%d}`, next+int64(i)))}
				}
				next += int64(call.N)
				cat.mu.Lock()
				cat.commits = append([]string(nil), call.Commits...)
				cat.loads = append([]string(nil), call.Loads...)
				cat.trace = nil
				cat.mu.Unlock()
				accepted := false
				for try := 0; try < 6 && !accepted; try++ {
					before := cat.rows()
					cat.mu.Lock()
					mark := len(cat.trace)
					cat.mu.Unlock()
					err := writer.Write(ctx, recs)
					after := cat.rows()
					cat.mu.Lock()
					tr := append([]string(nil), cat.trace[mark:]...)
					cat.mu.Unlock()
					nconf := 0
					for _, e := range tr {
						if strings.HasPrefix(e, "commit:conflict") {
							nconf++
						}
					}
					if nconf >= 3 {
						threeConflicts = true
					}
					shape = append(shape, fmt.Sprintf("w%d.%d[%s]=%v", ci, try, strings.Join(tr, ","), err == nil))
					if err == nil {
						accepted = true
						if after < before+len(recs) {
							failure = fmt.Sprintf("Write #%d (attempt %d) of %d records returned nil but the table grew from %d to %d rows; catalog calls during that Write: %v", ci, try, len(recs), before, after, tr)
							return
						}
					}
				}
				if !accepted {
					// six processor cycles in a row without success is possible only while faults remain scripted
					cat.mu.Lock()
					left := len(cat.commits) + len(cat.loads)
					cat.mu.Unlock()
					if left == 0 {
						failure = fmt.Sprintf("Write #%d kept failing although no fault is scripted any more (%v)", ci, shape)
						return
					}
				}
			}
		})
		if strings.HasPrefix(failure, "harness:") {
			fmt.Println("VF-INCONCLUSIVE: " + failure)
		}
		if failure != "" {
			rt.Fatalf("%s\nplan: %+v", failure, calls)
		}
		if threeConflicts {
			st.Class("write-with->=3-commit-conflicts")
		}
		faults := 0
		for _, c := range calls {
			faults += len(c.Commits) + len(c.Loads)
			for _, o := range c.Commits {
				st.Class("commit:" + o)
			}
		}
		if faults == 0 {
			st.Class("no-faults")
		} else if st.NonTrivial(strings.Join(shape, " ")) {
			st.Sample(map[string]any{"writes": shape})
		}
	})
}
