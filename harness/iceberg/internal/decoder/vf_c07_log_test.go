//go:build verif

package decoder

// C07, "segments the broker writes" through the real write path (identical copies in the
// iceberg and sql decoder packages, where vf_c07_shim_test.go aliases the storage names).
// A real PartitionLog (no size/time triggered flushes) receives the generated client batches;
// explicit Flush calls upload through an S3 client whose segment / index uploads fail
// before or after taking effect according to a drawn plan, and further batches are appended
// from inside the in-flight segment upload (the PartitionLog does not hold its lock there -
// that is how a concurrent producer looks to it). After a final fault-free Flush the stored
// objects are what the decoders will be given.

import (
	"context"
	"encoding/binary"
	"errors"
	"fmt"
	"sort"
	"strings"
	"sync"

	"pgregory.net/rapid"
	"verif.local/vfkit"
)

type c07S3 struct {
	mu       sync.Mutex
	objs     map[string][]byte
	segPlan  []string // outcome of the next segment uploads: "", "before", "after"
	idxPlan  []string
	inUpload func() // runs inside UploadSegment, before its outcome
	trace    []string
}

func (s *c07S3) put(kind string, plan *[]string, key string, body []byte) error {
	s.mu.Lock()
	outcome := ""
	if len(*plan) > 0 {
		outcome, *plan = (*plan)[0], (*plan)[1:]
	}
	if outcome != "before" {
		s.objs[key] = append([]byte(nil), body...)
	}
	s.trace = append(s.trace, kind+":"+outcome)
	s.mu.Unlock()
	if outcome != "" {
		return errors.New("injected upload failure (" + outcome + " effect)")
	}
	return nil
}

func (s *c07S3) UploadSegment(ctx context.Context, key string, body []byte) error {
	s.mu.Lock()
	hook := s.inUpload
	s.inUpload = nil
	s.mu.Unlock()
	if hook != nil {
		hook()
	}
	return s.put("seg", &s.segPlan, key, body)
}
func (s *c07S3) UploadIndex(ctx context.Context, key string, body []byte) error {
	return s.put("idx", &s.idxPlan, key, body)
}
func (s *c07S3) DeleteSegment(ctx context.Context, key string) error {
	s.mu.Lock()
	delete(s.objs, key)
	s.mu.Unlock()
	return nil
}
func (s *c07S3) DeleteIndex(ctx context.Context, key string) error { return s.DeleteSegment(ctx, key) }
func (s *c07S3) DownloadSegment(ctx context.Context, key string, rng *ByteRange) ([]byte, error) {
	s.mu.Lock()
	defer s.mu.Unlock()
	b, ok := s.objs[key]
	if !ok {
		return nil, ErrNotFound
	}
	if rng != nil {
		end := rng.End + 1
		if end > int64(len(b)) {
			end = int64(len(b))
		}
		if rng.Start < 0 || rng.Start > end {
			return nil, fmt.Errorf("bad range")
		}
		b = b[rng.Start:end]
	}
	return append([]byte(nil), b...), nil
}
func (s *c07S3) DownloadIndex(ctx context.Context, key string) ([]byte, error) {
	return s.DownloadSegment(ctx, key, nil)
}
func (s *c07S3) ListSegments(ctx context.Context, prefix string) ([]S3Object, error) {
	s.mu.Lock()
	defer s.mu.Unlock()
	var out []S3Object
	for k, v := range s.objs {
		if strings.HasPrefix(k, prefix) {
			out = append(out, S3Object{Key: k, Size: int64(len(v))})
		}
	}
	sort.Slice(out, func(i, j int) bool { return out[i].Key < out[j].Key })
	return out, nil
}
func (s *c07S3) EnsureBucket(ctx context.Context) error { return nil }

type c07Stored struct {
	Base int64
	Seg  []byte
	Idx  []byte
}

type c07LogRun struct {
	Stored   []c07Stored // complete segment/index pairs in base-offset order
	Trace    []string
	Injected int
	Failed   int // flushes that returned an error
}

// c07RunLog drives the real PartitionLog with the batches of c. "" = harness ok.
func c07RunLog(t *rapid.T, c c07Case, interval int32) (c07LogRun, string) {
	var run c07LogRun
	s3 := &c07S3{objs: map[string][]byte{}}
	pl := NewPartitionLog("ns", "orders", 2, c.Bases[0], s3, nil, PartitionLogConfig{Segment: SegmentWriterConfig{IndexIntervalMessages: interval}}, nil, nil, nil)
	ctx := context.Background()
	appendOne := func(i int) string {
		rb, err := NewRecordBatchFromBytes(c.Client[i])
		if err != nil {
			return fmt.Sprintf("harness: NewRecordBatchFromBytes: %v", err)
		}
		res, err := pl.AppendBatch(ctx, rb)
		if err != nil {
			return fmt.Sprintf("AppendBatch(batch %d) failed: %v", i, err)
		}
		if res.BaseOffset != c.Bases[i] || res.LastOffset != c.Bases[i]+int64(c.Counts[i])-1 {
			return fmt.Sprintf("AppendBatch(batch %d) assigned offsets %d..%d, expected %d..%d", i, res.BaseOffset, res.LastOffset, c.Bases[i], c.Bases[i]+int64(c.Counts[i])-1)
		}
		return ""
	}
	fk := rapid.SampledFrom([]string{"", "", "before", "after"})
	i := 0
	for i < len(c.Client) {
		if msg := appendOne(i); msg != "" {
			return run, msg
		}
		run.Trace = append(run.Trace, fmt.Sprintf("append(%d)", i))
		i++
		if !rapid.Bool().Draw(t, "flush") {
			continue
		}
		inject := 0
		if i < len(c.Client) {
			inject = rapid.IntRange(0, min(2, len(c.Client)-i)).Draw(t, "appends-during-upload")
		}
		s3.mu.Lock()
		s3.segPlan = []string{fk.Draw(t, "segment-upload")}
		s3.idxPlan = []string{fk.Draw(t, "index-upload")}
		from, hookMsg := i, ""
		if inject > 0 {
			s3.inUpload = func() {
				for k := from; k < from+inject; k++ {
					if msg := appendOne(k); msg != "" && hookMsg == "" {
						hookMsg = msg
					}
				}
			}
		}
		s3.mu.Unlock()
		err := pl.Flush(ctx)
		if hookMsg != "" {
			return run, hookMsg
		}
		if inject > 0 {
			run.Injected += inject
			run.Trace = append(run.Trace, fmt.Sprintf("during-upload-append(%d..%d)", from, from+inject-1))
			i += inject
		}
		if err != nil {
			run.Failed++
		}
		run.Trace = append(run.Trace, fmt.Sprintf("flush=%v", err == nil))
	}
	s3.mu.Lock()
	s3.segPlan, s3.idxPlan, s3.inUpload = nil, nil, nil
	s3.mu.Unlock()
	if err := pl.Flush(ctx); err != nil {
		return run, fmt.Sprintf("final fault-free Flush failed: %v", err)
	}
	run.Trace = append(run.Trace, "final-flush")
	s3.mu.Lock()
	defer s3.mu.Unlock()
	run.Trace = append(run.Trace, s3.trace...)
	for k, v := range s3.objs {
		if !strings.HasSuffix(k, ".kfs") {
			continue
		}
		var base int64
		name := k[strings.LastIndex(k, "/")+1:]
		if _, err := fmt.Sscanf(name, "segment-%d.kfs", &base); err != nil {
			return run, "harness: unexpected object key " + k
		}
		idx, ok := s3.objs[strings.TrimSuffix(k, ".kfs")+".index"]
		if !ok {
			return run, fmt.Sprintf("segment object %s has no index object after a successful final flush", k)
		}
		run.Stored = append(run.Stored, c07Stored{Base: base, Seg: v, Idx: idx})
	}
	sort.Slice(run.Stored, func(a, b int) bool { return run.Stored[a].Base < run.Stored[b].Base })
	return run, ""
}

// c07CheckStored checks one stored segment/index pair with the independent reader: frame,
// CRC, header base offset == object key base offset == first batch, message count, footer last
// offset, batches contiguous, index entries strictly increasing and on batch starts.
func c07CheckStored(st c07Stored) ([]vfkit.Batch, string) {
	info, err := vfkit.DecodeSegment(st.Seg)
	if err != nil {
		return nil, fmt.Sprintf("segment %d does not decode with the independent reader: %v", st.Base, err)
	}
	if len(info.Batches) == 0 {
		return nil, fmt.Sprintf("segment %d holds no batch", st.Base)
	}
	if info.BaseOffset != st.Base || info.Batches[0].BaseOffset != st.Base {
		return nil, fmt.Sprintf("segment stored under base offset %d has header base %d and first batch base %d", st.Base, info.BaseOffset, info.Batches[0].BaseOffset)
	}
	starts := map[int32]int64{}
	pos, next, total := int32(32), st.Base, int32(0)
	for i, b := range info.Batches {
		if b.BaseOffset != next {
			return nil, fmt.Sprintf("segment %d: batch %d has base offset %d, the previous batch ended at %d", st.Base, i, b.BaseOffset, next-1)
		}
		starts[pos] = b.BaseOffset
		pos += int32(len(b.Raw))
		next = b.BaseOffset + int64(b.NumRecords)
		total += b.NumRecords
	}
	if info.MessageCount != total || info.LastOffset != next-1 {
		return nil, fmt.Sprintf("segment %d: header count %d / footer last offset %d, batches hold %d records ending at %d", st.Base, info.MessageCount, info.LastOffset, total, next-1)
	}
	idx := st.Idx
	if len(idx) < 16 || string(idx[:4]) != "IDX\x00" || (len(idx)-16)%12 != 0 || int(int32(binary.BigEndian.Uint32(idx[6:]))) != (len(idx)-16)/12 || len(idx) == 16 {
		return nil, fmt.Sprintf("segment %d: malformed index (%d bytes)", st.Base, len(idx))
	}
	var po int64
	var pp int32
	for i := 0; i < (len(idx)-16)/12; i++ {
		off := int64(binary.BigEndian.Uint64(idx[16+12*i:]))
		p := int32(binary.BigEndian.Uint32(idx[16+12*i+8:]))
		if b, ok := starts[p]; !ok || b != off {
			return nil, fmt.Sprintf("segment %d: index entry %d (offset %d, position %d) is not a batch start with that base offset", st.Base, i, off, p)
		}
		if i > 0 && (off <= po || p <= pp) {
			return nil, fmt.Sprintf("segment %d: index entries not strictly increasing: (%d,%d) after (%d,%d)", st.Base, off, p, po, pp)
		}
		po, pp = off, p
	}
	return info.Batches, ""
}

// c07CheckLogRun: every stored segment is well formed and the stored batches, in base-offset
// order, are byte for byte the produced batches with their assigned offsets - none missing,
// none twice.
func c07CheckLogRun(c c07Case, run c07LogRun) string {
	k := 0
	for _, st := range run.Stored {
		bs, msg := c07CheckStored(st)
		if msg != "" {
			return msg
		}
		for _, b := range bs {
			if k >= len(c.Want) {
				return fmt.Sprintf("stored segments hold more batches than were produced (extra batch at base offset %d in segment %d)", b.BaseOffset, st.Base)
			}
			if b.BaseOffset != c.Bases[k] {
				return fmt.Sprintf("stored batch #%d has base offset %d, the producer's batch #%d was assigned %d", k, b.BaseOffset, k, c.Bases[k])
			}
			if string(b.Raw) != string(c.Want[k]) {
				return fmt.Sprintf("stored batch at base offset %d differs from the produced batch #%d", b.BaseOffset, k)
			}
			k++
		}
	}
	if k != len(c.Want) {
		return fmt.Sprintf("after the final successful flush the stored segments hold %d of the %d produced batches", k, len(c.Want))
	}
	return ""
}
