//go:build verif

package decoder

import (
	"bytes"
	"encoding/binary"
)

const c34Mod = "iceberg"

// c34ReadVarint reads a varint exactly as this module's decoder does (the walker is only
// the exclusion predicate / non-triviality classifier, never the oracle).
func c34ReadVarint(r *bytes.Reader) (int64, error) { return readVarint(r) }

// c34IndexSite mirrors this module's parseIndex up to its allocation: it reports whether
// the entry count it will allocate for is negative or exceeds the entries present.
func c34IndexSite(data []byte) (bool, int64) {
	if len(data) < 16 || string(data[:4]) != indexMagic {
		return false, 0
	}
	if binary.BigEndian.Uint16(data[4:6]) != 1 {
		return false, 0
	}
	count := int64(int32(binary.BigEndian.Uint32(data[6:10])))
	if count < 0 || count*12 > int64(len(data)-16) {
		return true, count
	}
	return false, count
}
