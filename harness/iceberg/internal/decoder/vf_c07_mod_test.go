//go:build verif

package decoder

const (
	c07Mod          = "iceberg"
	c07DeltaFinding = "" // no listed finding for this module
)
