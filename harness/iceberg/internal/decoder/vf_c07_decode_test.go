//go:build verif

package decoder

// C07, processor-decoder leg (the same file is used for the iceberg and the sql module;
// c07Mod names the module). Client batches from the independent vfkit encoder are
// serialized by the broker's own storage.BuildSegment (base offsets patched the way
// PartitionLog.AppendBatch does) and the segment bytes are handed to this module's
// decodeSegment. Oracle: the decoded records equal the produced records field by field
// (offset, timestamp, key, value, headers; null and empty distinguished), and the module's
// parseIndex returns the index entries the broker wrote.

import (
	"fmt"
	"testing"
	"time"

	"github.com/KafScale/platform/pkg/storage"
	"pgregory.net/rapid"
	"verif.local/vfkit"
)

func c07Build(c c07Case, interval int32) (*storage.SegmentArtifact, error) {
	rbs := make([]storage.RecordBatch, 0, len(c.Client))
	for i, enc := range c.Client {
		rb, err := storage.NewRecordBatchFromBytes(enc)
		if err != nil {
			return nil, fmt.Errorf("NewRecordBatchFromBytes(batch %d): %v", i, err)
		}
		storage.PatchRecordBatchBaseOffset(&rb, c.Bases[i])
		rbs = append(rbs, rb)
	}
	return storage.BuildSegment(storage.SegmentWriterConfig{IndexIntervalMessages: interval}, rbs, time.UnixMilli(1726000000000))
}

// c07Compare is the oracle: "" when got equals want, otherwise the first difference.
func c07Compare(got []Record, want []c07Rec, topic string, partition int32) string {
	if len(got) != len(want) {
		return fmt.Sprintf("decoder returned %d records, %d were produced", len(got), len(want))
	}
	for i, g := range got {
		w := want[i]
		if g.Topic != topic || g.Partition != partition {
			return fmt.Sprintf("record %d: topic/partition %q/%d want %q/%d", i, g.Topic, g.Partition, topic, partition)
		}
		if g.Offset != w.Offset {
			return fmt.Sprintf("record %d: offset %d want %d", i, g.Offset, w.Offset)
		}
		if g.Timestamp != w.Timestamp {
			return fmt.Sprintf("record %d (offset %d): timestamp %d want %d (diff %d)", i, w.Offset, g.Timestamp, w.Timestamp, g.Timestamp-w.Timestamp)
		}
		if !c07BytesEq(g.Key, w.Key) {
			return fmt.Sprintf("record %d: key %s want %s", i, c07Show(g.Key), c07Show(w.Key))
		}
		if !c07BytesEq(g.Value, w.Value) {
			return fmt.Sprintf("record %d: value %s want %s", i, c07Show(g.Value), c07Show(w.Value))
		}
		if len(g.Headers) != len(w.Headers) {
			return fmt.Sprintf("record %d: %d headers want %d", i, len(g.Headers), len(w.Headers))
		}
		for h := range g.Headers {
			if g.Headers[h].Key != w.Headers[h].Key || !c07BytesEq(g.Headers[h].Value, w.Headers[h].Value) {
				return fmt.Sprintf("record %d header %d: (%q,%s) want (%q,%s)", i, h, g.Headers[h].Key, c07Show(g.Headers[h].Value), w.Headers[h].Key, c07Show(w.Headers[h].Value))
			}
		}
	}
	return ""
}

func TestVF_C07_Decode(t *testing.T) {
	st := vfkit.NewStats("C07", c07Mod)
	defer st.Flush()
	limit := c07DeltaFinding != "" && vfkit.Known(c07DeltaFinding)
	rapid.Check(t, func(t *rapid.T) {
		st.Eval()
		c := c07GenCase(t, limit)
		if c.Excluded {
			st.ExcludedCase(c07DeltaFinding)
		}
		interval := rapid.SampledFrom([]int32{1, 7, 100}).Draw(t, "interval")
		partition := int32(rapid.IntRange(0, 11).Draw(t, "partition"))
		art, err := c07Build(c, interval)
		if err != nil {
			t.Fatalf("BuildSegment rejected well-formed batches: %v", err)
		}
		for _, f := range c07FlagList(c) {
			st.Class(f)
		}
		st.Class(fmt.Sprintf("batches-%d", len(c.Client)))
		got, err := decodeSegment(art.SegmentBytes, "orders", partition)
		if err != nil {
			t.Fatalf("decodeSegment rejects a broker-written segment of well-formed batches (%s, flags %v): %v", c.Shape, c07FlagList(c), err)
		}
		if d := c07Compare(got, c.Recs, "orders", partition); d != "" {
			t.Fatalf("decodeSegment (%s, flags %v): %s", c.Shape, c07FlagList(c), d)
		}
		entries, err := parseIndex(art.IndexBytes)
		if err != nil {
			t.Fatalf("parseIndex rejects a broker-written index: %v", err)
		}
		if len(entries) != len(art.RelativeIndex) {
			t.Fatalf("parseIndex returned %d entries, the broker wrote %d", len(entries), len(art.RelativeIndex))
		}
		for i, e := range entries {
			if e.Offset != art.RelativeIndex[i].Offset || e.Position != art.RelativeIndex[i].Position {
				t.Fatalf("parseIndex entry %d = (%d,%d), the broker wrote (%d,%d)", i, e.Offset, e.Position, art.RelativeIndex[i].Offset, art.RelativeIndex[i].Position)
			}
		}
		if c07NonTrivial(c) {
			st.NonTrivial(c.Shape, c.Bases[0], c07FlagList(c), interval)
			st.Sample(c07Sample(c, map[string]any{"interval": interval, "segment_bytes": len(art.SegmentBytes)}))
		}
	})
}

// TestVF_C07_Witness replays the minimal witness of the listed finding through the same
// oracle: one batch, one record, timestamp delta 2^30 ms (~12.4 days after the batch's
// first timestamp).
func TestVF_C07_Witness(t *testing.T) {
	st := vfkit.NewStats("C07", c07Mod+"-witness")
	defer st.Flush()
	st.Eval()
	for _, d := range []int64{1 << 30, -(1 << 30) - 1, 1 << 35} {
		first := int64(1726000000000)
		b := vfkit.NewBatch(0, first, []vfkit.Record{{TsDelta: 0, Value: []byte("a")}, {TsDelta: d, Key: []byte("k"), Value: []byte("v")}})
		c := c07Case{Client: [][]byte{b.Encode()}, Bases: []int64{0}, Recs: []c07Rec{
			{Offset: 0, Timestamp: first, Value: []byte("a")},
			{Offset: 1, Timestamp: first + d, Key: []byte("k"), Value: []byte("v")}}}
		art, err := c07Build(c, 1)
		if err != nil {
			t.Fatalf("witness build: %v", err)
		}
		got, err := decodeSegment(art.SegmentBytes, "orders", 0)
		diff := ""
		if err != nil {
			diff = "decodeSegment error: " + err.Error()
		} else {
			diff = c07Compare(got, c.Recs, "orders", 0)
		}
		id := c07DeltaFinding
		if id == "" {
			id = "C07-" + c07Mod + "-timestamp-delta"
		}
		t.Logf("witness delta=%d: %q", d, diff)
		if diff != "" {
			st.KnownResult(id, true, fmt.Sprintf("timestamp delta %d: %s", d, diff))
			return
		}
	}
	id := c07DeltaFinding
	if id == "" {
		id = "C07-" + c07Mod + "-timestamp-delta"
	}
	st.KnownResult(id, false, "timestamp deltas 2^30, -2^30-1 and 2^35 decode exactly")
}

// TestVF_C07_LogDecode: segments written by a real PartitionLog under upload faults with
// appends during the in-flight upload (vf_c07_log_test.go) are handed to this module's decoder:
// the concatenation over the stored segments must be exactly the produced records.
func TestVF_C07_LogDecode(t *testing.T) {
	st := vfkit.NewStats("C07", c07Mod+"-log")
	defer st.Flush()
	limit := c07DeltaFinding != "" && vfkit.Known(c07DeltaFinding)
	rapid.Check(t, func(t *rapid.T) {
		st.Eval()
		c := c07GenCase(t, limit)
		if c.Excluded {
			st.ExcludedCase(c07DeltaFinding)
		}
		run, msg := c07RunLog(t, c, rapid.SampledFrom([]int32{1, 3, 100}).Draw(t, "interval"))
		if msg == "" {
			msg = c07CheckLogRun(c, run)
		}
		if msg != "" {
			t.Fatalf("%s\nbatches %s bases %v\ntrace: %v", msg, c.Shape, c.Bases, run.Trace)
		}
		var got []Record
		for _, s := range run.Stored {
			recs, err := decodeSegment(s.Seg, "orders", 2)
			if err != nil {
				t.Fatalf("decodeSegment rejects stored segment %d: %v (trace %v)", s.Base, err, run.Trace)
			}
			got = append(got, recs...)
		}
		if d := c07Compare(got, c.Recs, "orders", 2); d != "" {
			t.Fatalf("decoding the stored segments in base-offset order: %s (trace %v)", d, run.Trace)
		}
		if run.Failed > 0 {
			st.Class("flush-failed")
		}
		if run.Injected > 0 {
			st.Class("append-during-upload")
		}
		if run.Failed > 0 && run.Injected > 0 {
			st.Class("append-during-failing-upload")
			if st.NonTrivial(c.Shape, c.Bases[0], run.Trace) {
				st.Sample(map[string]any{"shape": c.Shape, "trace": run.Trace, "segments": len(run.Stored)})
			}
		}
	})
}
