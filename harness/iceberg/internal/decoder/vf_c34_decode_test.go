//go:build verif

package decoder

// C34, processor-decoder legs (same file for the iceberg and the sql module; the
// per-module adapters live in vf_c34_mod_test.go).
//
//	decode: decodeSegment over (i) broker-written segments (storage.BuildSegment) of client
//	  batches in which one length/count field is hostile, (ii) valid segments with byte
//	  flips / truncation / insertion, (iii) arbitrary bytes with and without a plausible
//	  frame. Oracle: returns (records | error), no panic, bytes allocated during the call
//	  <= 256*len(input)+4MiB.
//	index: parseIndex over broker-written index bytes with a hostile entry count, flips,
//	  truncations, arbitrary bytes. Same oracle.
//
// Known findings are excluded by a predicate on the *input*, evaluated by c34Walk, which
// walks the bytes the way the decoder does and reports the first length/count field that
// exceeds the bytes that remain (or is negative where the decoder allocates with it).

import (
	"bytes"
	"encoding/binary"
	"fmt"
	"os"
	"testing"
	"time"
	"unsafe"

	"github.com/KafScale/platform/pkg/storage"
	"pgregory.net/rapid"
	"verif.local/vfkit"
)

const (
	c34RecordSize = int64(unsafe.Sizeof(Record{}))
	c34HeaderSize = int64(unsafe.Sizeof(Header{}))
)

func c34ID(site string) string { return "C34-" + c34Mod + "-" + site }

// ---- the walker (exclusion predicate + non-triviality) ---------------------------------

type c34WalkResult struct {
	Site    string // "", "record-count", "record-length", "field-length", "header-count"
	Size    int64
	Elem    int64
	Batches int
	Records int
	Reached bool   // at least one record length was read inside a batch with recordCount > 0
	End     string // "frame", "batch-error", "record-error", "site", "done"
}

func c34Walk(seg []byte) c34WalkResult {
	var w c34WalkResult
	if len(seg) < 48 || string(seg[:4]) != "KAFS" {
		w.End = "frame"
		return w
	}
	body := seg[32 : len(seg)-16]
	off := 0
	hit := func(site string, size, elem int64) c34WalkResult {
		w.Site, w.Size, w.Elem, w.End = site, size, elem, "site"
		return w
	}
	for off+12 <= len(body) {
		bl := int(binary.BigEndian.Uint32(body[off+8 : off+12]))
		if bl <= 0 {
			break
		}
		frame := 12 + bl
		if off+frame > len(body) {
			break
		}
		batch := body[off : off+frame]
		if len(batch) < 61 {
			w.End = "batch-error"
			return w
		}
		if binary.BigEndian.Uint16(batch[21:23])&0x07 != 0 {
			w.End = "batch-error"
			return w
		}
		w.Batches++
		rc := int64(int32(binary.BigEndian.Uint32(batch[57:61])))
		off += frame
		if rc <= 0 {
			continue
		}
		data := batch[61:]
		if rc > int64(len(data)) {
			return hit("record-count", rc, c34RecordSize)
		}
		r := bytes.NewReader(data)
		for i := int64(0); i < rc; i++ {
			l, err := c34ReadVarint(r)
			if err != nil {
				w.End = "record-error"
				return w
			}
			w.Reached = true
			if l < 0 {
				w.End = "record-error"
				return w
			}
			if l > int64(r.Len()) {
				return hit("record-length", l, 1)
			}
			rec := make([]byte, l)
			_, _ = r.Read(rec)
			buf := bytes.NewReader(rec)
			if _, err := buf.ReadByte(); err != nil {
				w.End = "record-error"
				return w
			}
			bad := false
			rv := func() int64 {
				v, err := c34ReadVarint(buf)
				if err != nil {
					bad = true
				}
				return v
			}
			// skipField mirrors readNullableBytes: negative = null, otherwise length bytes
			skipField := func() (int64, bool) {
				n := rv()
				if bad {
					return 0, false
				}
				if n > int64(buf.Len()) {
					return n, true
				}
				if n > 0 {
					_, _ = buf.Seek(n, 1)
				}
				return n, false
			}
			rv() // timestamp delta
			if bad {
				w.End = "record-error"
				return w
			}
			rv() // offset delta
			if bad {
				w.End = "record-error"
				return w
			}
			for f := 0; f < 2; f++ { // key, value
				n, over := skipField()
				if bad {
					w.End = "record-error"
					return w
				}
				if over {
					return hit("field-length", n, 1)
				}
			}
			hc := rv()
			if bad {
				w.End = "record-error"
				return w
			}
			if hc < 0 || hc > int64(buf.Len()) {
				return hit("header-count", hc, c34HeaderSize)
			}
			for h := int64(0); h < hc; h++ {
				for f := 0; f < 2; f++ {
					n, over := skipField()
					if bad {
						w.End = "record-error"
						return w
					}
					if over {
						return hit("field-length", n, 1)
					}
				}
			}
			w.Records++
		}
	}
	w.End = "done"
	return w
}

// c34Excluded decides whether an input must not be executed: it matches a listed known
// finding (counted), or a vulnerable decoder would die of a fatal out-of-memory on it.
func c34Excluded(st *vfkit.Stats, site string, size, elem int64, skipFatal bool) bool {
	if site == "" {
		return false
	}
	if vfkit.Known(c34ID(site)) {
		st.ExcludedCase(c34ID(site))
		return true
	}
	if skipFatal && c34FatalZone(size, elem) {
		st.Class("skipped-fatal-zone")
		return true
	}
	return false
}

// ---- segment construction ---------------------------------------------------------------

// c34BrokerSegment serializes client batches the way the broker does.
func c34BrokerSegment(batches [][]byte) ([]byte, []byte, error) {
	rbs := make([]storage.RecordBatch, 0, len(batches))
	next := int64(0)
	for _, enc := range batches {
		rb, err := storage.NewRecordBatchFromBytes(enc)
		if err != nil {
			return nil, nil, err
		}
		storage.PatchRecordBatchBaseOffset(&rb, next)
		next += int64(rb.LastOffsetDelta) + 1
		rbs = append(rbs, rb)
	}
	art, err := storage.BuildSegment(storage.SegmentWriterConfig{IndexIntervalMessages: 1}, rbs, time.UnixMilli(1726000000000))
	if err != nil {
		return nil, nil, err
	}
	return art.SegmentBytes, art.IndexBytes, nil
}

func c34GenSegment(t *rapid.T) ([]byte, c34Desc) {
	var d c34Desc
	d.Class = rapid.SampledFrom([]string{"hostile-field", "hostile-field", "hostile-field", "hostile-field", "valid-flip", "valid-flip",
		"framed-arbitrary", "arbitrary", "short-frame", "valid", "compressed", "compressed"}).Draw(t, "class")
	switch d.Class {
	case "compressed":
		seg, _, err := c34BrokerSegment(c34CompressedBatches(t, &d))
		if err != nil {
			t.Fatalf("harness: BuildSegment over client blobs failed: %v", err)
		}
		return seg, d
	case "short-frame":
		// lengths around the 32-byte header / 48-byte minimum / 61-byte batch header boundaries
		return append([]byte("KAFS"), c34Arbitrary(t, 120)...), d
	case "hostile-field", "valid":
		bs := c34Batches(t, d.Class == "hostile-field", &d)
		seg, _, err := c34BrokerSegment(bs)
		if err != nil {
			t.Fatalf("harness: BuildSegment over client blobs failed: %v", err)
		}
		return seg, d
	case "valid-flip":
		c := c07GenCase(t, false)
		art, err := c07Build(c, 1)
		if err != nil {
			t.Fatalf("harness: %v", err)
		}
		d.Batches = len(c.Client)
		seg := art.SegmentBytes
		// damage the body (and sometimes the frame)
		if rapid.IntRange(0, 4).Draw(t, "flip-where") == 0 {
			return c34Flip(t, seg, &d), d
		}
		body := c34Flip(t, seg[32:len(seg)-16], &d)
		return append(append(append([]byte(nil), seg[:32]...), body...), seg[len(seg)-16:]...), d
	case "framed-arbitrary":
		body := c34Arbitrary(t, 400)
		if rapid.Bool().Draw(t, "with-batch-header") {
			// a plausible batch header in front so the walk reaches the records section
			b := &vfkit.Batch{Magic: 2, NumRecords: int32(rapid.IntRange(1, 5).Draw(t, "nrec")), RawRecords: body}
			body = b.Encode()
			if rapid.IntRange(0, 3).Draw(t, "edge-batchlen") == 0 {
				v := rapid.SampledFrom(c34BatchLenEdges).Draw(t, "batchlen")
				binary.BigEndian.PutUint32(body[8:], uint32(v))
				d.Field, d.ValClass, d.Value = "batchlen", "int32-edge", v
			}
		}
		return c34WrapSegment(body), d
	default:
		return c34Arbitrary(t, 600), d
	}
}

func c34DecodeOutcome(seg []byte) c34Outcome {
	return c34Run(func() (int, error) {
		recs, err := decodeSegment(seg, "orders", 0)
		return len(recs), err
	})
}

func TestVF_C34_Decode(t *testing.T) {
	st := vfkit.NewStats("C34", c34Mod+"-decode")
	defer st.Flush()
	rapid.Check(t, func(t *rapid.T) {
		seg, d := c34GenSegment(t)
		w := c34Walk(seg)
		st.Class("gen:" + d.Class)
		if d.Field != "" {
			st.Class("field:" + d.Field)
		}
		if w.Site != "" {
			st.Class("walk-site:" + w.Site)
		}
		if c34Excluded(st, w.Site, w.Size, w.Elem, true) {
			return
		}
		st.Eval()
		o := c34DecodeOutcome(seg)
		switch {
		case o.Err != nil:
			st.Class("outcome:error")
		case o.N == 0:
			st.Class("outcome:no-records")
		default:
			st.Class("outcome:records")
		}
		if v := c34Verdict(o, len(seg)); v != "" {
			t.Fatalf("decodeSegment on %d bytes (class %s field %s=%d [%s]; walker: site=%q size=%d after %d batches %d records): %s\ninput: %x",
				len(seg), d.Class, d.Field, d.Value, d.ValClass, w.Site, w.Size, w.Batches, w.Records, v, seg)
		}
		if d.Class == "compressed" {
			st.Class("compressed:" + d.ValClass)
		}
		if w.Reached || d.Class == "compressed" {
			if st.NonTrivial(d.Class, d.Field, d.ValClass, w.Site, w.End, w.Batches, w.Records, len(seg)/16, o.Err != nil) {
				st.Sample(map[string]any{"class": d.Class, "field": d.Field, "value": d.Value, "value_class": d.ValClass, "walk_end": w.End, "walk_site": w.Site,
					"batches": w.Batches, "records": w.Records, "len": len(seg), "error": fmt.Sprint(o.Err), "alloc": o.Alloc, "head": c34Hex(seg[min(32, len(seg)):], 48)})
			}
		}
	})
}

// ---- index --------------------------------------------------------------------------------

func c34GenIndex(t *rapid.T) ([]byte, c34Desc) {
	var d c34Desc
	d.Class = rapid.SampledFrom([]string{"hostile-count", "hostile-count", "valid-flip", "arbitrary-with-magic", "arbitrary", "valid"}).Draw(t, "class")
	valid := func() []byte {
		_, idx, err := c34BrokerSegment(c34Batches(t, false, &d))
		if err != nil {
			t.Fatalf("harness: %v", err)
		}
		return idx
	}
	switch d.Class {
	case "hostile-count":
		idx := valid()
		actual := int64(binary.BigEndian.Uint32(idx[6:10]))
		v, vc := c34HostileLen(t, "count", actual, 16)
		if v > 1<<31-1 || v < -(1<<31) {
			v = rapid.SampledFrom([]int64{-(1 << 31), 1<<31 - 1, 0xFFFFFFFF}).Draw(t, "count-edge")
			vc = "edge"
		}
		binary.BigEndian.PutUint32(idx[6:10], uint32(v))
		d.Field, d.ValClass, d.Value = "count", vc, v
		if rapid.IntRange(0, 3).Draw(t, "also-truncate") == 0 {
			idx = idx[:rapid.IntRange(16, len(idx)).Draw(t, "truncate-to")]
		}
		return idx, d
	case "valid-flip":
		return c34Flip(t, valid(), &d), d
	case "arbitrary-with-magic":
		b := append([]byte("IDX\x00\x00\x01"), c34Arbitrary(t, 64)...)
		return b, d
	case "valid":
		return valid(), d
	default:
		return c34Arbitrary(t, 80), d
	}
}

func c34IndexOutcome(idx []byte) c34Outcome {
	return c34Run(func() (int, error) {
		es, err := parseIndex(idx)
		return len(es), err
	})
}

func TestVF_C34_Index(t *testing.T) {
	st := vfkit.NewStats("C34", c34Mod+"-index")
	defer st.Flush()
	rapid.Check(t, func(t *rapid.T) {
		idx, d := c34GenIndex(t)
		st.Class("gen:" + d.Class)
		hitSite, count := c34IndexSite(idx)
		site := ""
		if hitSite {
			site = "index-count"
			st.Class("walk-site:index-count")
		}
		if c34Excluded(st, site, count, 16, true) {
			return
		}
		st.Eval()
		o := c34IndexOutcome(idx)
		if o.Err != nil {
			st.Class("outcome:error")
		} else {
			st.Class("outcome:entries")
		}
		if v := c34Verdict(o, len(idx)); v != "" {
			t.Fatalf("parseIndex on %d bytes (class %s field %s=%d [%s]): %s\ninput: %x", len(idx), d.Class, d.Field, d.Value, d.ValClass, v, idx)
		}
		if len(idx) >= 16 && string(idx[:4]) == "IDX\x00" {
			if st.NonTrivial(d.Class, d.Field, d.ValClass, hitSite, len(idx), o.Err != nil, o.N) {
				st.Sample(map[string]any{"class": d.Class, "field": d.Field, "value": d.Value, "len": len(idx), "error": fmt.Sprint(o.Err), "entries": o.N, "head": c34Hex(idx, 28)})
			}
		}
	})
}

// ---- witnesses ----------------------------------------------------------------------------

// c34WitnessSegment builds a broker-written segment of one client batch holding the given
// raw records section and record count.
func c34WitnessSegment(numRecords int32, records []byte) []byte {
	b := &vfkit.Batch{Magic: 2, FirstTimestamp: 1726000000000, MaxTimestamp: 1726000000000, ProducerID: -1, ProducerEpoch: -1, BaseSequence: -1,
		NumRecords: numRecords, LastOffsetDelta: numRecords - 1, RawRecords: records}
	seg, _, err := c34BrokerSegment([][]byte{b.Encode()})
	if err != nil {
		panic(err)
	}
	return seg
}

func c34WitnessRecord(recLen *int64, keyLen int64, key []byte, hdrCount int64) []byte {
	body := []byte{0}
	body = vfkit.PutVarint(body, 0)
	body = vfkit.PutVarint(body, 0)
	body = vfkit.PutVarint(body, keyLen)
	body = append(body, key...)
	body = vfkit.PutVarint(body, 1)
	body = append(body, 'v')
	body = vfkit.PutVarint(body, hdrCount)
	l := int64(len(body))
	if recLen != nil {
		l = *recLen
	}
	return append(vfkit.PutVarint(nil, l), body...)
}

func TestVF_C34_Witness(t *testing.T) {
	st := vfkit.NewStats("C34", c34Mod+"-witness")
	defer st.Flush()
	big := int64(1 << 24)
	type wit struct {
		site string
		what string
		in   []byte
		idx  bool
	}
	idxHdr := func(count uint32) []byte {
		b := make([]byte, 16)
		copy(b, "IDX\x00")
		b[5] = 1
		binary.BigEndian.PutUint32(b[6:], count)
		binary.BigEndian.PutUint32(b[10:], 1)
		return b
	}
	wits := []wit{
		{site: "record-length", what: "record length varint 2^24 in a 1-record batch", in: c34WitnessSegment(1, c34WitnessRecord(&big, 1, []byte("k"), 0))},
		{site: "field-length", what: "key length varint 2^24 inside a 10-byte record", in: c34WitnessSegment(1, c34WitnessRecord(nil, big, []byte("k"), 0))},
		{site: "header-count", what: "header count varint -1", in: c34WitnessSegment(1, c34WitnessRecord(nil, 1, []byte("k"), -1))},
		{site: "header-count", what: "header count varint 2^18 with no header bytes", in: c34WitnessSegment(1, c34WitnessRecord(nil, 1, []byte("k"), 1<<18))},
		{site: "record-count", what: "batch header recordCount 2^17 over one 10-byte record", in: c34WitnessSegment(1<<17, c34WitnessRecord(nil, 1, []byte("k"), 0))},
		{site: "index-count", what: "index header entry count 2^20 with no entries", in: idxHdr(1 << 20), idx: true},
		{site: "index-count", what: "index header entry count 0x80000000 (negative as int32)", in: idxHdr(0x80000000), idx: true},
	}
	failed := map[string]string{}
	for _, w := range wits {
		st.Eval()
		if w.idx {
			if hit, n := c34IndexSite(w.in); c34FatalZone(n, 16) && hit {
				t.Logf("%s: %s: skipped (fatal zone for this module)", w.site, w.what)
				continue
			}
		}
		var o c34Outcome
		if w.idx {
			o = c34IndexOutcome(w.in)
		} else {
			if ws := c34Walk(w.in); ws.Site != w.site {
				t.Logf("%s: %s: walker classifies the witness as %q (module reads the field differently)", w.site, w.what, ws.Site)
			}
			o = c34DecodeOutcome(w.in)
		}
		v := c34Verdict(o, len(w.in))
		t.Logf("%s: %s: verdict=%q err=%v alloc=%d", w.site, w.what, v, o.Err, o.Alloc)
		if v != "" {
			if _, ok := failed[w.site]; !ok {
				failed[w.site] = w.what + ": " + v
			}
		}
	}
	for _, site := range []string{"record-length", "field-length", "header-count", "record-count", "index-count"} {
		if msg, ok := failed[site]; ok {
			st.KnownResult(c34ID(site), true, msg)
		} else {
			st.KnownResult(c34ID(site), false, "witness inputs are rejected or decoded within the allocation allowance")
		}
	}
}

// ---- native fuzzing (thorough tier) ---------------------------------------------------------

func c34FuzzOne(data []byte) string {
	w := c34Walk(data)
	if w.Site != "" && vfkit.Known(c34ID(w.Site)) {
		return ""
	}
	return c34Verdict(c34DecodeOutcome(data), len(data))
}

func FuzzVF_C34_Decode(f *testing.F) {
	f.Add(c34WitnessSegment(1, c34WitnessRecord(nil, 1, []byte("k"), 0)))
	f.Add(c34WrapSegment(vfkit.SimpleBatch(7, 1726000000000, 3, "seed")))
	f.Add(c34WrapSegment(append(vfkit.SimpleBatch(0, 1, 1, "a"), vfkit.SimpleBatch(1, 2, 2, "b")...)))
	hb := vfkit.NewBatch(0, 5, []vfkit.Record{{Key: nil, Value: []byte{}, Headers: []vfkit.RecHeader{{Key: "h", Value: nil}, {Key: "", Value: []byte("x")}}}})
	f.Add(c34WrapSegment(hb.Encode()))
	for _, codec := range c34Codecs {
		for _, stream := range [][]byte{c34Compress(codec, vfkit.EncodeRecords([]vfkit.Record{{Value: []byte("v")}})), c34Bomb(codec, 4)} {
			if len(stream) < 1<<15 {
				f.Add(c34WrapSegment((&vfkit.Batch{Magic: 2, Attributes: c34CodecBits(codec), NumRecords: 1, RawRecords: stream}).Encode()))
			}
		}
	}
	for _, v := range c34BatchLenEdges {
		f.Add(c34WithBatchLen(c34WrapSegment(vfkit.SimpleBatch(0, 1726000000000, 2, "edge")), uint32(v)))
	}
	f.Fuzz(func(t *testing.T, data []byte) {
		if len(data) > 1<<16 {
			return
		}
		if v := c34FuzzOne(data); v != "" {
			t.Fatalf("decodeSegment on %d bytes: %s", len(data), v)
		}
	})
}

func TestVF_C34_ReplayFuzz(t *testing.T) {
	path := os.Getenv("VF_REPLAY_FILE")
	if path == "" {
		t.Skip("VF_REPLAY_FILE not set")
	}
	args, err := c34ReadCorpus(path)
	if err != nil || len(args) == 0 {
		fmt.Println("VF-INCONCLUSIVE: cannot read corpus file:", err)
		t.Fatalf("cannot read corpus file %s: %v", path, err)
	}
	if v := c34FuzzOne(args[0]); v != "" {
		t.Fatalf("decodeSegment on %d bytes: %s\ninput: %x", len(args[0]), v, args[0])
	}
}
