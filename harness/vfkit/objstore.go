package vfkit

import (
	"errors"
	"fmt"
	"sort"
	"strings"
	"sync"
)

// ObjStore is a model of one S3 bucket: a key space with byte-range reads, an
// operation log, a fault plan and a crash switch. Package-local adapters turn it into a
// storage.S3Client, an s3API, ... (adapters cannot live here: vfkit must not import /repo).

var (
	ErrObjNotFound = errors.New("vfkit: object not found")
	ErrInjected    = errors.New("vfkit: injected S3 failure")
	ErrCrashed     = errors.New("vfkit: store unreachable (crashed process)")
)

type FaultKind int

const (
	FaultNone   FaultKind = iota
	FaultBefore           // the call fails and has no effect
	FaultAfter            // the effect happens but the caller sees a failure
)

type ObjOp struct {
	Seq   int
	Kind  string // put-segment put-index get get-index delete list ...
	Key   string
	Size  int
	Fault FaultKind
}

type ObjStore struct {
	mu   sync.Mutex
	objs map[string][]byte
	Ops  []ObjOp
	// Fault decides the outcome of each mutating/reading call; nil = no faults.
	Fault func(op ObjOp) FaultKind
	// OnOp, if set, is called (outside the lock) before the operation takes effect; the
	// scheduler uses it to park the calling goroutine.
	OnOp    func(op ObjOp)
	crashed bool
}

func NewObjStore() *ObjStore { return &ObjStore{objs: map[string][]byte{}} }

func (s *ObjStore) SetCrashed(b bool) { s.mu.Lock(); s.crashed = b; s.mu.Unlock() }

func (s *ObjStore) begin(kind, key string, size int) (ObjOp, error) {
	s.mu.Lock()
	op := ObjOp{Seq: len(s.Ops), Kind: kind, Key: key, Size: size}
	if s.crashed {
		s.mu.Unlock()
		return op, ErrCrashed
	}
	if s.Fault != nil {
		op.Fault = s.Fault(op)
	}
	s.Ops = append(s.Ops, op)
	on := s.OnOp
	s.mu.Unlock()
	if on != nil {
		on(op)
	}
	s.mu.Lock()
	crashed := s.crashed
	s.mu.Unlock()
	if crashed {
		return op, ErrCrashed
	}
	return op, nil
}

func (s *ObjStore) Put(kind, key string, body []byte) error {
	return s.PutIf(kind, key, body, nil)
}

// PutIf is Put with a liveness probe evaluated after the gate and before the effect: when
// alive returns an error (typically ctx.Err() of the caller) the call fails with that
// error and has no effect, as a real S3 client does when its context is cancelled.
func (s *ObjStore) PutIf(kind, key string, body []byte, alive func() error) error {
	op, err := s.begin(kind, key, len(body))
	if err != nil {
		return err
	}
	if alive != nil {
		if aerr := alive(); aerr != nil {
			return aerr
		}
	}
	if op.Fault == FaultBefore {
		return fmt.Errorf("%w: %s %s", ErrInjected, kind, key)
	}
	s.mu.Lock()
	s.objs[key] = append([]byte(nil), body...)
	s.mu.Unlock()
	if op.Fault == FaultAfter {
		return fmt.Errorf("%w (after effect): %s %s", ErrInjected, kind, key)
	}
	return nil
}

// Get returns a copy of the object or of the inclusive byte range [start,end] (end is
// clamped to the object size like S3 does; start beyond the end is an error).
func (s *ObjStore) Get(kind, key string, rng *[2]int64) ([]byte, error) {
	op, err := s.begin(kind, key, 0)
	if err != nil {
		return nil, err
	}
	if op.Fault != FaultNone {
		return nil, fmt.Errorf("%w: %s %s", ErrInjected, kind, key)
	}
	s.mu.Lock()
	defer s.mu.Unlock()
	b, ok := s.objs[key]
	if !ok {
		return nil, ErrObjNotFound
	}
	if rng == nil {
		return append([]byte(nil), b...), nil
	}
	st, en := rng[0], rng[1]
	if st < 0 || st >= int64(len(b)) || en < st {
		return nil, fmt.Errorf("vfkit: invalid range %d-%d for %d bytes", st, en, len(b))
	}
	if en >= int64(len(b)) {
		en = int64(len(b)) - 1
	}
	return append([]byte(nil), b[st:en+1]...), nil
}

func (s *ObjStore) Delete(kind, key string) error {
	op, err := s.begin(kind, key, 0)
	if err != nil {
		return err
	}
	if op.Fault == FaultBefore {
		return fmt.Errorf("%w: %s %s", ErrInjected, kind, key)
	}
	s.mu.Lock()
	delete(s.objs, key)
	s.mu.Unlock()
	if op.Fault == FaultAfter {
		return fmt.Errorf("%w (after effect): %s %s", ErrInjected, kind, key)
	}
	return nil
}

type ObjInfo struct {
	Key  string
	Size int64
}

func (s *ObjStore) List(kind, prefix string) ([]ObjInfo, error) {
	op, err := s.begin(kind, prefix, 0)
	if err != nil {
		return nil, err
	}
	if op.Fault != FaultNone {
		return nil, fmt.Errorf("%w: %s %s", ErrInjected, kind, prefix)
	}
	s.mu.Lock()
	defer s.mu.Unlock()
	var out []ObjInfo
	for k, v := range s.objs {
		if strings.HasPrefix(k, prefix) {
			out = append(out, ObjInfo{Key: k, Size: int64(len(v))})
		}
	}
	sort.Slice(out, func(i, j int) bool { return out[i].Key < out[j].Key })
	return out, nil
}

// Peek reads an object without logging, faults or gates (oracle use only).
func (s *ObjStore) Peek(key string) ([]byte, bool) {
	s.mu.Lock()
	defer s.mu.Unlock()
	b, ok := s.objs[key]
	return append([]byte(nil), b...), ok
}

// Keys returns all keys (sorted) without logging (oracle use only).
func (s *ObjStore) Keys() []string {
	s.mu.Lock()
	defer s.mu.Unlock()
	out := make([]string, 0, len(s.objs))
	for k := range s.objs {
		out = append(out, k)
	}
	sort.Strings(out)
	return out
}

// Snapshot copies the whole key space (oracle use only).
func (s *ObjStore) Snapshot() map[string][]byte {
	s.mu.Lock()
	defer s.mu.Unlock()
	out := make(map[string][]byte, len(s.objs))
	for k, v := range s.objs {
		out[k] = append([]byte(nil), v...)
	}
	return out
}

// PokeRaw sets an object directly (test set-up only).
func (s *ObjStore) PokeRaw(key string, body []byte) {
	s.mu.Lock()
	s.objs[key] = append([]byte(nil), body...)
	s.mu.Unlock()
}

func (s *ObjStore) OpCount() int { s.mu.Lock(); defer s.mu.Unlock(); return len(s.Ops) }
