package vfkit

import (
	"encoding/binary"
	"errors"
	"fmt"
	"hash/crc32"
)

// Independent Kafka v2 record-batch codec (KIP-98 layout). Shares no code with
// pkg/storage, kmsg or the addon decoders.
//
//	baseOffset int64 | batchLength int32 | partitionLeaderEpoch int32 | magic int8 | crc uint32 |
//	attributes int16 | lastOffsetDelta int32 | firstTimestamp int64 | maxTimestamp int64 |
//	producerId int64 | producerEpoch int16 | baseSequence int32 | numRecords int32 | records...
//
// crc = CRC-32C over everything from attributes to the end. batchLength counts the bytes
// after the batchLength field itself. The fixed part is 61 bytes.

const BatchHeaderLen = 61

var castagnoli = crc32.MakeTable(crc32.Castagnoli)

func CRC32C(b []byte) uint32 { return crc32.Checksum(b, castagnoli) }

type RecHeader struct {
	Key   string
	Value []byte // nil = null
}

type Record struct {
	Attr        int8
	TsDelta     int64
	OffsetDelta int32
	Key         []byte // nil = null
	Value       []byte // nil = null
	Headers     []RecHeader
}

type Batch struct {
	BaseOffset      int64
	LeaderEpoch     int32
	Magic           int8
	Attributes      int16
	LastOffsetDelta int32
	FirstTimestamp  int64
	MaxTimestamp    int64
	ProducerID      int64
	ProducerEpoch   int16
	BaseSequence    int32
	NumRecords      int32
	Records         []Record
	// RawRecords, when non-nil, is written verbatim as the records section (compressed
	// payloads, deliberately broken bodies) and Records is ignored by Encode.
	RawRecords []byte
	// Filled by the decoder:
	BatchLength int32
	CRC         uint32
	Raw         []byte // the exact bytes of this batch
}

func PutVarint(dst []byte, v int64) []byte {
	u := uint64(v<<1) ^ uint64(v>>63)
	for u >= 0x80 {
		dst = append(dst, byte(u)|0x80)
		u >>= 7
	}
	return append(dst, byte(u))
}

func ReadVarint(b []byte) (int64, int, error) {
	var u uint64
	var shift uint
	for i := 0; i < len(b); i++ {
		if i >= 10 {
			return 0, 0, errors.New("varint too long")
		}
		c := b[i]
		u |= uint64(c&0x7f) << shift
		if c < 0x80 {
			return int64(u>>1) ^ -int64(u&1), i + 1, nil
		}
		shift += 7
	}
	return 0, 0, errors.New("varint truncated")
}

func EncodeRecord(r Record) []byte {
	body := []byte{byte(r.Attr)}
	body = PutVarint(body, r.TsDelta)
	body = PutVarint(body, int64(r.OffsetDelta))
	if r.Key == nil {
		body = PutVarint(body, -1)
	} else {
		body = PutVarint(body, int64(len(r.Key)))
		body = append(body, r.Key...)
	}
	if r.Value == nil {
		body = PutVarint(body, -1)
	} else {
		body = PutVarint(body, int64(len(r.Value)))
		body = append(body, r.Value...)
	}
	body = PutVarint(body, int64(len(r.Headers)))
	for _, h := range r.Headers {
		body = PutVarint(body, int64(len(h.Key)))
		body = append(body, h.Key...)
		if h.Value == nil {
			body = PutVarint(body, -1)
		} else {
			body = PutVarint(body, int64(len(h.Value)))
			body = append(body, h.Value...)
		}
	}
	out := PutVarint(nil, int64(len(body)))
	return append(out, body...)
}

func EncodeRecords(rs []Record) []byte {
	var out []byte
	for _, r := range rs {
		out = append(out, EncodeRecord(r)...)
	}
	return out
}

// Encode serializes the batch with the header fields exactly as set (they may be
// inconsistent with the body on purpose); batchLength and CRC are computed correctly
// unless overridden afterwards by the caller on the returned bytes.
func (b *Batch) Encode() []byte {
	recs := b.RawRecords
	if recs == nil {
		recs = EncodeRecords(b.Records)
	}
	out := make([]byte, BatchHeaderLen, BatchHeaderLen+len(recs))
	binary.BigEndian.PutUint64(out[0:], uint64(b.BaseOffset))
	binary.BigEndian.PutUint32(out[8:], uint32(BatchHeaderLen-12+len(recs)))
	binary.BigEndian.PutUint32(out[12:], uint32(b.LeaderEpoch))
	out[16] = byte(b.Magic)
	binary.BigEndian.PutUint16(out[21:], uint16(b.Attributes))
	binary.BigEndian.PutUint32(out[23:], uint32(b.LastOffsetDelta))
	binary.BigEndian.PutUint64(out[27:], uint64(b.FirstTimestamp))
	binary.BigEndian.PutUint64(out[35:], uint64(b.MaxTimestamp))
	binary.BigEndian.PutUint64(out[43:], uint64(b.ProducerID))
	binary.BigEndian.PutUint16(out[51:], uint16(b.ProducerEpoch))
	binary.BigEndian.PutUint32(out[53:], uint32(b.BaseSequence))
	binary.BigEndian.PutUint32(out[57:], uint32(b.NumRecords))
	out = append(out, recs...)
	binary.BigEndian.PutUint32(out[17:], CRC32C(out[21:]))
	return out
}

// NewBatch builds a well-formed, uncompressed magic-2 batch: offset deltas 0..n-1,
// lastOffsetDelta n-1, numRecords n, maxTimestamp = first + max delta, producer fields -1.
func NewBatch(baseOffset, firstTs int64, recs []Record) *Batch {
	rs := make([]Record, len(recs))
	copy(rs, recs)
	var maxD int64
	for i := range rs {
		rs[i].OffsetDelta = int32(i)
		if rs[i].TsDelta > maxD {
			maxD = rs[i].TsDelta
		}
	}
	return &Batch{BaseOffset: baseOffset, Magic: 2, LastOffsetDelta: int32(len(rs) - 1), FirstTimestamp: firstTs,
		MaxTimestamp: firstTs + maxD, ProducerID: -1, ProducerEpoch: -1, BaseSequence: -1, NumRecords: int32(len(rs)), Records: rs}
}

// SimpleBatch returns the bytes of a well-formed batch of n records with value
// "<tag>-<i>" and key "k<i>" (deterministic, recognisable content).
func SimpleBatch(baseOffset int64, firstTs int64, n int, tag string) []byte {
	rs := make([]Record, n)
	for i := range rs {
		rs[i] = Record{TsDelta: int64(i), Key: []byte(fmt.Sprintf("k%d", i)), Value: []byte(fmt.Sprintf("%s-%d", tag, i))}
	}
	return NewBatch(baseOffset, firstTs, rs).Encode()
}

func decodeRecord(b []byte) (Record, int, error) {
	var r Record
	ln, n, err := ReadVarint(b)
	if err != nil {
		return r, 0, fmt.Errorf("record length: %w", err)
	}
	if ln < 0 || int64(len(b)-n) < ln {
		return r, 0, fmt.Errorf("record length %d exceeds remaining %d", ln, len(b)-n)
	}
	body := b[n : n+int(ln)]
	total := n + int(ln)
	p := 0
	if len(body) < 1 {
		return r, 0, errors.New("record body empty")
	}
	r.Attr = int8(body[0])
	p = 1
	rv := func() (int64, error) {
		v, k, err := ReadVarint(body[p:])
		if err != nil {
			return 0, err
		}
		p += k
		return v, nil
	}
	rb := func() ([]byte, error) {
		l, err := rv()
		if err != nil {
			return nil, err
		}
		if l < 0 {
			if l != -1 {
				return nil, fmt.Errorf("negative length %d", l)
			}
			return nil, nil
		}
		if int64(len(body)-p) < l {
			return nil, fmt.Errorf("field length %d exceeds record", l)
		}
		out := make([]byte, l)
		copy(out, body[p:p+int(l)])
		p += int(l)
		return out, nil
	}
	if r.TsDelta, err = rv(); err != nil {
		return r, 0, err
	}
	od, err := rv()
	if err != nil {
		return r, 0, err
	}
	r.OffsetDelta = int32(od)
	if r.Key, err = rb(); err != nil {
		return r, 0, err
	}
	if r.Value, err = rb(); err != nil {
		return r, 0, err
	}
	hc, err := rv()
	if err != nil {
		return r, 0, err
	}
	if hc < 0 || hc > int64(len(body)) {
		return r, 0, fmt.Errorf("bad header count %d", hc)
	}
	for i := int64(0); i < hc; i++ {
		k, err := rb()
		if err != nil {
			return r, 0, err
		}
		v, err := rb()
		if err != nil {
			return r, 0, err
		}
		r.Headers = append(r.Headers, RecHeader{Key: string(k), Value: v})
	}
	if p != len(body) {
		return r, 0, fmt.Errorf("record has %d trailing bytes", len(body)-p)
	}
	return r, total, nil
}

// DecodeBatchHeader parses only the fixed 61 bytes (no consistency checks).
func DecodeBatchHeader(data []byte) (Batch, error) {
	var b Batch
	if len(data) < BatchHeaderLen {
		return b, fmt.Errorf("batch header needs %d bytes, have %d", BatchHeaderLen, len(data))
	}
	b.BaseOffset = int64(binary.BigEndian.Uint64(data[0:]))
	b.BatchLength = int32(binary.BigEndian.Uint32(data[8:]))
	b.LeaderEpoch = int32(binary.BigEndian.Uint32(data[12:]))
	b.Magic = int8(data[16])
	b.CRC = binary.BigEndian.Uint32(data[17:])
	b.Attributes = int16(binary.BigEndian.Uint16(data[21:]))
	b.LastOffsetDelta = int32(binary.BigEndian.Uint32(data[23:]))
	b.FirstTimestamp = int64(binary.BigEndian.Uint64(data[27:]))
	b.MaxTimestamp = int64(binary.BigEndian.Uint64(data[35:]))
	b.ProducerID = int64(binary.BigEndian.Uint64(data[43:]))
	b.ProducerEpoch = int16(binary.BigEndian.Uint16(data[51:]))
	b.BaseSequence = int32(binary.BigEndian.Uint32(data[53:]))
	b.NumRecords = int32(binary.BigEndian.Uint32(data[57:]))
	return b, nil
}

// DecodeBatch strictly decodes one batch at the start of data: magic 2, batchLength
// within data, CRC-32C valid; when the batch is uncompressed the records are decoded and
// numRecords must match the body. It returns the batch and the number of bytes consumed.
func DecodeBatch(data []byte) (Batch, int, error) {
	b, err := DecodeBatchHeader(data)
	if err != nil {
		return b, 0, err
	}
	if b.Magic != 2 {
		return b, 0, fmt.Errorf("magic %d", b.Magic)
	}
	total := int64(b.BatchLength) + 12
	if b.BatchLength < BatchHeaderLen-12 || total > int64(len(data)) {
		return b, 0, fmt.Errorf("batchLength %d does not fit in %d bytes", b.BatchLength, len(data))
	}
	raw := data[:total]
	if got := CRC32C(raw[21:]); got != b.CRC {
		return b, 0, fmt.Errorf("crc mismatch: header %08x computed %08x", b.CRC, got)
	}
	b.Raw = append([]byte(nil), raw...)
	if b.Attributes&0x7 == 0 {
		body := raw[BatchHeaderLen:]
		p := 0
		for p < len(body) {
			r, n, err := decodeRecord(body[p:])
			if err != nil {
				return b, 0, fmt.Errorf("record %d: %w", len(b.Records), err)
			}
			b.Records = append(b.Records, r)
			p += n
		}
		if int(b.NumRecords) != len(b.Records) {
			return b, 0, fmt.Errorf("numRecords %d but body holds %d records", b.NumRecords, len(b.Records))
		}
	} else {
		b.RawRecords = append([]byte(nil), raw[BatchHeaderLen:]...)
	}
	return b, int(total), nil
}

// DecodeBatches strictly decodes a concatenation of batches; trailing garbage is an error.
func DecodeBatches(data []byte) ([]Batch, error) {
	var out []Batch
	p := 0
	for p < len(data) {
		b, n, err := DecodeBatch(data[p:])
		if err != nil {
			return out, fmt.Errorf("batch %d at byte %d: %w", len(out), p, err)
		}
		out = append(out, b)
		p += n
	}
	return out, nil
}

// DecodeBatchesLenient decodes complete leading batches and ignores a truncated tail
// (what a Kafka client does with a fetch response cut by maxBytes). It returns the
// batches and the number of bytes they cover.
func DecodeBatchesLenient(data []byte) ([]Batch, int) {
	var out []Batch
	p := 0
	for p < len(data) {
		b, n, err := DecodeBatch(data[p:])
		if err != nil {
			break
		}
		out = append(out, b)
		p += n
	}
	return out, p
}

// Segment layout written by the broker (docs/storage-format.md): 32-byte header
// "KAFS" | version u16 | flags u16 | baseOffset i64 | messageCount i32 | createdMs i64 | reserved u32,
// body = concatenated batches, 16-byte footer crc32c(body) u32 | lastOffset i64 | "END!".
type SegmentInfo struct {
	Version      uint16
	Flags        uint16
	BaseOffset   int64
	MessageCount int32
	CreatedMs    int64
	CRC          uint32
	LastOffset   int64
	Body         []byte
	Batches      []Batch
}

func DecodeSegment(data []byte) (*SegmentInfo, error) {
	if len(data) < 48 {
		return nil, fmt.Errorf("segment too small: %d", len(data))
	}
	if string(data[0:4]) != "KAFS" {
		return nil, fmt.Errorf("bad segment magic %q", data[0:4])
	}
	s := &SegmentInfo{}
	s.Version = binary.BigEndian.Uint16(data[4:])
	s.Flags = binary.BigEndian.Uint16(data[6:])
	s.BaseOffset = int64(binary.BigEndian.Uint64(data[8:]))
	s.MessageCount = int32(binary.BigEndian.Uint32(data[16:]))
	s.CreatedMs = int64(binary.BigEndian.Uint64(data[20:]))
	f := data[len(data)-16:]
	if string(f[12:16]) != "END!" {
		return nil, fmt.Errorf("bad footer magic %q", f[12:16])
	}
	s.CRC = binary.BigEndian.Uint32(f[0:])
	s.LastOffset = int64(binary.BigEndian.Uint64(f[4:]))
	s.Body = data[32 : len(data)-16]
	if got := CRC32C(s.Body); got != s.CRC {
		return nil, fmt.Errorf("segment crc mismatch: footer %08x computed %08x", s.CRC, got)
	}
	bs, err := DecodeBatches(s.Body)
	if err != nil {
		return s, fmt.Errorf("segment body: %w", err)
	}
	s.Batches = bs
	return s, nil
}
