package vfkit

import (
	"sort"
	"sync"
	"testing/synctest"
)

// Sched is a deterministic scheduler for goroutines running inside a testing/synctest
// bubble. Worker goroutines call Gate(label) at the seams the harness owns (S3 call,
// metadata-store call, etcd op ...) and park there. The controller (the goroutine that
// called synctest.Test) calls Step: it waits until every other goroutine of the bubble
// is durably blocked, looks at the parked set and releases the one chosen by pick.
// Execution is then a pure function of the workload and the sequence of picks.
type Sched struct {
	mu      sync.Mutex
	parked  []*Parked
	nextID  int
	running int
	Trace   []string
}

type Parked struct {
	ID     int
	Worker string
	Label  string
	ch     chan struct{}
}

func NewSched() *Sched { return &Sched{} }

// Go starts a worker goroutine (must be called inside the bubble).
func (s *Sched) Go(name string, fn func()) {
	s.mu.Lock()
	s.running++
	s.mu.Unlock()
	go func() {
		defer func() {
			s.mu.Lock()
			s.running--
			s.mu.Unlock()
		}()
		fn()
	}()
}

// Gate parks the calling goroutine until the controller releases it.
func (s *Sched) Gate(worker, label string) {
	p := &Parked{Worker: worker, Label: label, ch: make(chan struct{})}
	s.mu.Lock()
	p.ID = s.nextID
	s.nextID++
	s.parked = append(s.parked, p)
	s.mu.Unlock()
	<-p.ch
}

// ParkedNow returns the currently parked calls after quiescence.
func (s *Sched) ParkedNow() []*Parked {
	synctest.Wait()
	s.mu.Lock()
	defer s.mu.Unlock()
	out := make([]*Parked, len(s.parked))
	copy(out, s.parked)
	// Stable order independent of arrival order (two goroutines started together may
	// reach their gates in either order): sort by label, then worker, then id.
	sort.SliceStable(out, func(i, j int) bool {
		if out[i].Label != out[j].Label {
			return out[i].Label < out[j].Label
		}
		if out[i].Worker != out[j].Worker {
			return out[i].Worker < out[j].Worker
		}
		return out[i].ID < out[j].ID
	})
	return out
}

// Running reports how many workers started with Go have not returned yet.
func (s *Sched) Running() int { s.mu.Lock(); defer s.mu.Unlock(); return s.running }

// Release lets the parked call with the given ID proceed and waits for quiescence.
func (s *Sched) Release(id int) {
	s.mu.Lock()
	var p *Parked
	for i, q := range s.parked {
		if q.ID == id {
			p = q
			s.parked = append(s.parked[:i], s.parked[i+1:]...)
			break
		}
	}
	if p != nil {
		s.Trace = append(s.Trace, p.Worker+":"+p.Label)
	}
	s.mu.Unlock()
	if p != nil {
		close(p.ch)
	}
	synctest.Wait()
}

// Step releases one parked call chosen by pick(parked) (index into the slice). It
// returns false when nothing is parked (all workers finished or are blocked on
// something the harness does not own).
func (s *Sched) Step(pick func(parked []*Parked) int) bool {
	ps := s.ParkedNow()
	if len(ps) == 0 {
		return false
	}
	i := pick(ps)
	if i < 0 || i >= len(ps) {
		i = 0
	}
	s.Release(ps[i].ID)
	return true
}

// Drain releases everything in FIFO order until nothing is parked.
func (s *Sched) Drain() {
	for s.Step(func([]*Parked) int { return 0 }) {
	}
}
