// Package vfkit holds the shared, repo-independent building blocks of the /verif
// harness: run statistics (evidence), known-finding switches, an independent Kafka v2
// record-batch codec and an object-store model. It imports only the standard library
// and rapid, so it can be linked into in-package tests of any /repo package.
package vfkit

import (
	"encoding/json"
	"fmt"
	"hash/fnv"
	"os"
	"path/filepath"
	"sort"
	"strings"
	"sync"
)

// Stats collects what a leg actually explored. It is written to
// $VF_OUT/<property>.<leg>.<shard>.json by Flush and merged by the driver.
type Stats struct {
	mu         sync.Mutex
	Property   string            `json:"property"`
	Leg        string            `json:"leg"`
	Evals      int               `json:"evaluations"`
	NT         map[string]bool   `json:"-"`
	NTList     []string          `json:"nontrivial_fps"`
	Classes    map[string]int    `json:"classes"`
	Samples    []any             `json:"samples"`
	Excluded   map[string]int    `json:"excluded"`
	Known      map[string]string `json:"known_still_failing"`
	KnownGone  map[string]string `json:"known_not_reproduced"`
	Notes      map[string]any    `json:"notes"`
	Exhaustive bool              `json:"exhaustive"`
	maxSamples int
	ntSamples  int
}

func NewStats(property, leg string) *Stats {
	return &Stats{Property: property, Leg: leg, NT: map[string]bool{}, Classes: map[string]int{},
		Excluded: map[string]int{}, Known: map[string]string{}, KnownGone: map[string]string{},
		Notes: map[string]any{}, maxSamples: 6}
}

// Eval counts one generated case that was actually executed against the code.
func (s *Stats) Eval() { s.mu.Lock(); s.Evals++; s.mu.Unlock() }

// Class adds one to a generator-class histogram bucket.
func (s *Stats) Class(name string) { s.mu.Lock(); s.Classes[name]++; s.mu.Unlock() }

func (s *Stats) ClassN(name string, n int) { s.mu.Lock(); s.Classes[name] += n; s.mu.Unlock() }

func fp(parts ...any) string {
	h := fnv.New64a()
	fmt.Fprint(h, parts...)
	return fmt.Sprintf("%016x", h.Sum64())
}

// NonTrivial records a case that is non-trivial by the property's stated rule. The
// fingerprint parts decide distinctness. It returns true when the fingerprint is new.
func (s *Stats) NonTrivial(parts ...any) bool {
	k := fp(parts...)
	s.mu.Lock()
	defer s.mu.Unlock()
	if s.NT[k] {
		return false
	}
	if len(s.NT) < 400000 {
		s.NT[k] = true
	}
	return true
}

// Sample keeps a few literal cases (first ones seen) for the evidence file.
func (s *Stats) Sample(v any) {
	s.mu.Lock()
	defer s.mu.Unlock()
	if len(s.Samples) < s.maxSamples {
		s.Samples = append(s.Samples, v)
	}
}

// ExcludedCase counts a generated case that was steered away from a listed known finding.
func (s *Stats) ExcludedCase(findingID string) { s.mu.Lock(); s.Excluded[findingID]++; s.mu.Unlock() }

// KnownResult records the outcome of replaying the committed witness of a listed finding.
func (s *Stats) KnownResult(id string, stillFails bool, what string) {
	s.mu.Lock()
	defer s.mu.Unlock()
	if stillFails {
		s.Known[id] = what
	} else {
		s.KnownGone[id] = what
	}
}

func (s *Stats) Note(k string, v any) { s.mu.Lock(); s.Notes[k] = v; s.mu.Unlock() }

func (s *Stats) SetExhaustive(b bool) { s.mu.Lock(); s.Exhaustive = b; s.mu.Unlock() }

// Flush writes the statistics file. Safe to call several times (last one wins).
func (s *Stats) Flush() {
	s.mu.Lock()
	defer s.mu.Unlock()
	dir := os.Getenv("VF_OUT")
	if dir == "" {
		return
	}
	s.NTList = s.NTList[:0]
	for k := range s.NT {
		s.NTList = append(s.NTList, k)
	}
	sort.Strings(s.NTList)
	shard := os.Getenv("VF_SHARD")
	if shard == "" {
		shard = "0"
	}
	b, err := json.Marshal(s)
	if err != nil {
		b, _ = json.Marshal(map[string]any{"property": s.Property, "leg": s.Leg, "error": err.Error()})
	}
	name := filepath.Join(dir, fmt.Sprintf("%s.%s.%s.json", s.Property, s.Leg, shard))
	_ = os.WriteFile(name+".tmp", b, 0o644)
	_ = os.Rename(name+".tmp", name)
}

// Known reports whether finding id is listed (as known, not fixed) in
// /verif/known_findings.json; the driver passes the list in VF_KNOWN. A check may
// exclude a finding's predicate from generation only when Known(id) is true.
func Known(id string) bool {
	for _, k := range strings.Split(os.Getenv("VF_KNOWN"), ",") {
		if strings.TrimSpace(k) == id {
			return true
		}
	}
	return false
}

// Tier is "quick" or "thorough".
func Tier() string {
	if t := os.Getenv("VERIF_TIER"); t != "" {
		return t
	}
	return "quick"
}

// ReplayDir is where committed witnesses live (/verif/replays).
func ReplayDir() string {
	if d := os.Getenv("VF_REPLAYS"); d != "" {
		return d
	}
	return "/verif/replays"
}
